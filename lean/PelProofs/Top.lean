import PelModel.Top
import PelProofs.Main
/-
  Helper lemmas about the composed command `runMain` (PelModel/Top.lean): what `World.fsView` answers, `dispatch` rewritten
  from a `Chain` derivation (so that command-level theorems can start from hypotheses about the COMMAND LINE), the frame of
  every action, and the file-writing primitives of the `-j` branch.
-/
namespace Pel

/-! ### what the world answers to `isdir` / `isfile` -/

theorem fsView_isDir_path {w : World} {a : Args} {p : Text} (hp : tv a.path = some p) :
    (w.fsView a).isDir p = w.pathIsDir := by
  simp [World.fsView, hp]

theorem fsView_isDir_other {w : World} {a : Args} {o : Text} (h : tv a.path ≠ some o) :
    (w.fsView a).isDir o = w.out.isSome := by
  simp [World.fsView, h]

theorem fsView_isFile (w : World) (a : Args) (f : Text) : (w.fsView a).isFile f = w.exclude.isSome := rfl

/-- the directory listing is not consulted by `dispatch` -/
theorem fsView_dir (w : World) (d : Dir) (a : Args) : ({ w with dir := d } : World).fsView a = w.fsView a := rfl

/-! ### `dispatch` from a `Chain` derivation -/

/-- the `Config` `main()` hands on: `mkConfig`, with a look-up id stored or not -/
def cfgOf (a : Args) (lk : Bool) : MainCfg :=
  if lk then (mkConfig severityGroupTable a).withLookup else mkConfig severityGroupTable a

theorem dispatch_of_chain {fs : FsView} {a : Args} {act : Action} {lk : Bool} (h : Chain fs a act lk) :
    dispatch fs a = (act, cfgOf a lk) := by
  obtain ⟨h1, h2⟩ := chain_unique h
  rcases dispatch_cfg fs a with hc | hc
  · have hlk : lk = false := by rw [← h2, hc, mkConfig_lookup]
    subst hlk
    exact Prod.ext h1 hc
  · have hlk : lk = true := by rw [← h2, hc]; rfl
    subst hlk
    exact Prod.ext h1 hc

theorem runMainF_of_chain {fault : Nat → Bool} {env : Env} {a : Args} {w : World} {act : Action} {lk : Bool}
    (h : Chain (w.fsView a) a act lk) :
    runMainF fault env a w = runAction fault (env.withCfg (cfgOf a lk)) w act (cfgOf a lk) := by
  unfold runMainF
  simp only [dispatch_of_chain h]

theorem runMain_of_chain {env : Env} {a : Args} {w : World} {act : Action} {lk : Bool}
    (h : Chain (w.fsView a) a act lk) :
    runMain env a w = runAction noFault (env.withCfg (cfgOf a lk)) w act (cfgOf a lk) :=
  runMainF_of_chain h

theorem cfgOf_false (a : Args) : cfgOf a false = mkConfig severityGroupTable a := rfl
theorem cfgOf_true (a : Args) : cfgOf a true = (mkConfig severityGroupTable a).withLookup := rfl

theorem cfgOf_sel_false (a : Args) : (cfgOf a false).sel = (mkConfig severityGroupTable a).sel := rfl

/-! ### the frame of every action -/

theorem afterPrint_noclean (p : Text) (printed : Bool) : (Action.fileMode p false).afterPrint printed = none := by
  simp [Action.afterPrint]

/-- the `-f` branch without `--clean` leaves the world as it was, under every fault plan -/
theorem fileBranch_noclean_world (fault : Nat → Bool) (env : Env) (c : MainCfg) (p : Text) (w : World) :
    (fileBranch fault env c (.fileMode p false) p w).world = w := by
  unfold fileBranch
  split
  · rfl
  · split
    · rfl
    · simp only [afterPrint_noclean]

/-- in every case the `-f` branch changes at most the `-f` file -/
theorem fileBranch_frame (fault : Nat → Bool) (env : Env) (c : MainCfg) (act : Action) (p : Text) (w : World) :
    (fileBranch fault env c act p w).world = w ∨ (fileBranch fault env c act p w).world = { w with file := none } := by
  unfold fileBranch
  split
  · exact Or.inl rfl
  · split
    · exact Or.inl rfl
    · simp only
      split
      · split
        · exact Or.inl rfl
        · exact Or.inr rfl
      · exact Or.inl rfl

/-- every action that is not a delete, not `--json` and not `-f … --clean` returns the world it was given -/
theorem runAction_world_readonly (fault : Nat → Bool) (env : Env) (w : World) (act : Action) (c : MainCfg)
    (h : act.mayRemove = false) (hj : ∀ p o, act ≠ .jsonMode p o false) :
    (runAction fault env w act c).world = w := by
  cases act with
  | fileMode p clean =>
    cases clean with
    | true => simp [Action.mayRemove] at h
    | false => exact fileBranch_noclean_world fault env c p w
  | jsonMode p o clean =>
    cases clean with
    | true => simp [Action.mayRemove] at h
    | false => exact absurd rfl (hj p o)
  | deleteMode _ _ => simp [Action.mayRemove] at h
  | deleteAllMode _ => simp [Action.mayRemove] at h
  | _ => rfl

/-! ### files written and removed by the `-j` branch -/

theorem removeNames_nil (d : Dir) : removeNames d [] = d := by
  simp [removeNames]

theorem mem_removeNames {d : Dir} {names : List Text} {g : FileEntry} (h : g ∈ removeNames d names) : g ∈ d := by
  unfold removeNames at h
  exact (List.mem_filter.1 h).1

theorem mem_removeNames_iff {d : Dir} {names : List Text} {g : FileEntry} :
    g ∈ removeNames d names ↔ g ∈ d ∧ g.name ∉ names := by
  unfold removeNames
  simp [List.mem_filter]

theorem mem_writeFile {d : Dir} {n : Text} {b : Bytes} {g : FileEntry} (h : g ∈ writeFile d n b) :
    g ∈ d ∨ g = { name := n, data := b } := by
  unfold writeFile at h
  split at h
  · simp only [List.mem_map] at h
    obtain ⟨f, hf, hg⟩ := h
    split at hg
    · rename_i hn
      have hn' : f.name = n := by simpa using hn
      right
      rw [← hg, ← hn']
    · left; rw [← hg]; exact hf
  · simp only [List.mem_append, List.mem_singleton] at h
    exact h

theorem writeFile_keeps {d : Dir} {n : Text} {b : Bytes} {f : FileEntry} (hf : f ∈ d) :
    ∃ g ∈ writeFile d n b, g.name = f.name ∧ (g = f ∨ g = { name := n, data := b }) := by
  unfold writeFile
  split
  · by_cases hn : f.name = n
    · refine ⟨{ f with data := b }, ?_, rfl, Or.inr ?_⟩
      · simp only [List.mem_map]
        exact ⟨f, hf, by simp [hn]⟩
      · rw [← hn]
    · refine ⟨f, ?_, rfl, Or.inl rfl⟩
      simp only [List.mem_map]
      exact ⟨f, hf, by simp [hn]⟩
  · exact ⟨f, List.mem_append_left _ hf, rfl, Or.inl rfl⟩

theorem writeFiles_cons (d : Dir) (p : Text × Bytes) (l : List (Text × Bytes)) :
    writeFiles d (p :: l) = writeFiles (writeFile d p.1 p.2) l := rfl

theorem writeFiles_nil (d : Dir) : writeFiles d [] = d := rfl

theorem mem_writeFiles {l : List (Text × Bytes)} {d : Dir} {g : FileEntry} (h : g ∈ writeFiles d l) :
    g ∈ d ∨ ∃ p ∈ l, g = { name := p.1, data := p.2 } := by
  induction l generalizing d with
  | nil => exact Or.inl h
  | cons p l ih =>
    rw [writeFiles_cons] at h
    rcases ih h with h1 | ⟨q, hq, hg⟩
    · rcases mem_writeFile h1 with h2 | h2
      · exact Or.inl h2
      · exact Or.inr ⟨p, List.mem_cons_self .., h2⟩
    · exact Or.inr ⟨q, List.mem_cons_of_mem _ hq, hg⟩

theorem writeFiles_keeps {l : List (Text × Bytes)} {d : Dir} {f : FileEntry} (hf : f ∈ d) :
    ∃ g ∈ writeFiles d l, g.name = f.name ∧ (g = f ∨ ∃ p ∈ l, g = { name := p.1, data := p.2 }) := by
  induction l generalizing d f with
  | nil => exact ⟨f, hf, rfl, Or.inl rfl⟩
  | cons p l ih =>
    rw [writeFiles_cons]
    obtain ⟨g, hg, hn, hor⟩ := writeFile_keeps (n := p.1) (b := p.2) hf
    obtain ⟨g', hg', hn', hor'⟩ := ih hg
    refine ⟨g', hg', hn'.trans hn, ?_⟩
    rcases hor' with h1 | ⟨q, hq, h1⟩
    · rcases hor with h2 | h2
      · exact Or.inl (h1.trans h2)
      · exact Or.inr ⟨p, List.mem_cons_self .., h1.trans h2⟩
    · exact Or.inr ⟨q, List.mem_cons_of_mem _ hq, h1⟩

/-- `main()` walks the directory for `--json` only when `-j` was given -/
theorem dispatch_json_inv {fs : FsView} {a : Args} {p o : Text} {cl : Bool} (he : (dispatch fs a).1 = .jsonMode p o cl) :
    a.json = true := by
  have h := dispatch_chain fs a
  generalize (dispatch fs a).1 = act at h he
  generalize (dispatch fs a).2.sel.lookup = lk at h
  cases h <;> simp_all

/-! ### reaching a mode from hypotheses about the command line -/

section reach
variable {a : Args} {w : World} {p : Text}

theorem chain_list (hh : a.NoHigherMode) (hp : tv a.path = some p) (hd : w.pathIsDir = true) (hl : a.list = true) :
    Chain (w.fsView a) a (.listMode p) false :=
  .list hh.file hp ((fsView_isDir_path hp).trans hd) hh.json hh.pelID hh.bmcID hh.plid hh.src hh.srcExclude hl

theorem chain_count (hh : a.NoHigherMode) (hp : tv a.path = some p) (hd : w.pathIsDir = true) (hl : a.list = false)
    (hn : a.count = true) : Chain (w.fsView a) a (.countMode p) false :=
  .count hh.file hp ((fsView_isDir_path hp).trans hd) hh.json hh.pelID hh.bmcID hh.plid hh.src hh.srcExclude hl hn

theorem chain_all (hh : a.NoHigherMode) (hp : tv a.path = some p) (hd : w.pathIsDir = true) (hl : a.list = false)
    (hn : a.count = false) (ha : a.all = true) : Chain (w.fsView a) a (.allMode p) false :=
  .all hh.file hp ((fsView_isDir_path hp).trans hd) hh.json hh.pelID hh.bmcID hh.plid hh.src hh.srcExclude hl hn ha

theorem chain_delete {e : Text} (hh : a.NoHigherMode) (hnd : a.NoDisplayMode) (hp : tv a.path = some p) (hd : w.pathIsDir = true)
    (he : tv a.delete = some e) : Chain (w.fsView a) a (.deleteMode p e) false :=
  .delete hh.file hp ((fsView_isDir_path hp).trans hd) hh.json hh.pelID hh.bmcID hh.plid hh.src hh.srcExclude
    hnd.list hnd.count hnd.all he

theorem chain_deleteAll (hh : a.NoHigherMode) (hnd : a.NoDisplayMode) (hp : tv a.path = some p) (hd : w.pathIsDir = true)
    (he : tv a.delete = none) (hD : a.deleteAll = true) : Chain (w.fsView a) a (.deleteAllMode p) false :=
  .deleteAll hh.file hp ((fsView_isDir_path hp).trans hd) hh.json hh.pelID hh.bmcID hh.plid hh.src hh.srcExclude
    hnd.list hnd.count hnd.all he hD

end reach

/-! ### the `-f … --clean` branch -/

theorem fullOf_doc {env : Env} {cfg : SelCfg} {f : FileEntry} {eid : Text} {j : J} (h : parsePEL env cfg f.data = .doc eid j) :
    fullOf env cfg f = .some (eid, j) := by
  simp only [fullOf, h]

/-- under every fault plan: after `-f F --clean` the file is gone iff it decoded to a selected document AND printing, flushing and the
    removal itself all succeeded -/
theorem fileBranch_clean_file (fault : Nat → Bool) (env : Env) (c : MainCfg) (p : Text) (w : World) (data : Bytes)
    (hw : w.file = some data) :
    (fileBranch fault env c (.fileMode p true) p w).world.file = none ↔
      ((∃ eid j, parsePEL env c.sel data = .doc eid j) ∧ fault 0 = false ∧ fault 1 = false ∧ fault 2 = false) := by
  unfold fileBranch
  simp only [hw]
  cases h : parsePEL env c.sel data with
  | doc eid j =>
    have hf : fullOf env c.sel { name := p, data := data } = .some (eid, j) := fullOf_doc h
    simp only [hf, decodeResultOf, printedOf, Action.afterPrint, Bool.true_and]
    cases h0 : fault 0 <;> cases h1 : fault 1 <;> cases h2 : fault 2 <;> simp [hw]
  | filtered =>
    have hf : fullOf env c.sel { name := p, data := data } = .skip := by simp only [fullOf, h]
    simp [hf, decodeResultOf, printedOf, Action.afterPrint, hw]
  | badHeader => simp [hw]
  | error e =>
    have hf : fullOf env c.sel { name := p, data := data } = .diag := by simp only [fullOf, h]
    simp [hf, decodeResultOf, printedOf, Action.afterPrint, hw]

/-- the C12 event model of the same procedure: a successful `removeIn` iff document, and steps 0, 1, 2 without fault -/
theorem cleanFileTrace_removed_iff (d : DecodeResult) (fault : Nat → Bool) :
    inputRemoved (cleanFileTrace d true fault) = true ↔
      (d = .doc ∧ fault 0 = false ∧ fault 1 = false ∧ fault 2 = false) := by
  cases d with
  | doc =>
    simp only [cleanFileTrace, filePlan, if_true, List.cons_append, List.nil_append, runSteps, inputRemoved]
    cases h0 : fault 0 <;> cases h1 : fault 1 <;> cases h2 : fault 2 <;> simp
  | filtered => simp [cleanFileTrace, inputRemoved]
  | failed => simp [cleanFileTrace, inputRemoved]

theorem decodeResultOf_fullOf_doc_iff (env : Env) (cfg : SelCfg) (f : FileEntry) :
    decodeResultOf (fullOf env cfg f) = .doc ↔ ∃ eid j, parsePEL env cfg f.data = .doc eid j := by
  unfold fullOf
  cases parsePEL env cfg f.data <;> simp [decodeResultOf]

/-! ### the decoders look at the `Config` only through `considerPEL` -/

theorem parsePELRd_congr (env : Env) (c1 c2 : SelCfg) (h : ∀ sev af, considerPEL sev af c1 = considerPEL sev af c2) :
    parsePELRd env c1 = parsePELRd env c2 := by
  unfold parsePELRd; simp only [h]

theorem parseSummaryRd_congr (env : Env) (c1 c2 : SelCfg) (h : ∀ sev af, considerPEL sev af c1 = considerPEL sev af c2) :
    parseSummaryRd env c1 = parseSummaryRd env c2 := by
  unfold parseSummaryRd; simp only [h]

theorem fullOf_congr (env : Env) (c1 c2 : SelCfg) (h : ∀ sev af, considerPEL sev af c1 = considerPEL sev af c2) :
    fullOf env c1 = fullOf env c2 := by
  funext f
  simp only [fullOf, parsePEL, parsePELRd_congr env c1 c2 h]

theorem summaryOf_congr (env : Env) (c1 c2 : SelCfg) (h : ∀ sev af, considerPEL sev af c1 = considerPEL sev af c2) :
    summaryOf env c1 = summaryOf env c2 := by
  funext f
  simp only [summaryOf, parseSummary, parseSummaryRd_congr env c1 c2 h]

section lookupCongr
variable (env : Env) (o1 o2 : CliOpts) (hh : o1.hex = o2.hex) (hr : o1.rev = o2.rev) (he : o1.ext = o2.ext)
  (h : ∀ sev af, considerPEL sev af { o1.cfg with lookup := true } = considerPEL sev af { o2.cfg with lookup := true })
include hh h

theorem printOne_lookup_congr (f : FileEntry) :
    printOne env o1 { o1.cfg with lookup := true } f = printOne env o2 { o2.cfg with lookup := true } f := by
  unfold printOne
  rw [fullOf_congr env _ _ h, hh]

theorem idMode_congr (e : Text) (d : Dir) : idMode env o1 e d = idMode env o2 e d := by
  unfold idMode
  simp only [printOne_lookup_congr env o1 o2 hh h]

theorem bmcIdGo_congr (n : Text) (d : Dir) (errs : Nat) : bmcIdGo env o1 n d errs = bmcIdGo env o2 n d errs := by
  induction d generalizing errs with
  | nil => rfl
  | cons f fs ih =>
    unfold bmcIdGo
    simp only [printOne_lookup_congr env o1 o2 hh h, ih]

theorem bmcIdMode_congr (n : Text) (d : Dir) : bmcIdMode env o1 n d = bmcIdMode env o2 n d :=
  bmcIdGo_congr env o1 o2 hh h n d 0

include hr he

theorem plidMode_congr (x : Text) (d : Dir) : plidMode env o1 x d = plidMode env o2 x d := by
  unfold plidMode
  simp only [hh, hr, he, summaryOf_congr env _ _ h]

theorem srcMode_congr (needle ex : Option Text) (d : Dir) : srcMode env o1 needle ex d = srcMode env o2 needle ex d := by
  unfold srcMode
  simp only [hh, hr, he, summaryOf_congr env _ _ h]

end lookupCongr

/-- `-E` next to the other options: the same action, the same `Config` with `every_pel` set -/
theorem dispatch_every (fs : FsView) (a : Args) :
    dispatch fs { a with every := true } =
      ((dispatch fs a).1, { (dispatch fs a).2 with sel := { (dispatch fs a).2.sel with every := true } }) := by
  have hm : mkConfig severityGroupTable { a with every := true } =
      { mkConfig severityGroupTable a with sel := { (mkConfig severityGroupTable a).sel with every := true } } := by
    rw [mkConfig_eq, mkConfig_eq]
  unfold dispatch
  simp only [hm]
  repeat' split
  all_goals rfl

/-- a look-up action gives the same result for two `Config`s that differ only in selection members, as long as both select every PEL once
    the look-up id is stored -/
theorem runAction_lookup_congr (fault : Nat → Bool) (env : Env) (w : World) (act : Action) (c1 c2 : MainCfg)
    (hl : act.isLookup = true) (hh : c1.hex = c2.hex) (hr : c1.rev = c2.rev) (he : c1.ext = c2.ext)
    (h : ∀ sev af, considerPEL sev af { c1.sel with lookup := true } = considerPEL sev af { c2.sel with lookup := true }) :
    runAction fault env w act c1 = runAction fault env w act c2 := by
  cases act <;> simp only [Action.isLookup, Bool.false_eq_true] at hl <;> simp only [runAction]
  · rw [idMode_congr env c1.opts c2.opts hh h]
  · rw [bmcIdMode_congr env c1.opts c2.opts hh h]
  · rw [plidMode_congr env c1.opts c2.opts hh hr he h]
  · rw [srcMode_congr env c1.opts c2.opts hh hr he h]
  · rw [srcMode_congr env c1.opts c2.opts hh hr he h]

/-! ### `jsonCalls` (the `-j` loop of `main()`) and `jsonMode` (what the composed command runs) see the same files -/

/-- the inputs the composed `-j` branch hands to `jsonMode` are exactly the `parseAndWriteOutput` calls `jsonCalls` lists for the walk of
    the same directory: same files, same order (`config.extension` is never the empty string: `mkConfig` stores only truthy values) -/
theorem jsonMode_inputs_are_jsonCalls (c : MainCfg) (hc : c.ext ≠ some []) (d : Dir) (p out : Text) (clean : Bool) :
    (jsonCalls c (d.map (·.name)) (.jsonMode p out clean)) =
      (d.filter (fun f => match c.opts.ext with
        | some e => if e = [] then true else splitext f.name == e
        | none => true)).map fun f => (pathJoin p f.name, out, clean) := by
  unfold jsonCalls MainCfg.opts
  cases he : c.ext with
  | none => simp [List.filter_map, Function.comp_def]
  | some e =>
    have hne : e ≠ [] := fun h => hc (by rw [he, h])
    simp [List.filter_map, Function.comp_def, hne]

theorem mkConfig_ext_ne (t : List (Text × Nat)) (a : Args) : (mkConfig t a).ext ≠ some [] := by
  rw [mkConfig_eq]
  intro h
  exact (tv_some h).2 rfl

theorem dispatch_ext_ne (fs : FsView) (a : Args) : (dispatch fs a).2.ext ≠ some [] := by
  rcases dispatch_cfg fs a with h | h <;> rw [h]
  · exact mkConfig_ext_ne _ a
  · exact mkConfig_ext_ne _ a

/-! ### a tiny concrete environment and world for the non-vacuity examples -/

def envDemo : Env :=
  { T := { creators := [], sectionNames := [], subsystems := [], severities := [], eventTypes := [], eventScopes := [],
           actionFlags := [], transStates := [], failingCompTypes := [], calloutPriorities := [], compIds := [] },
    ud := fun _ => .absent, src := { callout := fun _ => .absent, src := fun _ => .absent }, allowPlugins := true }

/-- `/pels` with an empty file, a three-byte file whose name contains an id, and a subdirectory `archive`; `-f` file of two bytes;
    an exclude file; an empty output directory -/
def wDemo : World :=
  { dir := [{ name := s "junk", data := [] }, { name := s "x_50000001", data := [1, 2, 3] }], subdirs := [s "archive"],
    file := some [88, 88], exclude := some (s "BD8D0000\n"), out := some [] }

/-- a real two-section PEL (private header + user header; entry id and platform log id 0x50000001, severity 0x40, action flags 0xA000:
    serviceable and customer-viewable) and its hidden twin (action flags 0x6000, entry id 0x50000002) -/
def pelDemo : Bytes :=
  [80, 72, 0, 48, 1, 0, 32, 0, 32, 36, 3, 8, 24, 64, 39, 0, 32, 36, 3, 8, 24, 64, 39, 0, 79, 0, 0, 2, 0, 0, 0, 1, 0, 0, 0, 0, 0, 0, 0, 0,
   80, 0, 0, 1, 80, 0, 0, 1, 85, 72, 0, 24, 1, 0, 32, 0, 141, 3, 64, 0, 0, 0, 0, 0, 0, 0, 160, 0, 0, 0, 0, 0]
def pelHiddenDemo : Bytes :=
  [80, 72, 0, 48, 1, 0, 32, 0, 32, 36, 3, 8, 24, 64, 39, 0, 32, 36, 3, 8, 24, 64, 39, 0, 79, 0, 0, 2, 0, 0, 0, 1, 0, 0, 0, 0, 0, 0, 0, 0,
   80, 0, 0, 1, 80, 0, 0, 2, 85, 72, 0, 24, 1, 0, 32, 0, 141, 3, 64, 0, 0, 0, 0, 0, 0, 0, 96, 0, 0, 0, 0, 0]

/-- `/pels` with the two PELs and an undecodable file between them -/
def wPels : World :=
  { dir := [{ name := s "b_50000002", data := pelHiddenDemo }, { name := s "junk", data := [80, 72] }, { name := s "a_50000001", data := pelDemo }],
    subdirs := [s "archive"], file := some pelDemo, exclude := some (s "BD8D0000\n"), out := some [] }

end Pel
