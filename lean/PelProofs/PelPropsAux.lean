import PelProofs.FramesPel
/- Helper lemmas for the property files C01, C02, C03, C05. -/
namespace Pel

/-! ### readers only ever consume a prefix -/

def Suffixing {α} (r : Rd α) : Prop := ∀ st x st', r st = .ok (x, st') → ∃ u, st = u ++ st'

theorem Suffixing.pure {α} (x : α) : Suffixing (Pure.pure x : Rd α) := by
  intro st y st' h
  have : st = st' := by
    have h' : (Except.ok (x, st) : Except Err (α × Bytes)) = .ok (y, st') := h
    cases h'; rfl
  exact ⟨[], by simp [this]⟩

theorem Suffixing.fail {α} (e : Err) : Suffixing (Rd.fail e : Rd α) := by
  intro st y st' h
  cases h

theorem Suffixing.bind {α β} {r : Rd α} {f : α → Rd β} (hr : Suffixing r) (hf : ∀ x, Suffixing (f x)) :
    Suffixing (r >>= f) := by
  intro st y st' h
  cases h1 : r st with
  | error e => rw [bind_err r f st e h1] at h; cases h
  | ok p =>
    obtain ⟨x, st1⟩ := p
    rw [bind_ok r f st st1 x h1] at h
    obtain ⟨u, hu⟩ := hr st x st1 h1
    obtain ⟨v, hv⟩ := hf x st1 y st' h
    exact ⟨u ++ v, by rw [hu, hv, List.append_assoc]⟩

theorem Suffixing.ite {α} (c : Prop) [Decidable c] {r1 r2 : Rd α} (h1 : Suffixing r1) (h2 : Suffixing r2) :
    Suffixing (if c then r1 else r2) := by
  split <;> assumption

theorem Suffixing.getMem (n : Nat) : Suffixing (Pel.getMem n) := by
  intro st x st' h
  unfold Pel.getMem at h
  split at h
  · cases h
  · split at h
    · cases h; exact ⟨st.take n, (List.take_append_drop n st).symm⟩
    · cases h

theorem Suffixing.peek2 : Suffixing Pel.peek2 := by
  intro st x st' h
  cases h; exact ⟨[], rfl⟩

theorem Suffixing.remaining : Suffixing Pel.remaining := by
  intro st x st' h
  cases h; exact ⟨[], rfl⟩

theorem Suffixing.getInt (n : Nat) : Suffixing (Pel.getInt n) :=
  Suffixing.bind (Suffixing.getMem n) (fun _ => Suffixing.pure _)

syntax "suff_leaf" : tactic
macro_rules | `(tactic| suff_leaf) => `(tactic| exact Suffixing.pure _)
macro_rules | `(tactic| suff_leaf) => `(tactic| exact Suffixing.fail _)
macro_rules | `(tactic| suff_leaf) => `(tactic| exact Suffixing.getMem _)
macro_rules | `(tactic| suff_leaf) => `(tactic| exact Suffixing.getInt _)
macro_rules | `(tactic| suff_leaf) => `(tactic| exact Suffixing.peek2)
macro_rules | `(tactic| suff_leaf) => `(tactic| exact Suffixing.remaining)
macro_rules | `(tactic| suff_leaf) => `(tactic| assumption)

/-- structural decomposition of a reader built from `bind`, `if`, `match` and known leaves -/
macro "suff" : tactic =>
  `(tactic| repeat' (first | suff_leaf | refine Suffixing.bind ?_ (fun _ => ?_) | split | dsimp only))

theorem Suffixing.getText (n : Nat) : Suffixing (Pel.getText n) := by
  unfold Pel.getText; suff
macro_rules | `(tactic| suff_leaf) => `(tactic| exact Suffixing.getText _)

theorem Suffixing.getTimestamp : Suffixing Pel.getTimestamp := by
  unfold Pel.getTimestamp; suff
macro_rules | `(tactic| suff_leaf) => `(tactic| exact Suffixing.getTimestamp)

theorem Suffixing.parseHeader : Suffixing Pel.parseHeader := by
  unfold Pel.parseHeader; suff
macro_rules | `(tactic| suff_leaf) => `(tactic| exact Suffixing.parseHeader)

theorem Suffixing.getInts (w n : Nat) : Suffixing (Pel.getInts w n) := by
  induction n with
  | zero => unfold Pel.getInts; suff
  | succ n ih => unfold Pel.getInts; suff
macro_rules | `(tactic| suff_leaf) => `(tactic| exact Suffixing.getInts _ _)

theorem Suffixing.decodePH (T : Tables) (h : SecHdr) : Suffixing (Pel.decodePH T h) := by
  unfold Pel.decodePH; suff
theorem Suffixing.decodeUH (T : Tables) (h : SecHdr) (c : Text) : Suffixing (Pel.decodeUH T h c) := by
  unfold Pel.decodeUH; suff
theorem Suffixing.decodeEH (T : Tables) (h : SecHdr) (c : Text) : Suffixing (Pel.decodeEH T h c) := by
  unfold Pel.decodeEH; suff
theorem Suffixing.decodeMT (T : Tables) (h : SecHdr) (c : Text) : Suffixing (Pel.decodeMT T h c) := by
  unfold Pel.decodeMT; suff
theorem Suffixing.decodeLP (T : Tables) (h : SecHdr) (c : Text) : Suffixing (Pel.decodeLP T h c) := by
  unfold Pel.decodeLP; suff
theorem Suffixing.decodeDefault (h : SecHdr) : Suffixing (Pel.decodeDefault h) := by
  unfold Pel.decodeDefault; suff
theorem Suffixing.decodeUD (T : Tables) (env : UdEnv) (a : Bool) (h : SecHdr) (c : Text) :
    Suffixing (Pel.decodeUD T env a h c) := by
  unfold Pel.decodeUD; suff
theorem Suffixing.decodeED (T : Tables) (env : UdEnv) (a : Bool) (h : SecHdr) : Suffixing (Pel.decodeED T env a h) := by
  unfold Pel.decodeED; suff

theorem Suffixing.readFru : Suffixing Pel.readFru := by
  unfold Pel.readFru; suff
theorem Suffixing.readPce : Suffixing Pel.readPce := by
  unfold Pel.readPce; suff
theorem Suffixing.readMruItems (n : Nat) : Suffixing (Pel.readMruItems n) := by
  induction n with
  | zero => unfold Pel.readMruItems; suff
  | succ n ih => unfold Pel.readMruItems; suff
theorem Suffixing.readMru : Suffixing Pel.readMru := by
  unfold Pel.readMru
  have := Suffixing.readMruItems
  suff
  exact this _

theorem Suffixing.readSubs (fuel size cur : Nat) (f : Option Fru) (p : Option Pce) (m : Option Mru) :
    Suffixing (Pel.readSubs fuel size cur f p m) := by
  induction fuel generalizing cur f p m with
  | zero => unfold Pel.readSubs; suff
  | succ fuel ih =>
    unfold Pel.readSubs
    have h1 := Suffixing.readFru
    have h2 := Suffixing.readPce
    have h3 := Suffixing.readMru
    suff
    all_goals exact ih _ _ _ _

theorem Suffixing.readCallout : Suffixing Pel.readCallout := by
  unfold Pel.readCallout
  suff
  all_goals exact Suffixing.readSubs _ _ _ _ _ _

theorem Suffixing.readCallouts (fuel total cur : Nat) : Suffixing (Pel.readCallouts fuel total cur) := by
  induction fuel generalizing cur with
  | zero => unfold Pel.readCallouts; suff
  | succ fuel ih =>
    unfold Pel.readCallouts
    have h1 := Suffixing.readCallout
    suff
    exact ih _

theorem Suffixing.decodeCallouts (T : Tables) (env : SrcEnv) (c : Text) (a : Bool) :
    Suffixing (Pel.decodeCallouts T env c a) := by
  unfold Pel.decodeCallouts
  suff
  exact Suffixing.readCallouts _ _ _

theorem Suffixing.decodeSRC (T : Tables) (env : SrcEnv) (h : SecHdr) (c : Text) (a : Bool) :
    Suffixing (Pel.decodeSRC T env h c a) := by
  unfold Pel.decodeSRC
  have := Suffixing.decodeCallouts T env c a
  suff

theorem Suffixing.decodeSection (env : Env) (c : Text) (h : SecHdr) : Suffixing (Pel.decodeSection env c h) := by
  unfold Pel.decodeSection
  have h1 := Suffixing.decodeSRC env.T env.src h c env.allowPlugins
  have h2 := Suffixing.decodeEH env.T h c
  have h3 := Suffixing.decodeMT env.T h c
  have h4 := Suffixing.decodeED env.T env.ud env.allowPlugins h
  have h5 := Suffixing.decodeUD env.T env.ud env.allowPlugins h c
  have h6 := Suffixing.decodeLP env.T h c
  have h7 := Suffixing.decodeDefault h
  suff

theorem Suffixing.decodeSections (env : Env) (c : Text) (n : Nat) : Suffixing (Pel.decodeSections env c n) := by
  induction n with
  | zero => unfold Pel.decodeSections; suff
  | succ n ih =>
    unfold Pel.decodeSections
    suff
    exact Suffixing.decodeSection _ _ _

theorem Suffixing.parsePELRd (env : Env) (cfg : SelCfg) : Suffixing (Pel.parsePELRd env cfg) := by
  unfold Pel.parsePELRd
  suff
  all_goals first
    | exact Suffixing.decodePH _ _
    | exact Suffixing.decodeUH _ _ _
    | exact Suffixing.decodeSections _ _ _

/-! ### numbering -/

theorem numberNames_length (all l : List Text) : (numberNames all l).length = l.length := by
  induction l with
  | nil => simp [numberNames]
  | cons a l ih => simp [numberNames, ih]

theorem numberNames_getElem? (l : List Text) : ∀ (pre : List Text) (i : Nat) (h : i < l.length),
    (numberNames (pre ++ l) l)[i]? =
      some (if ((pre ++ l).filter (· == l[i])).length = 1 then l[i]
            else l[i] ++ [32] ++ natDec ((pre ++ l.take i).filter (· == l[i])).length) := by
  induction l with
  | nil => intro pre i h; simp at h
  | cons n r ih =>
    intro pre i h
    rw [numberNames_cons]
    cases i with
    | zero => simp
    | succ i =>
      have h' : i < r.length := by simpa using h
      have e : pre ++ n :: r = (pre ++ [n]) ++ r := by simp
      rw [List.getElem?_cons_succ, e, ih (pre ++ [n]) i h']
      simp

/-! ### numeric text determines the value -/

theorem lt_pow_hexLenAux (f v : Nat) (hf : v ≤ f) : v < 16 ^ hexLenAux f v := by
  induction f generalizing v with
  | zero => simp [hexLenAux]; omega
  | succ f ih =>
    unfold hexLenAux
    split
    · omega
    · have := ih (v / 16) (by omega)
      rw [Nat.add_comm, Nat.pow_succ]
      omega

theorem lt_pow_hexLen (v : Nat) : v < 16 ^ hexLen v := lt_pow_hexLenAux v v (Nat.le_refl _)

theorem hexLen_pos (v : Nat) : 0 < hexLen v := by
  unfold hexLen
  cases v with
  | zero => simp [hexLenAux]
  | succ n => unfold hexLenAux; split <;> omega

theorem lt_pow_max (w v : Nat) : v < 16 ^ (max w (hexLen v)) :=
  Nat.lt_of_lt_of_le (lt_pow_hexLen v) (Nat.pow_le_pow_right (by omega) (Nat.le_max_right _ _))

theorem fmtHex_injective (w v v' : Nat) (h : fmtHex w v = fmtHex w v') : v = v' := by
  unfold fmtHex at h
  have hl := congrArg List.length h
  simp only [hexFix_length] at hl
  have h1 := parseHexText_hexFix _ v (lt_pow_max w v)
  have h2 := parseHexText_hexFix _ v' (lt_pow_max w v')
  rw [h, ] at h1
  omega

/-! decimal -/
theorem decVal_snoc' (t : Text) (c : Nat) : decVal (t ++ [c]) = decVal t * 10 + (c - 48) := by
  simp [decVal, List.foldl_append]

theorem decVal_decFix (n v : Nat) (h : v < 10 ^ n) : decVal (decFix n v) = v := by
  induction n generalizing v with
  | zero => simp [decFix, decVal] at *; omega
  | succ n ih =>
    simp only [decFix, decVal_snoc']
    have h2 : v / 10 < 10 ^ n := by
      rw [Nat.pow_succ] at h
      exact Nat.div_lt_of_lt_mul (by omega)
    rw [ih _ h2]; omega

theorem lt_pow_decLenAux (f v : Nat) (hf : v ≤ f) : v < 10 ^ decLenAux f v := by
  induction f generalizing v with
  | zero => simp [decLenAux]; omega
  | succ f ih =>
    unfold decLenAux
    split
    · omega
    · have := ih (v / 10) (by omega)
      rw [Nat.add_comm, Nat.pow_succ]
      omega

theorem decVal_natDec' (v : Nat) : decVal (natDec v) = v :=
  decVal_decFix _ v (lt_pow_decLenAux v v (Nat.le_refl _))

/-! ### NUL padding -/

theorem dropWhile_replicate_append (k : Nat) (l : Text) :
    (List.replicate k 0 ++ l).dropWhile (· == 0) = l.dropWhile (· == 0) := by
  induction k with
  | zero => simp
  | succ k ih => simp [List.replicate_succ, ih]

/-! ### members of the SRC rendering -/

theorem kv_fst (k : String) (v : J) : (kv k v).1 = s k := rfl

theorem forall_mem_ite_nil {α} {c : Prop} [Decidable c] {l : List α} {P : α → Prop} (h : ∀ x ∈ l, P x) :
    ∀ x ∈ (if c then l else []), P x := by
  split
  · exact h
  · intro x hx; simp at hx

theorem hexword_ne_callout (i : Nat) : s "Hex Word " ++ natDec i ≠ s "Callout Section" := by
  have e1 : s "Hex Word " = [72, 101, 120, 32, 87, 111, 114, 100, 32] := by decide
  have e2 : s "Callout Section" = [67, 97, 108, 108, 111, 117, 116, 32, 83, 101, 99, 116, 105, 111, 110] := by decide
  rw [e1, e2]
  simp

theorem mem_drop2_range (i n : Nat) (h : 2 ≤ i ∧ i < n) : i ∈ (List.range n).drop 2 := by
  rw [List.mem_iff_getElem]
  refine ⟨i - 2, by simp; omega, ?_⟩
  simp; omega

end Pel
