import PelModel.Reader
import PelModel.Sections
import PelProofs.Basic
/-
  `Frames r a x`: the reader `r` consumes exactly the bytes `a` (for every continuation) yielding `x`, and fails
  on every proper prefix of `a`.  Closed under `bind`; primitive readers frame their encodings.
  One derivation per section gives both C01 (exact framing) and C05 (prefix rejection).
-/
namespace Pel

structure Frames {α} (r : Rd α) (a : Bytes) (x : α) : Prop where
  exact : ∀ rest, r (a ++ rest) = .ok (x, rest)
  strict : ∀ k, k < a.length → ∃ e, r (a.take k) = .error e

theorem bind_ok {α β} (r : Rd α) (f : α → Rd β) (st st' : Bytes) (x : α) (h : r st = .ok (x, st')) :
    (r >>= f) st = f x st' := by
  show (StateT.bind r f) st = _
  simp [StateT.bind, h, bind, Except.bind]

theorem bind_err {α β} (r : Rd α) (f : α → Rd β) (st : Bytes) (e : Err) (h : r st = .error e) :
    (r >>= f) st = .error e := by
  show (StateT.bind r f) st = _
  simp [StateT.bind, h, bind, Except.bind]

theorem Frames.pure {α} (x : α) : Frames (Pure.pure x : Rd α) [] x :=
  ⟨fun _ => rfl, fun k h => by simp at h⟩

theorem Frames.bind {α β} {r : Rd α} {f : α → Rd β} {a b : Bytes} {x : α} {y : β}
    (hr : Frames r a x) (hf : Frames (f x) b y) : Frames (r >>= f) (a ++ b) y := by
  constructor
  · intro rest
    rw [List.append_assoc, bind_ok r f _ _ x (hr.exact _)]; exact hf.exact rest
  · intro k hk
    by_cases h : k < a.length
    · obtain ⟨e, he⟩ := hr.strict k h
      refine ⟨e, ?_⟩
      have : (a ++ b).take k = a.take k := by
        rw [List.take_append]; simp [Nat.sub_eq_zero_of_le (Nat.le_of_lt h)]
      rw [this, bind_err r f _ e he]
    · have hk' : k - a.length < b.length := by simp at hk; omega
      obtain ⟨e, he⟩ := hf.strict _ hk'
      refine ⟨e, ?_⟩
      have : (a ++ b).take k = a ++ b.take (k - a.length) := by
        rw [List.take_append]; simp [List.take_of_length_le (Nat.le_of_not_lt h)]
      rw [this, bind_ok r f _ _ x (hr.exact _)]; exact he

/-- a reader that consumes nothing and always succeeds with `x` can be put in front -/
theorem Frames.congr {α} {r r' : Rd α} {a : Bytes} {x : α} (h : ∀ st, r st = r' st) (hf : Frames r a x) : Frames r' a x :=
  ⟨fun rest => by rw [← h]; exact hf.exact rest, fun k hk => by rw [← h]; exact hf.strict k hk⟩

theorem Frames.getMem (a : Bytes) (h : 0 < a.length) : Frames (getMem a.length) a a := by
  constructor
  · intro rest; simp [Pel.getMem, Nat.ne_of_gt h]
  · intro k hk
    refine ⟨.range, ?_⟩
    simp [Pel.getMem, Nat.ne_of_gt h, List.length_take]; omega

theorem Frames.getInt (n v : Nat) (hn : 0 < n) (h : v < 256 ^ n) : Frames (getInt n) (toBE n v) v := by
  have hl := toBE_length n v
  have := Frames.bind (f := fun m => (Pure.pure (fromBE m) : Rd Nat)) (Frames.getMem (toBE n v) (by omega))
    (Frames.pure (fromBE (toBE n v)))
  simp only [hl, List.append_nil, fromBE_toBE n v h] at this
  exact this

/-- a single byte given literally (as the encoders write `[b]`) -/
theorem Frames.getInt1 (b : Nat) (h : b < 256) : Frames (Pel.getInt 1) [b] b := by
  have := Frames.getInt 1 b (by omega) (by omega)
  have e : toBE 1 b = [b] := by simp [toBE]; omega
  rw [e] at this; exact this

end Pel
