import PelModel.IoDrawerSem
import PelProofs.Basic
/-
  Lemmas about the vocabulary of the regenerated definitions (PelModel/IoDrawerSem.lean), used by the source ties
  PelProps/TieC14|TieC15|TieC16|TieC20.lean.  Nothing here depends on the generated file.
-/
namespace Pel.IoSem

/-! ### ints -/

theorem andNot_testBit (x m i : Nat) : (andNot x m).testBit i = (x.testBit i && !m.testBit i) := by
  simp only [andNot, Nat.testBit_xor, Nat.testBit_and]
  cases x.testBit i <;> cases m.testBit i <;> rfl

/-- on 32-bit values `x & ~m` is the model's `x &&& (0xFFFFFFFF - m)` -/
theorem andNot_eq_and (x m : Nat) (hx : x < 2 ^ 32) (hm : m < 2 ^ 32) : andNot x m = x &&& (0xFFFFFFFF - m) := by
  apply Nat.eq_of_testBit_eq
  intro i
  rw [andNot_testBit, Nat.testBit_and]
  have e : (0xFFFFFFFF - m) = 2 ^ 32 - (m + 1) := by omega
  rw [e, Nat.testBit_two_pow_sub_succ hm]
  by_cases hi : i < 32
  · simp [hi]
  · have : x.testBit i = false := Nat.testBit_lt_two_pow (Nat.lt_of_lt_of_le hx (Nat.pow_le_pow_right (by omega) (by omega)))
    simp [this]

theorem natDecI_nonneg (v : Int) (h : 0 ≤ v) : natDecI v = natDec v.toNat := by
  cases v with
  | ofNat n => rfl
  | negSucc n => exact absurd h (by omega)

theorem fmtDec0I_nonneg (w : Nat) (v : Int) (h : 0 ≤ v) : fmtDec0I w v = fmtDec0 w v.toNat := by
  cases v with
  | ofNat n => rfl
  | negSucc n => exact absurd h (by omega)

theorem fmtDecSpI_nonneg (w : Nat) (v : Int) (h : 0 ≤ v) : fmtDecSpI w v = fmtDecSp w v.toNat := by
  unfold fmtDecSpI fmtDecSp
  rw [natDecI_nonneg v h]

theorem fmtHexI_nonneg (w : Nat) (v : Int) (h : 0 ≤ v) : fmtHexI w v = fmtHex w v.toNat := by
  cases v with
  | ofNat n => rfl
  | negSucc n => exact absurd h (by omega)

/-! ### sequences -/

theorem optAll_map_some {α β} (l : List α) (f : α → Option β) (g : α → β) (h : ∀ x ∈ l, f x = some (g x)) :
    optAll (l.map f) = some (l.map g) := by
  induction l with
  | nil => rfl
  | cons a as ih =>
    have h1 := h a (by simp)
    have h2 := ih (fun x hx => h x (by simp [hx]))
    simp [optAll, h1, h2]

/-- a 1-based position inside the list: `l[p - 1]` does not raise and is the model's `getD` -/
theorem index?_pos {α} (l : List α) (p : Nat) (d : α) (h1 : 1 ≤ p) (h2 : p ≤ l.length) :
    index? l ((p : Int) - 1) = some (l.getD (p - 1) d) := by
  have e : ((p : Int) - 1) = Int.ofNat (p - 1) := by simp; omega
  rw [e]
  simp only [index?]
  rw [List.getD_eq_getElem?_getD, List.getElem?_eq_getElem (by omega)]
  rfl

/-! ### hex words -/

theorem slice_eq {α} (l : List α) (a b : Nat) : slice l a b = (l.drop a).take (b - a) := by
  simp [slice, List.drop_take]

theorem hexVal_lt (c : Nat) (h : isHexDigit c = true) : hexVal c < 16 := by
  simp only [isHexDigit, Bool.or_eq_true, Bool.and_eq_true, decide_eq_true_eq] at h
  unfold hexVal
  split
  · omega
  · split <;> omega

theorem parseHex_foldl_lt (t : Text) (h : ∀ c ∈ t, isHexDigit c = true) (a : Nat) :
    t.foldl (fun a c => a * 16 + hexVal c) a + 1 ≤ (a + 1) * 16 ^ t.length := by
  induction t generalizing a with
  | nil => simp
  | cons c t ih =>
    have h1 := ih (fun x hx => h x (by simp [hx])) (a * 16 + hexVal c)
    have h2 := hexVal_lt c (h c (by simp))
    simp only [List.foldl_cons, List.length_cons, Nat.pow_succ]
    have h3 : (a * 16 + hexVal c + 1) * 16 ^ t.length ≤ ((a + 1) * 16) * 16 ^ t.length :=
      Nat.mul_le_mul_right _ (by omega)
    calc _ ≤ _ := h1
      _ ≤ _ := h3
      _ = _ := by rw [Nat.mul_assoc, Nat.mul_comm 16]

theorem parseHexText_lt (t : Text) (h : ∀ c ∈ t, isHexDigit c = true) : parseHexText t < 16 ^ t.length := by
  have := parseHex_foldl_lt t h 0
  simp only [Nat.zero_add, Nat.one_mul] at this
  exact this

theorem checkHex_iff (t : Text) (n : Nat) : checkHex t n = true ↔ t.length = 2 * n ∧ ∀ c ∈ t, isHexDigit c = true := by
  simp [checkHex, List.all_eq_true]

theorem checkHex_slice (t : Text) (n a b k : Nat) (h : checkHex t n = true) (hb : b ≤ 2 * n) (hk : b - a = 2 * k) :
    checkHex (slice t a b) k = true := by
  rw [checkHex_iff] at h ⊢
  rw [slice_eq]
  refine ⟨by simp [List.length_take, List.length_drop]; omega, ?_⟩
  intro c hc
  exact h.2 c (List.mem_of_mem_drop (List.mem_of_mem_take hc))

theorem checkInt_parse_slice (t : Text) (n a b k : Nat) (h : checkHex t n = true) (hb : b ≤ 2 * n) (hk : b - a = 2 * k) :
    checkInt (parseHexText (slice t a b)) k = true := by
  have hs := (checkHex_iff _ _).mp (checkHex_slice t n a b k h hb hk)
  have := parseHexText_lt _ hs.2
  rw [hs.1] at this
  simp only [checkInt, decide_eq_true_eq]
  have e : (2:Nat) ^ (8 * k) = 16 ^ (2 * k) := by
    rw [show (16:Nat) = 2 ^ 4 by decide, ← Nat.pow_mul]; congr 1; omega
  omega

/-! ### streams -/

theorem checkRange_pos (st : Stream) (n : Int) (h : 0 < n) :
    checkRange st n = .ok (decide ((st.index : Int) + n ≤ (st.data.length : Int))) := by
  unfold checkRange; rw [if_neg (by omega)]

theorem rest_length (st : Stream) : st.rest.length = st.data.length - st.index := by
  simp [Stream.rest]

theorem advance_rest (st : Stream) (n : Nat) : (st.advance n).rest = st.rest.drop n := by
  simp [Stream.rest, Stream.advance, List.drop_drop]

@[simp] theorem advance_data (st : Stream) (n : Nat) : (st.advance n).data = st.data := rfl
@[simp] theorem advance_index (st : Stream) (n : Nat) : (st.advance n).index = st.index + n := rfl
theorem advance_advance (st : Stream) (a b : Nat) : (st.advance a).advance b = st.advance (a + b) := by
  simp [Stream.advance, Nat.add_assoc]

theorem getMem_ok (st : Stream) (n : Int) (h0 : 0 < n) (h : (st.index : Int) + n ≤ (st.data.length : Int)) :
    getMem st n = .ok (st.rest.take n.toNat, st.advance n.toNat) := by
  unfold getMem; rw [checkRange_pos st n h0]; simp [h]

theorem getInt_ok (st : Stream) (n : Int) (h0 : 0 < n) (h : (st.index : Int) + n ≤ (st.data.length : Int)) :
    getInt st n = .ok (fromBE (st.rest.take n.toNat), st.advance n.toNat) := by
  unfold getInt; rw [getMem_ok st n h0 h]

theorem incIndex_ok (st : Stream) (n : Int) (h0 : 0 < n) (h : (st.index : Int) + n ≤ (st.data.length : Int)) :
    incIndex st n = .ok (st.advance n.toNat) := by
  unfold incIndex; rw [checkRange_pos st n h0]; simp [h]

@[simp] theorem bind_ok {α β} (a : α) (f : α → Res β) : Res.bind (.ok a) f = f a := rfl
@[simp] theorem bind_no {α β} (f : α → Res β) : Res.bind .no f = .no := rfl
@[simp] theorem bind_raised {α β} (f : α → Res β) : Res.bind .raised f = .raised := rfl
@[simp] theorem bindStep_ok {α β σ} (a : α) (f : α → Step σ (Res β)) : Res.bindStep (.ok a) f = f a := rfl
@[simp] theorem elim_ret {σ ρ β} (a : ρ → β) (b : σ → β) (r : ρ) : LoopOut.elim a b (.ret r) = a r := rfl
@[simp] theorem elim_done {σ ρ β} (a : ρ → β) (b : σ → β) (s : σ) : LoopOut.elim a b (.done s) = b s := rfl

theorem fromBE_take1 (r : Bytes) (k : Nat) (h : k < r.length) : fromBE ((r.drop k).take 1) = r.getD k 0 := by
  have : (r.drop k).take 1 = [r[k]] := by
    rw [List.drop_eq_getElem_cons h]; rfl
  rw [this, List.getD_eq_getElem?_getD, List.getElem?_eq_getElem h]
  simp [fromBE]

theorem fromBE_take1_zero (r : Bytes) (h : 0 < r.length) : fromBE (r.take 1) = r.getD 0 0 := by
  have := fromBE_take1 r 0 h
  simpa using this

/-- `entry_size != (stream.index - start_index)` once the index is known to be `start + T` -/
theorem int_ne_sub (a i T : Nat) : ((a : Int) != ((i + T : Nat) : Int) - (i : Int)) = !(a == T) := by
  have key : ((a : Int) = ((i + T : Nat) : Int) - (i : Int)) ↔ a = T := by omega
  rw [Bool.eq_iff_iff]
  simp only [bne_iff_ne, Bool.not_eq_true', beq_eq_false_iff_ne, ne_eq]
  exact not_congr key

theorem int_eq_sub (a i T : Nat) : ((a : Int) == ((i + T : Nat) : Int) - (i : Int)) = (a == T) := by
  have key : ((a : Int) = ((i + T : Nat) : Int) - (i : Int)) ↔ a = T := by omega
  rw [Bool.eq_iff_iff]
  simp only [beq_iff_eq]
  exact key

end Pel.IoSem

namespace Pel.Tie

/-- closes `f a₁ … = f b₁ …` goals whose arguments differ by linear arithmetic only -/
syntax "tie_congr" : tactic
macro_rules | `(tactic| tie_congr) => `(tactic| first | rfl | omega | (congr 1 <;> tie_congr))

/-- side conditions of the stream lemmas: positivity of a width, range checks that follow from the hypotheses in context -/
macro "stream_side" : tactic =>
  `(tactic| first | decide | omega | (simp only [IoSem.advance_index, IoSem.advance_data, Int.toNat_natCast]; omega))

/-- one stream operation at the head of the goal whose range check is known to succeed -/
macro "rd_step" : tactic =>
  `(tactic| ((first | rw [IoSem.getInt_ok _ _ ?h0 ?h1] | rw [IoSem.getMem_ok _ _ ?h0 ?h1] | rw [IoSem.incIndex_ok _ _ ?h0 ?h1]);
             (case h0 => stream_side); (case h1 => stream_side);
             simp only [IoSem.bind_ok, IoSem.bindStep_ok, Int.reduceToNat, Int.toNat_natCast]))

/-- the final comparison of a reader against the model's `if … ≠ total then none else some …` -/
macro "rd_leaf" : tactic =>
  `(tactic| (simp only [IoSem.int_ne_sub, IoSem.int_eq_sub]; split <;> simp_all))

end Pel.Tie
