import PelProofs.HexDump
/- Round trip `parse ∘ hexdump = id` for the three line formats. -/
namespace Pel

theorem fmtDefault_eq : fmtDefault =
    List.replicate 8 chA ++ (spaces 5 ++ (rawD 2 4 0 16 ++ (spaces 5 ++ (List.replicate 16 chC ++ [])))) := by
  decide

theorem fmtBmc_eq : fmtBmc =
    List.replicate 4 chA ++ (s ":  " ++ (rawD 1 4 0 16 ++ (spaces 2 ++ (60 :: (List.replicate 16 chC ++ [62]))))) := by
  decide

theorem charPerLine_16_4 : charPerLine 16 4 = 38 := by decide

theorem take_ne_nil {α} (b : List α) (n : Nat) (hb : b ≠ []) (hn : 0 < n) : b.take n ≠ [] := by
  cases b with
  | nil => exact absurd rfl hb
  | cons a t => match n, hn with
    | n+1, _ => simp

/-- one default-format dump line parses back to its chunk -/
theorem parseLine_dumpLine (off : Nat) (ck : Bytes) (hoff : off < 16 ^ 8) (hk : ck.length ≤ 16) (hne : ck ≠ [])
    (hb : ∀ x ∈ ck, x < 256) : parseLine fmtDefault (dumpLine 16 4 off ck) = ck := by
  have hlen := dumpLine_length 16 4 off ck (by omega) (by omega) hk hoff
  have hraw := rawFrom_length_le 16 4 ck (by omega) (by omega) hk
  rw [charPerLine_16_4] at hlen hraw
  unfold parseLine
  have hstrip : rstripNL (dumpLine 16 4 off ck) = dumpLine 16 4 off ck := by
    unfold dumpLine
    apply rstripNL_append_of_all_ne
    · intro h
      have := congrArg List.length h
      simp at this <;> omega
    · exact ljust_text_all_ne_nl 16 ck
  simp only [hstrip]
  have hfl : fmtDefault.length = 72 := by decide
  rw [if_pos (by omega)]
  unfold dumpLine
  rw [fmtHex_eq_hexFix 8 off hoff (by omega), fmtDefault_eq, charPerLine_16_4]
  simp only [List.append_assoc]
  rw [parseGo_As 8 _ _ _ _ _ (hexFix_length 8 off) (hexFix_all_hex 8 off)]
  rw [parseGo_spaces]
  unfold rawFrom at *
  by_cases hfull : ck.length = 16
  · have hr : (rawSep 2 4 0 ck).length = 38 := by
      rw [rawSep_length_zero 2 4 ck hne, hfull]
    have e : ljust 38 32 (rawSep 2 4 0 ck) = rawSep 2 4 0 ck := by simp [ljust, hr]
    rw [e]
    have := parseGo_raw_full 2 4 ck 0 [] (spaces 5 ++ (List.replicate 16 chC ++ []))
      (spaces 5 ++ ljust 16 32 (ck.map asciiCell)) hb
    rw [hfull] at this
    rw [this, parseGo_spaces]
    have hl : (ljust 16 32 (ck.map asciiCell)).length = 16 := by simp [hfull]
    have := parseGo_Cs 16 (ljust 16 32 (ck.map asciiCell)) [] [] none ([] ++ ck) hl
    rw [List.append_nil (ljust 16 32 (ck.map asciiCell))] at this
    rw [this]; simp
  · have hshort : ck.length < 16 := by omega
    have hr : (rawSep 2 4 0 ck).length ≤ 38 := hraw
    have e : ljust 38 32 (rawSep 2 4 0 ck) ++ (spaces 5 ++ ljust 16 32 (ck.map asciiCell)) =
        rawSep 2 4 0 ck ++ (spaces (2+1) ++ (spaces (38 - (rawSep 2 4 0 ck).length + 2) ++ ljust 16 32 (ck.map asciiCell))) := by
      simp only [ljust, spaces, List.append_assoc]
      congr 1
      rw [← List.append_assoc, List.replicate_append_replicate]
      have : 38 - (rawSep 2 4 0 ck).length + 5 = (2 + 1) + (38 - (rawSep 2 4 0 ck).length + 2) := by omega
      rw [this, ← List.replicate_append_replicate]
      simp only [List.append_assoc]
    rw [e, parseGo_raw_short 2 4 ck 0 16 [] _ _ hb hshort]
    simp

theorem parseDump_hexdumpFrom : ∀ (n : Nat) (b : Bytes) (off : Nat), b.length ≤ n →
    (∀ x ∈ b, x < 256) → (b ≠ [] → off + b.length ≤ 16 ^ 8) →
    parseDump fmtDefault (hexdumpFrom 16 4 off b) = b := by
  intro n
  induction n with
  | zero =>
    intro b off h _ _
    have : b = [] := List.length_eq_zero_iff.mp (by omega)
    subst this; simp [hexdumpFrom_nil, parseDump]
  | succ n ih =>
    intro b off h hb hoff
    by_cases hne : b = []
    · subst hne; simp [hexdumpFrom_nil, parseDump]
    · have hpos : 0 < b.length := List.length_pos_iff.mpr hne
      rw [hexdumpFrom_cons 16 4 off b hne (by omega)]
      simp only [parseDump, List.flatMap_cons]
      have hoff' := hoff hne
      rw [parseLine_dumpLine off (b.take 16) (by omega) (by simp; omega) (take_ne_nil b 16 hne (by omega))
        (fun x hx => hb x (List.mem_of_mem_take hx))]
      have := ih (b.drop 16) (off + 16) (by simp; omega) (fun x hx => hb x (List.mem_of_mem_drop hx))
        (by intro hd; have : 0 < (b.drop 16).length := List.length_pos_iff.mpr hd
            simp at this ⊢; omega)
      simp only [parseDump] at this
      rw [this, List.take_append_drop]

end Pel

namespace Pel

theorem parseGo_lits (lit fs ls : Text) (hi : Option Nat) (acc : Bytes)
    (h : ∀ c ∈ lit, c ≠ chA ∧ c ≠ chD ∧ c ≠ chC) :
    parseGo (lit ++ fs) (lit ++ ls) hi acc = parseGo fs ls hi acc := by
  induction lit with
  | nil => simp
  | cons c lit ih =>
    simp only [List.cons_append]
    rw [parseGo_lit _ _ _ _ _ (h c (by simp))]
    exact ih (fun x hx => h x (by simp [hx]))

theorem rawSep_all_ne_nl (w c : Nat) : ∀ (ck : Bytes) (j : Nat), ∀ x ∈ rawSep w c j ck, x ≠ 10 := by
  intro ck
  induction ck with
  | nil => intro j x hx; simp [rawSep] at hx
  | cons b bs ih =>
    intro j x hx
    simp only [rawSep, List.mem_append, List.mem_cons, List.not_mem_nil, or_false] at hx
    rcases hx with (hx | hx | hx) | hx
    · split at hx
      · simp [spaces] at hx; omega
      · simp at hx
    · subst hx; unfold hexU; split <;> omega
    · subst hx; unfold hexU; split <;> omega
    · exact ih (j+1) x hx

theorem rawSep_ne_nil (w c j : Nat) (ck : Bytes) (h : ck ≠ []) : rawSep w c j ck ≠ [] := by
  match ck, h with
  | b :: bs, _ => simp [rawSep]

/-! #### BMC format -/

theorem parseLine_bmcLine (pad : Bool) (off : Nat) (ck : Bytes) (hk : ck.length ≤ 16) (hne : ck ≠ [])
    (hb : ∀ x ∈ ck, x < 256) : parseLine fmtBmc (bmcLine pad off ck) = ck := by
  have hrl : (rawSep 1 4 0 ck).length = 2 * ck.length + 1 * ((ck.length - 1) / 4) := rawSep_length_zero 1 4 ck hne
  have hr35 : (rawSep 1 4 0 ck).length ≤ 35 := by omega
  have hfl : fmtBmc.length = 62 := by decide
  have hcolon : ∀ c ∈ s ":  ", c ≠ chA ∧ c ≠ chD ∧ c ≠ chC := by decide
  unfold parseLine
  cases pad with
  | true =>
    have hstrip : rstripNL (bmcLine true off ck) = bmcLine true off ck := by
      simp only [bmcLine, if_true]
      apply rstripNL_append_of_all_ne
      · decide
      · decide
    have hlen : (bmcLine true off ck).length = 62 := by
      simp only [bmcLine, bmcRaw, if_true, List.length_append, hexFix_length, ljust_length, List.length_map]
      have : (s ":  ").length = 3 := by decide
      have : (s "  <").length = 3 := by decide
      have : (s ">").length = 1 := by decide
      omega
    simp only [hstrip]
    rw [if_pos (by omega)]
    simp only [bmcLine, bmcRaw, if_true]
    rw [fmtBmc_eq]
    simp only [List.append_assoc]
    rw [parseGo_As 4 _ _ _ _ _ (hexFix_length 4 off) (hexFix_all_hex 4 off)]
    rw [parseGo_lits _ _ _ _ _ hcolon]
    by_cases hfull : ck.length = 16
    · have hr : (rawSep 1 4 0 ck).length = 35 := by rw [hrl, hfull]
      have e : ljust 35 32 (rawSep 1 4 0 ck) = rawSep 1 4 0 ck := by simp [ljust, hr]
      rw [e]
      have := parseGo_raw_full 1 4 ck 0 [] (spaces 2 ++ (60 :: (List.replicate 16 chC ++ [62])))
        (s "  <" ++ (ljust 16 32 (ck.map asciiCell) ++ s ">")) hb
      rw [hfull] at this
      rw [this]
      have e2 : s "  <" = spaces 2 ++ [60] := by decide
      rw [e2]
      simp only [List.append_assoc, List.cons_append, List.nil_append]
      rw [parseGo_spaces, parseGo_lit _ _ _ _ _ (by decide)]
      have hl : (ljust 16 32 (ck.map asciiCell)).length = 16 := by simp [hfull]
      rw [parseGo_Cs 16 (ljust 16 32 (ck.map asciiCell)) [62] (s ">") none _ hl]
      have e3 : s ">" = [62] := by decide
      rw [e3, parseGo_lit _ _ _ _ _ (by decide)]
      simp
    · have hshort : ck.length < 16 := by omega
      have e : ljust 35 32 (rawSep 1 4 0 ck) ++ (s "  <" ++ (ljust 16 32 (ck.map asciiCell) ++ s ">")) =
          rawSep 1 4 0 ck ++ (spaces (1+1) ++ (spaces (35 - (rawSep 1 4 0 ck).length) ++
            (60 :: (ljust 16 32 (ck.map asciiCell) ++ s ">")))) := by
        have e2 : s "  <" = spaces 2 ++ [60] := by decide
        rw [e2]
        simp only [ljust, spaces, List.append_assoc, List.cons_append, List.nil_append]
        congr 1
        rw [← List.append_assoc (List.replicate (1 + 1) 32), List.replicate_append_replicate]
        rw [← List.append_assoc, List.replicate_append_replicate]
        have e3 : 35 - (rawSep 1 4 0 ck).length + 2 = 1 + 1 + (35 - (rawSep 1 4 0 ck).length) := by omega
        rw [e3]
      rw [e, parseGo_raw_short 1 4 ck 0 16 [] _ _ hb hshort]
      simp
  | false =>
    have hstrip : rstripNL (bmcLine false off ck) = bmcLine false off ck := by
      simp only [bmcLine, bmcRaw, Bool.false_eq_true, if_false]
      apply rstripNL_append_of_all_ne
      · exact rawSep_ne_nil 1 4 0 ck hne
      · exact rawSep_all_ne_nl 1 4 ck 0
    have hlen : (bmcLine false off ck).length ≤ 62 := by
      simp only [bmcLine, bmcRaw, Bool.false_eq_true, if_false, List.length_append, hexFix_length]
      have : (s ":  ").length = 3 := by decide
      omega
    simp only [hstrip]
    rw [if_pos (by omega)]
    simp only [bmcLine, bmcRaw, Bool.false_eq_true, if_false]
    rw [fmtBmc_eq]
    simp only [List.append_assoc]
    rw [parseGo_As 4 _ _ _ _ _ (hexFix_length 4 off) (hexFix_all_hex 4 off)]
    rw [parseGo_lits _ _ _ _ _ hcolon]
    rw [parseGo_raw_trunc 1 4 ck 0 16 [] _ hb hk]
    simp

theorem parseDump_renderBmcFrom (pad : Bool) : ∀ (n : Nat) (b : Bytes) (off : Nat), b.length ≤ n →
    (∀ x ∈ b, x < 256) → parseDump fmtBmc (renderBmcFrom pad off b) = b := by
  intro n
  induction n with
  | zero =>
    intro b off h _
    have : b = [] := List.length_eq_zero_iff.mp (by omega)
    subst this; unfold renderBmcFrom; simp [parseDump]
  | succ n ih =>
    intro b off h hb
    by_cases hne : b = []
    · subst hne; unfold renderBmcFrom; simp [parseDump]
    · have hpos : 0 < b.length := List.length_pos_iff.mpr hne
      unfold renderBmcFrom
      simp only [hne, dite_false, parseDump, List.flatMap_cons]
      rw [parseLine_bmcLine pad off (b.take 16) (by simp; omega) (take_ne_nil b 16 hne (by omega))
        (fun x hx => hb x (List.mem_of_mem_take hx))]
      have := ih (b.drop 16) (off + 16) (by simp; omega) (fun x hx => hb x (List.mem_of_mem_drop hx))
      simp only [parseDump] at this
      rw [this, List.take_append_drop]

/-! #### pre-BMC format -/

def preD : Nat → Text
  | 0 => []
  | n+1 => chD :: chD :: 32 :: preD n

theorem fmtPre_eq : fmtPre = preD 16 ++ (List.replicate 16 chC ++ []) := by decide

theorem parseGo_pre_full : ∀ (ck : Bytes) (acc : Bytes) (F R : Text), (∀ x ∈ ck, x < 256) →
    parseGo (preD ck.length ++ F) (preRaw ck ++ R) none acc = parseGo F R none (acc ++ ck) := by
  intro ck
  induction ck with
  | nil => intro acc F R _; simp [preD, preRaw]
  | cons b bs ih =>
    intro acc F R hb
    simp only [List.length_cons, preD, preRaw, List.cons_append, List.nil_append]
    rw [parseGo_byte _ _ _ _ (hb b (by simp)), parseGo_lit _ _ _ _ _ (by decide)]
    rw [ih (acc ++ [b]) F R (fun x hx => hb x (by simp [hx]))]
    simp

theorem parseGo_pre_short : ∀ (ck : Bytes) (n : Nat) (acc : Bytes) (F R : Text), (∀ x ∈ ck, x < 256) →
    ck.length < n →
    parseGo (preD n ++ F) (preRaw ck ++ (32 :: R)) none acc = acc ++ ck := by
  intro ck
  induction ck with
  | nil =>
    intro n acc F R _ hn
    match n, hn with
    | n+1, _ =>
      simp only [preD, preRaw, List.nil_append, List.cons_append, List.append_nil]
      exact parseGo_D_space _ _ _ _
  | cons b bs ih =>
    intro n acc F R hb hn
    match n, hn with
    | n+1, hn =>
      simp only [preD, preRaw, List.cons_append, List.nil_append]
      rw [parseGo_byte _ _ _ _ (hb b (by simp)), parseGo_lit _ _ _ _ _ (by decide)]
      rw [ih n (acc ++ [b]) F R (fun x hx => hb x (by simp [hx])) (by simpa using hn)]
      simp

theorem parseGo_pre_trunc : ∀ (ck : Bytes) (n : Nat) (acc : Bytes) (F : Text), (∀ x ∈ ck, x < 256) →
    ck.length ≤ n → parseGo (preD n ++ F) (preRaw ck) none acc = acc ++ ck := by
  intro ck
  induction ck with
  | nil => intro n acc F _ _; simp [preRaw]
  | cons b bs ih =>
    intro n acc F hb hn
    match n, hn with
    | n+1, hn =>
      simp only [preD, preRaw, List.cons_append, List.nil_append]
      rw [parseGo_byte _ _ _ _ (hb b (by simp)), parseGo_lit _ _ _ _ _ (by decide)]
      rw [ih n (acc ++ [b]) F (fun x hx => hb x (by simp [hx])) (by simpa using hn)]
      simp

theorem preRaw_length (ck : Bytes) : (preRaw ck).length = 3 * ck.length := by
  induction ck with
  | nil => simp [preRaw]
  | cons b bs ih => simp [preRaw, ih]; omega

theorem preRaw_all_ne_nl : ∀ (ck : Bytes), ∀ x ∈ preRaw ck, x ≠ 10 := by
  intro ck
  induction ck with
  | nil => intro x hx; simp [preRaw] at hx
  | cons b bs ih =>
    intro x hx
    simp only [preRaw, List.cons_append, List.nil_append, List.mem_cons] at hx
    rcases hx with hx | hx | hx | hx
    · subst hx; unfold hexU; split <;> omega
    · subst hx; unfold hexU; split <;> omega
    · omega
    · exact ih x hx

theorem parseLine_preLine (pad : Bool) (ck : Bytes) (hk : ck.length ≤ 16) (hne : ck ≠ [])
    (hb : ∀ x ∈ ck, x < 256) : parseLine fmtPre (preLine pad ck) = ck := by
  have hrl := preRaw_length ck
  have hfl : fmtPre.length = 64 := by decide
  unfold parseLine
  cases pad with
  | true =>
    have hstrip : rstripNL (preLine true ck) = preLine true ck := by
      simp only [preLine, if_true]
      apply rstripNL_append_of_all_ne
      · intro h
        have := congrArg List.length h
        simp at this
      · exact ljust_text_all_ne_nl 16 ck
    have hlen : (preLine true ck).length = 64 := by
      simp only [preLine, if_true, List.length_append, ljust_length, List.length_map]
      omega
    simp only [hstrip]
    rw [if_pos (by omega)]
    simp only [preLine, if_true]
    rw [fmtPre_eq]
    by_cases hfull : ck.length = 16
    · have e : ljust 48 32 (preRaw ck) = preRaw ck := by simp [ljust, hrl, hfull]
      rw [e]
      have := parseGo_pre_full ck [] (List.replicate 16 chC ++ []) (ljust 16 32 (ck.map asciiCell)) hb
      rw [hfull] at this
      rw [this]
      have hl : (ljust 16 32 (ck.map asciiCell)).length = 16 := by simp [hfull]
      have h2 := parseGo_Cs 16 (ljust 16 32 (ck.map asciiCell)) [] [] none ([] ++ ck) hl
      rw [List.append_nil (ljust 16 32 (ck.map asciiCell))] at h2
      rw [h2]; simp
    · have hshort : ck.length < 16 := by omega
      have e : ljust 48 32 (preRaw ck) ++ ljust 16 32 (ck.map asciiCell) =
          preRaw ck ++ (32 :: (spaces (48 - (preRaw ck).length - 1) ++ ljust 16 32 (ck.map asciiCell))) := by
        simp only [ljust, spaces, List.append_assoc]
        congr 1
        have : 48 - (preRaw ck).length = (48 - (preRaw ck).length - 1) + 1 := by omega
        rw [this, List.replicate_succ]
        simp
      rw [e, parseGo_pre_short ck 16 [] _ _ hb hshort]
      simp
  | false =>
    have hstrip : rstripNL (preLine false ck) = preLine false ck := by
      simp only [preLine, Bool.false_eq_true, if_false]
      have : preRaw ck = [] ++ preRaw ck := by simp
      rw [this]
      apply rstripNL_append_of_all_ne
      · intro h
        have := congrArg List.length h
        rw [hrl] at this
        have : 0 < ck.length := List.length_pos_iff.mpr hne
        simp at *; omega
      · exact preRaw_all_ne_nl ck
    simp only [hstrip]
    simp only [preLine, Bool.false_eq_true, if_false]
    rw [if_pos (by omega)]
    rw [fmtPre_eq, parseGo_pre_trunc ck 16 [] _ hb hk]
    simp

theorem parseDump_renderPre (pad : Bool) : ∀ (n : Nat) (b : Bytes), b.length ≤ n →
    (∀ x ∈ b, x < 256) → parseDump fmtPre (renderPre pad b) = b := by
  intro n
  induction n with
  | zero =>
    intro b h _
    have : b = [] := List.length_eq_zero_iff.mp (by omega)
    subst this; unfold renderPre; simp [parseDump]
  | succ n ih =>
    intro b h hb
    by_cases hne : b = []
    · subst hne; unfold renderPre; simp [parseDump]
    · have hpos : 0 < b.length := List.length_pos_iff.mpr hne
      unfold renderPre
      simp only [hne, dite_false, parseDump, List.flatMap_cons]
      rw [parseLine_preLine pad (b.take 16) (by simp; omega) (take_ne_nil b 16 hne (by omega))
        (fun x hx => hb x (List.mem_of_mem_take hx))]
      have := ih (b.drop 16) (by simp; omega) (fun x hx => hb x (List.mem_of_mem_drop hx))
      simp only [parseDump] at this
      rw [this, List.take_append_drop]

/-- noise lines contribute nothing, whatever the template's first cell is (`A` or `D`) -/
theorem parseLine_noise (fmt : Text) (line : Text) (hf : fmt.head? = some chA ∨ fmt.head? = some chD)
    (h : isNoise (rstripNL line) = true) : parseLine fmt line = [] := by
  unfold parseLine
  simp only
  split
  · cases hl : rstripNL line with
    | nil => simp
    | cons c t =>
      rw [hl] at h
      simp only [isNoise, Bool.not_eq_true'] at h
      cases fmt with
      | nil => simp at hf
      | cons f fs =>
        simp only [List.head?_cons, Option.some.injEq] at hf
        rcases hf with rfl | rfl
        · simp [parseGo, h]
        · simp [parseGo, h, chD, chA]
  · rfl

end Pel

namespace Pel

/-- rendered lines are "real" lines: stable under newline stripping and starting with a hex digit -/
theorem bmcLine_real (pad : Bool) (off : Nat) (ck : Bytes) (hne : ck ≠ []) :
    rstripNL (bmcLine pad off ck) = bmcLine pad off ck ∧ isNoise (bmcLine pad off ck) = false := by
  constructor
  · cases pad with
    | true =>
      simp only [bmcLine, if_true]
      apply rstripNL_append_of_all_ne <;> decide
    | false =>
      simp only [bmcLine, bmcRaw, Bool.false_eq_true, if_false]
      apply rstripNL_append_of_all_ne
      · exact rawSep_ne_nil 1 4 0 ck hne
      · exact rawSep_all_ne_nl 1 4 ck 0
  · cases pad <;> simp [bmcLine, hexFix, isNoise, isHexDigit_hexU]

theorem renderBmcFrom_real (pad : Bool) : ∀ (n : Nat) (b : Bytes) (off : Nat), b.length ≤ n →
    ∀ t ∈ renderBmcFrom pad off b, rstripNL t = t ∧ isNoise t = false := by
  intro n
  induction n with
  | zero =>
    intro b off h t ht
    have : b = [] := List.length_eq_zero_iff.mp (by omega)
    subst this; unfold renderBmcFrom at ht; simp at ht
  | succ n ih =>
    intro b off h t ht
    by_cases hne : b = []
    · subst hne; unfold renderBmcFrom at ht; simp at ht
    · have hpos : 0 < b.length := List.length_pos_iff.mpr hne
      unfold renderBmcFrom at ht
      simp only [hne, dite_false, List.mem_cons] at ht
      rcases ht with rfl | ht
      · exact bmcLine_real pad off _ (take_ne_nil b 16 hne (by omega))
      · exact ih (b.drop 16) (off + 16) (by simp; omega) t ht

theorem filter_real_lines (ls : List Text) (h : ∀ t ∈ ls, rstripNL t = t ∧ isNoise t = false) :
    (ls.map rstripNL).filter (fun t => !isNoise t) = ls := by
  induction ls with
  | nil => simp
  | cons a l ih =>
    have ha := h a (by simp)
    have := ih (fun t ht => h t (by simp [ht]))
    simp [List.filter, ha.1, ha.2, this]

theorem filter_noise_lines (ls : List Text) (h : ∀ t ∈ ls, isNoise (rstripNL t) = true) :
    (ls.map rstripNL).filter (fun t => !isNoise t) = [] := by
  induction ls with
  | nil => simp
  | cons a l ih =>
    have ha := h a (by simp)
    have := ih (fun t ht => h t (by simp [ht]))
    simp [List.filter, ha, this]

end Pel
