import PelModel.Trace
import PelProofs.Basic
import PelProofs.HexDumpParse
/- Helper lemmas for C15 (trace buffers). -/
namespace Pel

/-! ### list slicing helpers -/

theorem drop_pre {α} (p x : List α) (n : Nat) (h : p.length = n) : (p ++ x).drop n = x :=
  List.drop_left' h

theorem take_pre {α} (p x : List α) (n : Nat) (h : p.length = n) : (p ++ x).take n = p :=
  List.take_left' h

theorem slice_pre {α} (p m x : List α) (n k : Nat) (hp : p.length = n) (hm : m.length = k) :
    ((p ++ (m ++ x)).drop n).take k = m := by
  rw [drop_pre p _ n hp, take_pre m x k hm]

theorem pow_256_2 : (256:Nat) ^ 2 = 2 ^ 16 := by decide
theorem pow_256_4 : (256:Nat) ^ 4 = 2 ^ 32 := by decide

theorem fromBE_toBE2 (v : Nat) (h : v < 2 ^ 16) : fromBE (toBE 2 v) = v :=
  fromBE_toBE 2 v (by rw [pow_256_2]; exact h)

theorem fromBE_toBE4 (v : Nat) (h : v < 2 ^ 32) : fromBE (toBE 4 v) = v :=
  fromBE_toBE 4 v (by rw [pow_256_4]; exact h)

/-! ### header -/

theorem TraceHeaderRaw.enc_length (h : TraceHeaderRaw) (hw : h.WF) : h.enc.length = 32 := by
  obtain ⟨_, _, _, _, hc, _, hr, _, _, _⟩ := hw
  simp [TraceHeaderRaw.enc, hc, hr]

theorem readTraceHeader_enc (h : TraceHeaderRaw) (hw : h.WF) (rest : Bytes) :
    readTraceHeader (h.enc ++ rest) =
      some { ver := h.ver, comp := h.comp, size := h.size, timesWrap := h.timesWrap, nextFree := h.nextFree } := by
  have hlen := h.enc_length hw
  obtain ⟨_, _, _, _, hc, _, hr, hs, ht, hn⟩ := hw
  unfold readTraceHeader
  rw [if_neg (by simp [traceHdrSize, hlen])]
  have e1 : h.enc ++ rest = [h.ver, h.hdrLen, h.timeFlg, h.endianFlg] ++ (h.comp ++ (h.reserved ++
      (toBE 4 h.size ++ (toBE 4 h.timesWrap ++ (toBE 4 h.nextFree ++ rest))))) := by
    simp [TraceHeaderRaw.enc]
  have e2 : h.enc ++ rest = ([h.ver, h.hdrLen, h.timeFlg, h.endianFlg] ++ h.comp ++ h.reserved) ++
      (toBE 4 h.size ++ (toBE 4 h.timesWrap ++ (toBE 4 h.nextFree ++ rest))) := by
    simp [TraceHeaderRaw.enc]
  have e3 : h.enc ++ rest = ([h.ver, h.hdrLen, h.timeFlg, h.endianFlg] ++ h.comp ++ h.reserved ++
      toBE 4 h.size) ++ (toBE 4 h.timesWrap ++ (toBE 4 h.nextFree ++ rest)) := by
    simp [TraceHeaderRaw.enc]
  have e4 : h.enc ++ rest = ([h.ver, h.hdrLen, h.timeFlg, h.endianFlg] ++ h.comp ++ h.reserved ++
      toBE 4 h.size ++ toBE 4 h.timesWrap) ++ (toBE 4 h.nextFree ++ rest) := by
    simp [TraceHeaderRaw.enc]
  have c1 : ((h.enc ++ rest).drop 4).take 12 = h.comp := by
    rw [e1]; exact slice_pre _ _ _ 4 12 rfl hc
  have c2 : ((h.enc ++ rest).drop 20).take 4 = toBE 4 h.size := by
    rw [e2]; exact slice_pre _ _ _ 20 4 (by simp [hc, hr]) (toBE_length _ _)
  have c3 : ((h.enc ++ rest).drop 24).take 4 = toBE 4 h.timesWrap := by
    rw [e3]; exact slice_pre _ _ _ 24 4 (by simp [hc, hr]) (toBE_length _ _)
  have c4 : ((h.enc ++ rest).drop 28).take 4 = toBE 4 h.nextFree := by
    rw [e4]; exact slice_pre _ _ _ 28 4 (by simp [hc, hr]) (toBE_length _ _)
  have c0 : (h.enc ++ rest).getD 0 0 = h.ver := by
    rw [e1]; rfl
  rw [c0, c1, c2, c3, c4, fromBE_toBE4 _ hs, fromBE_toBE4 _ ht, fromBE_toBE4 _ hn]

/-! ### entries -/

theorem padOf_le (n : Nat) : padOf n ≤ 3 := by
  unfold padOf; split <;> omega

def TraceEntry.padBytes (e : TraceEntry) (pad : Bytes) : Bytes :=
  pad.take (padOf e.length) ++ List.replicate (padOf e.length - pad.length) 0

theorem TraceEntry.padBytes_length (e : TraceEntry) (pad : Bytes) :
    (e.padBytes pad).length = padOf e.length := by
  simp [TraceEntry.padBytes]; omega

theorem TraceEntry.enc_length (e : TraceEntry) (he : e.WF) (pad : Bytes) : (e.enc pad).length = e.size := by
  obtain ⟨_, _, _, _, _, hl, _, _⟩ := he
  simp [TraceEntry.enc, TraceEntry.size, ← hl]; omega

theorem TraceEntry.size_lt (e : TraceEntry) (he : e.WF) : e.size < 2 ^ 32 := by
  obtain ⟨_, _, _, _, _, _, hl, _⟩ := he
  have := padOf_le e.length
  unfold TraceEntry.size; omega

theorem readTraceEntry_enc (e : TraceEntry) (he : e.WF) (pad rest : Bytes) :
    readTraceEntry (e.enc pad ++ rest) = some (e, e.size) := by
  have hlen := e.enc_length he pad
  have hsz := e.size_lt he
  obtain ⟨h1, h2, h3, h4, h5, hl, hm, _⟩ := he
  have hl16 : e.length < 2 ^ 16 := by omega
  have hp := e.padBytes_length pad
  have hsize : e.size = 16 + e.length + padOf e.length + 4 := rfl
  -- normal forms
  have n0 : e.enc pad ++ rest = toBE 2 e.tbh ++ (toBE 2 e.tbl ++ (toBE 2 e.length ++ (toBE 2 e.tag ++
      (toBE 4 e.hash ++ (toBE 4 e.line ++ (e.data ++ (e.padBytes pad ++ (toBE 4 e.size ++ rest)))))))) := by
    simp [TraceEntry.enc, TraceEntry.padBytes]
  have n1 : e.enc pad ++ rest = toBE 2 e.tbh ++ (toBE 2 e.tbl ++ (toBE 2 e.length ++ (toBE 2 e.tag ++
      (toBE 4 e.hash ++ (toBE 4 e.line ++ (e.data ++ (e.padBytes pad ++ (toBE 4 e.size ++ rest)))))))) := n0
  have n2 : e.enc pad ++ rest = (toBE 2 e.tbh ++ toBE 2 e.tbl) ++ (toBE 2 e.length ++ (toBE 2 e.tag ++
      (toBE 4 e.hash ++ (toBE 4 e.line ++ (e.data ++ (e.padBytes pad ++ (toBE 4 e.size ++ rest))))))) := by
    rw [n0]; simp
  have n3 : e.enc pad ++ rest = (toBE 2 e.tbh ++ toBE 2 e.tbl ++ toBE 2 e.length) ++ (toBE 2 e.tag ++
      (toBE 4 e.hash ++ (toBE 4 e.line ++ (e.data ++ (e.padBytes pad ++ (toBE 4 e.size ++ rest)))))) := by
    rw [n0]; simp
  have n4 : e.enc pad ++ rest = (toBE 2 e.tbh ++ toBE 2 e.tbl ++ toBE 2 e.length ++ toBE 2 e.tag) ++
      (toBE 4 e.hash ++ (toBE 4 e.line ++ (e.data ++ (e.padBytes pad ++ (toBE 4 e.size ++ rest))))) := by
    rw [n0]; simp
  have n5 : e.enc pad ++ rest = (toBE 2 e.tbh ++ toBE 2 e.tbl ++ toBE 2 e.length ++ toBE 2 e.tag ++
      toBE 4 e.hash) ++ (toBE 4 e.line ++ (e.data ++ (e.padBytes pad ++ (toBE 4 e.size ++ rest)))) := by
    rw [n0]; simp
  have n6 : e.enc pad ++ rest = (toBE 2 e.tbh ++ toBE 2 e.tbl ++ toBE 2 e.length ++ toBE 2 e.tag ++
      toBE 4 e.hash ++ toBE 4 e.line) ++ (e.data ++ (e.padBytes pad ++ (toBE 4 e.size ++ rest))) := by
    rw [n0]; simp
  have n7 : e.enc pad ++ rest = (toBE 2 e.tbh ++ toBE 2 e.tbl ++ toBE 2 e.length ++ toBE 2 e.tag ++
      toBE 4 e.hash ++ toBE 4 e.line ++ e.data ++ e.padBytes pad) ++ (toBE 4 e.size ++ rest) := by
    rw [n0]; simp
  have c0 : (e.enc pad ++ rest).take 2 = toBE 2 e.tbh := by
    rw [n0]; exact take_pre _ _ 2 (toBE_length _ _)
  have c1 : ((e.enc pad ++ rest).drop 2).take 2 = toBE 2 e.tbl := by
    rw [n1]; exact slice_pre _ _ _ 2 2 (toBE_length _ _) (toBE_length _ _)
  have c2 : ((e.enc pad ++ rest).drop 4).take 2 = toBE 2 e.length := by
    rw [n2]; exact slice_pre _ _ _ 4 2 (by simp) (toBE_length _ _)
  have c3 : ((e.enc pad ++ rest).drop 6).take 2 = toBE 2 e.tag := by
    rw [n3]; exact slice_pre _ _ _ 6 2 (by simp) (toBE_length _ _)
  have c4 : ((e.enc pad ++ rest).drop 8).take 4 = toBE 4 e.hash := by
    rw [n4]; exact slice_pre _ _ _ 8 4 (by simp) (toBE_length _ _)
  have c5 : ((e.enc pad ++ rest).drop 12).take 4 = toBE 4 e.line := by
    rw [n5]; exact slice_pre _ _ _ 12 4 (by simp) (toBE_length _ _)
  have c6 : ((e.enc pad ++ rest).drop 16).take e.length = e.data := by
    rw [n6]; exact slice_pre _ _ _ 16 e.length (by simp) hl.symm
  have c7 : ((e.enc pad ++ rest).drop (16 + e.length + padOf e.length)).take 4 = toBE 4 e.size := by
    rw [n7]; exact slice_pre _ _ _ _ 4 (by simp [hp, ← hl]; omega) (toBE_length _ _)
  have hL : (e.enc pad ++ rest).length = e.size + rest.length := by simp [hlen]
  unfold readTraceEntry
  simp only [c0, c1, c2, c3, c4, c5, fromBE_toBE2 _ h1, fromBE_toBE2 _ h2, fromBE_toBE2 _ hl16,
    fromBE_toBE2 _ h3, fromBE_toBE4 _ h4, fromBE_toBE4 _ h5, c6, c7, fromBE_toBE4 _ hsz, hL,
    traceFixedSize, maxDataLen]
  rw [if_neg (by omega), if_neg (by omega), if_neg (by omega), if_neg (by omega), if_neg (by omega),
    if_neg (by rw [hsize]; simp)]
  rfl

theorem readTraceEntry_none_iff (r : Bytes) :
    readTraceEntry r = none ↔
      (r.length < 16 ∨ fromBE ((r.drop 4).take 2) > 1024 ∨
       r.length < 16 + fromBE ((r.drop 4).take 2) + padOf (fromBE ((r.drop 4).take 2)) + 4 ∨
       fromBE ((r.drop (16 + fromBE ((r.drop 4).take 2) + padOf (fromBE ((r.drop 4).take 2)))).take 4) ≠
         16 + fromBE ((r.drop 4).take 2) + padOf (fromBE ((r.drop 4).take 2)) + 4) := by
  unfold readTraceEntry
  simp only [traceFixedSize, maxDataLen]
  generalize fromBE ((r.drop 4).take 2) = len
  generalize padOf len = pd
  generalize fromBE ((r.drop (16 + len + pd)).take 4) = tr
  split
  · simp; omega
  split
  · simp; omega
  split
  · simp; omega
  split
  · simp; omega
  split
  · simp; omega
  split
  · rename_i h; simp; omega
  · rename_i h; simp; omega

/-! ### the loop -/

theorem traceLoop_ge (size idx : Nat) (r : Bytes) (h : size ≤ idx) : traceLoop size idx r = [] := by
  rw [traceLoop, if_neg (by omega)]

theorem traceLoop_none (size idx : Nat) (r : Bytes) (h : readTraceEntry r = none) : traceLoop size idx r = [] := by
  rw [traceLoop]
  split
  · split
    · rename_i h2; rw [h] at h2; cases h2
    · rfl
  · rfl

theorem traceLoop_some (size idx : Nat) (r : Bytes) (e : TraceEntry) (n : Nat) (hi : idx < size)
    (h : readTraceEntry r = some (e, n)) :
    traceLoop size idx r = e :: traceLoop size (idx + n) (r.drop n) := by
  rw [traceLoop, if_pos hi]
  split
  · rename_i e' n' h2
    rw [h] at h2
    simp only [Option.some.injEq, Prod.mk.injEq] at h2
    obtain ⟨rfl, rfl⟩ := h2
    rfl
  · rename_i h2; rw [h] at h2; cases h2

theorem traceLoop_entries (size : Nat) : ∀ (es : List (TraceEntry × Bytes)) (idx : Nat) (rest : Bytes),
    (∀ p ∈ es, p.1.WF) →
    traceLoop size idx (es.flatMap (fun p => p.1.enc p.2) ++ rest) =
      specShown size idx (es.map (·.1)) ++
        (if (specShown size idx (es.map (·.1))).length = es.length
         then traceLoop size (idx + (es.map (·.1.size)).sum) rest else []) := by
  intro es
  induction es with
  | nil => intro idx rest _; simp [specShown]
  | cons p es ih =>
    intro idx rest hw
    have hp : p.1.WF := hw p (List.mem_cons_self)
    have hes : ∀ q ∈ es, q.1.WF := fun q hq => hw q (List.mem_cons_of_mem _ hq)
    simp only [List.flatMap_cons, List.append_assoc, List.map_cons, List.sum_cons, List.length_cons]
    by_cases hi : idx < size
    · rw [traceLoop_some size idx _ p.1 p.1.size hi (readTraceEntry_enc p.1 hp p.2 _)]
      rw [drop_pre _ _ _ (p.1.enc_length hp p.2)]
      rw [ih (idx + p.1.size) rest hes]
      simp only [specShown, if_pos hi, List.length_cons, List.cons_append, Nat.add_right_cancel_iff,
        Nat.add_assoc]
    · rw [traceLoop_ge size idx _ (by omega)]
      simp only [specShown, if_neg hi, List.length_nil, List.nil_append]
      rw [if_neg (by omega)]

/-! ### string choice -/

theorem getTraceStringGo_eq (h : Nat) : ∀ (ss : List TraceString) (acc : Option TraceString),
    getTraceStringGo ss h acc =
      match ss.find? (fun t => t.hash == h) with
      | some t => some t
      | none => ((ss.filter (fun t => t.hash % 100000 == h % 100000)).getLast?).or acc := by
  intro ss
  induction ss with
  | nil => intro acc; simp [getTraceStringGo]
  | cons t ts ih =>
    intro acc
    unfold getTraceStringGo
    by_cases h1 : t.hash = h
    · simp [h1]
    · have hb : (t.hash == h) = false := by simp [h1]
      simp only [hb, List.find?_cons, isPartialMatch, bne, Bool.not_false, Bool.true_and]
      by_cases h2 : t.hash % 100000 = h % 100000
      · have hb2 : (t.hash % 100000 == h % 100000) = true := by simp [h2]
        simp only [hb2, if_true, List.filter_cons, Bool.false_eq_true, if_false]
        rw [ih]
        cases ts.find? (fun t => t.hash == h) with
        | some u => rfl
        | none =>
          simp only [List.getLast?_cons]
          cases (ts.filter (fun t => t.hash % 100000 == h % 100000)).getLast? <;> simp
      · have hb2 : (t.hash % 100000 == h % 100000) = false := by simp [h2]
        simp only [hb2, List.filter_cons, Bool.false_eq_true, if_false]
        rw [ih]

theorem getTraceString_eq (ss : List TraceString) (h : Nat) : getTraceString ss h = specChoice ss h := by
  unfold getTraceString specChoice
  rw [getTraceStringGo_eq]
  cases ss.find? (fun t => t.hash == h) <;> simp

theorem specChoice_residue (ss : List TraceString) (h : Nat) (t : TraceString) (hc : specChoice ss h = some t) :
    t.hash % 100000 = h % 100000 := by
  unfold specChoice at hc
  split at hc
  · rename_i u hf
    cases hc
    have := List.find?_some hf
    simp at this
    rw [this]
  · have hm := List.mem_of_getLast? hc
    simpa using (List.mem_filter.mp hm).2

/-! ### formatting -/

theorem formatTimestamp_eq (t : Nat) (ht : t < 2 ^ 16) : formatTimestamp t = specTimestamp t := by
  unfold formatTimestamp specTimestamp
  by_cases h : t = 0xFFFF
  · subst h; simp
  · rw [if_neg (by omega), if_neg h]
    have e1 : (t - t / 3600 * 3600) / 60 = t % 3600 / 60 := by
      congr 1; omega
    have e2 : t - t / 3600 * 3600 - t % 3600 / 60 * 60 = t % 60 := by
      omega
    simp only [e1, e2]

theorem traceArgs_eq (e : TraceEntry) : traceArgs e = if e.tag = 0x4644 then [] else wordsOf 5 e.data := by
  unfold traceArgs isBinaryTrace typeFieldBin maxArgs
  by_cases h : e.tag = 0x4644 <;> simp [h]

theorem formatTraceEntry_eq (ss : List TraceString) (e : TraceEntry) (he : e.WF) :
    formatTraceEntry ss e = specEntryLines ss e := by
  obtain ⟨h1, h2, _⟩ := he
  have hx : fmtHex 4 e.tbl = hexFix 4 e.tbl :=
    fmtHex_eq_hexFix 4 e.tbl (by have : (16:Nat) ^ 4 = 2 ^ 16 := by decide
                                 omega) (by omega)
  unfold formatTraceEntry specEntryLines
  simp only [getTraceString_eq, formatTimestamp_eq _ h1, hx, traceArgs_eq]
  cases hc : specChoice ss e.hash with
  | none => simp
  | some t =>
    have hr := specChoice_residue ss e.hash t hc
    have hpm : isPartialMatch t e.hash = (t.hash != e.hash) := by
      simp [isPartialMatch, hr]
    simp only [hpm, Option.map_map]
    congr 1
    funext m
    by_cases hh : t.hash = e.hash
    · simp [hh, isBinaryTrace, typeFieldBin]
    · simp [hh, isBinaryTrace, typeFieldBin]

/-! ### round trip -/

theorem specShown_subset (size : Nat) : ∀ (es : List TraceEntry) (idx : Nat), ∀ e ∈ specShown size idx es, e ∈ es := by
  intro es
  induction es with
  | nil => intro idx e he; simp [specShown] at he
  | cons a es ih =>
    intro idx e he
    unfold specShown at he
    split at he
    · rcases List.mem_cons.mp he with rfl | h
      · exact List.mem_cons_self
      · exact List.mem_cons_of_mem _ (ih _ e h)
    · cases he

theorem specShown_length_le (size : Nat) : ∀ (es : List TraceEntry) (idx : Nat),
    (specShown size idx es).length ≤ es.length := by
  intro es
  induction es with
  | nil => intro idx; simp [specShown]
  | cons a es ih =>
    intro idx
    unfold specShown
    split
    · have := ih (idx + a.size); simp; omega
    · simp

theorem parseTrace_roundtrip (ss : List TraceString) (h : TraceHeaderRaw) (hw : h.WF) (es : List (TraceEntry × Bytes))
    (hes : ∀ p ∈ es, p.1.WF) (trailing : Bytes)
    (ht : readTraceEntry trailing = none ∨ h.size ≤ 32 + (es.map (·.1.size)).sum) :
    parseTrace ss (h.enc ++ es.flatMap (fun p => p.1.enc p.2) ++ trailing) = specTrace ss h (es.map (·.1)) := by
  unfold parseTrace specTrace
  rw [List.append_assoc, readTraceHeader_enc h hw]
  simp only [traceHdrSize]
  rw [drop_pre _ _ 32 (h.enc_length hw), traceLoop_entries h.size es 32 trailing hes]
  have htl : traceLoop h.size (32 + (es.map (·.1.size)).sum) trailing = [] := by
    rcases ht with ht | ht
    · exact traceLoop_none _ _ _ ht
    · exact traceLoop_ge _ _ _ ht
  rw [htl]
  simp only [ite_self, List.append_nil]
  have hm : (specShown h.size 32 (es.map (·.1))).map (formatTraceEntry ss) =
      (specShown h.size 32 (es.map (·.1))).map (specEntryLines ss) := by
    apply List.map_congr_left
    intro e he
    have hmem := specShown_subset h.size _ 32 e he
    obtain ⟨p, hp, rfl⟩ := List.mem_map.mp hmem
    exact formatTraceEntry_eq ss p.1 (hes p hp)
  rw [hm]

end Pel
