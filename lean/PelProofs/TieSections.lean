import PelModel.Sections
/-
  Helper lemmas and the proof script of the source tie of the header-type sections (PelProps/TieC02.lean).
  The tie theorems say `generated definition = model function`; on the unchanged tree every one of them is `rfl`.
  The fall-backs below only make the proofs survive HARMLESS rewrites of the source (a condition written the other way
  round, `a & b` for `b & a`, a decode split into two statements, `//`/`%` for `>>`/`&` …): both sides are brought to one
  normal form of reader programs (right-nested binds, the continuation pushed into every `if`, bit operations as
  division and remainder) and compared again.  They can never prove a wrong equation: the kernel checks the result.
-/
namespace Pel.TieAux

theorem and_255 (x : Nat) : x &&& 255 = x % 256 := Nat.and_two_pow_sub_one_eq_mod x 8
theorem and_65535 (x : Nat) : x &&& 65535 = x % 65536 := Nat.and_two_pow_sub_one_eq_mod x 16
theorem and_15 (x : Nat) : x &&& 15 = x % 16 := Nat.and_two_pow_sub_one_eq_mod x 4
theorem and_255' (x : Nat) : 255 &&& x = x % 256 := by rw [Nat.and_comm]; exact and_255 x
theorem and_65535' (x : Nat) : 65535 &&& x = x % 65536 := by rw [Nat.and_comm]; exact and_65535 x

/-- a byte taken out of a word: mask then shift = shift then mask -/
theorem and_mask_div (x k : Nat) : (x &&& (255 <<< k)) / 2 ^ k = x / 2 ^ k % 256 := by
  rw [← Nat.shiftRight_eq_div_pow, ← Nat.shiftRight_eq_div_pow, Nat.shiftRight_and_distrib, Nat.shiftLeft_shiftRight, and_255]
theorem and_FF00_div (x : Nat) : (x &&& 65280) / 256 = x / 256 % 256 := and_mask_div x 8
theorem and_FF0000_div (x : Nat) : (x &&& 16711680) / 65536 = x / 65536 % 256 := and_mask_div x 16
theorem and_FF000000_div (x : Nat) : (x &&& 4278190080) / 16777216 = x / 16777216 % 256 := and_mask_div x 24

/-- the continuation of a conditional read, pushed into the branches -/
theorem ite_bind {m : Type → Type} [Monad m] {α β : Type} (c : Prop) [Decidable c] (a b : m α) (k : α → m β) :
    (if c then a else b) >>= k = if c then a >>= k else b >>= k := by
  split <;> rfl

theorem ne_zero_iff_pos (n : Nat) : (0 < n) = ¬ (n = 0) := by
  apply propext; omega
theorem one_le_iff (n : Nat) : (1 ≤ n) = ¬ (n = 0) := by
  apply propext; omega
theorem gt_zero_iff (n : Nat) : (n > 0) = ¬ (n = 0) := by
  apply propext; omega
theorem ge_one_iff (n : Nat) : (n ≥ 1) = ¬ (n = 0) := by
  apply propext; omega
theorem zero_eq_iff (n : Nat) : (0 = n) = (n = 0) := by
  apply propext; omega

end Pel.TieAux

open Pel Pel.TieAux in
/-- normal form of a reader program of the header-type sections -/
macro "rd_norm" : tactic => `(tactic|
  simp only [getText, ox, stripNul, hexdumpJ, hexdump16, bind_assoc, pure_bind, ite_bind,
    ne_eq, ite_not, Classical.not_not, ne_zero_iff_pos, one_le_iff, gt_zero_iff, ge_one_iff, zero_eq_iff,
    Nat.mod_two_ne_zero, Nat.mod_two_ne_one,
    Nat.shiftRight_and_distrib, Nat.shiftRight_eq_div_pow, and_255, and_65535, and_15, and_255', and_65535', and_FF00_div, and_FF0000_div, and_FF000000_div,
    Nat.reducePow, Nat.reduceShiftRight, Nat.reduceMod, Nat.reduceDiv, Nat.reduceAnd, List.cons_append, List.nil_append])

open Pel Pel.TieAux in
/-- the same with `a &&& b` / `a ||| b` / `a + b` ordered -/
macro "rd_norm_comm" : tactic => `(tactic|
  simp only [getText, ox, stripNul, hexdumpJ, hexdump16, bind_assoc, pure_bind, ite_bind,
    ne_eq, ite_not, Classical.not_not, ne_zero_iff_pos, one_le_iff, gt_zero_iff, ge_one_iff, zero_eq_iff,
    Nat.mod_two_ne_zero, Nat.mod_two_ne_one,
    Nat.shiftRight_and_distrib, Nat.shiftRight_eq_div_pow, and_255, and_65535, and_15, and_255', and_65535', and_FF00_div, and_FF0000_div, and_FF000000_div,
    Nat.reducePow, Nat.reduceShiftRight, Nat.reduceMod, Nat.reduceDiv, Nat.reduceAnd, List.cons_append, List.nil_append,
    Nat.and_comm, Nat.or_comm, Nat.add_comm, and_comm, or_comm])

/-- `tie_rd f`: the goal `generated = f`.  Both sides are normalised and compared syntactically (cheap, and a failing
    comparison stays cheap); the full definitional comparison comes last because a FAILING `rfl` on two big programs can
    run into the heartbeat limit, which no `first` recovers from. -/
macro "tie_rd " f:ident : tactic => `(tactic| first
  | (unfold $f; rd_norm <;> with_reducible rfl)
  | (unfold $f; rd_norm_comm <;> with_reducible rfl)
  | (unfold $f; (try rd_norm); (try rd_norm_comm); rfl)
  | rfl)
