import PelModel.Basic
/- Lemmas about the basic vocabulary (big-endian integers, hex/decimal rendering). -/
namespace Pel

@[simp] theorem toBE_length (n v : Nat) : (toBE n v).length = n := by
  induction n generalizing v with
  | zero => simp [toBE]
  | succ n ih => simp [toBE, ih]

theorem fromBE_snoc (a : Bytes) (x : Nat) : fromBE (a ++ [x]) = fromBE a * 256 + x := by
  simp [fromBE, List.foldl_append]

theorem fromBE_toBE (n v : Nat) (h : v < 256 ^ n) : fromBE (toBE n v) = v := by
  induction n generalizing v with
  | zero => simp [toBE, fromBE] at *; omega
  | succ n ih =>
    simp only [toBE, fromBE_snoc]
    have h2 : v / 256 < 256 ^ n := by
      rw [Nat.pow_succ] at h
      exact Nat.div_lt_of_lt_mul (by omega)
    rw [ih _ h2]; omega

theorem toBE_allBytes (n v : Nat) : ∀ x ∈ toBE n v, x < 256 := by
  induction n generalizing v with
  | zero => simp [toBE]
  | succ n ih =>
    intro x hx
    simp only [toBE, List.mem_append, List.mem_singleton] at hx
    rcases hx with hx | hx
    · exact ih _ x hx
    · omega

@[simp] theorem hexFix_length (n v : Nat) : (hexFix n v).length = n := by
  induction n generalizing v with
  | zero => simp [hexFix]
  | succ n ih => simp [hexFix, ih]

@[simp] theorem hexFixL_length (n v : Nat) : (hexFixL n v).length = n := by
  induction n generalizing v with
  | zero => simp [hexFixL]
  | succ n ih => simp [hexFixL, ih]

@[simp] theorem decFix_length (n v : Nat) : (decFix n v).length = n := by
  induction n generalizing v with
  | zero => simp [decFix]
  | succ n ih => simp [decFix, ih]

theorem isHexDigit_hexU (n : Nat) : isHexDigit (hexU n) = true := by
  unfold isHexDigit hexU
  split <;> simp <;> omega

theorem isHexDigit_hexL (n : Nat) : isHexDigit (hexL n) = true := by
  unfold isHexDigit hexL
  split <;> simp <;> omega

theorem hexVal_hexU (n : Nat) : hexVal (hexU n) = n % 16 := by
  unfold hexVal hexU
  split <;> split <;> (try split) <;> omega

theorem hexVal_hexL (n : Nat) : hexVal (hexL n) = n % 16 := by
  unfold hexVal hexL
  split <;> split <;> (try split) <;> omega

theorem hexU_ne_space (n : Nat) : hexU n ≠ 32 := by unfold hexU; split <;> omega

theorem hexLenAux_le (f v w : Nat) (hf : v ≤ f) (h : v < 16 ^ w) (hw : 0 < w) : hexLenAux f v ≤ w := by
  induction f generalizing v w with
  | zero => simp [hexLenAux]; omega
  | succ f ih =>
    unfold hexLenAux
    split
    · omega
    · rename_i h16
      match w, hw with
      | 1, _ => simp at h; omega
      | w+2, _ =>
        have h2 : v / 16 < 16 ^ (w+1) := by
          rw [Nat.pow_succ] at h
          exact Nat.div_lt_of_lt_mul (by omega)
        have := ih (v / 16) (w+1) (by omega) h2 (by omega)
        omega

theorem hexLen_le (v w : Nat) (h : v < 16 ^ w) (hw : 0 < w) : hexLen v ≤ w :=
  hexLenAux_le v v w (Nat.le_refl _) h hw

/-- below `16^w` the `%0wX` rendering has exactly `w` digits -/
theorem fmtHex_eq_hexFix (w v : Nat) (h : v < 16 ^ w) (hw : 0 < w) : fmtHex w v = hexFix w v := by
  unfold fmtHex
  rw [Nat.max_eq_left (hexLen_le v w h hw)]

theorem parseHexText_snoc (t : Text) (c : Nat) : parseHexText (t ++ [c]) = parseHexText t * 16 + hexVal c := by
  simp [parseHexText, List.foldl_append]

/-- the displayed digits determine the value -/
theorem parseHexText_hexFix (n v : Nat) (h : v < 16 ^ n) : parseHexText (hexFix n v) = v := by
  induction n generalizing v with
  | zero => simp [hexFix, parseHexText] at *; omega
  | succ n ih =>
    simp only [hexFix, parseHexText_snoc, hexVal_hexU]
    have h2 : v / 16 < 16 ^ n := by
      rw [Nat.pow_succ] at h
      exact Nat.div_lt_of_lt_mul (by omega)
    rw [ih _ h2]; omega

theorem parseHexText_hexFixL (n v : Nat) (h : v < 16 ^ n) : parseHexText (hexFixL n v) = v := by
  induction n generalizing v with
  | zero => simp [hexFixL, parseHexText] at *; omega
  | succ n ih =>
    simp only [hexFixL, parseHexText_snoc, hexVal_hexL]
    have h2 : v / 16 < 16 ^ n := by
      rw [Nat.pow_succ] at h
      exact Nat.div_lt_of_lt_mul (by omega)
    rw [ih _ h2]; omega

theorem hexFix_all_hex (n v : Nat) : ∀ c ∈ hexFix n v, isHexDigit c = true := by
  induction n generalizing v with
  | zero => simp [hexFix]
  | succ n ih =>
    intro c hc
    simp only [hexFix, List.mem_append, List.mem_singleton] at hc
    rcases hc with hc | hc
    · exact ih _ c hc
    · subst hc; exact isHexDigit_hexU v

@[simp] theorem ljust_length (w f : Nat) (t : Text) : (ljust w f t).length = max w t.length := by
  simp [ljust]; omega

@[simp] theorem spaces_length (n : Nat) : (spaces n).length = n := by simp [spaces]

end Pel
