import PelModel.TransUserData
import PelProofs.TieSections
set_option linter.unusedSimpArgs false
/-
  Lemmas of the source tie of the byte reader and the user-data sections (PelProps/TieC05.lean, PelProps/TieC04.lean).

  Part A: the methods of pel/datastream.py in the object view (`DS.checkRange`, `DS.incIndex`, `DS.getMem`, `DS.getInt` of
  PelModel/TransUserData.lean: data, size and a cursor, Python integers) refine the model's reader over the bytes not consumed yet.
  Part B: the module table keyed by full module names, the character loop of the built-in text format, and `parse` / `parseCustom`
  in the exception-and-state monad against `parseUserData` / `udLookup`.
-/
namespace Pel

/-! ### Part A: datastream.py -/

theorem assertionErr_range : assertionErr (s "range check failure") = .range := by decide
theorem assertionErr_assert : assertionErr (s "must provide a positive, non-zero integer") = .assert := by decide

/-- a slice inside the list, with Python's rules, is drop-then-take -/
theorem pySlice_inrange {α} (l : List α) (a b : Int) (ha : 0 ≤ a) (hab : a ≤ b) (hb : b ≤ l.length) :
    pySlice l a b = (l.drop a.toNat).take (b - a).toNat := by
  unfold pySlice pyIdx
  have h1 : ¬ b < 0 := by omega
  have h2 : ¬ a < 0 := by omega
  simp only [h1, h2, if_false]
  have e1 : min b.toNat l.length = b.toNat := by omega
  have e2 : min a.toNat l.length = a.toNat := by omega
  rw [e1, e2, List.drop_take]
  congr 1
  omega

theorem DS.rest_length (d : DS) (hd : d.Inv) : (d.rest.length : Int) = d.size - d.index := by
  obtain ⟨h1, h2, h3⟩ := hd
  unfold DS.rest
  simp only [List.length_drop]
  omega

theorem DS.init_inv (data : Bytes) (bo : Option Text) (sg : Option Bool) : (DS.init data bo sg).Inv := by
  unfold DS.init DS.Inv
  simp only [true_and]
  omega

theorem DS.init_rest (data : Bytes) (bo : Option Text) (sg : Option Bool) : (DS.init data bo sg).rest = data := by
  simp [DS.init, DS.rest]

theorem DS.checkRange_run (opt : Bool) (n : Int) (d : DS) :
    DS.checkRange opt n d = if 0 < n then .ok (decide (d.index + n ≤ d.size), d) else .error .assert := by
  unfold DS.checkRange
  by_cases h : 0 < n
  · simp only [h, not_true_eq_false, if_false, if_true]
    by_cases h2 : d.index + n ≤ d.size <;> simp [h2, DsM.fld, bind, StateT.bind, Except.bind, pure, StateT.pure, Except.pure]
  · simp only [h, not_false_eq_true, if_true, if_false, assertionErr_assert]; rfl

theorem DS.incIndex_run (opt : Bool) (n : Int) (d : DS) :
    DS.incIndex opt n d = if 0 < n then (if d.index + n ≤ d.size then .ok ((), { d with index := d.index + n }) else .error .range)
      else .error .assert := by
  unfold DS.incIndex
  simp only [bind, StateT.bind, DS.checkRange_run]
  by_cases h : 0 < n
  · by_cases h2 : d.index + n ≤ d.size <;>
      simp [h, h2, Except.bind, DsM.fld, DsM.upd, DsM.raise, assertionErr_range, pure, StateT.pure, Except.pure, bind, StateT.bind]
  · simp [h, Except.bind]

theorem DS.getMem_run (opt : Bool) (n : Int) (d : DS) :
    DS.getMem opt n d = if 0 < n then (if d.index + n ≤ d.size then .ok (pySlice d.data d.index (d.index + n), { d with index := d.index + n }) else .error .range)
      else .error .assert := by
  unfold DS.getMem
  simp only [bind, StateT.bind, DS.checkRange_run]
  by_cases h : 0 < n
  · by_cases h2 : d.index + n ≤ d.size <;>
      simp [h, h2, Except.bind, DsM.fld, DsM.raise, assertionErr_range, pure, StateT.pure, Except.pure, bind, StateT.bind, DS.incIndex_run]
  · simp [h, Except.bind]

/-- `check_range(n)`: an AssertionError for `n ≤ 0` (a `raise`, not an `assert`: also under `-O`), else whether `n` bytes remain;
    nothing is consumed -/
theorem DS.checkRange_abs (opt : Bool) (n : Int) (d : DS) (hd : d.Inv) :
    DS.checkRange opt n d = if n.toNat = 0 then .error .assert else .ok (decide (n.toNat ≤ d.rest.length), d) := by
  have hl := DS.rest_length d hd
  rw [DS.checkRange_run]
  by_cases h : 0 < n
  · have hn : ¬ n.toNat = 0 := by omega
    simp only [h, if_true, hn, if_false]
    have e : (d.index + n ≤ d.size) = (n.toNat ≤ d.rest.length) := by
      apply propext
      constructor <;> intro _ <;> omega
    simp only [e]
  · have hn : n.toNat = 0 := by omega
    simp only [h, if_false, hn, if_true]

/-- ★ `get_mem(n)` is the model's `getMem` on the bytes not consumed yet, for every Python integer `n` (negative counts included:
    the model's truncated `h.len - 8` is `Int.toNat`) and with or without `-O` -/
theorem DS.getMem_abs (opt : Bool) (n : Int) (d : DS) (hd : d.Inv) :
    (DS.getMem opt n).abs d = Pel.getMem n.toNat d.rest := by
  have hl := DS.rest_length d hd
  obtain ⟨h1, h2, h3⟩ := hd
  unfold DsM.abs Pel.getMem
  rw [DS.getMem_run]
  by_cases h : 0 < n
  · have hn : ¬ n.toNat = 0 := by omega
    simp only [h, if_true, hn, if_false]
    by_cases hr : d.index + n ≤ d.size
    · have hr' : n.toNat ≤ d.rest.length := by omega
      simp only [hr, hr', if_true]
      rw [pySlice_inrange d.data d.index (d.index + n) h2 (by omega) (by omega)]
      have e : (d.index + n - d.index).toNat = n.toNat := by omega
      have e2 : (d.index + n).toNat = d.index.toNat + n.toNat := by omega
      simp only [DS.rest, e, e2, List.drop_drop]
    · have hr' : ¬ n.toNat ≤ d.rest.length := by omega
      simp only [hr, hr', if_false]
  · have hn : n.toNat = 0 := by omega
    simp only [h, if_false, hn, if_true]

theorem DS.getMem_frame (opt : Bool) (n : Int) (d : DS) (hd : d.Inv) : (DS.getMem opt n).Frame d := by
  intro a d' h
  obtain ⟨h1, h2, h3⟩ := hd
  rw [DS.getMem_run] at h
  split at h
  · split at h
    · cases h
      refine ⟨⟨h1, ?_, ?_⟩, rfl, rfl, rfl, rfl⟩ <;> simp only <;> omega
    · cases h
  · cases h

/-- `inc_index(n)` skips what `get_mem(n)` would return -/
theorem DS.incIndex_abs (opt : Bool) (n : Int) (d : DS) (hd : d.Inv) :
    (DS.incIndex opt n).abs d = (Pel.getMem n.toNat >>= fun _ => pure ()) d.rest := by
  have h := DS.getMem_abs opt n d hd
  unfold DsM.abs at h ⊢
  rw [DS.getMem_run] at h
  rw [DS.incIndex_run]
  simp only [bind, StateT.bind, ← h]
  by_cases h0 : 0 < n
  · by_cases h2 : d.index + n ≤ d.size <;> simp [h0, h2, Except.bind, pure, StateT.pure, Except.pure]
  · simp [h0, Except.bind]

theorem DS.incIndex_frame (opt : Bool) (n : Int) (d : DS) (hd : d.Inv) : (DS.incIndex opt n).Frame d := by
  intro a d' h
  obtain ⟨h1, h2, h3⟩ := hd
  rw [DS.incIndex_run] at h
  split at h
  · split at h
    · cases h
      refine ⟨⟨h1, ?_, ?_⟩, rfl, rfl, rfl, rfl⟩ <;> simp only <;> omega
    · cases h
  · cases h

theorem intFromBytes_big (b : Bytes) : intFromBytes b (some (s "big")) (some false) = .ok (fromBE b : Int) := by
  unfold intFromBytes
  simp

theorem DS.getInt_run (opt : Bool) (n : Int) (d : DS) (hb : d.byteOrder = some (s "big")) (hs : d.isSigned = some false) :
    DS.getInt opt n d = (match DS.getMem opt n d with
      | .ok (m, d') => .ok ((fromBE m : Int), d')
      | .error e => .error e) := by
  unfold DS.getInt
  cases hm : DS.getMem opt n d with
  | error e =>
    cases opt <;> simp [bind, StateT.bind, DsM.fld, hb, hs, Except.bind, pyAssert, pure, StateT.pure, Except.pure, hm]
  | ok p =>
    cases opt <;> simp [bind, StateT.bind, DsM.fld, hb, hs, Except.bind, pyAssert, pure, StateT.pure, Except.pure, hm, DsM.ofExcept,
      intFromBytes_big]

/-- ★ `get_int(n)` on a stream constructed big-endian and unsigned (what every decoder constructs: `Tie.dsCtorArgs`) is the model's
    `getInt`; the two `assert` statements of `get_int` are no checks the result depends on (`opt` is arbitrary) -/
theorem DS.getInt_abs (opt : Bool) (n : Int) (d : DS) (hd : d.Inv) (hb : d.byteOrder = some (s "big")) (hs : d.isSigned = some false) :
    (DS.getInt opt n).abs d = (Pel.getInt n.toNat >>= fun v => pure (v : Int)) d.rest := by
  have h := DS.getMem_abs opt n d hd
  unfold DsM.abs at h ⊢
  rw [DS.getInt_run opt n d hb hs]
  simp only [Pel.getInt, bind, StateT.bind, ← h]
  cases DS.getMem opt n d with
  | error e => rfl
  | ok p => rfl

theorem DS.getInt_frame (opt : Bool) (n : Int) (d : DS) (hd : d.Inv) (hb : d.byteOrder = some (s "big")) (hs : d.isSigned = some false) :
    (DS.getInt opt n).Frame d := by
  intro a d' h
  rw [DS.getInt_run opt n d hb hs] at h
  cases hm : DS.getMem opt n d with
  | error e => rw [hm] at h; cases h
  | ok p =>
    rw [hm] at h
    cases h
    exact DS.getMem_frame opt n d hd _ _ hm

/-! ### Part B: parse_user_data.py -/

@[simp] theorem PyM.pure_bind' {α β} (a : α) (f : α → PyM β) : (PyM.pure a).bind f = f a := by funext c; rfl
@[simp] theorem PyM.raise_bind' {α β} (e : PyExc) (f : α → PyM β) : (PyM.raise e : PyM α).bind f = PyM.raise e := by funext c; rfl
@[simp] theorem PyM.pure_run {α} (a : α) (c : Cache UdPlugin) : PyM.pure a c = (.ok a, c) := rfl
@[simp] theorem PyM.raise_run {α} (e : PyExc) (c : Cache UdPlugin) : (PyM.raise e : PyM α) c = (.error e, c) := rfl

/-- the character loop of the built-in text format, written as a left fold with the state (line so far, finished lines) -/
theorem textLoop_eq (step : Text × List Text → Nat → Text × List Text)
    (hstep : ∀ p c, step p c = if c ≠ 10 then (p.1 ++ [if c < 32 ∨ c > 126 then 46 else c], p.2) else ([], p.2 ++ [p.1])) :
    ∀ (t line : Text) (lines : List Text),
      (if (t.foldl step (line, lines)).1 ≠ [] then (t.foldl step (line, lines)).2 ++ [(t.foldl step (line, lines)).1]
        else (t.foldl step (line, lines)).2) = lines ++ textLinesGo t line := by
  intro t
  induction t with
  | nil =>
    intro line lines
    simp only [List.foldl_nil, textLinesGo]
    by_cases h : line = [] <;> simp [h]
  | cons ch r ih =>
    intro line lines
    simp only [List.foldl_cons, hstep, textLinesGo]
    by_cases hc : ch = 10
    · simp only [hc, ne_eq, not_true_eq_false, if_false]
      rw [ih]
      simp
    · simp only [hc, ne_eq, not_false_eq_true, if_true]
      exact ih _ _

/-- the module table as the code keeps it: keyed by the full module name -/
def fullKeys (c : Cache UdPlugin) : Cache UdPlugin := c.map (fun p => (udFullName p.1, p.2))

theorem udFullName_inj (n m : Text) (h : udFullName n = udFullName m) : n = m := by
  unfold udFullName at h
  simp only [List.append_assoc] at h
  have h1 := List.append_cancel_left h
  have hl : n.length = m.length := by
    have := congrArg List.length h1
    simp only [List.length_append] at this
    omega
  exact (List.append_inj h1 hl).1

theorem udShortName_full (n : Text) : udShortName (udFullName n) = some n := by
  unfold udShortName udFullName
  simp only [List.append_assoc]
  have hp : (s "udparsers.").isPrefixOf (s "udparsers." ++ (n ++ (s "." ++ n))) = true :=
    List.isPrefixOf_iff_prefix.mpr (List.prefix_append _ _)
  simp only [hp, if_true, List.drop_left']
  have hl : ((n ++ (s "." ++ n)).length - 1) / 2 = n.length := by
    have : (s ".").length = 1 := by decide
    simp only [List.length_append, this]
    omega
  rw [hl, List.take_left' rfl]
  simp

theorem cacheGet_full (c : Cache UdPlugin) (n : Text) : cacheGet (fullKeys c) (udFullName n) = cacheGet c n := by
  unfold cacheGet fullKeys
  induction c with
  | nil => rfl
  | cons p r ih =>
    simp only [List.map_cons, List.find?_cons]
    by_cases h : p.1 = n
    · have h1 : (udFullName p.1 == udFullName n) = true := by simp [h]
      have h2 : (p.1 == n) = true := by simp [h]
      simp only [h1, h2, Option.map_some]
    · have h1 : (udFullName p.1 == udFullName n) = false := by
        simp only [beq_eq_false_iff_ne, ne_eq]; exact fun e => h (udFullName_inj _ _ e)
      have h2 : (p.1 == n) = false := by simp [h]
      simp only [h1, h2]; exact ih
theorem PyM.bind_run {α β} (x : PyM α) (f : α → PyM β) (c : Cache UdPlugin) :
    (x.bind f) c = match x c with | (.ok a, c') => f a c' | (.error e, c') => (.error e, c') := rfl
theorem pyTry_run {α} (body : PyM α) (p : PyExc → Bool) (hd : PyExc → PyM α) (c : Cache UdPlugin) :
    pyTry body p hd c = match body c with | (.ok a, c') => (.ok a, c') | (.error e, c') => if p e then hd e c' else (.error e, c') := rfl

theorem cacheHas_full (c : Cache UdPlugin) (n : Text) :
    cacheHas (udFullName n) (fullKeys c) = (.ok (cacheGet c n).isSome, fullKeys c) := by
  unfold cacheHas; rw [cacheGet_full]
theorem cacheLoad_full (c : Cache UdPlugin) (n : Text) :
    cacheLoad (udFullName n) (fullKeys c) = match cacheGet c n with
      | some v => (.ok v, fullKeys c)
      | none => (.error ⟨.exception, udFullName n⟩, fullKeys c) := by
  unfold cacheLoad; rw [cacheGet_full]; cases cacheGet c n <;> rfl
theorem cacheStore_full (c : Cache UdPlugin) (n : Text) (v : Option UdPlugin) :
    cacheStore (udFullName n) v (fullKeys c) = (.ok (), fullKeys ((n, v) :: c)) := rfl
theorem udImport_full (env : UdEnv) (n : Text) (c' : Cache UdPlugin) :
    udImport env (udFullName n) c' = match env n with
      | .absent => (.error ⟨.importError, udFullName n⟩, c')
      | .importRaises msg => (.error ⟨.exception, msg⟩, c')
      | b => (.ok b, c') := by
  unfold udImport; rw [udShortName_full]; dsimp only; cases env n <;> rfl

/-- the key the code computes, in append-normal form -/
theorem udKey_norm (creator : Text) (comp : Nat) :
    s "udparsers." ++ (List.map toLowerAscii (List.map toLowerAscii creator ++ fmtHex 4 comp) ++
      (s "." ++ List.map toLowerAscii (List.map toLowerAscii creator ++ fmtHex 4 comp))) = udFullName (udModuleName creator comp) := by
  simp only [udFullName, udModuleName, List.append_assoc]

/-- a module object in the table is a module (`absent` / `importRaises` describe imports that yield none): what `C19.cache_contents`
    proves of every table the rules can produce -/
def CacheModulesOk (c : Cache UdPlugin) : Prop :=
  ∀ n b, cacheGet c n = some (some b) → b ≠ .absent ∧ ∀ msg, b ≠ .importRaises msg

def failedNote (creator : Text) (comp sub ver : Nat) (msg : Text) : Text :=
  s "Failed parsing user data for creator=" ++ creator ++ s " compID=0x" ++ fmtHex 4 comp ++
    s " subType=0x" ++ fmtHex 1 sub ++ s " version=" ++ natDec ver ++ s " Exception=" ++ msg

/-- `parseCustom` once `cls` is known (for a payload that is not empty), read off `parseUserData` of the model -/
def customOutcome (b : UdPlugin) (creator : Text) (comp sub ver : Nat) (data : Bytes) : Except PyExc (Option PyStr) :=
  match b with
  | .absent => .ok (some (.dumps (hexdumpJ data)))
  | .echo => .ok (some (.dumps (.obj [kv "subType" (jnum sub), kv "version" (jnum ver), kv "data" (jstr (bytesHexL data))])))
  | .raises msg => .ok (some (.dumps (errorWithData (failedNote creator comp sub ver msg) data)))
  | .importRaises msg => .ok (some (.dumps (errorWithData (failedNote creator comp sub ver msg) data)))
  | .returnsNone => .ok none
  | .returnsText t => .ok (some (.raw t))

theorem PyM.bind_run' {α β} (x : PyM α) (f : α → PyM β) (c : Cache UdPlugin) :
    (x >>= f) c = match x c with | (.ok a, c') => f a c' | (.error e, c') => (.error e, c') := rfl
theorem PyM.pure_run' {α} (a : α) (c : Cache UdPlugin) : (pure a : PyM α) c = (.ok a, c) := rfl
theorem PyM.bind_pure_run {α} (x : PyM α) (c : Cache UdPlugin) : (x >>= fun a => pure a) c = x c := by
  rw [PyM.bind_run']
  rcases x c with ⟨_ | _, _⟩ <;> rfl


/-- with an empty table (a fresh process) a look-up hands on what the environment says -/
theorem udLookup_nil_fst (penv : ProcEnv) (n : Text) : (udLookup penv [] n).1 = penv.ud n := by
  unfold udLookup cacheGet
  simp only [List.find?_nil, Option.map_none]
  cases penv.ud n <;> rfl

theorem cacheModulesOk_nil : CacheModulesOk [] := by
  intro n b h
  simp [cacheGet] at h

end Pel
