import PelModel.Cli
import PelProofs.Basic
import PelProofs.JsonParse
namespace Pel
-- helper lemmas for the CLI properties (C08-C11)

theorem fullOf_some {env : Env} {cfg : SelCfg} {f : FileEntry} {eid : Text} {j : J}
    (h : fullOf env cfg f = .some (eid, j)) : parsePEL env cfg f.data = .doc eid j := by
  unfold fullOf at h
  split at h
  · rename_i e' j' heq
    cases h
    exact heq
  · cases h
  · cases h
  · cases h

theorem deleteMode_bad {e : Text} (d : Dir) (hp : processId e = none) :
    deleteMode e d = ({ stdout := [], stderrLines := 1, exit := 1 }, d) := by
  simp only [deleteMode, hp]

theorem deleteMode_notfound {e pid : Text} {d : Dir} (hp : processId e = some pid)
    (hf : d.find? (fun f => isInfix pid f.name) = none) :
    deleteMode e d = ({ stdout := s "PEL not found\n", stderrLines := 0, exit := 0 }, d) := by
  simp only [deleteMode, hp, hf]

theorem deleteMode_found {e pid : Text} {d : Dir} {f : FileEntry} (hp : processId e = some pid)
    (hf : d.find? (fun f => isInfix pid f.name) = some f) :
    deleteMode e d = ({ stdout := [], stderrLines := 0, exit := 0 }, d.erase f) := by
  simp only [deleteMode, hp, hf]

/-! ### `processId` -/

theorem s_0X : s "0X" = [48, 88] := by decide
theorem s_0x : s "0x" = [48, 120] := by decide

theorem toUpper_hexU (n : Nat) : toUpperAscii (hexU n) = hexU n := by
  have h : hexU n < 97 := by unfold hexU; split <;> omega
  unfold toUpperAscii
  rw [if_neg (by omega)]

theorem toUpper_hexL (n : Nat) : toUpperAscii (hexL n) = hexU n := by
  unfold toUpperAscii hexL hexU
  by_cases h : n % 16 < 10
  · rw [if_pos h, if_pos h, if_neg (by omega)]
  · rw [if_neg h, if_neg h, if_pos (by omega)]; omega

theorem hexU_ne_X (n : Nat) : hexU n ≠ 88 := by unfold hexU; split <;> omega

theorem map_upper_hexFix (n v : Nat) : (hexFix n v).map toUpperAscii = hexFix n v := by
  induction n generalizing v with
  | zero => rfl
  | succ n ih => simp only [hexFix, List.map_append, ih, List.map_cons, List.map_nil, toUpper_hexU]

theorem map_upper_hexFixL (n v : Nat) : (hexFixL n v).map toUpperAscii = hexFix n v := by
  induction n generalizing v with
  | zero => rfl
  | succ n ih => simp only [hexFix, hexFixL, List.map_append, ih, List.map_cons, List.map_nil, toUpper_hexL]

/-- a text of at least two hex digits does not start with "0X" -/
theorem hexFix_no_0X (n v : Nat) : (s "0X").isPrefixOf (hexFix (n + 2) v) = false := by
  have h2 : ∃ a x rest, hexFix (n + 2) v = a :: hexU x :: rest := by
    induction n generalizing v with
    | zero => exact ⟨hexU (v / 16), v, [], by simp [hexFix]⟩
    | succ n ih =>
      obtain ⟨a, x, rest, e⟩ := ih (v / 16)
      refine ⟨a, x, rest ++ [hexU v], ?_⟩
      rw [hexFix, e]; rfl
  obtain ⟨a, x, rest, e⟩ := h2
  rw [e, s_0X]
  simp only [List.isPrefixOf, Bool.and_eq_false_iff, beq_eq_false_iff_ne, ne_eq]
  exact Or.inr (Or.inl (fun hx => hexU_ne_X x hx.symm))

theorem processId_plain (t h8 : Text) (hu : t.map toUpperAscii = h8) (hnp : (s "0X").isPrefixOf h8 = false)
    (hl : h8.length = 8) : processId t = some h8 := by
  simp only [processId, hu, hnp, Bool.false_eq_true, if_false, hl, if_true]

theorem processId_0X (t h8 : Text) (hu : t.map toUpperAscii = s "0X" ++ h8) (hl : h8.length = 8) :
    processId t = some h8 := by
  have hp : (s "0X").isPrefixOf (s "0X" ++ h8) = true := by
    rw [s_0X]; simp [List.isPrefixOf]
  have hd : (s "0X" ++ h8).drop 2 = h8 := by rw [s_0X]; rfl
  simp only [processId, hu, hp, if_true, hd, hl]

theorem map_upper_0x : (s "0x").map toUpperAscii = s "0X" := by decide
theorem map_upper_0X : (s "0X").map toUpperAscii = s "0X" := by decide

/-! ### `--plid` comparison -/

theorem hexFix_inj (n v w : Nat) (hv : v < 16 ^ n) (hw : w < 16 ^ n) (h : hexFix n v = hexFix n w) : v = w := by
  rw [← parseHexText_hexFix n v hv, ← parseHexText_hexFix n w hw, h]

theorem hexFix8_eq_fmtHex_iff (v w : Nat) (hv : v < 2 ^ 32) (hw : w < 2 ^ 32) : (hexFix 8 v = fmtHex 8 w) ↔ v = w := by
  have e : (2 : Nat) ^ 32 = 16 ^ 8 := by decide
  rw [e] at hv hw
  rw [fmtHex_eq_hexFix 8 w hw (by decide)]
  exact ⟨hexFix_inj 8 v w hv hw, fun h => by rw [h]⟩

/-! ### decimal ids -/

theorem decVal_natDec (v : Nat) : decVal (natDec v) = v := by
  obtain ⟨d, dr, e, _, _, _, hval⟩ := natDec_shape_p v
  rw [e, hval]

theorem natDec_inj (a b : Nat) (h : natDec a = natDec b) : a = b := by
  rw [← decVal_natDec a, ← decVal_natDec b, h]

/-! ### `isInfix` -/

theorem isInfix_iff_exists (needle hay : Text) : isInfix needle hay = true ↔ ∃ a b, hay = a ++ needle ++ b := by
  induction hay with
  | nil =>
    simp only [isInfix, List.isEmpty_iff]
    constructor
    · intro h; subst h; exact ⟨[], [], rfl⟩
    · rintro ⟨a, b, h⟩
      have := congrArg List.length h
      simp only [List.length_nil, List.length_append] at this
      exact List.eq_nil_of_length_eq_zero (by omega)
  | cons x t ih =>
    simp only [isInfix, Bool.or_eq_true, ih, List.isPrefixOf_iff_prefix]
    constructor
    · rintro (⟨b, hb⟩ | ⟨a, b, hab⟩)
      · exact ⟨[], b, by simpa using hb.symm⟩
      · exact ⟨x :: a, b, by rw [hab]; rfl⟩
    · rintro ⟨a, b, hab⟩
      cases a with
      | nil => exact Or.inl ⟨b, by simpa using hab.symm⟩
      | cons y a =>
        simp only [List.cons_append, List.cons.injEq] at hab
        exact Or.inr ⟨a, b, hab.2⟩

/-! ### `--id` -/

theorem idMode_notfound {env : Env} {o : CliOpts} {e pid : Text} {d : Dir} (hp : processId e = some pid)
    (hf : d.find? (fun f => isInfix pid f.name) = none) :
    idMode env o e d = { stdout := s "PEL not found\n", stderrLines := 0, exit := 0 } := by
  simp only [idMode, hp, hf]

theorem idMode_found {env : Env} {o : CliOpts} {e pid : Text} {d : Dir} {f : FileEntry} (hp : processId e = some pid)
    (hf : d.find? (fun f => isInfix pid f.name) = some f) :
    (idMode env o e d).stdout = (printOne env o { o.cfg with lookup := true } f).1 := by
  simp only [idMode, hp, hf]

/-! ### the file list -/

theorem mem_insertByName (f x : FileEntry) (l : List FileEntry) : x ∈ insertByName f l ↔ x = f ∨ x ∈ l := by
  induction l with
  | nil => simp [insertByName]
  | cons g gs ih =>
    simp only [insertByName]
    split
    · simp only [List.mem_cons, ih]
      constructor
      · rintro (h | h | h)
        · exact Or.inr (Or.inl h)
        · exact Or.inl h
        · exact Or.inr (Or.inr h)
      · rintro (h | h | h)
        · exact Or.inr (Or.inl h)
        · exact Or.inl h
        · exact Or.inr (Or.inr h)
    · simp only [List.mem_cons]

theorem mem_sortByName (x : FileEntry) (l : List FileEntry) : x ∈ sortByName l ↔ x ∈ l := by
  induction l with
  | nil => simp [sortByName]
  | cons g gs ih => simp only [sortByName, mem_insertByName, ih, List.mem_cons]

theorem mem_getFileList {d : Dir} {ext : Option Text} {rev : Bool} {f : FileEntry}
    (h : f ∈ getFileList d ext rev) : f ∈ d := by
  unfold getFileList at h
  simp only at h
  split at h
  · rw [List.mem_reverse, mem_sortByName] at h; exact (List.mem_filter.mp h).1
  · rw [mem_sortByName] at h; exact (List.mem_filter.mp h).1

/-! ### `--plid` -/

theorem plid_filter_eq (env : Env) (cfg : SelCfg) (v : Nat) (hv : v < 2 ^ 32) (files : List FileEntry)
    (hpl : ∀ f ∈ files, ∀ sm plid src, parseSummary env cfg f.data = .summary sm plid src → plid < 2 ^ 32) :
    ((files.map (fun f => (f, summaryOf env cfg f))).filterMap (fun p => match p.2 with
      | .some (sm, plid, _) => if hexFix 8 v = fmtHex 8 plid then some (p.1, sm) else none
      | _ => none)).map (·.2) =
    files.filterMap (fun f => match parseSummary env cfg f.data with
      | .summary sm plid _ => if plid = v then some sm else none
      | _ => none) := by
  induction files with
  | nil => rfl
  | cons f fs ih =>
    have ih' := ih (fun g hg => hpl g (List.mem_cons_of_mem _ hg))
    simp only [List.map_cons, List.filterMap_cons]
    cases hps : parseSummary env cfg f.data with
    | summary sm plid src =>
      have hs : summaryOf env cfg f = .some (sm, plid, src) := by simp only [summaryOf, hps]
      have hb := hpl f (by simp) sm plid src hps
      rw [hs]
      simp only []
      by_cases hvp : plid = v
      · have : hexFix 8 v = fmtHex 8 plid := (hexFix8_eq_fmtHex_iff v plid hv hb).mpr hvp.symm
        rw [if_pos this, if_pos hvp]
        simp only [List.map_cons]
        rw [ih']
      · have : ¬ hexFix 8 v = fmtHex 8 plid := fun h => hvp ((hexFix8_eq_fmtHex_iff v plid hv hb).mp h).symm
        rw [if_neg this, if_neg hvp]
        exact ih'
    | filtered =>
      have hs : summaryOf env cfg f = .skip := by simp only [summaryOf, hps]
      rw [hs]; simp only []; exact ih'
    | badHeader =>
      have hs : summaryOf env cfg f = .skip := by simp only [summaryOf, hps]
      rw [hs]; simp only []; exact ih'
    | error e =>
      have hs : summaryOf env cfg f = .diag := by simp only [summaryOf, hps]
      rw [hs]; simp only []; exact ih'

/-! ### `--src` -/

theorem srcMode_stdout (env : Env) (o : CliOpts) (needle : Text) (d : Dir) (hn : needle ≠ []) (hl : needle.length ≤ 32)
    (hnohex : o.hex = false) :
    (srcMode env o (some needle) none d).stdout = prettyPrint 29 (dumps (summaryObj
      ((getFileList d o.ext o.rev).filterMap fun f =>
        match parseSummary env { o.cfg with lookup := true } f.data with
        | .summary sm _ (some rc) => if isInfix needle rc then some sm else none
        | _ => none))) ++ nl := by
  have hl' : ¬ (needle.length > 32) := by omega
  simp only [srcMode, hl', decide_false, Bool.false_eq_true, if_false, hnohex, hn, ne_eq, not_false_eq_true, true_and,
    List.append_nil]
  generalize getFileList d o.ext o.rev = files
  generalize SelCfg.mk _ _ _ _ _ _ _ _ = cfg
  congr 4
  induction files with
  | nil => rfl
  | cons f fs ih =>
    simp only [List.map_cons, List.filterMap_cons]
    cases hps : parseSummary env cfg f.data with
    | summary sm plid src =>
      have hs : summaryOf env cfg f = .some (sm, plid, src) := by simp only [summaryOf, hps]
      rw [hs]
      cases src with
      | none => simp only []; exact ih
      | some rc =>
        simp only []
        by_cases hi : isInfix needle rc = true
        · rw [if_pos hi, if_pos hi]
          simp only [List.flatMap_cons, List.cons_append, List.nil_append]
          rw [ih]
        · rw [if_neg hi, if_neg hi]
          simp only [List.flatMap_cons, List.nil_append]
          exact ih
    | filtered =>
      have hs : summaryOf env cfg f = .skip := by simp only [summaryOf, hps]
      rw [hs]; simp only []; exact ih
    | badHeader =>
      have hs : summaryOf env cfg f = .skip := by simp only [summaryOf, hps]
      rw [hs]; simp only []; exact ih
    | error e =>
      have hs : summaryOf env cfg f = .diag := by simp only [summaryOf, hps]
      rw [hs]; simp only []; exact ih

/-! ### `--bmc-id` -/

theorem bmcReader_ok (env : Env) (b : Bytes) (id : Nat) (rest : Bytes)
    (h : (do
      let h1 ← parseHeader
      if h1.id ≠ sidPH then pure none else do
      let (_, ph) ← decodePH env.T h1
      pure (some ph.obmcLogID) : Rd (Option Nat)) b = .ok (some id, rest)) :
    ∃ j ph, (do let h1 ← parseHeader; decodePH env.T h1) b = .ok ((j, ph), rest) ∧ ph.obmcLogID = id := by
  simp only [bind, StateT.bind, Except.bind] at h ⊢
  cases hph : parseHeader b with
  | error e => rw [hph] at h; simp only [] at h; cases h
  | ok a =>
    obtain ⟨h1, st1⟩ := a
    rw [hph] at h
    simp only [] at h ⊢
    by_cases hid : h1.id = sidPH
    · simp only [hid, ne_eq, not_true_eq_false, if_false] at h
      cases hd : decodePH env.T h1 st1 with
      | error e => simp only [bind, StateT.bind, Except.bind, hd] at h; cases h
      | ok a2 =>
        obtain ⟨⟨j, ph⟩, st2⟩ := a2
        simp only [bind, StateT.bind, Except.bind, hd] at h
        simp only [pure, StateT.pure, Except.pure, Except.ok.injEq, Prod.mk.injEq, Option.some.injEq] at h
        exact ⟨j, ph, by rw [h.2], h.1⟩
    · simp only [ne_eq, hid, not_false_eq_true, if_true, pure, StateT.pure, Except.pure, Except.ok.injEq, Prod.mk.injEq] at h
      cases h.1

theorem bmcIdGo_notfound (env : Env) (o : CliOpts) (n : Text) (d : Dir) (errs : Nat)
    (h : ∀ f ∈ d, ∀ j ph rest, (do let h1 ← parseHeader; decodePH env.T h1) f.data = .ok ((j, ph), rest) → natDec ph.obmcLogID ≠ n) :
    (bmcIdGo env o n d errs).stdout = s "PEL not found\n" := by
  induction d generalizing errs with
  | nil => rfl
  | cons f fs ih =>
    have ih' := fun e => ih e (fun g hg => h g (List.mem_cons_of_mem _ hg))
    simp only [bmcIdGo]
    split
    · rename_i id rest heq
      obtain ⟨j, ph, hr, hid⟩ := bmcReader_ok env f.data id rest heq
      have hne : natDec id ≠ n := by rw [← hid]; exact h f (by simp) j ph rest hr
      rw [if_neg hne]
      exact ih' _
    · exact ih' _

end Pel
