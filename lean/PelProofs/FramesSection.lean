import PelProofs.FramesDefs
import PelProofs.FramesSimple
import PelProofs.FramesSrc
/- One optional section of any kind: exact framing and prefix rejection (assembled from the per-kind lemmas). -/
namespace Pel

/-! ### the dispatch of `decodeSection` on a header with a known id -/

theorem decodeSection_SRC (env : Env) (creator : Text) (id len : Nat) (h : AHdr) (hid : id = sidPS ∨ id = sidSS) :
    decodeSection env creator (mkSecHdr id len h) =
      (decodeSRC env.T env.src (mkSecHdr id len h) creator env.allowPlugins >>= fun p => pure (p.1, some p.2)) := by
  unfold decodeSection
  rw [if_pos (show (mkSecHdr id len h).id = sidPS ∨ (mkSecHdr id len h).id = sidSS from hid)]

theorem decodeSection_EH (env : Env) (creator : Text) (len : Nat) (h : AHdr) :
    decodeSection env creator (mkSecHdr sidEH len h) =
      (decodeEH env.T (mkSecHdr sidEH len h) creator >>= fun j => pure (j, none)) := by
  have e : (mkSecHdr sidEH len h).id = sidEH := rfl
  unfold decodeSection
  rw [e]
  rw [if_neg (show ¬(sidEH = sidPS ∨ sidEH = sidSS) by decide),
    if_pos (show sidEH = sidEH from rfl)]

theorem decodeSection_MT (env : Env) (creator : Text) (len : Nat) (h : AHdr) :
    decodeSection env creator (mkSecHdr sidMT len h) =
      (decodeMT env.T (mkSecHdr sidMT len h) creator >>= fun j => pure (j, none)) := by
  have e : (mkSecHdr sidMT len h).id = sidMT := rfl
  unfold decodeSection
  rw [e]
  rw [if_neg (show ¬(sidMT = sidPS ∨ sidMT = sidSS) by decide),
    if_neg (show ¬(sidMT = sidEH) by decide),
    if_pos (show sidMT = sidMT from rfl)]

theorem decodeSection_ED (env : Env) (creator : Text) (len : Nat) (h : AHdr) :
    decodeSection env creator (mkSecHdr sidED len h) =
      (decodeED env.T env.ud env.allowPlugins (mkSecHdr sidED len h) >>= fun j => pure (j, none)) := by
  have e : (mkSecHdr sidED len h).id = sidED := rfl
  unfold decodeSection
  rw [e]
  rw [if_neg (show ¬(sidED = sidPS ∨ sidED = sidSS) by decide),
    if_neg (show ¬(sidED = sidEH) by decide),
    if_neg (show ¬(sidED = sidMT) by decide),
    if_pos (show sidED = sidED from rfl)]

theorem decodeSection_UD (env : Env) (creator : Text) (len : Nat) (h : AHdr) :
    decodeSection env creator (mkSecHdr sidUD len h) =
      (decodeUD env.T env.ud env.allowPlugins (mkSecHdr sidUD len h) creator >>= fun j => pure (j, none)) := by
  have e : (mkSecHdr sidUD len h).id = sidUD := rfl
  unfold decodeSection
  rw [e]
  rw [if_neg (show ¬(sidUD = sidPS ∨ sidUD = sidSS) by decide),
    if_neg (show ¬(sidUD = sidEH) by decide),
    if_neg (show ¬(sidUD = sidMT) by decide),
    if_neg (show ¬(sidUD = sidED) by decide),
    if_pos (show sidUD = sidUD from rfl)]

theorem decodeSection_LP (env : Env) (creator : Text) (len : Nat) (h : AHdr) :
    decodeSection env creator (mkSecHdr sidLP len h) =
      (decodeLP env.T (mkSecHdr sidLP len h) creator >>= fun j => pure (j, none)) := by
  have e : (mkSecHdr sidLP len h).id = sidLP := rfl
  unfold decodeSection
  rw [e]
  rw [if_neg (show ¬(sidLP = sidPS ∨ sidLP = sidSS) by decide),
    if_neg (show ¬(sidLP = sidEH) by decide),
    if_neg (show ¬(sidLP = sidMT) by decide),
    if_neg (show ¬(sidLP = sidED) by decide),
    if_neg (show ¬(sidLP = sidUD) by decide),
    if_pos (show sidLP = sidLP from rfl)]

theorem isSpecialId_false (id : Nat) (h : isSpecialId id = false) :
    id ≠ sidPS ∧ id ≠ sidSS ∧ id ≠ sidEH ∧ id ≠ sidMT ∧ id ≠ sidLP ∧ id ≠ sidUD ∧ id ≠ sidED := by
  simp only [isSpecialId, Bool.or_eq_false_iff, beq_eq_false_iff_ne, ne_eq] at h
  obtain ⟨⟨⟨⟨⟨⟨⟨⟨_, _⟩, h3⟩, h4⟩, h5⟩, h6⟩, h7⟩, h8⟩, h9⟩ := h
  exact ⟨h3, h4, h5, h6, h7, h8, h9⟩

theorem decodeSection_other (env : Env) (creator : Text) (id len : Nat) (h : AHdr) (hid : isSpecialId id = false) :
    decodeSection env creator (mkSecHdr id len h) =
      (decodeDefault (mkSecHdr id len h) >>= fun j => pure (j, none)) := by
  obtain ⟨h1, h2, h3, h4, h5, h6, h7⟩ := isSpecialId_false id hid
  unfold decodeSection
  rw [if_neg (show ¬((mkSecHdr id len h).id = sidPS ∨ (mkSecHdr id len h).id = sidSS) from
        fun hh => hh.elim h1 h2),
    if_neg (show ¬((mkSecHdr id len h).id = sidEH) from h3),
    if_neg (show ¬((mkSecHdr id len h).id = sidMT) from h4),
    if_neg (show ¬((mkSecHdr id len h).id = sidED) from h7),
    if_neg (show ¬((mkSecHdr id len h).id = sidUD) from h6),
    if_neg (show ¬((mkSecHdr id len h).id = sidLP) from h5)]

/-! ### from a framed consumer to a framed section -/

/-- a consumer `r` framing the body, wrapped by the dispatch as `do let j ← r; pure (j, none)` -/
theorem Frames.wrapNone {r : Rd J} {body : Bytes} {j : J} (h : Frames r body j) :
    Frames (r >>= fun j => (Pure.pure (j, (none : Option Text)) : Rd (J × Option Text))) body (j, none) :=
  Frames.of_eq (Frames.bind h (Frames.pure _)) (List.append_nil _) rfl

/-- header followed by the consumer chosen by the id -/
theorem frames_decodeOne (env : Env) (creator : Text) (id : Nat) (hdr : AHdr) (body : Bytes) (j : J) (o : Option Text)
    (hw : hdr.WF) (hid : id < 65536) (hl : 8 + body.length < 65536)
    (hf : Frames (decodeSection env creator (mkSecHdr id (8 + body.length) hdr)) body (j, o)) :
    Frames (decodeOne env creator) (encHdr id body.length hdr ++ body) (sectionName env.T id, j) := by
  unfold decodeOne
  refine Frames.bind (frames_parseHeader id body.length hdr hw hid hl) ?_
  exact Frames.of_eq (Frames.bind hf (Frames.pure _)) (List.append_nil _) rfl

theorem frames_section (env : Env) (creator : Text) (sec : ASection) (hs : sec.WF) (j : J)
    (hr : renderSection env creator sec = .ok j) :
    Frames (decodeOne env creator) sec.enc (sectionName env.T sec.body.id, j) := by
  obtain ⟨hdr, body⟩ := sec
  obtain ⟨hw, hb, hl⟩ := hs
  simp only at hw hb hl
  unfold ASection.enc
  cases body with
  | src primary x =>
    simp only [renderSection] at hr
    split at hr
    · rename_i hd
      cases hr
      have hx : x.WF := hb
      have hid : (ABody.src primary x).id = sidPS ∨ (ABody.src primary x).id = sidSS := by
        cases primary
        · exact Or.inr rfl
        · exact Or.inl rfl
      refine frames_decodeOne env creator _ hdr _ _ (some (stripSp x.ascii)) hw ?_ hl ?_
      · rcases hid with h | h <;> rw [h] <;> decide
      · rw [decodeSection_SRC env creator _ _ hdr hid]
        have hsrc : Frames (decodeSRC env.T env.src (mkSecHdr (ABody.src primary x).id
            (8 + (ABody.src primary x).enc.length) hdr) creator env.allowPlugins) x.encBody
            (renderSrc env.T env.src hdr creator env.allowPlugins x, stripSp x.ascii) :=
          ⟨fun rest => exact_SRC env.T env.src hdr creator env.allowPlugins x hx _ _ hd rest,
           fun k hk => strict_SRC env.T env.src hdr creator env.allowPlugins x hx _ _ k hk⟩
        exact Frames.of_eq (Frames.bind hsrc (Frames.pure _)) (List.append_nil _) rfl
    · cases hr
  | eh e =>
    simp only [renderSection] at hr
    cases hr
    refine frames_decodeOne env creator sidEH hdr _ _ none hw (by decide) hl ?_
    rw [decodeSection_EH]
    exact Frames.wrapNone (frames_EH env.T hdr creator e hb _ _)
  | mt m =>
    simp only [renderSection] at hr
    cases hr
    refine frames_decodeOne env creator sidMT hdr _ _ none hw (by decide) hl ?_
    rw [decodeSection_MT]
    exact Frames.wrapNone (frames_MT env.T hdr creator m hb _ _)
  | lp l =>
    simp only [renderSection] at hr
    cases hr
    refine frames_decodeOne env creator sidLP hdr _ _ none hw (by decide) hl ?_
    rw [decodeSection_LP]
    exact Frames.wrapNone (frames_LP env.T hdr creator l hb _ _)
  | ud p =>
    simp only [renderSection] at hr
    obtain ⟨hp, _⟩ := hb
    refine frames_decodeOne env creator sidUD hdr _ _ none hw (by decide) hl ?_
    rw [decodeSection_UD]
    exact Frames.wrapNone (frames_UD env hdr creator p hp j hr)
  | ed c r1 r2 p =>
    simp only [renderSection] at hr
    obtain ⟨hc, h1, h2, hp, _⟩ := hb
    refine frames_decodeOne env creator sidED hdr _ _ none hw (by decide) hl ?_
    rw [decodeSection_ED]
    have hlen : 8 + (ABody.ed c r1 r2 p).enc.length = 12 + p.length := by
      simp only [ABody.enc, List.length_append, toBE_length, List.length_cons, List.length_nil]; omega
    rw [hlen]
    exact Frames.wrapNone (frames_ED env hdr c r1 r2 p hc h1 h2 hp j hr)
  | other id p =>
    simp only [renderSection] at hr
    cases hr
    obtain ⟨hid, hsp, hp, _⟩ := hb
    refine frames_decodeOne env creator id hdr _ _ none hw hid hl ?_
    rw [decodeSection_other env creator id _ hdr hsp]
    exact Frames.wrapNone (frames_Default hdr id p hp)

end Pel
