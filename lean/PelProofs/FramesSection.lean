import PelProofs.FramesDefs
import PelProofs.FramesSimple
import PelProofs.FramesSrc
/- One optional section of any kind: exact framing and prefix rejection (assembled from the per-kind lemmas). -/
namespace Pel

theorem frames_section (env : Env) (creator : Text) (sec : ASection) (hs : sec.WF) (j : J)
    (hr : renderSection env creator sec = .ok j) :
    Frames (decodeOne env creator) sec.enc (sectionName env.T sec.body.id, j) := by
  sorry

end Pel
