import PelModel.TransOe500
import PelProofs.HwDiags
import PelProofs.Hlog
import PelProofs.TieIoDrawer
/-
  Lemmas for the source tie of the hardware-diagnostics parser modules (PelProps/TieC20.lean, second half;
  generated side: lean/PelGen/GenOe500.lean, vocabulary: lean/PelModel/TransOe500.lean).

  * `EqOn P p q`: two readers agree on every state that satisfies `P`; `Keeps P r`: `r` leaves `P` intact.  `P` is either
    `fun _ => True` (plain equality) or `allBytes` (every element of the input is a byte: then `get_int(n)` is below `256^n`
    and the range assertions of `ParserData` hold).  Congruence rules for `>>=` that hand the continuation what a read
    guarantees (length of `get_mem(n)`, bound of `get_int(n)`).
  * loops: `forRangeRd 0 n` over a body that does not look at the counter is `rdRepeat` + a fold of the results.
  * the model side: `readSigs` / `readRegs` / `readChips` as `rdRepeat` of one step; `oe500Ud` in the `Oe.out` form.
-/
set_option linter.unusedVariables false
set_option linter.unusedSimpArgs false
namespace Pel.Oe
open Pel

/-! ### readers, pointwise -/

theorem run_bind {α β} (x : Rd α) (f : α → Rd β) (st : Bytes) :
    (x >>= f) st = match x st with | .ok (a, st') => f a st' | .error e => .error e := by
  cases h : x st with
  | ok p => obtain ⟨a, st'⟩ := p; exact bind_ok x f st st' a h
  | error e => exact bind_err x f st e h

theorem run_pure {α} (a : α) (st : Bytes) : (pure a : Rd α) st = .ok (a, st) := rfl

def EqOn {α} (P : Bytes → Prop) (p q : Rd α) : Prop := ∀ st, P st → p st = q st
def Keeps {α} (P : Bytes → Prop) (r : Rd α) : Prop := ∀ st x st', P st → r st = .ok (x, st') → P st'
/-- `P` holds for every suffix of a state it holds for -/
def Suffix (P : Bytes → Prop) : Prop := ∀ st n, P st → P (st.drop n)

theorem suffix_true : Suffix (fun _ => True) := fun _ _ _ => trivial
theorem suffix_allBytes : Suffix (fun st => allBytes st = true) := by
  intro st n h
  simp only [allBytes, List.all_eq_true] at *
  intro x hx
  exact h x (List.mem_of_mem_drop hx)

theorem EqOn.refl {α} {P : Bytes → Prop} {p : Rd α} : EqOn P p p := fun _ _ => Eq.refl _
theorem EqOn.of_eq {α} {P : Bytes → Prop} {p q : Rd α} (h : p = q) : EqOn P p q := h ▸ EqOn.refl
theorem EqOn.symm {α} {P : Bytes → Prop} {p q : Rd α} (h : EqOn P p q) : EqOn P q p := fun st hs => (h st hs).symm
theorem EqOn.trans {α} {P : Bytes → Prop} {p q r : Rd α} (h1 : EqOn P p q) (h2 : EqOn P q r) : EqOn P p r :=
  fun st hs => (h1 st hs).trans (h2 st hs)
theorem EqOn.eq {α} {p q : Rd α} (h : EqOn (fun _ => True) p q) : p = q := funext fun st => h st trivial

theorem EqOn.bind {α β} {P : Bytes → Prop} {p q : Rd α} {f g : α → Rd β}
    (hp : EqOn P p q) (hk : Keeps P q) (hf : ∀ x, EqOn P (f x) (g x)) : EqOn P (p >>= f) (q >>= g) := by
  intro st hs
  rw [run_bind, run_bind, hp st hs]
  cases h : q st with
  | error e => rfl
  | ok r => obtain ⟨a, st'⟩ := r; exact hf a st' (hk st a st' hs h)

theorem Keeps.pure {α} {P : Bytes → Prop} (a : α) : Keeps P (pure a : Rd α) := by
  intro st x st' hs h
  cases h; exact hs

theorem Keeps.fail {α} {P : Bytes → Prop} (e : Err) : Keeps P (Rd.fail e : Rd α) := by
  intro st x st' hs h; cases h

theorem Keeps.rdOfOption {α} {P : Bytes → Prop} (o : Option α) : Keeps P (rdOfOption o) := by
  cases o with
  | none => exact Keeps.fail _
  | some a => exact Keeps.pure a

theorem Keeps.bind {α β} {P : Bytes → Prop} {r : Rd α} {f : α → Rd β} (hr : Keeps P r) (hf : ∀ a, Keeps P (f a)) :
    Keeps P (r >>= f) := by
  intro st x st' hs h
  rw [run_bind] at h
  cases h1 : r st with
  | error e => rw [h1] at h; cases h
  | ok p =>
    obtain ⟨a, st1⟩ := p
    rw [h1] at h
    exact hf a st1 x st' (hr st a st1 hs h1) h

theorem getMem_ok_iff (n : Nat) (st : Bytes) (a st' : Bytes) (h : getMem n st = .ok (a, st')) :
    a = st.take n ∧ st' = st.drop n ∧ a.length = n ∧ 0 < n := by
  unfold getMem at h
  by_cases h0 : n = 0
  · simp [h0] at h
  · by_cases h1 : n ≤ st.length
    · simp [h0, h1] at h
      refine ⟨h.1.symm, h.2.symm, ?_, by omega⟩
      rw [← h.1, List.length_take]; omega
    · simp [h0, h1] at h

theorem Keeps.getMem {P : Bytes → Prop} (hP : Suffix P) (n : Nat) : Keeps P (getMem n) := by
  intro st a st' hs h
  obtain ⟨_, h2, _, _⟩ := getMem_ok_iff n st a st' h
  rw [h2]; exact hP st n hs

theorem Keeps.getInt {P : Bytes → Prop} (hP : Suffix P) (n : Nat) : Keeps P (getInt n) :=
  Keeps.bind (Keeps.getMem hP n) (fun _ => Keeps.pure _)

theorem Keeps.rdRepeat {α} {P : Bytes → Prop} {r : Rd α} (hr : Keeps P r) : ∀ n, Keeps P (rdRepeat r n)
  | 0 => Keeps.pure _
  | n+1 => Keeps.bind hr (fun _ => Keeps.bind (Keeps.rdRepeat hr n) (fun _ => Keeps.pure _))

/-- what `get_mem(n)` hands on has `n` elements -/
theorem EqOn.bind_getMem {β} {P : Bytes → Prop} (hP : Suffix P) (n : Nat) {f g : Bytes → Rd β}
    (hf : ∀ a, a.length = n → EqOn P (f a) (g a)) : EqOn P (getMem n >>= f) (getMem n >>= g) := by
  intro st hs
  rw [run_bind, run_bind]
  cases h : getMem n st with
  | error e => rfl
  | ok r =>
    obtain ⟨a, st'⟩ := r
    obtain ⟨_, h2, h3, _⟩ := getMem_ok_iff n st a st' h
    exact hf a h3 st' (h2 ▸ hP st n hs)

/-- what `get_int(n)` hands on is below `256^n` when the input consists of bytes -/
theorem EqOn.bind_getInt {β} (n : Nat) {f g : Nat → Rd β}
    (hf : ∀ v, v < 256 ^ n → EqOn (fun st => allBytes st = true) (f v) (g v)) :
    EqOn (fun st => allBytes st = true) (getInt n >>= f) (getInt n >>= g) := by
  intro st hs
  rw [run_bind, run_bind]
  cases h : getInt n st with
  | error e => rfl
  | ok r =>
    obtain ⟨v, st'⟩ := r
    have hg : getInt n st = (getMem n >>= fun m => pure (fromBE m)) st := rfl
    rw [hg, run_bind] at h
    cases h1 : getMem n st with
    | error e => rw [h1] at h; cases h
    | ok r1 =>
      obtain ⟨a, st1⟩ := r1
      rw [h1] at h
      obtain ⟨ha, h2, h3, _⟩ := getMem_ok_iff n st a st1 h1
      have hv : v = fromBE a ∧ st' = st1 := by
        have : (Except.ok (fromBE a, st1) : Except Err (Nat × Bytes)) = .ok (v, st') := h
        cases this; exact ⟨rfl, rfl⟩
      have hb : ∀ x ∈ a, x < 256 := by
        intro x hx
        rw [ha] at hx
        have := hs
        simp only [allBytes, List.all_eq_true, decide_eq_true_eq] at this
        exact this x (List.mem_of_mem_take hx)
      have hlt := fromBE_lt a hb
      rw [h3] at hlt
      rw [hv.1, hv.2]
      exact hf (fromBE a) hlt st1 (h2 ▸ suffix_allBytes st n hs)

/-- the same without the bound (any `P`) -/
theorem EqOn.bind_getInt' {β} {P : Bytes → Prop} (hP : Suffix P) (n : Nat) {f g : Nat → Rd β}
    (hf : ∀ v, EqOn P (f v) (g v)) : EqOn P (getInt n >>= f) (getInt n >>= g) :=
  EqOn.bind EqOn.refl (Keeps.getInt hP n) hf

/-! ### loops -/

theorem foldl_snoc {α} (xs acc : List α) : xs.foldl (fun a x => a ++ [x]) acc = acc ++ xs := by
  induction xs generalizing acc with
  | nil => simp
  | cons x xs ih => simp [ih]

theorem foldl_append_flatten {α} (xss : List (List α)) (acc : List α) : xss.foldl (fun a xs => a ++ xs) acc = acc ++ xss.flatten := by
  induction xss generalizing acc with
  | nil => simp
  | cons x xs ih => simp [ih]

/-- a counted loop whose body does not look at the counter: the per-iteration reader `r`, run once per element, and the
    results folded into the state -/
theorem foldlM_fold {α β} {P : Bytes → Prop} (r : Rd β) (hr : Keeps P r) (g : α → β → α) (B : Nat → α → Rd α)
    (hB : ∀ i acc, EqOn P (B i acc) (r >>= fun x => pure (g acc x))) :
    ∀ (l : List Nat) (acc : α), EqOn P (l.foldlM (fun a i => B i a) acc) (rdRepeat r l.length >>= fun xs => pure (xs.foldl g acc)) := by
  intro l
  induction l with
  | nil => intro acc; exact EqOn.of_eq (by simp [rdRepeat])
  | cons i l ih =>
    intro acc
    have e1 : (i :: l).foldlM (fun a i => B i a) acc = B i acc >>= fun a' => l.foldlM (fun a i => B i a) a' := by
      simp [List.foldlM_cons]
    have e2 : (rdRepeat r (i :: l).length >>= fun xs => pure (xs.foldl g acc) : Rd α)
        = (r >>= fun x => pure (g acc x)) >>= fun a' => (rdRepeat r l.length >>= fun xs => pure (xs.foldl g a')) := by
      simp [rdRepeat, List.length_cons, bind_assoc]
    rw [e1, e2]
    exact EqOn.bind (hB i acc) (Keeps.bind hr (fun _ => Keeps.pure _)) (fun a' => ih a')

theorem forRange_fold {α β} {P : Bytes → Prop} (r : Rd β) (hr : Keeps P r) (g : α → β → α) (B : Nat → α → Rd α)
    (hB : ∀ i acc, EqOn P (B i acc) (r >>= fun x => pure (g acc x))) (n : Nat) (acc : α) :
    EqOn P (forRangeRd 0 n B acc) (rdRepeat r n >>= fun xs => pure (xs.foldl g acc)) := by
  have := foldlM_fold r hr g B hB (List.range n) acc
  simpa [forRangeRd, List.length_range] using this

/-- `for ..: L.append(<one value>)` -/
theorem forRange_collect {β} {P : Bytes → Prop} (r : Rd β) (hr : Keeps P r) (B : Nat → List β → Rd (List β))
    (hB : ∀ i acc, EqOn P (B i acc) (r >>= fun x => pure (acc ++ [x]))) (n : Nat) (acc : List β) :
    EqOn P (forRangeRd 0 n B acc) (rdRepeat r n >>= fun xs => pure (acc ++ xs)) := by
  have := forRange_fold r hr (fun a x => a ++ [x]) B hB n acc
  simp only [foldl_snoc] at this
  exact this

/-- `for ..: L.append(..); for ..: L.append(..)`: every iteration adds a list -/
theorem forRange_extend {β} {P : Bytes → Prop} (r : Rd (List β)) (hr : Keeps P r) (B : Nat → List β → Rd (List β))
    (hB : ∀ i acc, EqOn P (B i acc) (r >>= fun xs => pure (acc ++ xs))) (n : Nat) (acc : List β) :
    EqOn P (forRangeRd 0 n B acc) (rdRepeat r n >>= fun xss => pure (acc ++ xss.flatten)) := by
  have := forRange_fold r hr (fun a xs => a ++ xs) B hB n acc
  simp only [foldl_append_flatten] at this
  exact this

/-! ### `Oe.out` -/

theorem out_tail (p : PluginOut) : out (tail p) = p := by cases p <;> rfl

theorem out_ite (c : Prop) [Decidable c] (a b : Rd J) : out (if c then a else b) = if c then out a else out b := by
  split <;> rfl

theorem open_bind {α} (data st : Bytes) (r : Rd α) : (Oe.open data >>= fun _ => r) st = r data := by
  rw [run_bind]; rfl

theorem out_open_congr {P : Bytes → Prop} (data : Bytes) (hd : P data) {p q : Rd J} (h : EqOn P p q) :
    out (Oe.open data >>= fun _ => p) = out (Oe.open data >>= fun _ => q) := by
  simp only [out, open_bind, h data hd]

def NoUnsup {α} (r : Rd α) : Prop := ∀ st, r st ≠ .error .unsupported

theorem NoUnsup.pure {α} (a : α) : NoUnsup (pure a : Rd α) := fun st h => by cases h
theorem NoUnsup.getMem (n : Nat) : NoUnsup (getMem n) := by
  intro st h
  unfold Pel.getMem at h
  split at h
  · cases h
  · split at h <;> cases h
theorem NoUnsup.bind {α β} {r : Rd α} {f : α → Rd β} (hr : NoUnsup r) (hf : ∀ a, NoUnsup (f a)) : NoUnsup (r >>= f) := by
  intro st h
  rw [run_bind] at h
  cases h1 : r st with
  | error e => rw [h1] at h; cases h; exact hr st h1
  | ok p => obtain ⟨a, st'⟩ := p; rw [h1] at h; exact hf a st' h
theorem NoUnsup.getInt (n : Nat) : NoUnsup (getInt n) := NoUnsup.bind (NoUnsup.getMem n) (fun _ => NoUnsup.pure _)
theorem NoUnsup.rdRepeat {α} {r : Rd α} (hr : NoUnsup r) : ∀ n, NoUnsup (rdRepeat r n)
  | 0 => NoUnsup.pure _
  | n+1 => NoUnsup.bind hr (fun _ => NoUnsup.bind (NoUnsup.rdRepeat hr n) (fun _ => NoUnsup.pure _))

/-- the way `oe500Ud` runs a reader on the section data (`run` in PelModel/HwDiags.lean), in the vocabulary of the generated side -/
theorem run_eq_out {α} (r : Rd α) (hr : NoUnsup r) (f : α → PluginOut) (data : Bytes) :
    (match r data with | .ok (x, _) => f x | .error _ => PluginOut.raises) = out (Oe.open data >>= fun _ => r >>= fun x => tail (f x)) := by
  unfold out
  rw [open_bind, run_bind]
  cases h : r data with
  | error e =>
    cases e
    case unsupported => exact absurd h (hr data)
    all_goals rfl
  | ok p =>
    obtain ⟨x, st'⟩ := p
    show f x = _
    cases hf : f x <;> simp only [tail, hf] <;> rfl

/-! ### the model's recursive readers as `rdRepeat` of one step -/

def sigStep (cd : List ChipData) : Rd J := do
  let a ← getMem 4; let b ← getMem 4; let c ← getMem 4
  pure (getSignature cd (bytesHexL a) (bytesHexL b) (bytesHexL c))

theorem readSigs_eq (cd : List ChipData) : ∀ n, readSigs cd n = rdRepeat (sigStep cd) n
  | 0 => rfl
  | n+1 => by simp only [readSigs, rdRepeat, sigStep, readSigs_eq cd n, bind_assoc, pure_bind]

/-- one line of the register dump -/
def regLineOf (cd : List ChipData) (ec : Text) (rid : Bytes) (inst : Nat) (buf : Bytes) : Text :=
  s "  " ++ ljust 25 32 ((regData cd ec (bytesHexL rid) inst).1.take 25) ++ s " (" ++ (regData cd ec (bytesHexL rid) inst).2 ++ s ") " ++
    upperT (joinWith [32] (chunk4 ((bytesHexL buf).length + 1) (bytesHexL buf)))

def regStep (cd : List ChipData) (ec : Text) : Rd Text := do
  let rid ← getMem 3
  let inst ← getInt 1
  let size ← getInt 1
  let buf ← getMem size
  pure (regLineOf cd ec rid inst buf)

theorem readRegs_eq (cd : List ChipData) (ec : Text) : ∀ n, readRegs cd ec n = rdRepeat (regStep cd ec) n
  | 0 => rfl
  | n+1 => by
    simp only [readRegs, rdRepeat, regStep, readRegs_eq cd ec n, bind_assoc, pure_bind, regLineOf]

def chipHead (cd : List ChipData) (ec : Bytes) (chipPos nodePos : Nat) : Text :=
  ljust 60 42 (chipDesc cd (bytesHexL ec) nodePos chipPos ++ [32])

def chipStep (cd : List ChipData) : Rd (List Text) := do
  let ec ← getMem 4
  let chipPos ← getInt 2
  let nodePos ← getInt 1
  let numRegs ← getInt 4
  let regs ← rdRepeat (regStep cd (bytesHexL ec)) numRegs
  pure (chipHead cd ec chipPos nodePos :: regs)

theorem readChips_eq (cd : List ChipData) : ∀ n, readChips cd n = rdRepeat (chipStep cd) n >>= fun xss => pure xss.flatten
  | 0 => rfl
  | n+1 => by
    simp only [readChips, rdRepeat, chipStep, readChips_eq cd n, readRegs_eq, bind_assoc, pure_bind, chipHead,
      List.flatten_cons, List.cons_append]

theorem NoUnsup.sigStep (cd : List ChipData) : NoUnsup (sigStep cd) :=
  NoUnsup.bind (NoUnsup.getMem 4) fun _ => NoUnsup.bind (NoUnsup.getMem 4) fun _ => NoUnsup.bind (NoUnsup.getMem 4) fun _ => NoUnsup.pure _
theorem NoUnsup.regStep (cd : List ChipData) (ec : Text) : NoUnsup (regStep cd ec) :=
  NoUnsup.bind (NoUnsup.getMem 3) fun _ => NoUnsup.bind (NoUnsup.getInt 1) fun _ => NoUnsup.bind (NoUnsup.getInt 1) fun _ =>
    NoUnsup.bind (NoUnsup.getMem _) fun _ => NoUnsup.pure _
theorem NoUnsup.chipStep (cd : List ChipData) : NoUnsup (chipStep cd) :=
  NoUnsup.bind (NoUnsup.getMem 4) fun _ => NoUnsup.bind (NoUnsup.getInt 2) fun _ => NoUnsup.bind (NoUnsup.getInt 1) fun _ =>
    NoUnsup.bind (NoUnsup.getInt 4) fun _ => NoUnsup.bind (NoUnsup.rdRepeat (NoUnsup.regStep cd _) _) fun _ => NoUnsup.pure _

theorem Keeps.sigStep {P : Bytes → Prop} (hP : Suffix P) (cd : List ChipData) : Keeps P (sigStep cd) :=
  Keeps.bind (Keeps.getMem hP 4) fun _ => Keeps.bind (Keeps.getMem hP 4) fun _ => Keeps.bind (Keeps.getMem hP 4) fun _ => Keeps.pure _
theorem Keeps.regStep {P : Bytes → Prop} (hP : Suffix P) (cd : List ChipData) (ec : Text) : Keeps P (regStep cd ec) :=
  Keeps.bind (Keeps.getMem hP 3) fun _ => Keeps.bind (Keeps.getInt hP 1) fun _ => Keeps.bind (Keeps.getInt hP 1) fun _ =>
    Keeps.bind (Keeps.getMem hP _) fun _ => Keeps.pure _
theorem Keeps.chipStep {P : Bytes → Prop} (hP : Suffix P) (cd : List ChipData) : Keeps P (chipStep cd) :=
  Keeps.bind (Keeps.getMem hP 4) fun _ => Keeps.bind (Keeps.getInt hP 2) fun _ => Keeps.bind (Keeps.getInt hP 1) fun _ =>
    Keeps.bind (Keeps.getInt hP 4) fun _ => Keeps.bind (Keeps.rdRepeat (Keeps.regStep hP cd _) _) fun _ => Keeps.pure _

/-! ### `oe500Ud`, one sub-type at a time, in the `Oe.out` form -/

theorem oe500Ud_1_out (cd : List ChipData) (data : Bytes) :
    oe500Ud cd 1 data = out (Oe.open data >>= fun _ => getInt 4 >>= fun n => rdRepeat (sigStep cd) n >>= fun l =>
      pure (J.obj [(s "Signature List", .arr l)])) := by
  have := run_eq_out (getInt 4 >>= fun n => rdRepeat (sigStep cd) n)
    (NoUnsup.bind (NoUnsup.getInt 4) fun _ => NoUnsup.rdRepeat (NoUnsup.sigStep cd) _)
    (fun l => .json (.obj [(s "Signature List", .arr l)])) data
  simp only [tail, bind_assoc] at this
  rw [← this]
  simp only [oe500Ud, if_pos, readSigs_eq]
  rfl

theorem oe500Ud_2_out (cd : List ChipData) (data : Bytes) :
    oe500Ud cd 2 data = out (Oe.open data >>= fun _ => getInt 4 >>= fun n => rdRepeat (chipStep cd) n >>= fun xss =>
      pure (J.obj [(s "Register Dump", .arr (xss.flatten.map .str))])) := by
  have := run_eq_out (getInt 4 >>= fun n => rdRepeat (chipStep cd) n >>= fun xss => pure xss.flatten)
    (NoUnsup.bind (NoUnsup.getInt 4) fun _ => NoUnsup.bind (NoUnsup.rdRepeat (NoUnsup.chipStep cd) _) fun _ => NoUnsup.pure _)
    (fun l => .json (.obj [(s "Register Dump", .arr (l.map .str))])) data
  simp only [tail, bind_assoc, pure_bind] at this
  rw [← this]
  simp only [oe500Ud, readChips_eq]
  rfl

theorem oe500Ud_3_out (cd : List ChipData) (data : Bytes) :
    oe500Ud cd 3 data = out (decodeUtf8 (rstripChar 0 data) >>= fun t => jsonLoads t >>= fun j =>
      pure (J.obj [(s "Callout List FFDC", j)])) := by
  simp only [oe500Ud, show (3 : Nat) = 1 ↔ False by decide, show (3 : Nat) = 2 ↔ False by decide, if_false, if_true]
  unfold out decodeUtf8
  cases h1 : utf8Decode (rstripChar 0 data) with
  | none => rfl
  | some t =>
    simp only [pure_bind]
    unfold jsonLoads
    cases h2 : loads t <;> rfl

theorem oe500Ud_4_out (cd : List ChipData) (data : Bytes) :
    oe500Ud cd 4 data = out (Oe.open data >>= fun _ => getMem 4 >>= fun a => getMem 4 >>= fun b => getMem 8 >>= fun c => getMem 8 >>= fun d =>
      pure (J.obj [(s "Hostboot Scratch Registers",
        .obj (objSet [(s "0x" ++ bytesHexL a, .str (s "0x" ++ bytesHexL b))] (s "0x" ++ bytesHexL c) (.str (s "0x" ++ bytesHexL d))))])) := by
  have := run_eq_out (getMem 4 >>= fun a => getMem 4 >>= fun b => getMem 8 >>= fun c => getMem 8 >>= fun d => pure (a, b, c, d))
    (NoUnsup.bind (NoUnsup.getMem 4) fun _ => NoUnsup.bind (NoUnsup.getMem 4) fun _ => NoUnsup.bind (NoUnsup.getMem 8) fun _ =>
      NoUnsup.bind (NoUnsup.getMem 8) fun _ => NoUnsup.pure _)
    (fun x => .json (.obj [(s "Hostboot Scratch Registers",
      .obj (objSet [(s "0x" ++ bytesHexL x.1, .str (s "0x" ++ bytesHexL x.2.1))] (s "0x" ++ bytesHexL x.2.2.1) (.str (s "0x" ++ bytesHexL x.2.2.2))))])) data
  simp only [tail, bind_assoc, pure_bind] at this
  rw [← this]
  simp only [oe500Ud, show (4 : Nat) = 1 ↔ False by decide, show (4 : Nat) = 2 ↔ False by decide, show (4 : Nat) = 3 ↔ False by decide,
    if_false, if_true]
  rfl

theorem oe500Ud_5_out (cd : List ChipData) (data : Bytes) :
    oe500Ud cd 5 data = out (Oe.open data >>= fun _ => getMem 4 >>= fun a => getMem 4 >>= fun b =>
      pure (J.obj [(s "Scratch Register Error Signature",
        .obj [(s "Chip ID", .str (s "0x" ++ bytesHexL a)), (s "Signature ID", .str (s "0x" ++ bytesHexL b))])])) := by
  have := run_eq_out (getMem 4 >>= fun a => getMem 4 >>= fun b => pure (a, b))
    (NoUnsup.bind (NoUnsup.getMem 4) fun _ => NoUnsup.bind (NoUnsup.getMem 4) fun _ => NoUnsup.pure _)
    (fun x => .json (.obj [(s "Scratch Register Error Signature",
        .obj [(s "Chip ID", .str (s "0x" ++ bytesHexL x.1)), (s "Signature ID", .str (s "0x" ++ bytesHexL x.2))])])) data
  simp only [tail, bind_assoc, pure_bind] at this
  rw [← this]
  simp only [oe500Ud, show (5 : Nat) = 1 ↔ False by decide, show (5 : Nat) = 2 ↔ False by decide, show (5 : Nat) = 3 ↔ False by decide,
    show (5 : Nat) = 4 ↔ False by decide, if_false, if_true]
  rfl

theorem oe500Ud_other (cd : List ChipData) (sub : Nat) (data : Bytes)
    (h1 : sub ≠ 1) (h2 : sub ≠ 2) (h3 : sub ≠ 3) (h4 : sub ≠ 4) (h5 : sub ≠ 5) : oe500Ud cd sub data = out (pure J.null) := by
  simp only [oe500Ud, h1, h2, h3, h4, h5, if_false]
  rfl

/-! ### the assertions of `ParserData` hold on what the parser module passes -/

theorem isHexDigit_hexL (x : Nat) : isHexDigit (hexL x) = true := by
  unfold hexL isHexDigit
  split <;> simp <;> omega

theorem checkHex_bytesHexL (a : Bytes) (n : Nat) (h : a.length = n) : IoSem.checkHex (bytesHexL a) n = true := by
  rw [IoSem.checkHex_iff]
  refine ⟨by rw [bytesHexL_length, h], ?_⟩
  intro c hc
  simp only [bytesHexL, List.mem_flatMap, List.mem_cons, List.not_mem_nil, or_false] at hc
  obtain ⟨x, _, hx | hx⟩ := hc <;> (rw [hx]; exact isHexDigit_hexL _)

theorem checkInt_of_lt (v n : Nat) (h : v < 256 ^ n) : IoSem.checkInt v n = true := by
  simp only [IoSem.checkInt, decide_eq_true_eq]
  have : (2 : Nat) ^ (8 * n) = 256 ^ n := by rw [Nat.pow_mul]
  omega

theorem getSignatureA_hex (cd : List ChipData) (a b c : Bytes) (ha : a.length = 4) (hb : b.length = 4) (hc : c.length = 4) :
    IoSem.getSignatureA cd (bytesHexL a) (bytesHexL b) (bytesHexL c) = some (getSignature cd (bytesHexL a) (bytesHexL b) (bytesHexL c)) := by
  simp [IoSem.getSignatureA, checkHex_bytesHexL _ 4 ha, checkHex_bytesHexL _ 4 hb, checkHex_bytesHexL _ 4 hc]

theorem chipDescA_hex (cd : List ChipData) (ec : Bytes) (node chip : Nat) (he : ec.length = 4) (hn : node < 256 ^ 1) (hc : chip < 256 ^ 2) :
    IoSem.chipDescA cd (bytesHexL ec) node chip = some (chipDesc cd (bytesHexL ec) node chip) := by
  simp [IoSem.chipDescA, checkHex_bytesHexL _ 4 he, checkInt_of_lt _ 1 hn, checkInt_of_lt _ 2 hc]

theorem regDataA_hex (cd : List ChipData) (ec rid : Bytes) (inst : Nat) (he : ec.length = 4) (hr : rid.length = 3) (hi : inst < 256 ^ 1) :
    IoSem.regDataA cd (bytesHexL ec) (bytesHexL rid) inst = some (regData cd (bytesHexL ec) (bytesHexL rid) inst) := by
  simp [IoSem.regDataA, checkHex_bytesHexL _ 4 he, checkHex_bytesHexL _ 3 hr, checkInt_of_lt _ 1 hi]

theorem rdOfOption_some {α} (a : α) : rdOfOption (some a) = pure a := rfl

/-! ### the chunks of the data column -/

theorem foldl_snoc_map {α β} (f : α → β) (l : List α) (acc : List β) : l.foldl (fun st i => st ++ [f i]) acc = acc ++ l.map f := by
  induction l generalizing acc with
  | nil => simp
  | cons x l ih => simp [ih]

theorem pyRange4_pos (len : Nat) (hl : 0 < len) : pyRange 0 len 4 = 0 :: (pyRange 0 (len - 4) 4).map (· + 4) := by
  unfold pyRange
  have e : (len - 0 + (4 - 1)) / 4 = (len - 4 - 0 + (4 - 1)) / 4 + 1 := by omega
  rw [e, List.range_succ_eq_map]
  simp only [List.map_cons, List.map_map]
  congr 1
  apply List.map_congr_left
  intro j _
  simp only [Function.comp]
  omega

theorem chunk4_eq_slices : ∀ (fuel : Nat) (t : Text), t.length < fuel →
    chunk4 fuel t = (pyRange 0 t.length 4).map (fun i => IoSem.slice t i (i + 4))
  | 0, t, h => by omega
  | fuel+1, t, h => by
    unfold chunk4
    by_cases ht : t = []
    · subst ht; simp [pyRange]
    · have hl : 0 < t.length := List.length_pos_iff.mpr ht
      rw [if_neg ht, pyRange4_pos _ hl, chunk4_eq_slices fuel (t.drop 4) (by simp [List.length_drop]; omega)]
      simp only [List.map_cons, List.map_map, List.length_drop]
      congr 1
      apply List.map_congr_left
      intro i _
      simp only [Function.comp, IoSem.slice]
      show List.drop i (List.take (i + 4) (List.drop 4 t)) = List.drop (i + 4) (List.take (i + 4 + 4) t)
      rw [List.take_drop, List.drop_drop]
      have e1 : 4 + (i + 4) = i + 4 + 4 := by omega
      have e2 : 4 + i = i + 4 := by omega
      rw [e1, e2]

/-- `chunks = []; for i in range(0, len(t), 4): chunks.append(t[i : i + 4])` -/
theorem forPure_chunks (t : Text) (B : Nat → List Text → List Text) (hB : ∀ i st, B i st = st ++ [IoSem.slice t i (i + 4)]) :
    forPure 0 t.length 4 B [] = chunk4 (t.length + 1) t := by
  rw [chunk4_eq_slices _ t (Nat.lt_succ_self _)]
  unfold forPure
  have : (fun st i => B i st) = (fun st i => st ++ [IoSem.slice t i (i + 4)]) := by funext st i; exact hB i st
  rw [this, foldl_snoc_map]
  simp

/-! ### the two shapes "count, loop, return" -/

theorem counted_collect {β} {P : Bytes → Prop} (hP : Suffix P) (data : Bytes) (hd : P data) (w : Nat) (r : Rd β) (hr : Keeps P r)
    (B : Nat → Nat → List β → Rd (List β)) (hB : ∀ n i acc, EqOn P (B n i acc) (r >>= fun x => pure (acc ++ [x])))
    (fin fin' : List β → J) (hfin : ∀ l, fin l = fin' l) :
    out (Oe.open data >>= fun _ => getInt w >>= fun n => forRangeRd 0 n (B n) [] >>= fun l => pure (fin l))
      = out (Oe.open data >>= fun _ => getInt w >>= fun n => rdRepeat r n >>= fun l => pure (fin' l)) := by
  refine out_open_congr data hd (EqOn.bind_getInt' hP w fun n => ?_)
  have h1 := forRange_collect r hr (B n) (hB n) n []
  simp only [List.nil_append, bind_pure] at h1
  refine EqOn.bind h1 (Keeps.rdRepeat hr n) fun l => ?_
  rw [hfin l]; exact EqOn.refl

theorem counted_extend {β} {P : Bytes → Prop} (hP : Suffix P) (data : Bytes) (hd : P data) (w : Nat) (r : Rd (List β)) (hr : Keeps P r)
    (B : Nat → Nat → List β → Rd (List β)) (hB : ∀ n i acc, EqOn P (B n i acc) (r >>= fun xs => pure (acc ++ xs)))
    (fin fin' : List β → J) (hfin : ∀ l, fin l = fin' l) :
    out (Oe.open data >>= fun _ => getInt w >>= fun n => forRangeRd 0 n (B n) [] >>= fun l => pure (fin l))
      = out (Oe.open data >>= fun _ => getInt w >>= fun n => rdRepeat r n >>= fun xss => pure (fin' xss.flatten)) := by
  refine out_open_congr data hd (EqOn.bind_getInt' hP w fun n => ?_)
  have h1 := forRange_extend r hr (B n) (hB n) n []
  simp only [List.nil_append] at h1
  have h2 : (rdRepeat r n >>= fun xss => pure (fin' xss.flatten) : Rd J)
      = (rdRepeat r n >>= fun xss => pure xss.flatten) >>= fun l => pure (fin' l) := by simp [bind_assoc]
  rw [h2]
  refine EqOn.bind h1 (Keeps.bind (Keeps.rdRepeat hr n) fun _ => Keeps.pure _) fun l => ?_
  rw [hfin l]; exact EqOn.refl

/-- a counted loop that appends one value per iteration, inside a larger body: what it leaves in the list -/
theorem inner_collect {β} {P : Bytes → Prop} (r : Rd β) (hr : Keeps P r) (B : Nat → List β → Rd (List β)) (n : Nat) (acc' : List β)
    (F : List β → List β) (hB : ∀ i acc, EqOn P (B i acc) (r >>= fun x => pure (acc ++ [x]))) (hF : ∀ xs, acc' ++ xs = F xs) :
    EqOn P (forRangeRd 0 n B acc') (rdRepeat r n >>= fun xs => pure (F xs)) := by
  have h1 := forRange_collect r hr B hB n acc'
  simp only [hF] at h1
  exact h1

/-! ### encodings consist of bytes -/

theorem allBytes_append (a b : Bytes) : allBytes (a ++ b) = (allBytes a && allBytes b) := by simp [allBytes]

theorem allBytes_toBE (n v : Nat) : allBytes (toBE n v) = true := by
  induction n generalizing v with
  | zero => rfl
  | succ n ih =>
    simp only [toBE, allBytes_append, ih, Bool.true_and]
    simp [allBytes]; omega

theorem allBytes_flatMap {α} (l : List α) (f : α → Bytes) (h : ∀ x ∈ l, allBytes (f x) = true) : allBytes (l.flatMap f) = true := by
  induction l with
  | nil => rfl
  | cons x l ih =>
    simp only [List.flatMap_cons, allBytes_append, h x (by simp), ih (fun y hy => h y (by simp [hy])), Bool.and_self]


end Pel.Oe
