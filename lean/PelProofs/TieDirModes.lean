import PelProofs.Basic
import PelProofs.TieDirModesAttr
import PelGen.GenDirModes
import PelProofs.JsonAlign
/-
  Helper lemmas and proof scripts of the source tie of stream `dirmodes` (harness/trans_dirmodes.py → PelGen/GenDirModes.lean):
  PelProps/TieC08.lean (`getFileList`, `listOption`, `extractAllPELsData`, `printPELCount`), TieC09.lean, TieC10.lean (the look-ups).

  The tie theorems say `generated function = model mode`.  The generated terms are programs of the output monad `OutM`
  (PelModel/TransDirModes.lean).  The scripts do not depend on the SHAPE of the generated program:

  1. `*_apply` lemmas (all `rfl`) let `simp` RUN a program on a symbolic state: after a case analysis on what the model's decoder
     answers for a file (`parseSummary` / `parsePEL` / the header readers), the body of a per-file loop evaluates to a concrete
     (control, state) pair;
  2. that pair is compared with a hand-written semantic step (`listStep`, `allStep`, …: what one file contributes to stdout, to the
     diagnostics and to the mutable locals) — any program with the same effect passes;
  3. `forEach_fold` / `forEach_congr` turn "every iteration is this step" into a `foldl` over the file list, and the lemmas `*_fold`
     (proved once, about the hand-written steps) relate that fold to the `map` / `filterMap` / `flatMap` form of the model mode.
-/
set_option linter.unusedSimpArgs false
set_option linter.unusedVariables false
namespace Pel.TieDM

variable {σ σ' α β ρ : Type}

/-! ### running a program -/

@[outm] theorem pure_apply (a : α) (st : PySt σ) : (pure a : OutM σ α) st = (.ok a, st) := rfl
@[outm] theorem bind_apply (x : OutM σ α) (f : α → OutM σ β) (st : PySt σ) :
    (x >>= f) st = match x st with
      | (.ok a, st') => f a st'
      | (.exc, st') => (.exc, st')
      | (.exit n, st') => (.exit n, st') := rfl
@[outm] theorem print_apply (t : Text) (st : PySt σ) : (OutM.print t : OutM σ Unit) st = (.ok (), { st with out := st.out ++ t ++ nl }) := rfl
@[outm] theorem printEnd_apply (t e : Text) (st : PySt σ) : (OutM.printEnd t e : OutM σ Unit) st = (.ok (), { st with out := st.out ++ t ++ e }) := rfl
@[outm] theorem diag_apply (st : PySt σ) : (OutM.diag : OutM σ Unit) st = (.ok (), { st with errs := st.errs + 1 }) := rfl
@[outm] theorem raise_apply (st : PySt σ) : (OutM.raise : OutM σ α) st = (.exc, st) := rfl
@[outm] theorem sysExit_apply (n : Nat) (st : PySt σ) : (OutM.sysExit n : OutM σ α) st = (.exit n, st) := rfl
@[outm] theorem sysExitMsg_apply (st : PySt σ) : (OutM.sysExitMsg : OutM σ α) st = (.exit 1, { st with errs := st.errs + 1 }) := rfl
@[outm] theorem getL_apply (st : PySt σ) : (OutM.getL : OutM σ σ) st = (.ok st.loc, st) := rfl
@[outm] theorem modL_apply (f : σ → σ) (st : PySt σ) : (OutM.modL f : OutM σ Unit) st = (.ok (), { st with loc := f st.loc }) := rfl
@[outm] theorem tryExcept_apply (b h : OutM σ α) (st : PySt σ) :
    OutM.tryExcept b h st = match b st with
      | (.exc, st') => h st'
      | r => r := rfl
@[outm] theorem seqC_apply (a b : OutM σ (Ctl ρ)) (st : PySt σ) :
    seqC a b st = match a st with
      | (.ok .next, st') => b st'
      | r => r := rfl
@[outm] theorem call_apply (init : σ') (body : OutM σ' (Ctl ρ)) (st : PySt σ) :
    (OutM.call init body : OutM σ ρ) st = match body { loc := init, out := st.out, errs := st.errs } with
      | (.ok (.ret r), st') => (.ok r, { st with out := st'.out, errs := st'.errs })
      | (.ok _, st') => (.exc, { st with out := st'.out, errs := st'.errs })
      | (.exc, st') => (.exc, { st with out := st'.out, errs := st'.errs })
      | (.exit n, st') => (.exit n, { st with out := st'.out, errs := st'.errs }) := rfl
@[outm] theorem ite_app {c : Prop} [Decidable c] (a b : OutM σ α) (st : PySt σ) : (if c then a else b) st = if c then a st else b st := by
  split <;> rfl
@[outm] theorem forEach_nil (body : α → OutM σ (Ctl ρ)) (st : PySt σ) : forEach [] body st = (.ok .next, st) := rfl
theorem forEach_cons (x : α) (xs : List α) (body : α → OutM σ (Ctl ρ)) (st : PySt σ) :
    forEach (x :: xs) body st = match body x st with
      | (.ok .next, st') => forEach xs body st'
      | (.ok .cont, st') => forEach xs body st'
      | (.ok .brk, st') => (.ok .next, st')
      | r => r := rfl

@[outm] theorem pyOptStr_some (t : Text) (st : PySt σ) : (pyOptStr (some t) : OutM σ Text) st = (.ok t, st) := rfl
@[outm] theorem pyOptStr_none (st : PySt σ) : (pyOptStr none : OutM σ Text) st = (.exc, st) := rfl
@[outm] theorem pyDeref_some (a : α) (st : PySt σ) : (pyDeref (some a) : OutM σ α) st = (.ok a, st) := rfl
@[outm] theorem pyDeref_none (st : PySt σ) : (pyDeref (none : Option α) : OutM σ α) st = (.exc, st) := rfl
@[outm] theorem pyAsStr_str (t : Text) (st : PySt σ) : (pyAsStr (.str t) : OutM σ Text) st = (.ok t, st) := rfl
@[outm] theorem pyStrIn_str (n t : Text) (st : PySt σ) : (pyStrIn n (.str t) : OutM σ Bool) st = (.ok (isInfix n t), st) := rfl
@[outm] theorem pyGetItem_obj (l : List (Text × J)) (k : Text) (st : PySt σ) :
    (pyGetItem (.obj l) k : OutM σ J) st = match objGet? l k with
      | some v => (.ok v, st)
      | none => (.exc, st) := by
  show (match objGet? l k with | some v => (pure v : OutM σ J) | none => OutM.raise) st = _
  cases objGet? l k <;> rfl
@[outm] theorem pyGetItem_str (t k : Text) (st : PySt σ) : (pyGetItem (.str t) k : OutM σ J) st = (.exc, st) := rfl

/-- the lemmas `simp` runs programs with -/
macro "outm_simp" : tactic => `(tactic| simp only [outm])

/-! ### loops -/

/-- inside a loop `continue` and reaching the end of the body are the same -/
def loopView : PyRes (Ctl ρ) × PySt σ → PyRes (Ctl ρ) × PySt σ
  | (.ok .cont, st) => (.ok .next, st)
  | r => r

theorem loopView_next (st : PySt σ) : loopView ((.ok .next, st) : PyRes (Ctl ρ) × PySt σ) = (.ok .next, st) := rfl
theorem loopView_cont (st : PySt σ) : loopView ((.ok .cont, st) : PyRes (Ctl ρ) × PySt σ) = (.ok .next, st) := rfl

/-- a loop whose body neither breaks, returns nor raises is a fold of its effect on the state -/
theorem forEach_fold (l : List α) (body : α → OutM σ (Ctl ρ)) (step : α → PySt σ → PySt σ)
    (h : ∀ x st, loopView (body x st) = (.ok .next, step x st)) (st : PySt σ) :
    forEach l body st = (.ok .next, l.foldl (fun s x => step x s) st) := by
  induction l generalizing st with
  | nil => rfl
  | cons x xs ih =>
    have hx := h x st
    rw [forEach_cons]
    generalize body x st = r at hx
    obtain ⟨r1, r2⟩ := r
    cases r1 with
    | ok c => cases c <;> simp_all [loopView]
    | exc => simp [loopView] at hx
    | exit n => simp [loopView] at hx

theorem seqC_forEach_fold (l : List α) (body : α → OutM σ (Ctl ρ)) (step : α → PySt σ → PySt σ)
    (h : ∀ x st, loopView (body x st) = (.ok .next, step x st)) (rest : OutM σ (Ctl ρ)) (st : PySt σ) :
    seqC (forEach l body) rest st = rest (l.foldl (fun s x => step x s) st) := by
  rw [seqC_apply, forEach_fold l body step h]

theorem forEach_congr (l : List α) (body body' : α → OutM σ (Ctl ρ)) (h : ∀ x st, body x st = body' x st) :
    forEach l body = forEach l body' := by
  have : body = body' := by funext x st; exact h x st
  rw [this]

/-- `for line in lines: print(line)` -/
theorem forEach_print (lines : List Text) (st : PySt σ) :
    forEach lines (fun l => (OutM.print l >>= fun _ => pure Ctl.next : OutM σ (Ctl ρ))) st = (.ok .next, { st with out := st.out ++ linesOut lines }) := by
  induction lines generalizing st with
  | nil => simp [forEach_nil, linesOut]
  | cons x xs ih =>
    rw [forEach_cons]
    simp only [bind_apply, print_apply, pure_apply, ih]
    simp [linesOut, nl]

/-! ### `getFileList` -/

/-- the extension filter of the model's `getFileList` -/
def extSel (ext : Option Text) (f : FileEntry) : Bool := match ext with
  | some e => if e = [] then true else splitext f.name == e
  | none => true

theorem getFileList_extSel (d : Dir) (ext : Option Text) (rev : Bool) :
    Pel.getFileList d ext rev = pySortNames rev (d.filter (extSel ext)) := rfl

/-- what the inner loop of `getFileList` does with one name -/
def gflStep (ext : Option Text) (f : FileEntry) (st : PySt (List FileEntry)) : PySt (List FileEntry) :=
  if extSel ext f then { st with loc := st.loc ++ [f] } else st

theorem gflStep_fold (ext : Option Text) (l : List FileEntry) (st : PySt (List FileEntry)) :
    l.foldl (fun s x => gflStep ext x s) st = { st with loc := st.loc ++ l.filter (extSel ext) } := by
  induction l generalizing st with
  | nil => simp
  | cons x xs ih =>
    rw [List.foldl_cons, ih, List.filter_cons]
    by_cases h : extSel ext x = true <;> simp [h, gflStep]

theorem tv_some_iff (o : Option Text) (v : Text) : tv o = some v ↔ o = some v ∧ v ≠ [] := by
  cases o with
  | none => simp [tv]
  | some t => cases t <;> simp [tv] <;> (intro h; simp [← h])

theorem tv_none_iff (o : Option Text) : tv o = none ↔ o = none ∨ o = some [] := by
  cases o with
  | none => simp [tv]
  | some t => cases t <;> simp [tv]

/-! ### `printPELInHexFormat` -/

/-- what a call of `printPELInHexFormat(data)` does -/
def hexOut (data : Bytes) (st : PySt σ) : PySt σ := { st with out := st.out ++ linesOut (pelHexDisplay data) }

theorem linesOut_append (a b : List Text) : linesOut (a ++ b) = linesOut a ++ linesOut b := by simp [linesOut]
theorem linesOut_nil : linesOut [] = [] := rfl
theorem linesOut_cons (a : Text) (l : List Text) : linesOut (a :: l) = a ++ nl ++ linesOut l := by simp [linesOut]
theorem linesOut_single (a : Text) : linesOut [a] = a ++ nl := by simp [linesOut]

theorem hexOut_eq (data : Bytes) (st : PySt σ) (o : Text)
    (h : o = st.out ++ s "-------------- PEL Begin  ----------------" ++ nl ++ linesOut (hexdump 16 4 data) ++
      s "-------------- PEL End    ----------------" ++ nl) :
    ({ st with out := o } : PySt σ) = hexOut data st := by
  subst h
  simp [hexOut, pelHexDisplay, hexdump16, linesOut_cons, linesOut_nil, linesOut_append, linesOut_single, List.append_assoc]

theorem s_begin : s "-------------- PEL Begin  ----------------" =
    [45, 45, 45, 45, 45, 45, 45, 45, 45, 45, 45, 45, 45, 45, 32, 80, 69, 76, 32, 66, 101, 103, 105, 110, 32, 32, 45, 45, 45, 45, 45, 45, 45, 45, 45, 45, 45, 45, 45, 45, 45, 45] := by decide
theorem s_end : s "-------------- PEL End    ----------------" =
    [45, 45, 45, 45, 45, 45, 45, 45, 45, 45, 45, 45, 45, 45, 32, 80, 69, 76, 32, 69, 110, 100, 32, 32, 32, 32, 45, 45, 45, 45, 45, 45, 45, 45, 45, 45, 45, 45, 45, 45, 45, 45] := by decide

end Pel.TieDM

namespace Pel.TieDM
variable {σ σ' α β ρ : Type}

/-! ### facts about what the model's decoders return -/

/-- a property of the value a reader returns, if it returns -/
def Post (P : α → Prop) (r : Except Err (α × Bytes)) : Prop := match r with
  | .ok (a, _) => P a
  | .error _ => True

theorem post_bind (P : β → Prop) (x : Rd α) (f : α → Rd β) (st : Bytes) (h : ∀ a st', Post P (f a st')) : Post P ((x >>= f) st) := by
  cases hx : x st with
  | error e => simp [bind, StateT.bind, Except.bind, hx, Post]
  | ok p =>
    have := h p.1 p.2
    simpa [bind, StateT.bind, Except.bind, hx] using this

theorem post_pure (P : α → Prop) (a : α) (st : Bytes) (h : P a) : Post P ((pure a : Rd α) st) := h

/-- what the look-ups rely on in a summary -/
def SumFacts : SummaryOutcome → Prop
  | .summary sm plid src => sm.eid ≠ [] ∧ objGet? sm.fields (s "PLID") = some (.str (ox (fmtHex 2 plid))) ∧
      objGet? sm.fields (s "SRC") = src.map J.str
  | _ => True

theorem objGet?_cons (k' k : Text) (v : J) (r : List (Text × J)) :
    objGet? ((k', v) :: r) k = if k' = k then some v else objGet? r k := rfl

theorem parseSummaryRd_facts (env : Env) (cfg : SelCfg) (st : Bytes) : Post SumFacts (parseSummaryRd env cfg st) := by
  unfold parseSummaryRd
  apply post_bind; intro h1 st1
  split
  · exact post_pure _ _ _ trivial
  apply post_bind; intro p1 st2
  obtain ⟨phJ, ph⟩ := p1
  dsimp only
  apply post_bind; intro h2 st3
  split
  · exact post_pure _ _ _ trivial
  apply post_bind; intro p2 st4
  obtain ⟨uhJ, uh⟩ := p2
  dsimp only
  split
  · exact post_pure _ _ _ trivial
  apply post_bind; intro rm st5
  obtain ⟨rc, msg⟩ := rm
  apply post_pure
  refine ⟨by simp [ox, s], ?_, ?_⟩
  · cases rc <;> cases msg <;>
      simp [objGet?_cons, kv, jstr, (by decide : s "SRC" ≠ s "PLID"), (by decide : s "Message" ≠ s "PLID")]
  · cases rc <;> cases msg <;>
      simp [objGet?_cons, kv, jstr, objGet?, (by decide : s "PLID" ≠ s "SRC"), (by decide : s "CreatorID" ≠ s "SRC"),
        (by decide : s "Subsystem" ≠ s "SRC"), (by decide : s "Commit Time" ≠ s "SRC"), (by decide : s "Sev" ≠ s "SRC"),
        (by decide : s "CompID" ≠ s "SRC"), (by decide : s "Message" ≠ s "SRC")]

theorem parseSummary_facts {env : Env} {cfg : SelCfg} {b : Bytes} {sm : Summary} {plid : Nat} {src : Option Text}
    (h : parseSummary env cfg b = .summary sm plid src) :
    sm.eid ≠ [] ∧ objGet? sm.fields (s "PLID") = some (.str (ox (fmtHex 2 plid))) ∧ objGet? sm.fields (s "SRC") = src.map J.str := by
  have hf := parseSummaryRd_facts env cfg b
  unfold parseSummary at h
  cases hr : parseSummaryRd env cfg b with
  | error e => simp [hr] at h
  | ok p =>
    obtain ⟨o, r⟩ := p
    simp [hr] at h
    subst h
    simpa [hr, Post, SumFacts] using hf

end Pel.TieDM

namespace Pel.TieDM
variable {σ σ' α β ρ : Type}

/-! ### the summary modes (`--list`, `--plid`, `--src`): one file = a list of summaries to show, nothing, or a diagnostic -/

def okList {β : Type} (r : FileEntry → FileRes β) (files : List FileEntry) : List (FileEntry × β) :=
  (files.map (fun f => (f, r f))).filterMap (fun p => match p.2 with | .some x => some (p.1, x) | _ => none)

theorem okList_nil {β : Type} (r : FileEntry → FileRes β) : okList r [] = [] := rfl
theorem okList_cons {β : Type} (r : FileEntry → FileRes β) (f : FileEntry) (fs : List FileEntry) :
    okList r (f :: fs) = match r f with
      | .some x => (f, x) :: okList r fs
      | _ => okList r fs := by
  unfold okList
  simp only [List.map_cons, List.filterMap_cons]
  cases r f <;> rfl

def diag1 {β : Type} : FileRes β → Nat
  | .diag => 1
  | _ => 0

theorem countDiag_cons {β : Type} (x : FileRes β) (l : List (FileRes β)) : countDiag (x :: l) = diag1 x + countDiag l := by
  unfold countDiag
  cases x <;> simp [diag1, List.filter_cons] <;> omega

theorem countDiag_nil {β : Type} : countDiag ([] : List (FileRes β)) = 0 := rfl

def addSums (acc : List (Text × J)) (l : List Summary) : List (Text × J) := l.foldl (fun a e => objSet a e.eid (.obj e.fields)) acc

/-- what one file does in a summary mode -/
def sumStep (hex : Bool) (r : FileEntry → FileRes (List Summary)) (f : FileEntry) (st : PySt (List (Text × J))) : PySt (List (Text × J)) :=
  match r f with
  | .some l => if hex then { st with out := st.out ++ l.flatMap (fun _ => linesOut (pelHexDisplay f.data)) } else { st with loc := addSums st.loc l }
  | .skip => st
  | .diag => { st with errs := st.errs + 1 }

theorem sumStep_fold (hex : Bool) (r : FileEntry → FileRes (List Summary)) (files : List FileEntry) (st : PySt (List (Text × J))) :
    files.foldl (fun s x => sumStep hex r x s) st =
      { loc := if hex then st.loc else addSums st.loc ((okList r files).flatMap (·.2)),
        out := st.out ++ (if hex then (okList r files).flatMap (fun p => p.2.flatMap fun _ => linesOut (pelHexDisplay p.1.data)) else []),
        errs := st.errs + countDiag (files.map r) } := by
  induction files generalizing st with
  | nil => cases hex <;> simp [okList_nil, countDiag_nil, addSums]
  | cons f fs ih =>
    rw [List.foldl_cons, ih, okList_cons, List.map_cons, countDiag_cons]
    unfold sumStep
    cases hr : r f <;> cases hex <;> simp [diag1, addSums, List.foldl_append, Nat.add_assoc, Nat.add_comm]

/-- the final `print(prettyPrint(json.dumps(final_summary, indent=4), desiredSpace=29))` against the model's `summaryObj` -/
theorem summaryObj_eq (l : List Summary) : summaryObj l = .obj (addSums [] l) := rfl

end Pel.TieDM

namespace Pel.TieDM
variable {σ σ' α β ρ : Type}

/-- finish running a program (the hex dump loop is the one inner loop) -/
macro "dm_eval" : tactic => `(tactic|
  (try outm_simp
   try simp only [forEach_print]
   try outm_simp))

/-- run a per-file body and compare with the semantic step -/
macro "dm_close" : tactic => `(tactic|
  (dm_eval
   simp_all [outm, loopView, addSums, nl, DirCfg.opts, pelHexDisplay, hexdump16, linesOut_cons, linesOut_nil, linesOut_append, s_begin, s_end, List.append_assoc]))

/-! #### `--list` -/

/-- one summary per selected file -/
def rList (env : Env) (cfg : SelCfg) (f : FileEntry) : FileRes (List Summary) :=
  match summaryOf env cfg f with
  | .some (sm, _, _) => .some [sm]
  | .skip => .skip
  | .diag => .diag

theorem list_conv (env : Env) (cfg : SelCfg) (files : List FileEntry) :
    (okList (rList env cfg) files).flatMap (·.2) = (okList (summaryOf env cfg) files).map (·.2.1) ∧
    (okList (rList env cfg) files).flatMap (fun p => p.2.flatMap fun _ => linesOut (pelHexDisplay p.1.data)) =
      (okList (summaryOf env cfg) files).flatMap (fun p => linesOut (pelHexDisplay p.1.data)) ∧
    countDiag (files.map (rList env cfg)) = countDiag ((files.map fun f => (f, summaryOf env cfg f)).map (·.2)) := by
  induction files with
  | nil => simp [okList_nil, countDiag]
  | cons f fs ih =>
    simp only [okList_cons, List.map_cons, countDiag_cons, rList]
    cases summaryOf env cfg f <;> simp [ih, diag1]

theorem listMode_eq (env : Env) (o : CliOpts) (d : Dir) :
    listMode env o d =
      { stdout := if o.hex then (okList (summaryOf env o.cfg) (Pel.getFileList d o.ext o.rev)).flatMap (fun p => linesOut (pelHexDisplay p.1.data))
                  else prettyPrint 29 (dumps (summaryObj ((okList (summaryOf env o.cfg) (Pel.getFileList d o.ext o.rev)).map (·.2.1)))) ++ nl,
        stderrLines := countDiag (((Pel.getFileList d o.ext o.rev).map fun f => (f, summaryOf env o.cfg f)).map (·.2)), exit := 0 } := by
  have hk : ∀ files, okList (summaryOf env o.cfg) files = (files.map fun f => (f, summaryOf env o.cfg f)).filterMap
      (fun p => match p.2 with | .some x => some (p.1, x) | _ => none) := by
    intro files; unfold okList; congr 1; funext p; rcases p with ⟨f, r⟩; cases r <;> rfl
  simp only [hk]
  rfl

end Pel.TieDM

namespace Pel.TieDM
variable {σ σ' α β ρ : Type}

/-! ### the text `parsePEL` hands back is never empty -/

theorem decLenAux_pos (f v : Nat) : 0 < decLenAux f v := by
  unfold decLenAux
  split <;> (try split) <;> omega

theorem natDec_ne_nil (v : Nat) : natDec v ≠ [] := by
  intro h
  have := congrArg List.length h
  simp [natDec, decLen] at this
  have := decLenAux_pos v v
  omega

theorem firstLineOf_ne_nil (j : J) : firstLineOf j ≠ [] := by
  cases j with
  | null => decide
  | bool b => cases b <;> decide
  | num z => cases z <;> simp [firstLineOf, intDec, natDec_ne_nil]
  | str t => simp [firstLineOf, renderStr]
  | arr l => cases l <;> simp [firstLineOf] <;> decide
  | obj l => cases l <;> simp [firstLineOf] <;> decide

theorem dumps_ne_nil (j : J) : dumps j ≠ [] := by
  unfold dumps
  rw [dumpsLines_cons, joinWith_cons]
  simp [firstLineOf_ne_nil]

theorem ppLine_length_ge (w : Nat) (line : Text) : line.length ≤ (ppLine w line).length := by
  unfold ppLine
  split
  · exact Nat.le_refl _
  · split
    · exact Nat.le_refl _
    · simp only [List.length_append, List.length_take, List.length_drop, spaces, List.length_replicate]
      omega

theorem joinWith_ne_nil (x : Text) (xs : List Text) (h : x ≠ [] ∨ xs ≠ []) : joinWith [10] (x :: xs) ≠ [] := by
  cases xs with
  | nil => simpa [joinWith] using h
  | cons y ys => simp [joinWith]

theorem prettyPrint_ne_nil (w : Nat) (t : Text) (h : t ≠ []) : prettyPrint w t ≠ [] := by
  cases t with
  | nil => exact absurd rfl h
  | cons c r =>
    unfold prettyPrint
    have hs : splitNL (c :: r) = (match splitNL r with
      | [] => [[]]
      | l :: ls => if c = 10 then [] :: l :: ls else (c :: l) :: ls) := rfl
    rw [hs]
    cases hr : splitNL r with
    | nil => exact absurd hr (splitNL_ne_nil r)
    | cons l ls =>
      simp only
      split
      · simp only [List.map_cons]
        exact joinWith_ne_nil _ _ (Or.inr (by simp))
      · simp only [List.map_cons]
        apply joinWith_ne_nil
        left
        intro h0
        have := ppLine_length_ge w (c :: l)
        simp [h0] at this

theorem pp_dumps_ne_nil (w : Nat) (j : J) : prettyPrint w (dumps j) ≠ [] := prettyPrint_ne_nil w _ (dumps_ne_nil j)

end Pel.TieDM

namespace Pel.TieDM
variable {σ σ' α β ρ : Type}

/-! ### `--all-pels` -/

/-- what one file does with `-x`: the dump of a selected file -/
def hexStep {β : Type} (r : FileEntry → FileRes β) (f : FileEntry) (st : PySt σ) : PySt σ :=
  match r f with
  | .some _ => { st with out := st.out ++ linesOut (pelHexDisplay f.data) }
  | .skip => st
  | .diag => { st with errs := st.errs + 1 }

theorem hexStep_fold {β : Type} (r : FileEntry → FileRes β) (files : List FileEntry) (st : PySt σ) :
    files.foldl (fun s x => hexStep r x s) st =
      { st with out := st.out ++ (okList r files).flatMap (fun p => linesOut (pelHexDisplay p.1.data)),
                errs := st.errs + countDiag (files.map r) } := by
  induction files generalizing st with
  | nil => simp [okList_nil, countDiag_nil]
  | cons f fs ih =>
    rw [List.foldl_cons, ih, okList_cons, List.map_cons, countDiag_cons]
    unfold hexStep
    cases hr : r f <;> simp [diag1, Nat.add_assoc, Nat.add_comm]

/-- the documents as `extractAllPELsData` separates them: `,` + newline before every document but the first -/
def sepDocs : Bool → List Text → Text
  | _, [] => []
  | b, t :: ts => (if b then [44, 10] else []) ++ t ++ sepDocs true ts

/-- what one file does without `-x`; the mutable local is `firstPELPrinted` -/
def allStep (r : FileEntry → FileRes Text) (f : FileEntry) (st : PySt Bool) : PySt Bool :=
  match r f with
  | .some t => { st with loc := true, out := st.out ++ (if st.loc then [44, 10] else []) ++ t }
  | .skip => st
  | .diag => { st with errs := st.errs + 1 }

theorem allStep_fold (r : FileEntry → FileRes Text) (files : List FileEntry) (st : PySt Bool) :
    files.foldl (fun s x => allStep r x s) st =
      { loc := st.loc || !((okList r files).map (·.2)).isEmpty,
        out := st.out ++ sepDocs st.loc ((okList r files).map (·.2)),
        errs := st.errs + countDiag (files.map r) } := by
  induction files generalizing st with
  | nil => simp [okList_nil, countDiag_nil, sepDocs]
  | cons f fs ih =>
    rw [List.foldl_cons, ih, okList_cons, List.map_cons, countDiag_cons]
    unfold allStep
    cases hr : r f <;> simp [diag1, sepDocs, Nat.add_assoc, Nat.add_comm, List.append_assoc]

theorem sepDocs_true (ts : List Text) : sepDocs true ts = ts.flatMap (fun t => [44, 10] ++ t) := by
  induction ts with
  | nil => rfl
  | cons t ts ih => simp [sepDocs, ih]

theorem joinWith_sep (t : Text) (ts : List Text) : joinWith [44, 10] (t :: ts) = t ++ ts.flatMap (fun t => [44, 10] ++ t) := by
  induction ts generalizing t with
  | nil => simp [joinWith]
  | cons u us ih => rw [joinWith]; simp [ih, List.append_assoc]; intro h; cases h

/-- `[`, the separated documents, a newline if there was one, `]` is the model's framing -/
theorem framing_eq (docs : List Text) :
    [91] ++ nl ++ sepDocs false docs ++ (if !docs.isEmpty then nl else []) ++ [93] ++ nl = listFraming docs := by
  cases docs with
  | nil => simp [sepDocs, listFraming, nl]
  | cons t ts => simp [sepDocs, listFraming, nl, sepDocs_true, joinWith_sep, List.append_assoc]

/-- the text of the document of a selected file -/
def rAll (env : Env) (cfg : SelCfg) (f : FileEntry) : FileRes Text :=
  match fullOf env cfg f with
  | .some (_, j) => .some (prettyPrint 34 (dumps j))
  | .skip => .skip
  | .diag => .diag

theorem all_conv (env : Env) (cfg : SelCfg) (files : List FileEntry) :
    (okList (rAll env cfg) files).map (·.2) = (okList (fullOf env cfg) files).map (fun p => prettyPrint 34 (dumps p.2.2)) ∧
    (okList (rAll env cfg) files).flatMap (fun p => linesOut (pelHexDisplay p.1.data)) =
      (okList (fullOf env cfg) files).flatMap (fun p => linesOut (pelHexDisplay p.1.data)) ∧
    countDiag (files.map (rAll env cfg)) = countDiag ((files.map fun f => (f, fullOf env cfg f)).map (·.2)) := by
  induction files with
  | nil => simp [okList_nil, countDiag]
  | cons f fs ih =>
    simp only [okList_cons, List.map_cons, countDiag_cons, rAll]
    cases fullOf env cfg f <;> simp [ih, diag1]

theorem allMode_eq (env : Env) (o : CliOpts) (d : Dir) :
    allMode env o d =
      { stdout := if o.hex then (okList (fullOf env o.cfg) (Pel.getFileList d o.ext o.rev)).flatMap (fun p => linesOut (pelHexDisplay p.1.data))
                  else listFraming ((okList (fullOf env o.cfg) (Pel.getFileList d o.ext o.rev)).map fun p => prettyPrint 34 (dumps p.2.2)),
        stderrLines := countDiag (((Pel.getFileList d o.ext o.rev).map fun f => (f, fullOf env o.cfg f)).map (·.2)), exit := 0 } := by
  have hk : ∀ files, okList (fullOf env o.cfg) files = (files.map fun f => (f, fullOf env o.cfg f)).filterMap
      (fun p => match p.2 with | .some x => some (p.1, x) | _ => none) := by
    intro files; unfold okList; congr 1; funext p; rcases p with ⟨f, r⟩; cases r <;> rfl
  simp only [hk]
  rfl

end Pel.TieDM

namespace Pel.TieDM
variable {σ σ' α β ρ : Type}

/-! ### `--show-pel-count` and the header readers -/

/-- the model's one-block reader of `countOne`, in the two steps the source takes (`generatePH`, then `generateUH`) -/
def countVia (env : Env) (cfg : SelCfg) (b : Bytes) : FileRes Unit :=
  match generatePHRd env b with
  | .error _ => .diag
  | .ok (none, _) => .skip
  | .ok (some ph, b1) =>
    match generateUHRd env ph.creator b1 with
    | .error _ => .diag
    | .ok (none, _) => .skip
    | .ok (some uh, _) => if considerPEL uh.severity uh.actionFlags cfg then .some () else .skip

theorem rd_bind_apply {α β : Type} (x : Rd α) (f : α → Rd β) (b : Bytes) :
    (x >>= f) b = match x b with
      | .ok p => f p.1 p.2
      | .error e => .error e := by
  simp only [bind, StateT.bind, Except.bind]
  cases x b <;> rfl
theorem rd_pure_apply {α : Type} (a : α) (b : Bytes) : (pure a : Rd α) b = .ok (a, b) := rfl
theorem rd_ite_app {α : Type} {c : Prop} [Decidable c] (x y : Rd α) (b : Bytes) : (if c then x else y) b = if c then x b else y b := by
  split <;> rfl

theorem countOne_eq (env : Env) (cfg : SelCfg) (f : FileEntry) : countOne env cfg f = countVia env cfg f.data := by
  unfold countOne countVia generatePHRd generateUHRd
  simp only [rd_bind_apply, rd_pure_apply, rd_ite_app]
  cases h1 : parseHeader f.data with
  | error e => rfl
  | ok p1 =>
    obtain ⟨hd, b1⟩ := p1
    simp only
    by_cases hid : hd.id ≠ sidPH
    · simp [hid]
    · simp only [hid, if_false]
      cases h2 : decodePH env.T hd b1 with
      | error e => rfl
      | ok p2 =>
        obtain ⟨⟨phJ, ph⟩, b2⟩ := p2
        simp only
        cases h3 : parseHeader b2 with
        | error e => rfl
        | ok p3 =>
          obtain ⟨hd2, b3⟩ := p3
          simp only
          by_cases hid2 : hd2.id ≠ sidUH
          · simp [hid2]
          · simp only [hid2, if_false]
            cases h4 : decodeUH env.T hd2 ph.creator b3 with
            | error e => rfl
            | ok p4 =>
              obtain ⟨⟨uhJ, uh⟩, b4⟩ := p4
              simp only
              by_cases hc : considerPEL uh.severity uh.actionFlags cfg = true <;> simp [hc]

def countStep (env : Env) (cfg : SelCfg) (f : FileEntry) (st : PySt Nat) : PySt Nat :=
  match countOne env cfg f with
  | .some _ => { st with loc := st.loc + 1 }
  | .skip => st
  | .diag => { st with errs := st.errs + 1 }

theorem keepSome_cons {β : Type} (x : FileRes β) (l : List (FileRes β)) :
    keepSome (x :: l) = match x with
      | .some v => v :: keepSome l
      | _ => keepSome l := by
  unfold keepSome
  cases x <;> simp

theorem countStep_fold (env : Env) (cfg : SelCfg) (files : List FileEntry) (st : PySt Nat) :
    files.foldl (fun s x => countStep env cfg x s) st =
      { st with loc := st.loc + (keepSome (files.map (countOne env cfg))).length,
                errs := st.errs + countDiag (files.map (countOne env cfg)) } := by
  induction files generalizing st with
  | nil => simp [keepSome, countDiag_nil]
  | cons f fs ih =>
    rw [List.foldl_cons, ih, List.map_cons, countDiag_cons, keepSome_cons]
    unfold countStep
    cases hr : countOne env cfg f <;> simp [diag1, Nat.add_assoc, Nat.add_comm, Nat.add_left_comm]

@[outm] theorem pyRd_apply {α : Type} (r : Rd α) (b : Bytes) (st : PySt σ) :
    (pyRd r b : OutM σ (α × Bytes)) st = match r b with
      | .ok x => (.ok x, st)
      | .error _ => (.exc, st) := by
  unfold pyRd
  cases r b <;> rfl

end Pel.TieDM

namespace Pel.TieDM
variable {σ σ' α β ρ : Type}

/-! ### the look-ups -/

@[outm] theorem pyProcessId_apply (x : Text) (st : PySt σ) :
    (pyProcessId x : OutM σ Text) st = match processId x with
      | some v => (.ok v, st)
      | none => (.exit 1, { st with errs := st.errs + 1 }) := by
  unfold pyProcessId
  cases processId x <;> rfl

/-- (copied from PelProofs/CliDir.lean, which cannot be imported next to PelProofs/Cli.lean) -/
theorem lt_pow_hexLenAux' : ∀ (f v : Nat), v ≤ f → v < 16 ^ hexLenAux f v
  | 0, v, h => by
    have : v = 0 := by omega
    subst this; simp [hexLenAux]
  | f+1, v, h => by
    unfold hexLenAux
    split
    · omega
    · rename_i hv
      have ih := lt_pow_hexLenAux' f (v / 16) (by omega)
      rw [Nat.add_comm, Nat.pow_succ]
      omega

theorem parseHexText_fmtHex (w v : Nat) : parseHexText (fmtHex w v) = v := by
  unfold fmtHex
  apply parseHexText_hexFix
  exact Nat.lt_of_lt_of_le (lt_pow_hexLenAux' v v (Nat.le_refl v)) (Nat.pow_le_pow_right (by omega) (Nat.le_max_right _ _))

theorem hexLenAux_pos (f v : Nat) : 0 < hexLenAux f v := by
  unfold hexLenAux
  split <;> (try split) <;> omega

/-- `int(<the text of the summary's PLID member>, 16)` is the number it was printed from -/
@[outm] theorem pyIntHex_ox_fmtHex (w v : Nat) (st : PySt σ) : (pyIntHex (ox (fmtHex w v)) : OutM σ Nat) st = (.ok v, st) := by
  have h1 : (s "0x").isPrefixOf (ox (fmtHex w v)) = true := by simp [ox]
  have h2 : (ox (fmtHex w v)).drop 2 = fmtHex w v := by simp [ox, s]
  have h3 : fmtHex w v ≠ [] := by
    intro h
    have := congrArg List.length h
    simp [fmtHex] at this
    have := hexLenAux_pos v v
    unfold hexLen at *
    omega
  have h4 : (fmtHex w v).all isHexDigit = true := by
    rw [List.all_eq_true]
    exact hexFix_all_hex _ _
  unfold pyIntHex
  simp only [h1, Bool.true_or, if_true, h2]
  simp [h3, h4, parseHexText_fmtHex, pure_apply]

theorem processId_ne_nil {x pid : Text} (h : processId x = some pid) : x ≠ [] := by
  intro hx
  subst hx
  simp [processId, s] at h

theorem any_of_plid {ids : LookupIds} {x : Text} (h : ids.plid = some x) (hx : x ≠ []) : ids.any = true := by
  cases x with
  | nil => exact absurd rfl hx
  | cons a r => simp [LookupIds.any, truthy, tv, h]

theorem any_of_pelID {ids : LookupIds} {x : Text} (h : ids.pelID = some x) (hx : x ≠ []) : ids.any = true := by
  cases x with
  | nil => exact absurd rfl hx
  | cons a r => simp [LookupIds.any, truthy, tv, h]

theorem any_of_bmcID {ids : LookupIds} {x : Text} (h : ids.bmcID = some x) (hx : x ≠ []) : ids.any = true := by
  cases x with
  | nil => exact absurd rfl hx
  | cons a r => simp [LookupIds.any, truthy, tv, h]

theorem selCfg_lookup (c : DirCfg) (h : c.ids.any = true) : ({ c.selCfg with lookup := true } : SelCfg) = c.selCfg := by
  simp [DirCfg.selCfg, h]

theorem s_PLID : s "PLID" = [80, 76, 73, 68] := by decide
theorem s_SRC : s "SRC" = [83, 82, 67] := by decide

/-- `--plid`: the summary of a selected file whose PLID is the one asked for -/
def rPlid (env : Env) (cfg : SelCfg) (pid : Text) (f : FileEntry) : FileRes (List Summary) :=
  match summaryOf env cfg f with
  | .some (sm, plid, _) => if pid = fmtHex 8 plid then .some [sm] else .skip
  | .skip => .skip
  | .diag => .diag

def plidOk (env : Env) (cfg : SelCfg) (pid : Text) (files : List FileEntry) : List (FileEntry × Summary) :=
  (files.map (fun f => (f, summaryOf env cfg f))).filterMap (fun p => match p.2 with
      | .some (sm, plid, _) => if pid = fmtHex 8 plid then some (p.1, sm) else none
      | _ => none)

theorem plidOk_cons (env : Env) (cfg : SelCfg) (pid : Text) (f : FileEntry) (fs : List FileEntry) :
    plidOk env cfg pid (f :: fs) = match summaryOf env cfg f with
      | .some (sm, plid, _) => if pid = fmtHex 8 plid then (f, sm) :: plidOk env cfg pid fs else plidOk env cfg pid fs
      | _ => plidOk env cfg pid fs := by
  unfold plidOk
  simp only [List.map_cons, List.filterMap_cons]
  cases summaryOf env cfg f with
  | some x => obtain ⟨sm, plid, src⟩ := x; by_cases hq : pid = fmtHex 8 plid <;> simp [hq]
  | skip => rfl
  | diag => rfl

theorem plid_conv (env : Env) (cfg : SelCfg) (pid : Text) (files : List FileEntry) :
    (okList (rPlid env cfg pid) files).flatMap (·.2) = (plidOk env cfg pid files).map (·.2) ∧
    (okList (rPlid env cfg pid) files).flatMap (fun p => p.2.flatMap fun _ => linesOut (pelHexDisplay p.1.data)) =
      (plidOk env cfg pid files).flatMap (fun p => linesOut (pelHexDisplay p.1.data)) ∧
    countDiag (files.map (rPlid env cfg pid)) = countDiag ((files.map fun f => (f, summaryOf env cfg f)).map (·.2)) := by
  induction files with
  | nil => simp [okList_nil, countDiag, plidOk]
  | cons f fs ih =>
    simp only [okList_cons, plidOk_cons, List.map_cons, countDiag_cons, rPlid]
    cases summaryOf env cfg f with
    | some x =>
      obtain ⟨sm, plid, src⟩ := x
      by_cases hp : pid = fmtHex 8 plid
      · simp only [if_pos hp]; simp [ih, diag1]
      · simp only [if_neg hp]; simp [ih, diag1]
    | skip => simp [ih, diag1]
    | diag => simp [ih, diag1]

theorem plidMode_eq (env : Env) (o : CliOpts) (x pid : Text) (d : Dir) (hp : processId x = some pid) :
    plidMode env o x d =
      { stdout := if o.hex then (plidOk env { o.cfg with lookup := true } pid (Pel.getFileList d o.ext o.rev)).flatMap (fun p => linesOut (pelHexDisplay p.1.data))
                  else prettyPrint 29 (dumps (summaryObj ((plidOk env { o.cfg with lookup := true } pid (Pel.getFileList d o.ext o.rev)).map (·.2)))) ++ nl,
        stderrLines := countDiag (((Pel.getFileList d o.ext o.rev).map fun f => (f, summaryOf env { o.cfg with lookup := true } f)).map (·.2)), exit := 0 } := by
  have hk : ∀ files, plidOk env { o.cfg with lookup := true } pid files =
      (files.map fun f => (f, summaryOf env { o.cfg with lookup := true } f)).filterMap (fun p => match p.2 with
        | .some (sm, plid, _) => if pid = fmtHex 8 plid then some (p.1, sm) else none
        | _ => none) := by
    intro files; rfl
  simp only [hk]
  unfold plidMode
  simp only [hp]
  first | done | rfl

end Pel.TieDM

namespace Pel.TieDM
variable {σ σ' α β ρ : Type}

/-! #### `parseAndPrintPELFile`, `--id` -/

/-- what printing one file adds to the process output -/
def printStep (env : Env) (c : DirCfg) (f : FileEntry) (st : PySt σ) : PySt σ :=
  { st with out := st.out ++ (printOne env c.opts c.selCfg f).1, errs := st.errs + (printOne env c.opts c.selCfg f).2 }

/-- a loop that stops at the first element satisfying `p` -/
theorem forEach_find (l : List α) (body : α → OutM σ (Ctl ρ)) (p : α → Bool) (hit : α → PySt σ → PySt σ)
    (h : ∀ x st, if p x = true then body x st = (.ok .brk, hit x st) else loopView (body x st) = (.ok .next, st)) (st : PySt σ) :
    forEach l body st = (.ok .next, match l.find? p with
      | some x => hit x st
      | none => st) := by
  induction l generalizing st with
  | nil => rfl
  | cons x xs ih =>
    have hx := h x st
    rw [forEach_cons]
    by_cases hp : p x = true
    · simp only [hp, if_true] at hx
      simp [hx, List.find?_cons, hp]
    · simp only [hp] at hx
      simp only [Bool.false_eq_true, if_false] at hx
      have hp' : p x = false := by simpa using hp
      generalize body x st = r at hx
      obtain ⟨r1, r2⟩ := r
      cases r1 with
      | ok c => cases c <;> simp_all [loopView, List.find?_cons]
      | exc => simp [loopView] at hx
      | exit n => simp [loopView] at hx

end Pel.TieDM

namespace Pel.TieDM
/-- the first or second section id of the file is wrong (`parsePEL` returns `("", "")`, or exits when asked to) -/
def fullOfBad (env : Env) (cfg : SelCfg) (f : FileEntry) : Bool :=
  match parsePEL env cfg f.data with
  | .badHeader => true
  | _ => false
end Pel.TieDM

namespace Pel.TieDM
variable {σ σ' α β ρ : Type}

/-! #### `--bmc-id` -/

/-- what one file is for the walk of `parsePelFromBmcID` -/
inductive BmcClass where
  | miss               -- readable private header with another id
  | err                -- an exception was reported, the walk goes on
  | hit (t : Text)     -- the id matched and the decode did not raise: `t` is printed, the walk ends
deriving Repr

def bmcClass (env : Env) (o : CliOpts) (n : Text) (f : FileEntry) : BmcClass :=
  match generatePHRd env f.data with
  | .ok (some ph, _) =>
    if natDec ph.obmcLogID = n then
      match fullOf env { o.cfg with lookup := true } f with
      | .some (_, j) => .hit (if o.hex then linesOut (pelHexDisplay f.data) else prettyPrint 34 (dumps j) ++ nl)
      | .skip => .hit []
      | .diag => .err
    else .miss
  | _ => .err

theorem bmcIdGo_nil (env : Env) (o : CliOpts) (n : Text) (errs : Nat) :
    bmcIdGo env o n [] errs = { stdout := s "PEL not found\n", stderrLines := errs, exit := 0 } := by
  rw [bmcIdGo]

theorem bmcIdGo_cons (env : Env) (o : CliOpts) (n : Text) (f : FileEntry) (fs : Dir) (errs : Nat) :
    bmcIdGo env o n (f :: fs) errs = match bmcClass env o n f with
      | .miss => bmcIdGo env o n fs errs
      | .err => bmcIdGo env o n fs (errs + 1)
      | .hit t => { stdout := t, stderrLines := errs, exit := 0 } := by
  rw [bmcIdGo]
  unfold bmcClass generatePHRd printOne
  simp only [rd_bind_apply, rd_pure_apply, rd_ite_app]
  cases h1 : parseHeader f.data with
  | error e => rfl
  | ok p1 =>
    obtain ⟨hd, b1⟩ := p1
    simp only
    by_cases hid : hd.id ≠ sidPH
    · simp [hid]
    · simp only [hid, if_false]
      cases h2 : decodePH env.T hd b1 with
      | error e => rfl
      | ok p2 =>
        obtain ⟨⟨phJ, ph⟩, b2⟩ := p2
        simp only
        by_cases hn : natDec ph.obmcLogID = n
        · simp only [hn, if_true]
          cases hf : fullOf env { o.cfg with lookup := true } f with
          | some x => obtain ⟨eid, j⟩ := x; simp
          | skip => simp
          | diag => simp
        · simp [hn]

/-- the state after the walk of `parsePelFromBmcID` (`found` is the mutable local) -/
def bmcEnd (env : Env) (o : CliOpts) (n : Text) : Dir → PySt Bool → PySt Bool
  | [], st => st
  | f :: fs, st =>
    match bmcClass env o n f with
    | .miss => bmcEnd env o n fs st
    | .err => bmcEnd env o n fs { st with errs := st.errs + 1 }
    | .hit t => { st with loc := true, out := st.out ++ t }

/-- if every iteration does what `bmcClass` says, the loop ends in `bmcEnd` -/
theorem bmc_loop (env : Env) (o : CliOpts) (n : Text) (body : FileEntry → OutM Bool (Ctl Unit))
    (h : ∀ f st, match bmcClass env o n f with
      | .miss => loopView (body f st) = (.ok .next, st)
      | .err => loopView (body f st) = (.ok .next, { st with errs := st.errs + 1 })
      | .hit t => body f st = (.ok .brk, { st with loc := true, out := st.out ++ t }))
    (d : Dir) (st : PySt Bool) :
    forEach d body st = (.ok .next, bmcEnd env o n d st) := by
  induction d generalizing st with
  | nil => rfl
  | cons f fs ih =>
    have hf := h f st
    rw [forEach_cons, bmcEnd]
    cases hc : bmcClass env o n f with
    | hit t => simp only [hc] at hf; simp [hf]
    | miss =>
      simp only [hc] at hf
      generalize body f st = r at hf
      obtain ⟨r1, r2⟩ := r
      cases r1 with
      | ok c => cases c <;> simp_all [loopView]
      | exc => simp [loopView] at hf
      | exit n => simp [loopView] at hf
    | err =>
      simp only [hc] at hf
      generalize body f st = r at hf
      obtain ⟨r1, r2⟩ := r
      cases r1 with
      | ok c => cases c <;> simp_all [loopView]
      | exc => simp [loopView] at hf
      | exit n => simp [loopView] at hf

/-- the "PEL not found" test after the walk -/
def bmcOut (st : PySt Bool) : CliOut :=
  match st.loc with
  | true => { stdout := st.out, stderrLines := st.errs, exit := 0 }
  | false => { stdout := st.out ++ s "PEL not found\n", stderrLines := st.errs, exit := 0 }

/-- … and `bmcEnd` followed by the "PEL not found" test is the model's recursion -/
theorem bmcEnd_go (env : Env) (o : CliOpts) (n : Text) (d : Dir) (errs : Nat) :
    bmcOut (bmcEnd env o n d { loc := false, out := [], errs := errs }) = bmcIdGo env o n d errs := by
  induction d generalizing errs with
  | nil => simp [bmcEnd, bmcIdGo_nil, bmcOut]
  | cons f fs ih =>
    rw [bmcIdGo_cons]
    simp only [bmcEnd]
    cases hc : bmcClass env o n f with
    | hit t => simp [bmcOut]
    | miss => simpa using ih errs
    | err => simpa using ih (errs + 1)

end Pel.TieDM

namespace Pel.TieDM
variable {σ σ' α β ρ : Type}

/-! #### `--src`, `--src-exclude` -/

/-- what one file is for `parsePelFromSRCID`: the summaries to show (once per matching criterion), or a diagnostic (also for a
    selected PEL without primary SRC: KeyError) -/
def rSrc (env : Env) (cfg : SelCfg) (needle excl : Option Text) (f : FileEntry) : FileRes (List Summary) :=
  match summaryOf env cfg f with
  | .some (sm, _, some rc) =>
    .some ((match needle with
        | some n => if n ≠ [] ∧ isInfix n rc then [sm] else []
        | none => []) ++
      (match excl with
        | some t => if !isInfix rc t then [sm] else []
        | none => []))
  | .some (_, _, none) => .diag
  | .skip => .skip
  | .diag => .diag

theorem src_core (r : FileEntry → FileRes (List Summary)) (m : FileEntry → FileEntry × FileRes (List Summary))
    (hm : ∀ f, m f = (f, r f)) (files : List FileEntry) (hex : Bool) :
    ({ stdout := if hex then ((files.map m).filterMap (fun p => match p.2 with | .some l => some (p.1, l) | _ => none)).flatMap
                      (fun p => p.2.flatMap fun _ => linesOut (pelHexDisplay p.1.data))
                  else prettyPrint 29 (dumps (summaryObj (((files.map m).filterMap (fun p => match p.2 with | .some l => some (p.1, l) | _ => none)).flatMap (·.2)))) ++ nl,
       stderrLines := countDiag ((files.map m).map (·.2)), exit := 0 } : CliOut) =
      { stdout := if hex then (okList r files).flatMap (fun p => p.2.flatMap fun _ => linesOut (pelHexDisplay p.1.data))
                  else prettyPrint 29 (dumps (summaryObj ((okList r files).flatMap (·.2)))) ++ nl,
        stderrLines := countDiag (files.map r), exit := 0 } := by
  have hm' : m = fun f => (f, r f) := funext hm
  subst hm'
  have hk : (files.map fun f => (f, r f)).filterMap (fun p => match p.2 with | .some l => some (p.1, l) | _ => none) = okList r files := by
    unfold okList; congr 1; funext p; rcases p with ⟨f, x⟩; cases x <;> rfl
  rw [hk]
  simp [List.map_map, Function.comp_def]

theorem srcMode_eq (env : Env) (o : CliOpts) (needle excl : Option Text) (d : Dir) (hl : ∀ n, needle = some n → n.length ≤ 32) :
    srcMode env o needle excl d =
      { stdout := if o.hex then (okList (rSrc env { o.cfg with lookup := true } needle excl) (Pel.getFileList d o.ext o.rev)).flatMap
                      (fun p => p.2.flatMap fun _ => linesOut (pelHexDisplay p.1.data))
                  else prettyPrint 29 (dumps (summaryObj ((okList (rSrc env { o.cfg with lookup := true } needle excl) (Pel.getFileList d o.ext o.rev)).flatMap (·.2)))) ++ nl,
        stderrLines := countDiag ((Pel.getFileList d o.ext o.rev).map (rSrc env { o.cfg with lookup := true } needle excl)), exit := 0 } := by
  unfold srcMode
  have hc : ¬ ((match needle with | some n => decide (n.length > 32) | none => false) = true) := by
    cases needle with
    | none => simp
    | some n => have := hl n rfl; simp; omega
  rw [if_neg (by cases needle <;> simp_all)]
  refine src_core (rSrc env { o.cfg with lookup := true } needle excl) _ (fun f => ?_) _ _
  unfold rSrc
  split <;> first | rfl | (cases needle <;> cases excl <;> simp_all)

theorem srcMode_long (env : Env) (o : CliOpts) (n : Text) (excl : Option Text) (d : Dir) (hl : n.length > 32) :
    srcMode env o (some n) excl d = { stdout := [], stderrLines := 1, exit := 1 } := by
  unfold srcMode
  simp [hl]

end Pel.TieDM

namespace Pel.TieDM
variable {σ σ' α β ρ : Type}

/-! ### `parsePELSummary` -/

@[outm] theorem pyRdL_apply {α : Type} (r : Rd α) (get : σ → Bytes) (set : σ → Bytes → σ) (st : PySt σ) :
    (pyRdL r get set : OutM σ α) st = match r (get st.loc) with
      | .ok (a, b) => (.ok a, { st with loc := set st.loc b })
      | .error _ => (.exc, st) := by
  unfold pyRdL
  cases r (get st.loc) <;> rfl

theorem pyGetItem_apply (j : J) (k : Text) (st : PySt σ) :
    (pyGetItem j k : OutM σ J) st = match jItem k j with
      | some v => (.ok v, st)
      | none => (.exc, st) := by
  unfold pyGetItem
  cases jItem k j <;> rfl

theorem pyStrIn_apply (k : Text) (j : J) (st : PySt σ) :
    (pyStrIn k j : OutM σ Bool) st = match jIn k j with
      | some b => (.ok b, st)
      | none => (.exc, st) := by
  unfold pyStrIn
  cases jIn k j <;> rfl

theorem rd_map_apply {α β : Type} (f : α → β) (r : Rd α) (b : Bytes) :
    (f <$> r) b = match r b with
      | .ok p => .ok (f p.1, p.2)
      | .error e => .error e := by
  simp only [Functor.map, StateT.map, Except.bind, bind, Except.pure, pure]
  cases r b <;> rfl

theorem namedBy_apply (T : Tables) (h : SecHdr) (rd : Rd J) (b : Bytes) :
    namedBy T h rd b = match rd b with
      | .ok p => .ok ((sectionName T h.id, p.1), p.2)
      | .error e => .error e := by
  unfold namedBy
  rw [rd_bind_apply]
  cases rd b <;> rfl

theorem secHdr_eta (h : SecHdr) : SecHdr.mk h.id h.len h.ver h.sub h.comp = h := rfl

theorem objGet?_append' (a b : List (Text × J)) (k : Text) :
    objGet? (a ++ b) k = match objGet? a k with
      | some v => some v
      | none => objGet? b k := by
  induction a with
  | nil => rfl
  | cons p a ih =>
    obtain ⟨k', v⟩ := p
    by_cases hk : k' = k
    · simp [objGet?, hk]
    · simp [objGet?, hk, ih]

theorem objGet?_none_of_keys' (a : List (Text × J)) (k : Text) (h : ∀ p ∈ a, p.1 ≠ k) : objGet? a k = none := by
  induction a with
  | nil => rfl
  | cons p a ih =>
    obtain ⟨k', v⟩ := p
    have hk : k' ≠ k := h (k', v) (by simp)
    simp only [objGet?, hk, if_false]
    exact ih (fun q hq => h q (by simp [hq]))

theorem objGet?_append_none' (a b : List (Text × J)) (k : Text) (h : ∀ p ∈ a, p.1 ≠ k) : objGet? (a ++ b) k = objGet? b k := by
  rw [objGet?_append', objGet?_none_of_keys' a k h]

theorem objGet?_append_some' (a b : List (Text × J)) (k : Text) (v : J) (h : objGet? a k = some v) : objGet? (a ++ b) k = some v := by
  rw [objGet?_append', h]

theorem objGet?_isSome_of_key (l : List (Text × J)) (k : Text) (h : k ∈ l.map (·.1)) : (objGet? l k).isSome = true := by
  induction l with
  | nil => cases h
  | cons p l ih =>
    obtain ⟨k', v'⟩ := p
    by_cases hk : k' = k
    · simp [objGet?, hk]
    · simp only [List.map_cons, List.mem_cons] at h
      rcases h with h | h
      · exact absurd h.symm hk
      · simpa [objGet?, hk] using ih h

/-- what `parsePELSummary` reads from the private header's document -/
def PhFacts (r : J × PHInfo) : Prop :=
  ∃ l, r.1 = .obj l ∧ (objGet? l (s "Creator Subsystem")).isSome = true ∧ (objGet? l (s "Created by")).isSome = true

theorem decodePH_facts (T : Tables) (h : SecHdr) (st : Bytes) : Post PhFacts (decodePH T h st) := by
  unfold decodePH
  repeat (apply post_bind; intro _ _)
  apply post_pure
  refine ⟨_, rfl, ?_, ?_⟩ <;> exact objGet?_isSome_of_key _ _ (by simp [kv])

/-- … and from the user header's -/
def UhFacts (r : J × UHInfo) : Prop :=
  ∃ l, r.1 = .obj l ∧ (objGet? l (s "Subsystem")).isSome = true ∧ (objGet? l (s "Event Severity")).isSome = true

theorem decodeUH_facts (T : Tables) (h : SecHdr) (creator : Text) (st : Bytes) : Post UhFacts (decodeUH T h creator st) := by
  unfold decodeUH
  repeat (apply post_bind; intro _ _)
  apply post_pure
  refine ⟨_, rfl, ?_, ?_⟩ <;> exact objGet?_isSome_of_key _ _ (by simp [kv])

end Pel.TieDM

namespace Pel.TieDM
variable {σ σ' α β ρ : Type}

theorem post_fail {α : Type} (P : α → Prop) (e : Err) (st : Bytes) : Post P ((Rd.fail e : Rd α) st) := trivial

theorem post_ite {α : Type} (P : α → Prop) (c : Prop) [Decidable c] (x y : Rd α) (st : Bytes)
    (hx : c → Post P (x st)) (hy : ¬ c → Post P (y st)) : Post P ((if c then x else y) st) := by
  split
  · exact hx ‹_›
  · exact hy ‹_›

/-- the member `Reference Code` of an SRC document stands behind members with other names -/
theorem base_rc (A B C X : List (Text × J)) (w v : J)
    (hA : ∀ p ∈ A, p.1 ≠ s "Reference Code") (hB : ∀ p ∈ B, p.1 ≠ s "Reference Code") (hC : ∀ p ∈ C, p.1 ≠ s "Reference Code") :
    objGet? ((A ++ B ++ C ++ [kv "Valid Word Count" w, kv "Reference Code" v]) ++ X) (s "Reference Code") = some v := by
  apply objGet?_append_some'
  rw [List.append_assoc, List.append_assoc, objGet?_append_none' _ _ _ hA, objGet?_append_none' _ _ _ hB, objGet?_append_none' _ _ _ hC]
  simp [objGet?, kv, (by decide : s "Valid Word Count" ≠ s "Reference Code")]

def SrcFacts (r : J × Text) : Prop := ∃ l, r.1 = .obj l ∧ objGet? l (s "Reference Code") = some (jstr r.2)

theorem post_final (allow : Bool) (det : SrcDetails) (L : List (Text × J)) (rc : Text) (st : Bytes)
    (hk : ∀ X, objGet? (L ++ X) (s "Reference Code") = some (jstr rc)) :
    Post SrcFacts ((if allow = true then
        match det with
        | .none => pure (.obj L, rc)
        | .some j => pure (.obj (L ++ [kv "SRC Details" j]), rc)
        | .fail => Rd.fail .other
        | .unsupported => Rd.fail .unsupported
      else pure (.obj L, rc) : Rd (J × Text)) st) := by
  have h0 : objGet? L (s "Reference Code") = some (jstr rc) := by simpa using hk []
  split
  · cases det
    · exact post_pure _ _ _ ⟨_, rfl, h0⟩
    · exact post_pure _ _ _ ⟨_, rfl, hk _⟩
    · exact post_fail _ _ _
    · exact post_fail _ _ _
  · exact post_pure _ _ _ ⟨_, rfl, h0⟩

theorem decodeSRC_facts (T : Tables) (env : SrcEnv) (h : SecHdr) (creator : Text) (allow : Bool) (st : Bytes) :
    Post SrcFacts (decodeSRC T env h creator allow st) := by
  unfold decodeSRC
  apply post_bind; intro verB _
  apply post_bind; intro flags _
  apply post_bind; intro _ _
  apply post_bind; intro wordCount _
  apply post_bind; intro _ _
  apply post_bind; intro _ _
  apply post_bind; intro words _
  apply post_bind; intro ascii st8
  generalize hed : (if (List.take 2 ascii = s "BD" ∨ List.take 2 ascii = s "11") ∨ List.take 2 ascii = s "BC" then
      errorDetails env.registry ascii words else ErrDet.none) = ed
  simp only []
  have key : ∀ X : List (Text × J), objGet? (([kv "Section Version" (jnum h.ver), kv "Sub-section type" (jnum h.sub),
        kv "Created by" (jstr (displayCompID T h.comp creator)),
        kv "SRC Version" (jstr (ox (bytesHexL verB))),
        kv "SRC Format" (jstr (ox (fmtHex 2 (words.getD 0 0 &&& 255)))),
        kv "Virtual Progress SRC" (boolStr (flags &&& 128 != 0)),
        kv "I5/OS Service Event Bit" (boolStr (flags &&& 16 != 0)),
        kv "Hypervisor Dump Initiated" (boolStr (flags &&& 4 != 0))] ++
      (if List.take 2 ascii = s "BD" ∨ List.take 2 ascii = s "11" then
        [kv "Backplane CCIN" (jstr (fmtHex 4 (words.getD 1 0 >>> 16))),
          kv "Terminate FW Error" (boolStr (words.getD 3 0 &&& 536870912 != 0))]
      else []) ++
      (if (List.take 2 ascii = s "BD" ∨ List.take 2 ascii = s "11") ∨ List.take 2 ascii = s "BC" then
        [kv "Deconfigured" (boolStr (words.getD 3 0 &&& 33554432 != 0)),
          kv "Guarded" (boolStr (words.getD 3 0 &&& 16777216 != 0))] ++ ed.members
      else []) ++
      [kv "Valid Word Count" (jstr (ox (fmtHex 2 wordCount))), kv "Reference Code" (jstr (stripSp ascii))]) ++ X)
      (s "Reference Code") = some (jstr (stripSp ascii)) := by
    intro X
    apply base_rc
    · intro p hp
      simp only [List.mem_cons, List.not_mem_nil, or_false] at hp
      rcases hp with rfl | rfl | rfl | rfl | rfl | rfl | rfl | rfl <;> (show s _ ≠ s "Reference Code"; decide)
    · intro p hp
      split at hp
      · simp only [List.mem_cons, List.not_mem_nil, or_false] at hp
        rcases hp with rfl | rfl <;> (show s _ ≠ s "Reference Code"; decide)
      · cases hp
    · intro p hp
      split at hp
      · simp only [List.mem_append, List.mem_cons, List.not_mem_nil, or_false] at hp
        rcases hp with (rfl | rfl) | hp
        · show s _ ≠ s "Reference Code"; decide
        · show s _ ≠ s "Reference Code"; decide
        · cases ed <;> simp only [ErrDet.members, List.mem_cons, List.not_mem_nil, or_false] at hp
          subst hp; show s _ ≠ s "Reference Code"; decide
      · cases hp
  split
  · exact post_fail _ _ _
  · exact post_fail _ _ _
  · apply post_ite
    · intro _; exact post_fail _ _ _
    · intro _
      apply post_ite
      · intro _
        simp only [bind_assoc, pure_bind]
        apply post_bind; intro c st9
        apply post_final
        intro X
        rw [List.append_assoc, List.append_assoc]
        exact key _
      · intro _
        simp only [pure_bind]
        apply post_final
        intro X
        rw [List.append_assoc]
        exact key _

end Pel.TieDM

namespace Pel.TieDM
variable {σ σ' α β ρ : Type}

/-- what the summary loop relies on in the decode of a primary SRC section -/
def PsFacts (r : J × Option Text) : Prop := ∃ l rc, r.1 = .obj l ∧ r.2 = some rc ∧ objGet? l (s "Reference Code") = some (jstr rc)

theorem decodeSection_ps (env : Env) (creator : Text) (h : SecHdr) (hid : h.id = sidPS) (st : Bytes) :
    Post PsFacts (decodeSection env creator h st) := by
  unfold decodeSection
  rw [if_pos (Or.inl hid)]
  have hf := decodeSRC_facts env.T env.src h creator env.allowPlugins st
  rw [rd_bind_apply]
  cases hr : decodeSRC env.T env.src h creator env.allowPlugins st with
  | error e => trivial
  | ok p =>
    obtain ⟨⟨j, rc⟩, b⟩ := p
    rw [hr] at hf
    obtain ⟨l, h1, h2⟩ := hf
    exact ⟨l, rc, h1, rfl, h2⟩

/-- `summary["SRC"] = …; summary["Message"] = …` -/
def addSM (d : List (Text × J)) (rc : Option Text) (msg : Option J) : List (Text × J) :=
  let d1 := match rc with
    | some r => objSet d (s "SRC") (jstr r)
    | none => d
  match msg with
  | some m => objSet d1 (s "Message") m
  | none => d1

/-- the two results agree: equal, or both an exception with the same output (the locals no longer matter then) -/
def StepRel (r r' : PyRes (Ctl ρ) × PySt σ) : Prop :=
  match r'.1 with
  | .exc => r.1 = .exc ∧ r.2.out = r'.2.out ∧ r.2.errs = r'.2.errs
  | _ => r = r'

/-- one iteration of the section loop of `parsePELSummary` on (stream, summary) -/
def psStep (env : Env) (creator : Text) (st : PySt (Bytes × List (Text × J))) : PyRes (Ctl ρ) × PySt (Bytes × List (Text × J)) :=
  match parseHeader st.loc.1 with
  | .error _ => (.exc, st)
  | .ok (h, b1) =>
    match decodeSection env creator h b1 with
    | .error _ => (.exc, st)
    | .ok ((j, rc), b2) =>
      if h.id = sidPS then
        match summaryMessage j b2 with
        | .error _ => (.exc, st)
        | .ok (msg, _) => (.ok .brk, { st with loc := (b2, addSM st.loc.2 rc msg) })
      else (.ok .next, { st with loc := (b2, st.loc.2) })

/-- the whole loop, from the model's `summarySections` -/
def psLoop (env : Env) (creator : Text) (k : Nat) (st : PySt (Bytes × List (Text × J))) : PyRes (Ctl ρ) × PySt (Bytes × List (Text × J)) :=
  match summarySections env creator k st.loc.1 with
  | .error _ => (.exc, st)
  | .ok ((rc, msg), b') => (.ok .next, { st with loc := (b', addSM st.loc.2 rc msg) })

theorem summaryMessage_rest (j : J) (b : Bytes) (m : Option J) (b' : Bytes) (h : summaryMessage j b = .ok (m, b')) : b' = b := by
  unfold summaryMessage at h
  cases hj : jIn (s "Error Details") j with
  | none => simp [hj, Rd.fail] at h
  | some t =>
    cases t with
    | false =>
      simp only [hj] at h
      cases h; rfl
    | true =>
      simp only [hj] at h
      cases hm : (jItem (s "Error Details") j).bind (jItem (s "Message")) with
      | none => simp [hm, Rd.fail] at h
      | some m' =>
        simp only [hm] at h
        cases h; rfl

theorem sum_loop (env : Env) (creator : Text) (body : Nat → OutM (Bytes × List (Text × J)) (Ctl ρ))
    (hbody : ∀ i st, StepRel (body i st) (psStep env creator st)) :
    ∀ (k a : Nat) (st : PySt (Bytes × List (Text × J))), StepRel (forEach (List.range' a k) body st) (psLoop env creator k st) := by
  intro k
  induction k with
  | zero =>
    intro a st
    simp only [List.range', forEach_nil, psLoop, summarySections, StepRel]
    rfl
  | succ k ih =>
    intro a st
    have hb := hbody a st
    rw [show List.range' a (k + 1) = a :: List.range' (a + 1) k from rfl, forEach_cons]
    unfold psLoop summarySections
    unfold psStep at hb
    rw [rd_bind_apply]
    cases h1 : parseHeader st.loc.1 with
    | error e =>
      simp only [h1, StepRel] at hb ⊢
      obtain ⟨e1, e2, e3⟩ := hb
      generalize body a st = r at *
      obtain ⟨r1, r2⟩ := r
      cases e1
      exact ⟨rfl, e2, e3⟩
    | ok p1 =>
      obtain ⟨h, b1⟩ := p1
      simp only [h1] at hb ⊢
      rw [rd_bind_apply]
      cases h2 : decodeSection env creator h b1 with
      | error e =>
        simp only [h2, StepRel] at hb ⊢
        obtain ⟨e1, e2, e3⟩ := hb
        generalize body a st = r at *
        obtain ⟨r1, r2⟩ := r
        cases e1
        exact ⟨rfl, e2, e3⟩
      | ok p2 =>
        obtain ⟨⟨j, rc⟩, b2⟩ := p2
        simp only [h2] at hb ⊢
        by_cases hid : h.id = sidPS
        · simp only [hid, if_true] at hb ⊢
          rw [rd_bind_apply]
          cases h3 : summaryMessage j b2 with
          | error e =>
            simp only [h3, StepRel] at hb ⊢
            obtain ⟨e1, e2, e3⟩ := hb
            generalize body a st = r at *
            obtain ⟨r1, r2⟩ := r
            cases e1
            exact ⟨rfl, e2, e3⟩
          | ok p3 =>
            obtain ⟨msg, b3⟩ := p3
            have hb3 := summaryMessage_rest j b2 msg b3 h3
            subst hb3
            simp only [h3, StepRel] at hb ⊢
            rw [hb]
            rfl
        · simp only [hid, if_false] at hb ⊢
          simp only [StepRel] at hb
          rw [hb]
          have := ih (a + 1) { st with loc := (b2, st.loc.2) }
          unfold psLoop at this
          simp only at this ⊢
          cases h4 : summarySections env creator k b2 with
          | error e =>
            simp only [h4, StepRel] at this ⊢
            exact this
          | ok p4 =>
            obtain ⟨⟨rc', msg'⟩, b4⟩ := p4
            simp only [h4, StepRel] at this ⊢
            exact this

end Pel.TieDM

namespace Pel.TieDM
/-- the names under which `generatePH`, `generateUH` and `sectionFun` store what `parsePELSummary` then reads back with literal keys
    (true of the live table `sectionNames`, pinned by C01.pin_section_names) -/
def NamesOk (T : Tables) : Prop :=
  sectionName T sidPH = s "Private Header" ∧ sectionName T sidUH = s "User Header" ∧ sectionName T sidPS = s "Primary SRC"
end Pel.TieDM

namespace Pel.TieDM
/-! the keys `parsePELSummary` uses, as code points (the generated terms carry the literals of the source) -/
@[pykeys] theorem sl_Primary_SRC : s "Primary SRC" = [80, 114, 105, 109, 97, 114, 121, 32, 83, 82, 67] := by decide
@[pykeys] theorem sl_Reference_Code : s "Reference Code" = [82, 101, 102, 101, 114, 101, 110, 99, 101, 32, 67, 111, 100, 101] := by decide
@[pykeys] theorem sl_Error_Details : s "Error Details" = [69, 114, 114, 111, 114, 32, 68, 101, 116, 97, 105, 108, 115] := by decide
@[pykeys] theorem sl_Message : s "Message" = [77, 101, 115, 115, 97, 103, 101] := by decide
@[pykeys] theorem sl_SRC : s "SRC" = [83, 82, 67] := by decide
@[pykeys] theorem sl_PLID : s "PLID" = [80, 76, 73, 68] := by decide
@[pykeys] theorem sl_CreatorID : s "CreatorID" = [67, 114, 101, 97, 116, 111, 114, 73, 68] := by decide
@[pykeys] theorem sl_Subsystem : s "Subsystem" = [83, 117, 98, 115, 121, 115, 116, 101, 109] := by decide
@[pykeys] theorem sl_Commit_Time : s "Commit Time" = [67, 111, 109, 109, 105, 116, 32, 84, 105, 109, 101] := by decide
@[pykeys] theorem sl_Sev : s "Sev" = [83, 101, 118] := by decide
@[pykeys] theorem sl_CompID : s "CompID" = [67, 111, 109, 112, 73, 68] := by decide
@[pykeys] theorem sl_Private_Header : s "Private Header" = [80, 114, 105, 118, 97, 116, 101, 32, 72, 101, 97, 100, 101, 114] := by decide
@[pykeys] theorem sl_User_Header : s "User Header" = [85, 115, 101, 114, 32, 72, 101, 97, 100, 101, 114] := by decide
@[pykeys] theorem sl_Creator_Subsystem : s "Creator Subsystem" = [67, 114, 101, 97, 116, 111, 114, 32, 83, 117, 98, 115, 121, 115, 116, 101, 109] := by decide
@[pykeys] theorem sl_Created_by : s "Created by" = [67, 114, 101, 97, 116, 101, 100, 32, 98, 121] := by decide
@[pykeys] theorem sl_Event_Severity : s "Event Severity" = [69, 118, 101, 110, 116, 32, 83, 101, 118, 101, 114, 105, 116, 121] := by decide
end Pel.TieDM
