import PelProofs.FramesDefs
/- Framing lemmas for the section header and the straight-line sections (PH, UH, EH, MT, LP, Default, UD, ED). -/
namespace Pel

theorem Frames.of_eq {α} {r : Rd α} {a a' : Bytes} {x x' : α} (h : Frames r a x) (ha : a = a') (hx : x = x') :
    Frames r a' x' := by subst ha; subst hx; exact h


theorem Frames.ite {α} {c : Prop} [Decidable c] {r1 r2 : Rd α} {a : Bytes} {x : α}
    (h1 : c → Frames r1 a x) (h2 : ¬c → Frames r2 a x) : Frames (if c then r1 else r2) a x := by
  by_cases hc : c
  · rw [if_pos hc]; exact h1 hc
  · rw [if_neg hc]; exact h2 hc

/-- the shape `do`-notation gives to `let x ← if c then r1 else r2; rest` (a join point applied in both branches) -/
theorem Frames.iteBind {α β} {c : Prop} [Decidable c] {r1 r2 : Rd α} {f : α → Rd β} {a b : Bytes} {x : α} {y : β}
    (h : Frames (if c then r1 else r2) a x) (hf : Frames (f x) b y) :
    Frames (if c then r1 >>= f else r2 >>= f) (a ++ b) y := by
  by_cases hc : c
  · rw [if_pos hc] at h ⊢; exact Frames.bind h hf
  · rw [if_neg hc] at h ⊢; exact Frames.bind h hf

theorem utf8Decode_ascii (b : Bytes) (hb : isAscii b) : utf8Decode b = some b := by
  induction b with
  | nil => simp [utf8Decode]
  | cons x r ih =>
    have hx : x < 128 := hb x (by simp)
    have hr : isAscii r := fun y hy => hb y (by simp [hy])
    rw [utf8Decode.eq_def]; simp [hx, ih hr]

theorem Frames.getText (b : Bytes) (hb : isAscii b) (hn : 0 < b.length) : Frames (getText b.length) b b := by
  unfold Pel.getText
  refine Frames.of_eq (Frames.bind (Frames.getMem b hn) ?_) (List.append_nil b) rfl
  rw [utf8Decode_ascii b hb]
  exact Frames.pure b

theorem Frames.getTextN (n : Nat) (b : Bytes) (hb : isAscii b) (hl : b.length = n) (hn : 0 < n) : Frames (Pel.getText n) b b := by
  subst hl; exact Frames.getText b hb hn

theorem Frames.getText1 (c : Nat) (hc : c < 128) : Frames (Pel.getText 1) [c] [c] :=
  Frames.getText [c] (by intro x hx; simp at hx; omega) (by simp)

theorem Frames.getTextOpt (b : Bytes) (hb : isAscii b) :
    Frames (if b.length ≠ 0 then Pel.getText b.length else Pure.pure []) b b :=
  Frames.ite (fun h => Frames.getText b hb (by omega))
    (fun h => by
      have : b = [] := List.eq_nil_of_length_eq_zero (by omega)
      subst this; exact Frames.pure [])

theorem Frames.getMemN (n : Nat) (a : Bytes) (hl : a.length = n) (h : 0 < n) : Frames (Pel.getMem n) a a := by
  subst hl; exact Frames.getMem a h

theorem Frames.getTimestamp (b : Bytes) (hlen : b.length = 8) : Frames Pel.getTimestamp b (bcdTime b) := by
  match b, hlen with
  | [a0, a1, a2, a3, a4, a5, a6, a7], _ =>
    unfold Pel.getTimestamp
    refine Frames.of_eq
      (Frames.bind (Frames.getMemN 2 [a0, a1] rfl (by omega)) <|
       Frames.bind (Frames.getMemN 1 [a2] rfl (by omega)) <|
       Frames.bind (Frames.getMemN 1 [a3] rfl (by omega)) <|
       Frames.bind (Frames.getMemN 1 [a4] rfl (by omega)) <|
       Frames.bind (Frames.getMemN 1 [a5] rfl (by omega)) <|
       Frames.bind (Frames.getMemN 1 [a6] rfl (by omega)) <|
       Frames.bind (Frames.getMemN 1 [a7] rfl (by omega)) <|
       Frames.pure _) ?_ ?_
    · rfl
    · rfl

theorem frames_parseHeader (id bodyLen : Nat) (h : AHdr) (hw : h.WF) (hid : id < 65536) (hl : 8 + bodyLen < 65536) :
    Frames parseHeader (encHdr id bodyLen h) (mkSecHdr id (8 + bodyLen) h) := by
  obtain ⟨hv, hs, hc⟩ := hw
  unfold parseHeader
  refine Frames.of_eq
    (Frames.bind (Frames.getInt 2 id (by omega) (by omega)) <|
     Frames.bind (Frames.getInt 2 (8 + bodyLen) (by omega) (by omega)) <|
     Frames.bind (Frames.getInt 1 h.ver (by omega) (by omega)) <|
     Frames.bind (Frames.getInt 1 h.sub (by omega) (by omega)) <|
     Frames.bind (Frames.getInt 2 h.comp (by omega) (by omega)) <|
     Frames.pure _) ?_ ?_
  · simp [encHdr]
  · rfl

theorem frames_PH (T : Tables) (p : APH) (hp : p.WF) (count : Nat) (hc : count < 256) (len : Nat) :
    Frames (decodePH T (mkSecHdr sidPH len p.hdr)) (p.encBody count)
      (renderPH T p, { creator := [p.creator], sectionCount := count, obmcLogID := p.obmc, plid := p.plid,
                       eid := p.eid, commitTime := bcdTime p.commit }) := by
  obtain ⟨hh, hc1, hc2, hb1, hb2, hcr, hr0, hr1, hob, hcv, hpl, hei⟩ := hp
  unfold decodePH
  refine Frames.of_eq
    (Frames.bind (Frames.getTimestamp p.create hc1) <|
     Frames.bind (Frames.getTimestamp p.commit hc2) <|
     Frames.bind (Frames.getText1 p.creator hcr) <|
     Frames.bind (Frames.getInt1 p.resv0 hr0) <|
     Frames.bind (Frames.getInt1 p.resv1 hr1) <|
     Frames.bind (Frames.getInt 1 count (by omega) (by omega)) <|
     Frames.bind (Frames.getInt 4 p.obmc (by omega) (by omega)) <|
     Frames.bind (Frames.getInt 8 p.cver (by omega) (by omega)) <|
     Frames.bind (Frames.getInt 4 p.plid (by omega) (by omega)) <|
     Frames.bind (Frames.getInt 4 p.eid (by omega) (by omega)) <|
     Frames.pure _) ?_ ?_
  · simp [APH.encBody]
  · rfl


theorem and_ff (x : Nat) : x &&& 0xff = x % 256 := Nat.and_two_pow_sub_one_eq_mod x 8

theorem and_ff00_shift (x : Nat) : (x &&& 0xFF00) >>> 8 = x / 256 % 256 := by
  rw [Nat.shiftRight_and_distrib, Nat.shiftRight_eq_div_pow]
  exact Nat.and_two_pow_sub_one_eq_mod (x / 2 ^ 8) 8

theorem frames_UH (T : Tables) (u : AUH) (hu : u.WF) (creator : Text) (len : Nat) :
    Frames (decodeUH T (mkSecHdr sidUH len u.hdr) creator) u.encBody
      (renderUH T u creator, { severity := u.sev, actionFlags := u.af }) := by
  obtain ⟨hh, h1, h2, h3, h4, h5, h6, h7, h8, h9⟩ := hu
  unfold decodeUH
  refine Frames.of_eq
    (Frames.bind (Frames.getInt 1 u.subsys (by omega) (by omega)) <|
     Frames.bind (Frames.getInt 1 u.scope (by omega) (by omega)) <|
     Frames.bind (Frames.getInt 1 u.sev (by omega) (by omega)) <|
     Frames.bind (Frames.getInt 1 u.etype (by omega) (by omega)) <|
     Frames.bind (Frames.getInt 4 u.resv (by omega) (by omega)) <|
     Frames.bind (Frames.getInt 1 u.pd (by omega) (by omega)) <|
     Frames.bind (Frames.getInt 1 u.pv (by omega) (by omega)) <|
     Frames.bind (Frames.getInt 2 u.af (by omega) (by omega)) <|
     Frames.bind (Frames.getInt 4 u.states (by omega) (by omega)) <|
     Frames.pure _) ?_ ?_
  · simp [AUH.encBody]
  · simp only [and_ff, and_ff00_shift]; rfl

theorem frames_EH (T : Tables) (h : AHdr) (creator : Text) (e : AEH) (he : e.WF) (id len : Nat) :
    Frames (decodeEH T (mkSecHdr id len h) creator) e.encBody (renderEH T h creator e) := by
  obtain ⟨l1, l2, l3, l4, hr, l5, b5, l6, b6, hs, a1, a2, a3, a4, a5⟩ := he
  match e6 : e.resv3, l6 with
  | [x0, x1, x2], _ =>
    rw [e6] at b6
    unfold decodeEH
    refine Frames.of_eq
      (Frames.bind (Frames.getTextN 8 e.mtm a1 l1 (by omega)) <|
       Frames.bind (Frames.getTextN 12 e.sn a2 l2 (by omega)) <|
       Frames.bind (Frames.getTextN 16 e.fw a3 l3 (by omega)) <|
       Frames.bind (Frames.getTextN 16 e.subfw a4 l4 (by omega)) <|
       Frames.bind (Frames.getInt 4 e.resv (by omega) (by omega)) <|
       Frames.bind (Frames.getTimestamp e.refTime l5) <|
       Frames.bind (Frames.getInt1 x0 (b6 x0 (by simp))) <|
       Frames.bind (Frames.getInt1 x1 (b6 x1 (by simp))) <|
       Frames.bind (Frames.getInt1 x2 (b6 x2 (by simp))) <|
       Frames.bind (Frames.getInt1 e.sym.length hs) <|
       Frames.iteBind (Frames.getTextOpt e.sym a5) <|
       Frames.pure _) ?_ ?_
    · simp [AEH.encBody, e6]
    · rfl

theorem frames_MT (T : Tables) (h : AHdr) (creator : Text) (m : AMT) (hm : m.WF) (id len : Nat) :
    Frames (decodeMT T (mkSecHdr id len h) creator) m.encBody (renderMT T h creator m) := by
  obtain ⟨l1, l2, a1, a2⟩ := hm
  unfold decodeMT
  refine Frames.of_eq
    (Frames.bind (Frames.getTextN 8 m.mtm a1 l1 (by omega)) <|
     Frames.bind (Frames.getTextN 12 m.sn a2 l2 (by omega)) <|
     Frames.pure _) ?_ ?_
  · simp [AMT.encBody]
  · rfl

theorem Frames.getNameOpt (b : Bytes) (hb : isAscii b) :
    Frames (if b.length ≠ 0 then (Pel.getText b.length >>= fun t => Pure.pure (rstripChar 0 t)) else Pure.pure []) b
      (rstripChar 0 b) :=
  Frames.ite
    (fun h => Frames.of_eq (Frames.bind (Frames.getText b hb (by omega)) (Frames.pure _)) (List.append_nil _) rfl)
    (fun h => by
      have : b = [] := List.eq_nil_of_length_eq_zero (by omega)
      subst this; exact Frames.pure [])

theorem Frames.getInts2 (ts : List Nat) (h : ∀ t ∈ ts, t < 65536) :
    Frames (Pel.getInts 2 ts.length) (ts.flatMap (toBE 2)) ts := by
  induction ts with
  | nil => exact Frames.pure []
  | cons t r ih =>
    have hr : ∀ t ∈ r, t < 65536 := fun y hy => h y (by simp [hy])
    have ht : t < 65536 := h t (by simp)
    show Frames (Pel.getInts 2 (r.length + 1)) _ _
    unfold Pel.getInts
    refine Frames.of_eq
      (Frames.bind (Frames.getInt 2 t (by omega) (by omega)) <|
       Frames.bind (ih hr) <| Frames.pure _) ?_ rfl
    simp

theorem Frames.getPad (n pad : Nat) (hp : pad < 65536) :
    Frames (if n % 2 ≠ 0 then Pel.getInt 2 else Pure.pure 0) (if n % 2 = 1 then toBE 2 pad else [])
      (if n % 2 = 1 then pad else 0) :=
  Frames.ite
    (fun h => by
      have h' : n % 2 = 1 := by omega
      rw [if_pos h', if_pos h']; exact Frames.getInt 2 pad (by omega) (by omega))
    (fun h => by
      have h' : ¬ n % 2 = 1 := by omega
      rw [if_neg h', if_neg h']; exact Frames.pure 0)

theorem frames_LP (T : Tables) (h : AHdr) (creator : Text) (l : ALP) (hl : l.WF) (id len : Nat) :
    Frames (decodeLP T (mkSecHdr id len h) creator) l.encBody (renderLP T h creator l) := by
  obtain ⟨hp, hlg, hnl, hna, htl, hts, hpad⟩ := hl
  unfold decodeLP
  refine Frames.of_eq
    (Frames.bind (Frames.getInt 2 l.primary (by omega) (by omega)) <|
     Frames.bind (Frames.getInt1 l.name.length hnl) <|
     Frames.bind (Frames.getInt1 l.targets.length htl) <|
     Frames.bind (Frames.getInt 4 l.logId (by omega) (by omega)) <|
     Frames.iteBind (Frames.getNameOpt l.name hna) <|
     Frames.bind (Frames.getInts2 l.targets hts) <|
     Frames.iteBind (Frames.getPad l.targets.length l.pad hpad) <|
     Frames.pure _) ?_ ?_
  · simp [ALP.encBody]
  · have e1 : fmtHex 4 l.primary = hexFix 4 l.primary := fmtHex_eq_hexFix 4 _ (by omega) (by omega)
    have e2 : fmtHex 2 l.name.length = hexFix 2 l.name.length := fmtHex_eq_hexFix 2 _ (by omega) (by omega)
    have e3 : fmtHex 2 l.targets.length = hexFix 2 l.targets.length := fmtHex_eq_hexFix 2 _ (by omega) (by omega)
    have e4 : fmtHex 8 l.logId = hexFix 8 l.logId := fmtHex_eq_hexFix 8 _ (by omega) (by omega)
    have e5 : (l.targets.map fun t => jstr (ox (fmtHex 4 t))) = (l.targets.map fun t => jstr (ox (hexFix 4 t))) :=
      List.map_congr_left (fun t ht => by rw [fmtHex_eq_hexFix 4 t (by have := hts t ht; omega) (by omega)])
    simp only [e1, e2, e3, e4, e5, renderLP, hdrMembers, mkSecHdr]
    cases l.targets <;> simp

theorem frames_Default (h : AHdr) (id : Nat) (payload : Bytes) (hp : 1 ≤ payload.length) :
    Frames (decodeDefault (mkSecHdr id (8 + payload.length) h)) payload (renderDefault h payload) := by
  unfold decodeDefault
  simp only [mkSecHdr, Nat.add_sub_cancel_left]
  exact Frames.of_eq (Frames.bind (Frames.getMem payload hp) (Frames.pure _)) (List.append_nil _) rfl

theorem udToJson_id (T : Tables) (id len : Nat) (h : AHdr) (creator : Text) (v : UdValue) :
    udToJson T (mkSecHdr id len h) creator v =
      udToJson T { id := 0, len := len, ver := h.ver, sub := h.sub, comp := h.comp } creator v := rfl

theorem frames_UD (env : Env) (h : AHdr) (creator : Text) (payload : Bytes) (hp : 1 ≤ payload.length) (j : J)
    (hr : renderUD env h (8 + payload.length) creator payload = .ok j) :
    Frames (decodeUD env.T env.ud env.allowPlugins (mkSecHdr sidUD (8 + payload.length) h) creator) payload j := by
  unfold renderUD at hr
  unfold decodeUD
  have hl : (mkSecHdr sidUD (8 + payload.length) h).len - 8 = payload.length := by simp [mkSecHdr]
  rw [hl]
  refine Frames.of_eq (Frames.bind (Frames.getMem payload hp) ?_) (List.append_nil _) rfl
  rw [udToJson_id]
  show Frames (match udToJson env.T _ creator (parseUserData env.T env.ud env.allowPlugins creator h.comp h.sub h.ver payload) with
    | .ok j => Pure.pure j | .error e => Rd.fail e) [] j
  rw [hr]
  exact Frames.pure j

theorem frames_ED (env : Env) (h : AHdr) (c r1 r2 : Nat) (payload : Bytes) (hc : c < 256) (h1 : r1 < 256) (h2 : r2 < 65536)
    (hp : 1 ≤ payload.length) (j : J) (hr : renderUD env h (12 + payload.length) [c] payload = .ok j) :
    Frames (decodeED env.T env.ud env.allowPlugins (mkSecHdr sidED (12 + payload.length) h))
      ([c, r1] ++ toBE 2 r2 ++ payload) j := by
  unfold renderUD at hr
  unfold decodeED
  have hl : (mkSecHdr sidED (12 + payload.length) h).len - 4 - 8 = payload.length := by simp [mkSecHdr]; omega
  rw [hl]
  refine Frames.of_eq
    (Frames.bind (Frames.getInt1 c hc) <|
     Frames.bind (Frames.getInt1 r1 h1) <|
     Frames.bind (Frames.getInt 2 r2 (by omega) (by omega)) <|
     Frames.bind (b := []) (Frames.getMem payload hp) ?_) ?_ rfl
  · dsimp only
    rw [udToJson_id]
    show Frames (match udToJson env.T _ [c] (parseUserData env.T env.ud env.allowPlugins [c] h.comp h.sub h.ver payload) with
      | .ok j => Pure.pure j | .error e => Rd.fail e) [] j
    rw [hr]
    exact Frames.pure j
  · simp

end Pel
