import PelModel.TransHexdump
import PelProofs.HexDump
import PelProofs.Dump
/-
  Helper lemmas of the source tie of stream `hexdump` (PelProps/TieC13.lean, PelProps/TieC17.lean).

  The definitions regenerated from the source text (PelGen/GenHexdump.lean) are `do` blocks in the `Option` monad; Lean elaborates
  every `for` loop into `forIn <list> <initial state> <step>`.  Each lemma below characterises ONE loop of the source: for ANY step
  function `f` that, POINTWISE, does what one round of the Python loop body does (hypothesis `hf`), the whole loop is the model's
  recursive function.  The tie proofs instantiate `f` with whatever step the translator generated (first-order unification through
  `rw`) and discharge `hf` by simplification and case analysis, so the names of locals, the order of independent statements, the
  way a condition or a format is written … do not matter; what one round DOES must be what the model does.
-/
set_option linter.unusedSimpArgs false
namespace Pel.TieHex

theorem zero_eq_iff (n : Nat) : (0 = n) = (n = 0) := by
  apply propext; omega

/-! ### `hexdump` -/

theorem fmtHex2_byte (b : Nat) (h : b < 256) : fmtHex 2 b = [hexU (b / 16), hexU b] := by
  rw [fmtHex_eq_hexFix 2 b (by omega) (by omega)]
  simp [hexFix]

/-- the inner loop of `hexdump`: one (hex cell, text cell) per byte; `mk` says how the loop state holds the two strings -/
theorem forIn_cells {σ} (mk : Text → Text → σ) {c : Nat} {f : Nat × Nat → σ → Option (ForInStep σ)}
    (hf : ∀ j b raw text, b < 256 → f (j, b) (mk raw text) =
      some (.yield (mk (raw ++ ((if j ≠ 0 ∧ j % c = 0 then spaces 2 else []) ++ [hexU (b / 16), hexU b])) (text ++ [asciiCell b])))) :
    ∀ (ck : Bytes) (j : Nat) (raw text : Text), (∀ x ∈ ck, x < 256) →
      forIn (Py.enumFrom j ck) (mk raw text) f = some (mk (raw ++ rawFrom c j ck) (text ++ ck.map asciiCell)) := by
  intro ck
  induction ck with
  | nil => intro j raw text _; simp [Py.enumFrom, rawFrom, rawSep]
  | cons x r ih =>
    intro j raw text hb
    simp only [Py.enumFrom, List.forIn_cons]
    rw [hf j x raw text (hb x (by simp))]
    simp only [Option.bind_eq_bind, Option.bind_some]
    rw [ih (j + 1) _ _ (fun y hy => hb y (by simp [hy]))]
    simp [rawFrom, rawSep, List.append_assoc]

theorem slice_eq {α} (b : List α) (i l : Nat) : Py.slice b i (i + l) = (b.drop i).take l := by
  unfold Py.slice
  rw [List.drop_take]; simp

/-- the line loop of `hexdump` -/
theorem forIn_lines {l c : Nat} {b : Bytes} (hl : 1 ≤ l) {f : Nat → List Text → Option (ForInStep (List Text))}
    (hf : ∀ i acc, f i acc = some (.yield (acc ++ [dumpLine l c i (Py.slice b i (i + l))]))) :
    ∀ (n off : Nat) (acc : List Text), b.length - off ≤ n →
      forIn (Py.rangeAux b.length l n off) acc f = some (acc ++ hexdumpFrom l c off (b.drop off)) := by
  intro n
  induction n with
  | zero =>
    intro off acc h
    have : b.drop off = [] := by apply List.drop_eq_nil_of_le; omega
    simp [Py.rangeAux, this, hexdumpFrom_nil]
  | succ n ih =>
    intro off acc h
    simp only [Py.rangeAux]
    by_cases hlt : off < b.length
    · have hne : b.drop off ≠ [] := by
        intro e; have := List.drop_eq_nil_iff.mp e; omega
      simp only [hlt, if_true, List.forIn_cons, hf, Option.bind_eq_bind, Option.bind_some]
      rw [ih (off + l) _ (by omega), hexdumpFrom_cons l c off _ hne (by omega), slice_eq, List.drop_drop]
      simp [List.append_assoc]
    · have : b.drop off = [] := by apply List.drop_eq_nil_of_le; omega
      simp [hlt, this, hexdumpFrom_nil]

/-! ### `parse` -/

/-- what one round of the template walk of `parse` does at index `i` (template character `fc`, line character `ch`) -/
def stepSpec {σ} (mk : Bytes → Bool → σ) (ln : Text) (i fc ch : Nat) (data : Bytes) (prev : Bool) : Option (ForInStep σ) :=
  if fc = chA then (if isHexDigit ch then some (.yield (mk data prev)) else some (.done (mk data prev)))
  else if fc = chD then
    if isHexDigit ch then
      if prev then (Py.fromHex (Py.slice ln (i - 1) (i + 1))).bind fun bv => some (.yield (mk (data ++ bv) false))
      else some (.yield (mk data true))
    else some (.done (mk data prev))
  else if fc = chC then some (.yield (mk data prev))
  else if fc = ch then some (.yield (mk data prev)) else some (.done (mk data prev))

/-- the flag `prev_byte_is_high_nibble` after the walk -/
def goFlag : Text → Text → Bool → Bool
  | _, [], p => p
  | [], _ :: _, p => p
  | f :: fs, ch :: ls, p =>
    if f = chA then (if isHexDigit ch then goFlag fs ls p else p)
    else if f = chD then (if isHexDigit ch then goFlag fs ls (!p) else p)
    else if f = chC then goFlag fs ls p
    else if f = ch then goFlag fs ls p else p

def PInv (ln : Text) (k : Nat) (prev : Bool) (fr : Text) : Prop :=
  if prev then ∃ h gs, 1 ≤ k ∧ ln[k - 1]? = some h ∧ isHexDigit h = true ∧ fr = chD :: gs ∧ pairedD gs = true
  else pairedD fr = true

def hiOf (ln : Text) (k : Nat) (prev : Bool) : Option Nat := if prev then ln[k - 1]? else none

theorem slice_two (ln : Text) (k h ch : Nat) (hk : 1 ≤ k) (h1 : ln[k - 1]? = some h) (h2 : ln[k]? = some ch) :
    Py.slice ln (k - 1) (k + 1) = [h, ch] := by
  obtain ⟨j, rfl⟩ : ∃ j, k = j + 1 := ⟨k - 1, by omega⟩
  simp only [Nat.add_sub_cancel] at *
  unfold Py.slice
  rw [List.drop_take]
  have e : j + 1 + 1 - j = 2 := by omega
  rw [e]
  have hj : j < ln.length := by
    rcases Nat.lt_or_ge j ln.length with h | h
    · exact h
    · rw [List.getElem?_eq_none h] at h1; cases h1
  have hj1 : j + 1 < ln.length := by
    rcases Nat.lt_or_ge (j + 1) ln.length with h | h
    · exact h
    · rw [List.getElem?_eq_none h] at h2; cases h2
  rw [List.getElem?_eq_getElem hj] at h1
  rw [List.getElem?_eq_getElem hj1] at h2
  rw [List.drop_eq_getElem_cons hj, List.drop_eq_getElem_cons hj1]
  simp at h1 h2
  simp [h1, h2]

theorem fromHex_two (h ch : Nat) (h1 : isHexDigit h = true) (h2 : isHexDigit ch = true) :
    Py.fromHex [h, ch] = some [16 * hexVal h + hexVal ch] := by
  simp [Py.fromHex, Py.hexPairs, h1, h2]

theorem pairedD_cons_ne (f : Nat) (fs : Text) (hf : f ≠ chD) : pairedD (f :: fs) = pairedD fs := by
  cases fs with
  | nil => simp [pairedD, hf]
  | cons g gs => simp [pairedD, hf]

theorem pairedD_cons_D (fs : Text) (h : pairedD (chD :: fs) = true) : ∃ gs, fs = chD :: gs ∧ pairedD gs = true := by
  cases fs with
  | nil => simp [pairedD] at h
  | cons g gs =>
    simp [pairedD] at h
    exact ⟨gs, by rw [h.1], h.2⟩

theorem forIn_parse_aux {σ} (mk : Bytes → Bool → σ) {fmt ln : Text} {f : Nat → σ → Option (ForInStep σ)}
    (hf : ∀ i fc ch data prev, fmt[i]? = some fc → ln[i]? = some ch → (prev = true → 1 ≤ i) →
      f i (mk data prev) = stepSpec mk ln i fc ch data prev) :
    ∀ (lr fr : Text) (k : Nat) (prev : Bool) (data : Bytes), fmt.drop k = fr → ln.drop k = lr →
      lr.length ≤ fr.length → PInv ln k prev fr →
      forIn (List.range' k lr.length) (mk data prev) f =
        some (mk (parseGo fr lr (hiOf ln k prev) data) (goFlag fr lr prev)) := by
  intro lr
  induction lr with
  | nil => intro fr k prev data _ _ _ _; simp [parseGo, goFlag]
  | cons ch ls ih =>
    intro fr k prev data hfr hlr hlen hinv
    cases fr with
    | nil => simp at hlen
    | cons fc fs =>
      have hfk : fmt[k]? = some fc := by
        have := congrArg List.head? hfr; simpa [List.head?_drop] using this
      have hlk : ln[k]? = some ch := by
        have := congrArg List.head? hlr; simpa [List.head?_drop] using this
      have hfr' : fmt.drop (k + 1) = fs := by
        have := congrArg List.tail hfr; simpa [List.tail_drop] using this
      have hlr' : ln.drop (k + 1) = ls := by
        have := congrArg List.tail hlr; simpa [List.tail_drop] using this
      have hlen' : ls.length ≤ fs.length := by simpa using hlen
      have hk1 : ∀ p : Bool, (p = true → 1 ≤ k) → f k (mk data p) = stepSpec mk ln k fc ch data p :=
        fun p hp => hf k fc ch data p hfk hlk hp
      simp only [List.length_cons, List.range'_succ, List.forIn_cons]
      cases prev with
      | true =>
        obtain ⟨h, gs, hk, hh, hhex, hfe, hpg⟩ := (by simpa [PInv] using hinv :
          ∃ h gs, 1 ≤ k ∧ ln[k - 1]? = some h ∧ isHexDigit h = true ∧ fc :: fs = chD :: gs ∧ pairedD gs = true)
        obtain ⟨rfl, rfl⟩ : fc = chD ∧ fs = gs := by simpa using hfe
        rw [hk1 true (fun _ => hk)]
        have hAD : chD ≠ chA := by decide
        by_cases hx : isHexDigit ch = true
        · simp only [stepSpec, hAD, if_false, if_true, hx, slice_two ln k h ch hk hh hlk, fromHex_two h ch hhex hx,
            Option.bind_eq_bind, Option.bind_some]
          rw [ih fs (k + 1) false _ hfr' hlr' hlen' (by simpa [PInv] using hpg)]
          simp [parseGo, goFlag, hAD, hx, hiOf, hh]
        · simp [stepSpec, hAD, hx, parseGo, goFlag]
      | false =>
        have hp : pairedD (fc :: fs) = true := by simpa [PInv] using hinv
        rw [hk1 false (by simp)]
        by_cases hA : fc = chA
        · subst hA
          have hne : chA ≠ chD := by decide
          by_cases hx : isHexDigit ch = true
          · simp only [stepSpec, if_true, hx, Option.bind_eq_bind, Option.bind_some]
            rw [ih fs (k + 1) false _ hfr' hlr' hlen' (by simpa [PInv, pairedD_cons_ne _ _ hne] using hp)]
            simp [parseGo, goFlag, hx, hiOf]
          · simp [stepSpec, hx, parseGo, goFlag]
        · by_cases hD : fc = chD
          · subst hD
            obtain ⟨gs, rfl, hpg⟩ := pairedD_cons_D fs hp
            by_cases hx : isHexDigit ch = true
            · simp only [stepSpec, hA, if_false, if_true, hx, Option.bind_eq_bind, Option.bind_some, Bool.false_eq_true]
              rw [ih _ (k + 1) true _ hfr' hlr' hlen' (by
                simp only [PInv, if_true]
                exact ⟨ch, gs, by omega, by simpa using hlk, hx, rfl, hpg⟩)]
              simp [parseGo, goFlag, hA, hx, hiOf, hlk]
            · simp [stepSpec, hA, hx, parseGo, goFlag]
          · have hp' : pairedD fs = true := by rw [← pairedD_cons_ne fc fs hD]; exact hp
            by_cases hC : fc = chC
            · subst hC
              have h1 : chC ≠ chA := by decide
              have h2 : chC ≠ chD := by decide
              simp only [stepSpec, h1, h2, if_false, if_true, Option.bind_eq_bind, Option.bind_some]
              rw [ih fs (k + 1) false _ hfr' hlr' hlen' (by simpa [PInv] using hp')]
              simp [parseGo, goFlag, h1, h2, hiOf]
            · by_cases hL : fc = ch
              · subst hL
                simp only [stepSpec, hA, hD, hC, if_false, if_true, Option.bind_eq_bind, Option.bind_some]
                rw [ih fs (k + 1) false _ hfr' hlr' hlen' (by simpa [PInv] using hp')]
                simp [parseGo, goFlag, hA, hD, hC, hiOf]
              · simp [stepSpec, hA, hD, hC, hL, parseGo, goFlag]

/-- the template walk of `parse` over one line (`for i in range(len(line))` with `break`/`continue`) is the model's `parseGo` -/
theorem forIn_parse {σ} (mk : Bytes → Bool → σ) {fmt ln : Text} {f : Nat → σ → Option (ForInStep σ)}
    (hf : ∀ i fc ch data prev, fmt[i]? = some fc → ln[i]? = some ch → (prev = true → 1 ≤ i) →
      f i (mk data prev) = stepSpec mk ln i fc ch data prev)
    (hlen : ln.length ≤ fmt.length) (hp : pairedD fmt = true) (data : Bytes) :
    forIn (List.range ln.length) (mk data false) f = some (mk (parseGo fmt ln none data) (goFlag fmt ln false)) := by
  have := forIn_parse_aux mk hf ln fmt 0 false data (by simp) (by simp) hlen (by simpa [PInv] using hp)
  simpa [List.range_eq_range', hiOf] using this


theorem parseGo_acc : ∀ (fs ls : Text) (hi : Option Nat) (acc : Bytes), parseGo fs ls hi acc = acc ++ parseGo fs ls hi [] := by
  intro fs ls
  induction ls generalizing fs with
  | nil => intro hi acc; simp [parseGo]
  | cons ch ls ih =>
    intro hi acc
    cases fs with
    | nil => simp [parseGo]
    | cons f fs =>
      simp only [parseGo]
      split
      · split
        · exact ih fs hi acc
        · simp
      · split
        · split
          · cases hi with
            | none => exact ih fs _ acc
            | some h => simp only []; rw [ih fs none (acc ++ _), ih fs none ([] ++ _)]; simp
          · simp
        · split
          · exact ih fs hi acc
          · split
            · exact ih fs hi acc
            · simp

theorem forIn_flatMap {α β} (F : α → List β) {f : α → List β → Option (ForInStep (List β))}
    (hf : ∀ x acc, f x acc = some (.yield (acc ++ F x))) : ∀ (xs : List α) acc, forIn xs acc f = some (acc ++ xs.flatMap F) := by
  intro xs
  induction xs with
  | nil => intro acc; simp
  | cons x r ih => intro acc; simp [List.forIn_cons, hf, ih, List.append_assoc]

/-! ### `parse_dump_data` -/

theorem forIn_filterMap {α β} (F : α → Option β) {f : α → List β → Option (ForInStep (List β))}
    (hf : ∀ x acc, f x acc = some (.yield (match F x with | some k => acc ++ [k] | none => acc))) :
    ∀ (xs : List α) acc, forIn xs acc f = some (acc ++ xs.filterMap F) := by
  intro xs
  induction xs with
  | nil => intro acc; simp
  | cons x r ih =>
    intro acc
    simp only [List.forIn_cons, hf, Option.bind_eq_bind, Option.bind_some, ih, List.filterMap_cons]
    cases F x <;> simp

/-- the end of the region that begins at the `i`-th offset: the next offset, or the end of the data -/
def regionEnd (b : Bytes) (offs : List Nat) (i : Nat) : Nat := (offs[i + 1]?).getD b.length

theorem slice_region (b : Bytes) (o e : Nat) : Py.slice b o e = (b.drop o).take (e - o) := by
  unfold Py.slice; rw [List.drop_take]

theorem slice_to_end (b : Bytes) (o : Nat) : Py.slice b o b.length = b.drop o := by
  unfold Py.slice; simp

/-- the trace-buffer loop of `parse_dump_data` (any loop state `σ`; `k` is what the code after the loop reads off the state) -/
theorem forIn_regions {σ} {b : Bytes} {ss : List TraceString} {offs : List Nat}
    {f : Nat × Nat → σ → Option (ForInStep σ)} {k : σ → Option (List Text)}
    (hf : ∀ i o st L, offs[i]? = some o → k st = some L →
      ∃ g : List Text → σ, f (i, o) st = (parseTrace ss (Py.slice b o (regionEnd b offs i))).bind (fun t => some (.yield (g t))) ∧
        ∀ t, k (g t) = some (L ++ formatTraceSection t)) :
    ∀ (rest : List Nat) (i : Nat) (st : σ) (L : List Text), offs.drop i = rest → k st = some L →
      (forIn (Py.enumFrom i rest) st f).bind k =
        (optAll ((traceRegions b rest).map (parseTrace ss))).map (fun ts => L ++ (ts.map formatTraceSection).flatten) := by
  intro rest
  induction rest with
  | nil => intro i st L _ hk; simp [Py.enumFrom, traceRegions, optAll, hk]
  | cons o r ih =>
    intro i st L hdrop hk
    have hio : offs[i]? = some o := by
      have := congrArg List.head? hdrop; simpa [List.head?_drop] using this
    have hdrop' : offs.drop (i + 1) = r := by
      have := congrArg List.tail hdrop; simpa [List.tail_drop] using this
    have hnext : offs[i + 1]? = r.head? := by
      have := congrArg List.head? hdrop'; simpa [List.head?_drop] using this
    obtain ⟨g, hg, hkg⟩ := hf i o st L hio hk
    simp only [Py.enumFrom, List.forIn_cons, hg]
    have hreg : (traceRegions b (o :: r)).map (parseTrace ss) =
        parseTrace ss (Py.slice b o (regionEnd b offs i)) :: (traceRegions b r).map (parseTrace ss) := by
      cases r with
      | nil => simp [traceRegions, regionEnd, hnext, slice_to_end]
      | cons o' os => simp [traceRegions, regionEnd, hnext, slice_region]
    rw [hreg]
    cases hpt : parseTrace ss (Py.slice b o (regionEnd b offs i)) with
    | none => simp [optAll]
    | some t =>
      simp only [Option.bind_eq_bind, Option.bind_some, optAll]
      rw [ih (i + 1) (g t) _ hdrop' (hkg t)]
      cases optAll (List.map (parseTrace ss) (traceRegions b r)) <;> simp [List.append_assoc]

/-! ### the literals of the model, spelled out (the generated definitions carry code points) -/

theorem s_ILOG : s "ILOG" = [73, 76, 79, 71] := by decide
theorem s_Trace : s "Trace" = [84, 114, 97, 99, 101] := by decide
theorem dividerLine_eq : dividerLine = [45, 45, 45, 45, 45, 45, 45, 45, 45, 45, 45, 45, 45, 45, 45, 45, 45, 45, 45, 45, 45, 45, 45, 45, 45, 45,
    45, 45, 45, 45, 45, 45, 45, 45, 45, 45, 45, 45, 45, 45, 45, 45, 45, 45, 45, 45, 45, 45, 45, 45, 45, 45, 45, 45, 45, 45, 45, 45, 45, 45, 45, 45,
    45, 45, 45, 45, 45, 45, 45, 45, 45, 45, 45] := by decide
theorem bufferNames_eq : bufferNames =
    [[73, 73, 67, 83], [73, 73, 67, 77], [80, 79, 87, 82], [70, 65, 78, 83], [73, 78, 70, 79], [69, 82, 82, 76]] := by decide
theorem fmtBmc_lit : fmtBmc =
    [65, 65, 65, 65, 58, 32, 32, 68, 68, 68, 68, 68, 68, 68, 68, 32, 68, 68, 68, 68, 68, 68, 68, 68, 32, 68, 68, 68, 68, 68, 68, 68, 68, 32, 68, 
    68, 68, 68, 68, 68, 68, 68, 32, 32, 60, 67, 67, 67, 67, 67, 67, 67, 67, 67, 67, 67, 67, 67, 67, 67, 67, 62] := by decide
theorem fmtPre_lit : fmtPre =
    [68, 68, 32, 68, 68, 32, 68, 68, 32, 68, 68, 32, 68, 68, 32, 68, 68, 32, 68, 68, 32, 68, 68, 32, 68, 68, 32, 68, 68, 32, 68, 68, 32, 68, 68, 
    32, 68, 68, 32, 68, 68, 32, 68, 68, 32, 68, 68, 32, 67, 67, 67, 67, 67, 67, 67, 67, 67, 67, 67, 67, 67, 67, 67, 67] := by decide
theorem traceHeaderStart_eq : traceHeaderStart = [2, 32, 1, 66] := rfl

end Pel.TieHex
