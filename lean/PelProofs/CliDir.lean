import PelModel.Cli
import PelProofs.FramesPel
namespace Pel
-- helper lemmas for C08 / C09

/-! ### `textLt` is a strict total order -/

theorem textLt_irr (a : Text) : textLt a a = false := by
  induction a with
  | nil => rfl
  | cons x xs ih => simp [textLt, ih]

theorem textLt_tr : ∀ (a b c : Text), textLt a b = true → textLt b c = true → textLt a c = true
  | [], [], _, h1, _ => by simp [textLt] at h1
  | [], _ :: _, [], _, h2 => by simp [textLt] at h2
  | [], _ :: _, _ :: _, _, _ => by simp [textLt]
  | _ :: _, [], _, h1, _ => by simp [textLt] at h1
  | _ :: _, _ :: _, [], _, h2 => by simp [textLt] at h2
  | x :: xs, y :: ys, z :: zs, h1, h2 => by
    simp only [textLt] at h1 h2 ⊢
    by_cases hxy : x < y
    · by_cases hyz : y < z
      · rw [if_pos (by omega)]
      · rw [if_neg hyz] at h2
        by_cases hzy : z < y
        · rw [if_pos hzy] at h2; cases h2
        · have : y = z := by omega
          subst this
          rw [if_pos hxy]
    · rw [if_neg hxy] at h1
      by_cases hyx : y < x
      · rw [if_pos hyx] at h1; cases h1
      · rw [if_neg hyx] at h1
        have : x = y := by omega
        subst this
        by_cases hyz : x < z
        · rw [if_pos hyz]
        · rw [if_neg hyz] at h2 ⊢
          by_cases hzy : z < x
          · rw [if_pos hzy] at h2; cases h2
          · rw [if_neg hzy] at h2 ⊢
            exact textLt_tr xs ys zs h1 h2

theorem textLt_tot : ∀ (a b : Text), textLt a b = true ∨ a = b ∨ textLt b a = true
  | [], [] => Or.inr (Or.inl rfl)
  | [], _ :: _ => Or.inl rfl
  | _ :: _, [] => Or.inr (Or.inr rfl)
  | x :: xs, y :: ys => by
    simp only [textLt]
    by_cases hxy : x < y
    · left; rw [if_pos hxy]
    · by_cases hyx : y < x
      · right; right; rw [if_pos hyx]
      · have : x = y := by omega
        subst this
        simp only [hxy, if_false]
        rcases textLt_tot xs ys with h | h | h
        · exact Or.inl h
        · exact Or.inr (Or.inl (by rw [h]))
        · exact Or.inr (Or.inr h)

theorem textLt_asymm (a b : Text) (h : textLt a b = true) : textLt b a = false := by
  cases hb : textLt b a with
  | false => rfl
  | true =>
    have := textLt_tr a b a h hb
    rw [textLt_irr] at this; cases this

/-! ### generic insertion sort by a `Text` key -/

def insertBy {α} (key : α → Text) (f : α) : List α → List α
  | [] => [f]
  | g :: gs => if textLt (key g) (key f) then g :: insertBy key f gs else f :: g :: gs

def sortBy {α} (key : α → Text) : List α → List α
  | [] => []
  | f :: fs => insertBy key f (sortBy key fs)

theorem insertByName_eq (f : FileEntry) (l : List FileEntry) : insertByName f l = insertBy (·.name) f l := by
  induction l with
  | nil => rfl
  | cons g gs ih => simp only [insertByName, insertBy, ih]

theorem sortByName_eq (l : List FileEntry) : sortByName l = sortBy (·.name) l := by
  induction l with
  | nil => rfl
  | cons g gs ih => simp only [sortByName, sortBy, ih, insertByName_eq]

theorem insertBy_map {α β} (key : α → Text) (key' : β → Text) (g : α → β) (hk : ∀ x, key' (g x) = key x) (f : α) (l : List α) :
    (insertBy key f l).map g = insertBy key' (g f) (l.map g) := by
  induction l with
  | nil => rfl
  | cons a l ih =>
    simp only [insertBy, List.map_cons, hk]
    split
    · simp [ih]
    · simp

theorem sortBy_map {α β} (key : α → Text) (key' : β → Text) (g : α → β) (hk : ∀ x, key' (g x) = key x) (l : List α) :
    (sortBy key l).map g = sortBy key' (l.map g) := by
  induction l with
  | nil => rfl
  | cons a l ih => simp only [sortBy, List.map_cons, insertBy_map key key' g hk, ih]

theorem insertBy_perm {α} (key : α → Text) (f : α) (l : List α) : (insertBy key f l).Perm (f :: l) := by
  induction l with
  | nil => exact List.Perm.refl _
  | cons a l ih =>
    simp only [insertBy]
    split
    · exact (List.Perm.cons a ih).trans (List.Perm.swap f a l)
    · exact List.Perm.refl _

theorem sortBy_perm {α} (key : α → Text) (l : List α) : (sortBy key l).Perm l := by
  induction l with
  | nil => exact List.Perm.refl _
  | cons a l ih => exact (insertBy_perm key a _).trans (List.Perm.cons a ih)

theorem mem_sortBy {α} (key : α → Text) (l : List α) (x : α) : x ∈ sortBy key l ↔ x ∈ l :=
  (sortBy_perm key l).mem_iff

def SortedBy {α} (key : α → Text) (l : List α) : Prop := l.Pairwise (fun a b => textLt (key a) (key b) = true)

theorem insertBy_sorted {α} (key : α → Text) (f : α) (l : List α) (hs : SortedBy key l) (hne : ∀ x ∈ l, key x ≠ key f) :
    SortedBy key (insertBy key f l) := by
  induction l with
  | nil => simp [insertBy, SortedBy]
  | cons a l ih =>
    have hs' := List.pairwise_cons.1 hs
    simp only [insertBy]
    split
    · rename_i hlt
      refine List.pairwise_cons.2 ⟨?_, ih hs'.2 (fun x hx => hne x (by simp [hx]))⟩
      intro b hb
      rcases List.mem_cons.1 ((insertBy_perm key f l).mem_iff.1 hb) with rfl | hb
      · exact hlt
      · exact hs'.1 b hb
    · rename_i hlt
      have hfa : textLt (key f) (key a) = true := by
        rcases textLt_tot (key a) (key f) with h | h | h
        · exact absurd h hlt
        · exact absurd h (hne a (by simp))
        · exact h
      refine List.pairwise_cons.2 ⟨?_, hs⟩
      intro b hb
      simp only [List.mem_cons] at hb
      rcases hb with rfl | hb
      · exact hfa
      · exact textLt_tr _ _ _ hfa (hs'.1 b hb)

theorem sortBy_sorted {α} (key : α → Text) (l : List α) (hd : (l.map key).Nodup) : SortedBy key (sortBy key l) := by
  induction l with
  | nil => simp [sortBy, SortedBy]
  | cons a l ih =>
    simp only [List.map_cons, List.nodup_cons] at hd
    refine insertBy_sorted key a _ (ih hd.2) ?_
    intro x hx heq
    have hx' := (mem_sortBy key l x).1 hx
    exact hd.1 (by rw [← heq]; exact List.mem_map_of_mem hx')

theorem insertBy_split {α} (key : α → Text) (f : α) (l : List α) :
    ∃ a b, l = a ++ b ∧ insertBy key f l = a ++ f :: b := by
  induction l with
  | nil => exact ⟨[], [], rfl, rfl⟩
  | cons g gs ih =>
    simp only [insertBy]
    split
    · obtain ⟨a, b, h1, h2⟩ := ih
      exact ⟨g :: a, b, by rw [h1]; rfl, by rw [h2]; rfl⟩
    · exact ⟨[], g :: gs, rfl, rfl⟩

theorem insertBy_lt_all {α} (key : α → Text) (f : α) (l : List α) (h : ∀ x ∈ l, textLt (key f) (key x) = true) :
    insertBy key f l = f :: l := by
  cases l with
  | nil => rfl
  | cons a l =>
    simp only [insertBy]
    rw [if_neg]
    rw [textLt_asymm _ _ (h a (by simp))]
    simp

/-- inserting `x` into a sorted list with / without `j` gives lists that again differ only by `j` -/
theorem insertBy_with_junk {α} (key : α → Text) (x j : α) (hxj : key x ≠ key j) :
    ∀ (a b : List α), SortedBy key (a ++ j :: b) →
      ∃ a' b', insertBy key x (a ++ j :: b) = a' ++ j :: b' ∧ insertBy key x (a ++ b) = a' ++ b'
  | [], b, hs => by
    have hs' := List.pairwise_cons.1 hs
    simp only [List.nil_append, insertBy]
    by_cases hjx : textLt (key j) (key x) = true
    · rw [if_pos hjx]
      exact ⟨[], insertBy key x b, rfl, rfl⟩
    · rw [if_neg hjx]
      have hxj' : textLt (key x) (key j) = true := by
        rcases textLt_tot (key j) (key x) with h | h | h
        · exact absurd h hjx
        · exact absurd h.symm hxj
        · exact h
      refine ⟨[x], b, rfl, ?_⟩
      rw [insertBy_lt_all key x b (fun y hy => textLt_tr _ _ _ hxj' (hs'.1 y hy))]
      rfl
  | y :: a, b, hs => by
    have hs' := List.pairwise_cons.1 hs
    simp only [List.cons_append, insertBy]
    by_cases hyx : textLt (key y) (key x) = true
    · rw [if_pos hyx, if_pos hyx]
      obtain ⟨a', b', h1, h2⟩ := insertBy_with_junk key x j hxj a b hs'.2
      exact ⟨y :: a', b', by rw [h1]; rfl, by rw [h2]; rfl⟩
    · rw [if_neg hyx, if_neg hyx]
      exact ⟨x :: y :: a, b, rfl, rfl⟩

theorem sortBy_with_junk {α} (key : α → Text) (j : α) (d2 : List α) :
    ∀ (d1 : List α), ((d1 ++ j :: d2).map key).Nodup →
      ∃ a b, sortBy key (d1 ++ j :: d2) = a ++ j :: b ∧ sortBy key (d1 ++ d2) = a ++ b
  | [], _ => by
    obtain ⟨a, b, h1, h2⟩ := insertBy_split key j (sortBy key d2)
    exact ⟨a, b, h2, h1⟩
  | x :: d1, hd => by
    have hd' : ((d1 ++ j :: d2).map key).Nodup := by
      simp only [List.cons_append, List.map_cons, List.nodup_cons] at hd
      exact hd.2
    obtain ⟨a, b, h1, h2⟩ := sortBy_with_junk key j d2 d1 hd'
    have hsorted := sortBy_sorted key _ hd'
    rw [h1] at hsorted
    have hxj : key x ≠ key j := by
      simp only [List.cons_append, List.map_cons, List.nodup_cons] at hd
      intro h
      exact hd.1 (by rw [h]; simp)
    obtain ⟨a', b', h3, h4⟩ := insertBy_with_junk key x j hxj a b hsorted
    refine ⟨a', b', ?_, ?_⟩
    · simp only [List.cons_append, sortBy, h1, h3]
    · simp only [List.cons_append, sortBy, h2, h4]

/-! ### the file list -/

def extP (ext : Option Text) (f : FileEntry) : Bool := match ext with
  | some e => if e = [] then true else splitext f.name == e
  | none => true

theorem getFileList_eq (d : Dir) (ext : Option Text) (rev : Bool) :
    getFileList d ext rev =
      if rev then (sortBy (·.name) (d.filter (extP ext))).reverse else sortBy (·.name) (d.filter (extP ext)) := by
  unfold getFileList
  simp only [sortByName_eq]
  rfl

theorem mem_getFileList (d : Dir) (ext : Option Text) (rev : Bool) (f : FileEntry) :
    f ∈ getFileList d ext rev ↔ f ∈ d ∧ extP ext f = true := by
  rw [getFileList_eq]
  cases rev <;> simp [mem_sortBy]

theorem nodup_filter_names {α β} [DecidableEq β] (key : α → β) (p : α → Bool) (l : List α) (h : (l.map key).Nodup) :
    ((l.filter p).map key).Nodup :=
  List.Nodup.sublist (List.Sublist.map key List.filter_sublist) h

theorem nodup_remove_mid {α} (a b : List α) (j : α) (h : (a ++ j :: b).Nodup) : (a ++ b).Nodup :=
  List.Nodup.sublist (List.Sublist.append (List.Sublist.refl a) (List.sublist_cons_self j b)) h

theorem getFileList_junk (d1 d2 : Dir) (j : FileEntry) (ext : Option Text) (rev : Bool)
    (hd : ((d1 ++ j :: d2).map (·.name)).Nodup) :
    ∃ a b, getFileList (d1 ++ d2) ext rev = a ++ b ∧
      (getFileList (d1 ++ j :: d2) ext rev = a ++ j :: b ∨ getFileList (d1 ++ j :: d2) ext rev = a ++ b) := by
  rw [getFileList_eq, getFileList_eq]
  simp only [List.filter_append, List.filter_cons]
  by_cases hp : extP ext j = true
  · simp only [hp, if_true]
    have hd' : (((d1.filter (extP ext)) ++ j :: (d2.filter (extP ext))).map (·.name)).Nodup := by
      have := nodup_filter_names (·.name) (extP ext) _ hd
      simpa [List.filter_append, List.filter_cons, hp] using this
    obtain ⟨a, b, h1, h2⟩ := sortBy_with_junk (·.name) j (d2.filter (extP ext)) (d1.filter (extP ext)) hd'
    cases rev
    · exact ⟨a, b, by simpa using h2, Or.inl (by simpa using h1)⟩
    · refine ⟨b.reverse, a.reverse, ?_, Or.inl ?_⟩
      · simp only [if_true, h2, List.reverse_append]
      · simp only [if_true, h1, List.reverse_append, List.reverse_cons, List.append_assoc, List.singleton_append]
  · simp only [hp]
    refine ⟨_, [], (List.append_nil _).symm, Or.inr ?_⟩
    simp

theorem filterMap_map_junk {α β γ} (h : α → β) (g : β → Option γ) (a b : List α) (j : α) (hj : g (h j) = none) :
    ((a ++ j :: b).map h).filterMap g = ((a ++ b).map h).filterMap g := by
  simp [List.filterMap_append, hj]

theorem countDiag_junk {α β} (h : α → FileRes β) (a b : List α) (j : α) :
    countDiag ((a ++ b).map h) ≤ countDiag ((a ++ j :: b).map h) := by
  simp only [countDiag, List.map_append, List.map_cons, List.filter_append, List.filter_cons, List.length_append]
  split <;> simp

theorem filter_filterMap_junk {α β γ} (p : α → Bool) (h : α → β) (g : β → Option γ) (d1 d2 : List α) (j : α)
    (hj : g (h j) = none) :
    (((d1 ++ j :: d2).filter p).map h).filterMap g = (((d1 ++ d2).filter p).map h).filterMap g := by
  simp only [List.filter_append, List.filter_cons]
  split
  · exact filterMap_map_junk h g _ _ j hj
  · rfl

theorem ite_out (c : Prop) [Decidable c] (x y y' : CliOut) (h : y.stdout = y'.stdout ∧ y.exit = y'.exit) :
    (if c then x else y).stdout = (if c then x else y').stdout ∧ (if c then x else y).exit = (if c then x else y').exit := by
  split
  · exact ⟨rfl, rfl⟩
  · exact h

/-- any pair of functions satisfying the defining equations of insertion sort is `sortBy` -/
theorem sortBy_unique {α} (key : α → Text) (ins : α → List α → List α) (srt : List α → List α)
    (h1 : ∀ f, ins f [] = [f])
    (h2 : ∀ f g gs, ins f (g :: gs) = if textLt (key g) (key f) then g :: ins f gs else f :: g :: gs)
    (h3 : srt [] = []) (h4 : ∀ f fs, srt (f :: fs) = ins f (srt fs)) : ∀ l, srt l = sortBy key l := by
  have hins : ∀ f l, ins f l = insertBy key f l := by
    intro f l
    induction l with
    | nil => rw [h1]; rfl
    | cons g gs ih => rw [h2, ih]; rfl
  intro l
  induction l with
  | nil => rw [h3]; rfl
  | cons f fs ih => rw [h4, ih, hins]; rfl

theorem getFileList_map {α} (g : α → FileEntry) (key : α → Text) (hk : ∀ x, (g x).name = key x) (l : List α)
    (ext : Option Text) (rev : Bool) :
    getFileList (l.map g) ext rev =
      (if rev then (sortBy key (l.filter (fun x => extP ext (g x)))).reverse
       else sortBy key (l.filter (fun x => extP ext (g x)))).map g := by
  rw [getFileList_eq, List.filter_map]
  rw [← sortBy_map key (·.name) g hk]
  cases rev
  · rfl
  · simp only [if_true, List.map_reverse]; rfl

theorem dropWhile_stop {α} (p : α → Bool) (a : List α) (y : α) (b : List α) (ha : ∀ x ∈ a, p x = true) (hy : p y = false) :
    (a ++ y :: b).dropWhile p = y :: b := by
  induction a with
  | nil => simp [hy]
  | cons x a ih =>
    simp only [List.cons_append, List.dropWhile_cons, ha x (by simp), if_true]
    exact ih (fun z hz => ha z (by simp [hz]))

theorem takeWhile_stop {α} (p : α → Bool) (a : List α) (y : α) (b : List α) (ha : ∀ x ∈ a, p x = true) (hy : p y = false) :
    (a ++ y :: b).takeWhile p = a := by
  induction a with
  | nil => simp [hy]
  | cons x a ih =>
    simp only [List.cons_append, List.takeWhile_cons, ha x (by simp), if_true]
    rw [ih (fun z hz => ha z (by simp [hz]))]

theorem dropWhile_all {α} (p : α → Bool) (a : List α) (ha : ∀ x ∈ a, p x = true) : a.dropWhile p = [] := by
  induction a with
  | nil => rfl
  | cons x a ih =>
    simp only [List.dropWhile_cons, ha x (by simp), if_true]
    exact ih (fun z hz => ha z (by simp [hz]))

theorem splitext_no_dot' (name : Text) (h : ∀ c ∈ name, c ≠ 46) : splitext name = [] := by
  unfold splitext
  have : name.reverse.dropWhile (· != 46) = [] := by
    apply dropWhile_all
    intro c hc
    have := h c (List.mem_reverse.1 hc)
    simpa using this
  simp only [this]

theorem splitext_simple' (stem ext : Text) (hs : ∃ c ∈ stem, c ≠ 46) (he : ∀ c ∈ ext, c ≠ 46) :
    splitext (stem ++ [46] ++ ext) = 46 :: ext := by
  unfold splitext
  have hrev : (stem ++ [46] ++ ext).reverse = ext.reverse ++ 46 :: stem.reverse := by simp
  have hall : ∀ x ∈ ext.reverse, (x != 46) = true := by
    intro c hc
    have := he c (List.mem_reverse.1 hc)
    simpa using this
  simp only [hrev]
  rw [dropWhile_stop _ _ _ _ hall (by simp), takeWhile_stop _ _ _ _ hall (by simp)]
  simp only [List.reverse_reverse]
  rw [if_neg]
  obtain ⟨c, hc, hne⟩ := hs
  simp only [List.all_eq_true, List.mem_reverse, beq_iff_eq]
  intro hall'
  exact hne (hall' c hc)

/-! ### decoding the encoding of an abstract PEL (summary, full, count) -/

def secRc : ABody → Option Text
  | .src _ x => some (stripSp x.ascii)
  | _ => none

theorem frames_decodeSection (env : Env) (creator : Text) (sec : ASection) (hs : sec.WF) (j : J)
    (hr : renderSection env creator sec = .ok j) :
    Frames (decodeSection env creator (mkSecHdr sec.body.id (8 + sec.body.enc.length) sec.hdr)) sec.body.enc
      (j, secRc sec.body) := by
  obtain ⟨hdr, body⟩ := sec
  obtain ⟨hw, hb, hl⟩ := hs
  simp only at hw hb hl ⊢
  cases body with
  | src primary x =>
    simp only [renderSection] at hr
    split at hr
    · rename_i hd
      cases hr
      have hx : x.WF := hb
      have hid : (ABody.src primary x).id = sidPS ∨ (ABody.src primary x).id = sidSS := by
        cases primary
        · exact Or.inr rfl
        · exact Or.inl rfl
      rw [decodeSection_SRC env creator _ _ hdr hid]
      have hsrc : Frames (decodeSRC env.T env.src (mkSecHdr (ABody.src primary x).id
          (8 + (ABody.src primary x).enc.length) hdr) creator env.allowPlugins) x.encBody
          (renderSrc env.T env.src hdr creator env.allowPlugins x, stripSp x.ascii) :=
        ⟨fun rest => exact_SRC env.T env.src hdr creator env.allowPlugins x hx _ _ hd rest,
         fun k hk => strict_SRC env.T env.src hdr creator env.allowPlugins x hx _ _ k hk⟩
      exact Frames.of_eq (Frames.bind hsrc (Frames.pure _)) (List.append_nil _) rfl
    · cases hr
  | eh e =>
    simp only [renderSection] at hr
    cases hr
    rw [show (ABody.eh e).id = sidEH from rfl, decodeSection_EH]
    exact Frames.wrapNone (frames_EH env.T hdr creator e hb _ _)
  | mt m =>
    simp only [renderSection] at hr
    cases hr
    rw [show (ABody.mt m).id = sidMT from rfl, decodeSection_MT]
    exact Frames.wrapNone (frames_MT env.T hdr creator m hb _ _)
  | lp l =>
    simp only [renderSection] at hr
    cases hr
    rw [show (ABody.lp l).id = sidLP from rfl, decodeSection_LP]
    exact Frames.wrapNone (frames_LP env.T hdr creator l hb _ _)
  | ud p =>
    simp only [renderSection] at hr
    obtain ⟨hp, _⟩ := hb
    rw [show (ABody.ud p).id = sidUD from rfl, decodeSection_UD]
    exact Frames.wrapNone (frames_UD env hdr creator p hp j hr)
  | ed c r1 r2 p =>
    simp only [renderSection] at hr
    obtain ⟨hc, h1, h2, hp, _⟩ := hb
    rw [show (ABody.ed c r1 r2 p).id = sidED from rfl, decodeSection_ED]
    have hlen : 8 + (ABody.ed c r1 r2 p).enc.length = 12 + p.length := by
      simp only [ABody.enc, List.length_append, toBE_length, List.length_cons, List.length_nil]; omega
    rw [hlen]
    exact Frames.wrapNone (frames_ED env hdr c r1 r2 p hc h1 h2 hp j hr)
  | other id p =>
    simp only [renderSection] at hr
    cases hr
    obtain ⟨hid, hsp, hp, _⟩ := hb
    rw [show (ABody.other id p).id = id from rfl, decodeSection_other env creator id _ hdr hsp]
    exact Frames.wrapNone (frames_Default hdr id p hp)

theorem body_id_lt (b : ABody) (h : b.WF) : b.id < 65536 := by
  cases b with
  | src primary x => cases primary <;> simp only [ABody.id] <;> decide
  | other id p => exact h.1
  | _ => simp only [ABody.id] <;> decide

def primOf : ABody → Option Text
  | .src true x => some (stripSp x.ascii)
  | _ => none

def primaryRc (secs : List ASection) : Option Text := secs.findSome? fun sec => primOf sec.body

/-- what the summary loop does after one section -/
theorem body_summary_step (b : ABody) (h : b.WF) :
    (b.id = sidPS ∧ ∃ rc, primOf b = some rc ∧ secRc b = some rc) ∨ (b.id ≠ sidPS ∧ primOf b = none) := by
  cases b with
  | src primary x =>
    cases primary
    · right; exact ⟨by simp only [ABody.id]; decide, rfl⟩
    · left; exact ⟨rfl, _, rfl, rfl⟩
  | other id p =>
    right
    exact ⟨(isSpecialId_false id h.2.1).1, rfl⟩
  | _ => right; exact ⟨by simp only [ABody.id]; decide, rfl⟩

theorem exceptAll_ok_mem {α} (l : List (Except Err α)) (js : List α) (h : exceptAll l = .ok js) :
    ∀ a ∈ l, ∃ x, a = .ok x := by
  induction l generalizing js with
  | nil => intro a ha; cases ha
  | cons b l ih =>
    obtain ⟨x, js', hb, hl, _⟩ := exceptAll_cons_ok b l js h
    intro a ha
    rcases List.mem_cons.1 ha with rfl | ha
    · exact ⟨x, hb⟩
    · exact ih js' hl a ha

theorem render_sections_ok (env : Env) (p : APel) (d : J) (hr : render env p = .ok d) :
    ∀ sec ∈ p.sections, ∃ j, renderSection env [p.ph.creator] sec = .ok j := by
  cases hjs : exceptAll (p.sections.map (renderSection env [p.ph.creator])) with
  | error e => simp [render, hjs] at hr
  | ok js =>
    intro sec hsec
    exact exceptAll_ok_mem _ js hjs _ (List.mem_map_of_mem hsec)

/-! ### the registry message of the primary SRC (the `Message` member of a summary) -/

theorem objGet?_append (a b : List (Text × J)) (k : Text) :
    objGet? (a ++ b) k = match objGet? a k with
      | some v => some v
      | none => objGet? b k := by
  induction a with
  | nil => rfl
  | cons p a ih =>
    obtain ⟨k', v⟩ := p
    by_cases hk : k' = k
    · simp [objGet?, hk]
    · simp [objGet?, hk, ih]

theorem objGet?_none_of_keys (a : List (Text × J)) (k : Text) (h : ∀ p ∈ a, p.1 ≠ k) : objGet? a k = none := by
  induction a with
  | nil => rfl
  | cons p a ih =>
    obtain ⟨k', v⟩ := p
    have hk : k' ≠ k := h (k', v) (by simp)
    simp only [objGet?, hk, if_false]
    exact ih (fun q hq => h q (by simp [hq]))

theorem objGet?_append_none (a b : List (Text × J)) (k : Text) (h : ∀ p ∈ a, p.1 ≠ k) : objGet? (a ++ b) k = objGet? b k := by
  rw [objGet?_append, objGet?_none_of_keys a k h]

theorem objGet?_append_tailnone (a b : List (Text × J)) (k : Text) (h : ∀ p ∈ b, p.1 ≠ k) : objGet? (a ++ b) k = objGet? a k := by
  rw [objGet?_append, objGet?_none_of_keys b k h]
  cases objGet? a k <;> rfl

theorem objGet?_objSet_isSome (l : List (Text × J)) (k' : Text) (v : J) (k : Text) (h : (objGet? l k).isSome = true) :
    (objGet? (objSet l k' v) k).isSome = true := by
  induction l with
  | nil => simp [objGet?] at h
  | cons p l ih =>
    obtain ⟨k0, v0⟩ := p
    by_cases h1 : k0 = k' <;> by_cases h2 : k0 = k <;> by_cases h3 : k' = k <;> simp_all [objSet, objGet?]

theorem objGet?_objUpdate_isSome (l o : List (Text × J)) (k : Text) (h : (objGet? l k).isSome = true) :
    (objGet? (objUpdate l o) k).isSome = true := by
  unfold objUpdate
  induction o generalizing l with
  | nil => exact h
  | cons p o ih => exact ih _ (objGet?_objSet_isSome l p.1 p.2 k h)

/-- the `Message` member of the "Error Details" of an SRC, if it has them (BMC / power / hostboot SRCs with a registry entry) -/
def srcMessage (env : Env) (x : ASrc) : Option J :=
  if x.ascii.take 2 = s "BD" ∨ x.ascii.take 2 = s "11" ∨ x.ascii.take 2 = s "BC" then
    match errorDetails env.src.registry x.ascii x.words with
    | .some ms => objGet? ms (s "Message")
    | _ => none
  else none

theorem errorDetails_has_message (reg : List RegEntry) (ascii : Text) (words : List Nat) (ms : List (Text × J))
    (h : errorDetails reg ascii words = .some ms) : (objGet? ms (s "Message")).isSome = true := by
  unfold errorDetails at h
  split at h
  · cases h
  · split at h
    · cases h
    · cases h
    · split at h
      · cases h
      · split at h
        · cases h
        · cases h
        · cases h
          exact objGet?_objUpdate_isSome _ _ _ (by simp [objGet?, kv])

/-- the "Error Details" member of a rendered SRC -/
theorem renderSrc_errorDetails (T : Tables) (env : SrcEnv) (h : AHdr) (creator : Text) (allow : Bool) (x : ASrc) :
    ∃ L, renderSrc T env h creator allow x = .obj L ∧
      objGet? L (s "Error Details") =
        if x.ascii.take 2 = s "BD" ∨ x.ascii.take 2 = s "11" ∨ x.ascii.take 2 = s "BC" then
          match errorDetails env.registry x.ascii x.words with
          | .some ms => some (.obj ms)
          | _ => none
        else none := by
  refine ⟨_, rfl, ?_⟩
  have hhex : ∀ (f : Nat → J) (l : List Nat), ∀ p ∈ l.map (fun i => (s "Hex Word " ++ natDec i, f i)), p.1 ≠ s "Error Details" := by
    intro f l p hp
    obtain ⟨i, _, rfl⟩ := List.mem_map.1 hp
    intro he
    have := congrArg List.head? he
    simp [s] at this
  simp only [hdrMembers, List.append_assoc]
  rw [objGet?_append_none _ _ _ (by simp [kv]; decide)]
  rw [objGet?_append_none _ _ _ (by simp [kv]; decide)]
  rw [objGet?_append_none _ _ _ (by split <;> simp [kv] <;> decide)]
  rw [objGet?_append_tailnone _ _ _ (by
    intro p hp
    simp only [List.mem_append] at hp
    rcases hp with hp | hp | hp | hp
    · simp only [List.mem_cons, List.not_mem_nil, or_false] at hp
      rcases hp with rfl | rfl <;> (simp only [kv]; decide)
    · exact hhex _ _ p hp
    · cases hc : x.callouts with
      | none => simp [hc] at hp
      | some cs =>
        simp only [hc, List.mem_cons, List.not_mem_nil, or_false] at hp
        subst hp; simp only [kv]; decide
    · split at hp
      · split at hp
        · simp only [List.mem_cons, List.not_mem_nil, or_false] at hp
          subst hp; simp only [kv]; decide
        · simp at hp
      · simp at hp)]
  by_cases hc : x.ascii.take 2 = s "BD" ∨ x.ascii.take 2 = s "11" ∨ x.ascii.take 2 = s "BC"
  · rw [if_pos hc, if_pos (by rcases hc with h | h | h <;> simp [h])]
    rw [objGet?_append_none _ _ _ (by simp [kv]; decide)]
    cases errorDetails env.registry x.ascii x.words <;> simp [objGet?, kv]
  · rw [if_neg hc, if_neg (by intro h; apply hc; rcases h with (h | h) | h <;> simp [h])]
    rfl

/-- the summary loop's look-ups on the rendered SRC never raise and find the registry message -/
theorem summaryMessage_renderSrc (env : Env) (h : AHdr) (creator : Text) (x : ASrc) (rest : Bytes) :
    summaryMessage (renderSrc env.T env.src h creator env.allowPlugins x) rest = .ok (srcMessage env x, rest) := by
  obtain ⟨L, hL, hg⟩ := renderSrc_errorDetails env.T env.src h creator env.allowPlugins x
  rw [hL]
  unfold summaryMessage srcMessage
  simp only [jIn, jItem, hg]
  by_cases hc : x.ascii.take 2 = s "BD" ∨ x.ascii.take 2 = s "11" ∨ x.ascii.take 2 = s "BC"
  · simp only [hc, if_true]
    cases hed : errorDetails env.src.registry x.ascii x.words with
    | some ms =>
      have hm := errorDetails_has_message _ _ _ ms hed
      cases hmm : objGet? ms (s "Message") with
      | none => simp [hmm] at hm
      | some m => simp [hmm, jItem]; rfl
    | none => rfl
    | fail => rfl
    | unsupported => rfl
  · simp only [hc, if_false]
    rfl

def primSrc : ABody → Option ASrc
  | .src true x => some x
  | _ => none

/-- the registry message of the first primary SRC -/
def primaryMsg (env : Env) (secs : List ASection) : Option J := (secs.findSome? fun sec => primSrc sec.body).bind (srcMessage env)

theorem summarySections_exact (env : Env) (creator : Text) : ∀ (secs : List ASection), (∀ sec ∈ secs, sec.WF) →
    (∀ sec ∈ secs, ∃ j, renderSection env creator sec = .ok j) → ∀ rest,
    ∃ rest', summarySections env creator secs.length (secs.flatMap (·.enc) ++ rest) = .ok ((primaryRc secs, primaryMsg env secs), rest')
  | [], _, _, rest => ⟨rest, rfl⟩
  | sec :: secs, hs, hr, rest => by
    have hw := hs sec (by simp)
    obtain ⟨j, hj⟩ := hr sec (by simp)
    obtain ⟨rest', ih⟩ := summarySections_exact env creator secs (fun s h => hs s (by simp [h]))
      (fun s h => hr s (by simp [h])) rest
    have f1 := frames_parseHeader sec.body.id sec.body.enc.length sec.hdr hw.1 (body_id_lt _ hw.2.1) hw.2.2
    have f2 := frames_decodeSection env creator sec hw j hj
    have e : (sec :: secs).flatMap (·.enc) ++ rest =
        encHdr sec.body.id sec.body.enc.length sec.hdr ++ (sec.body.enc ++ (secs.flatMap (·.enc) ++ rest)) := by
      simp [ASection.enc]
    rw [e, List.length_cons]
    unfold summarySections
    rw [bind_ok _ _ _ _ _ (f1.exact _), bind_ok _ _ _ _ _ (f2.exact _)]
    simp only [primaryRc, primaryMsg, List.findSome?_cons]
    rcases body_summary_step sec.body hw.2.1 with ⟨h1, rc, h2, h3⟩ | ⟨h1, h2⟩
    · rw [if_pos (show (mkSecHdr sec.body.id (8 + sec.body.enc.length) sec.hdr).id = sidPS from h1), h3]
      -- the section is a primary SRC: `j` is its rendering
      obtain ⟨hdr, body⟩ := sec
      cases body with
      | src primary x =>
        cases primary with
        | false => simp [primOf] at h2
        | true =>
          simp only [renderSection] at hj
          split at hj
          · cases hj
            simp only [primOf, primSrc, Option.bind_some] at h2 ⊢
            cases h2
            rw [bind_ok _ _ _ _ _ (summaryMessage_renderSrc env hdr creator x _)]
            exact ⟨_, rfl⟩
          · cases hj
      | _ => simp [primOf] at h2
    · rw [if_neg (show ¬ (mkSecHdr sec.body.id (8 + sec.body.enc.length) sec.hdr).id = sidPS from h1), h2]
      have h2' : primSrc sec.body = none := by
        cases hb : sec.body with
        | src primary x => cases primary <;> simp_all [primOf, primSrc]
        | _ => rfl
      rw [h2']
      exact ⟨rest', ih⟩

theorem enc_eq (p : APel) (rest : Bytes) : p.enc ++ rest = encHdr sidPH 40 p.ph.hdr ++ (p.ph.encBody (p.sections.length + 2) ++
    (encHdr sidUH 16 p.uh.hdr ++ (p.uh.encBody ++ (p.sections.flatMap (·.enc) ++ rest)))) := by
  simp [APel.enc]

def specFields (env : Env) (p : APel) (rc : Option Text) (msg : Option J) : List (Text × J) :=
  (match rc with
    | some rc => [(s "SRC", J.str rc)]
    | none => []) ++
  (match msg with
    | some m => [(s "Message", m)]
    | none => []) ++
  [(s "PLID", .str (ox (fmtHex 2 p.ph.plid))),
   (s "CreatorID", .str ((lookupT env.T.creators [p.ph.creator]).getD (s "Unknown"))),
   (s "Subsystem", .str ((lookupN env.T.subsystems p.uh.subsys).getD (s "Invalid"))),
   (s "Commit Time", .str (bcdTime p.ph.commit)),
   (s "Sev", .str ((lookupN env.T.severities p.uh.sev).getD (s "Invalid"))),
   (s "CompID", .str (displayCompID env.T p.ph.hdr.comp [p.ph.creator]))]

theorem objGet?_cons_ne (k' k : Text) (v : J) (r : List (Text × J)) (h : k' ≠ k) : objGet? ((k', v) :: r) k = objGet? r k := by
  simp [objGet?, h]
theorem objGet?_cons_eq (k : Text) (v : J) (r : List (Text × J)) : objGet? ((k, v) :: r) k = some v := by
  simp [objGet?]

def phMembers (T : Tables) (p : APH) : List (Text × J) :=
  hdrMembers T p.hdr [p.creator] "Created by" ++ [
    kv "Created at" (jstr (bcdTime p.create)), kv "Committed at" (jstr (bcdTime p.commit)),
    kv "Creator Subsystem" (jstr ((lookupT T.creators [p.creator]).getD (s "Unknown"))),
    kv "CSSVER" (jstr (ox (fmtHex 2 p.cver))),
    kv "Platform Log Id" (jstr (ox (fmtHex 2 p.plid))),
    kv "Entry Id" (jstr (ox (fmtHex 2 p.eid))),
    kv "BMC Event Log Id" (jstr (natDec p.obmc))]

def uhMembers (T : Tables) (u : AUH) (creator : Text) : List (Text × J) :=
  hdrMembers T u.hdr creator "Log Committed by" ++ [
    kv "Subsystem" (jstr ((lookupN T.subsystems u.subsys).getD (s "Invalid"))),
    kv "Event Scope" (jstr ((lookupN T.eventScopes u.scope).getD (s "Invalid"))),
    kv "Event Severity" (jstr ((lookupN T.severities u.sev).getD (s "Invalid"))),
    kv "Event Type" (jstr ((lookupN T.eventTypes u.etype).getD (s "Invalid"))),
    kv "Action Flags" (.arr ((T.actionFlags.filter (fun p => p.1 &&& u.af != 0)).map (fun p => jstr p.2))),
    kv "Host Transmission" (jstr ((lookupN T.transStates (u.states % 256)).getD (s "Unknown"))),
    kv "HMC Transmission" (jstr ((lookupN T.transStates (u.states / 256 % 256)).getD (s "Unknown")))]

theorem renderPH_obj (T : Tables) (p : APH) : renderPH T p = .obj (phMembers T p) := rfl
theorem renderUH_obj (T : Tables) (u : AUH) (creator : Text) : renderUH T u creator = .obj (uhMembers T u creator) := rfl

theorem ph_get_creator (T : Tables) (p : APH) : objGet? (phMembers T p) (s "Creator Subsystem") =
    some (.str ((lookupT T.creators [p.creator]).getD (s "Unknown"))) := by
  simp only [phMembers, hdrMembers, kv, jstr, List.cons_append, List.nil_append]
  repeat (first | rw [objGet?_cons_eq] | rw [objGet?_cons_ne _ _ _ _ (by decide)])
theorem ph_get_createdby (T : Tables) (p : APH) : objGet? (phMembers T p) (s "Created by") =
    some (.str (displayCompID T p.hdr.comp [p.creator])) := by
  simp only [phMembers, hdrMembers, kv, jstr, List.cons_append, List.nil_append]
  repeat (first | rw [objGet?_cons_eq] | rw [objGet?_cons_ne _ _ _ _ (by decide)])
theorem ph_get_plid (T : Tables) (p : APH) : objGet? (phMembers T p) (s "Platform Log Id") =
    some (.str (ox (fmtHex 2 p.plid))) := by
  simp only [phMembers, hdrMembers, kv, jstr, List.cons_append, List.nil_append]
  repeat (first | rw [objGet?_cons_eq] | rw [objGet?_cons_ne _ _ _ _ (by decide)])
theorem ph_get_commit (T : Tables) (p : APH) : objGet? (phMembers T p) (s "Committed at") =
    some (.str (bcdTime p.commit)) := by
  simp only [phMembers, hdrMembers, kv, jstr, List.cons_append, List.nil_append]
  repeat (first | rw [objGet?_cons_eq] | rw [objGet?_cons_ne _ _ _ _ (by decide)])
theorem uh_get_subsys (T : Tables) (u : AUH) (creator : Text) : objGet? (uhMembers T u creator) (s "Subsystem") =
    some (.str ((lookupN T.subsystems u.subsys).getD (s "Invalid"))) := by
  simp only [uhMembers, hdrMembers, kv, jstr, List.cons_append, List.nil_append]
  repeat (first | rw [objGet?_cons_eq] | rw [objGet?_cons_ne _ _ _ _ (by decide)])
theorem uh_get_sev (T : Tables) (u : AUH) (creator : Text) : objGet? (uhMembers T u creator) (s "Event Severity") =
    some (.str ((lookupN T.severities u.sev).getD (s "Invalid"))) := by
  simp only [uhMembers, hdrMembers, kv, jstr, List.cons_append, List.nil_append]
  repeat (first | rw [objGet?_cons_eq] | rw [objGet?_cons_ne _ _ _ _ (by decide)])

theorem ite_hdr_id {α} (id len : Nat) (h : AHdr) (a b : α) : (if (mkSecHdr id len h).id ≠ id then a else b) = b := by
  rw [if_neg]; exact fun h => h rfl

theorem parseSummaryRd_enc (env : Env) (cfg : SelCfg) (p : APel) (hp : p.WF) (hr : ∃ d, render env p = .ok d)
    (hsel : considerPEL p.uh.sev p.uh.af cfg = true) : ∃ rest',
    parseSummaryRd env cfg p.enc =
      .ok (.summary { eid := ox (fmtHex 2 p.ph.eid), fields := specFields env p (primaryRc p.sections) (primaryMsg env p.sections) } p.ph.plid
        (primaryRc p.sections), rest') := by
  obtain ⟨hph, huh, hlen, hsecs⟩ := hp
  obtain ⟨d, hd⟩ := hr
  have f1 := frames_parseHeader sidPH 40 p.ph.hdr hph.1 (by decide) (by decide)
  have f2 := frames_PH env.T p.ph hph (p.sections.length + 2) (by omega) (8 + 40)
  have f3 := frames_parseHeader sidUH 16 p.uh.hdr huh.1 (by decide) (by decide)
  have f4 := frames_UH env.T p.uh huh [p.ph.creator] (8 + 16)
  obtain ⟨rest', h5⟩ := summarySections_exact env [p.ph.creator] p.sections hsecs (render_sections_ok env p d hd) []
  refine ⟨rest', ?_⟩
  have e := enc_eq p []
  rw [List.append_nil] at e
  rw [e]
  unfold parseSummaryRd
  rw [bind_ok _ _ _ _ _ (f1.exact _)]
  rw [ite_hdr_id]
  rw [bind_ok _ _ _ _ _ (f2.exact _)]
  simp only
  rw [bind_ok _ _ _ _ _ (f3.exact _)]
  rw [ite_hdr_id]
  rw [bind_ok _ _ _ _ _ (f4.exact _)]
  simp only [hsel, Bool.not_true, Bool.false_eq_true, if_false, Nat.add_sub_cancel]
  rw [bind_ok _ _ _ _ _ h5]
  simp only [renderPH_obj, renderUH_obj, ph_get_creator, ph_get_createdby, uh_get_subsys, uh_get_sev, Option.getD_some]
  rfl

theorem parseSummary_sel (env : Env) (cfg : SelCfg) (p : APel) (hp : p.WF) (hr : ∃ d, render env p = .ok d)
    (hsel : considerPEL p.uh.sev p.uh.af cfg = true) :
    parseSummary env cfg p.enc =
      .summary { eid := ox (fmtHex 2 p.ph.eid), fields := specFields env p (primaryRc p.sections) (primaryMsg env p.sections) } p.ph.plid
        (primaryRc p.sections) := by
  obtain ⟨rest', h⟩ := parseSummaryRd_enc env cfg p hp hr hsel
  unfold parseSummary
  rw [h]

theorem parseSummary_unsel (env : Env) (cfg : SelCfg) (p : APel) (hp : p.WF)
    (hsel : considerPEL p.uh.sev p.uh.af cfg = false) : parseSummary env cfg p.enc = .filtered := by
  obtain ⟨hph, huh, hlen, hsecs⟩ := hp
  have f1 := frames_parseHeader sidPH 40 p.ph.hdr hph.1 (by decide) (by decide)
  have f2 := frames_PH env.T p.ph hph (p.sections.length + 2) (by omega) (8 + 40)
  have f3 := frames_parseHeader sidUH 16 p.uh.hdr huh.1 (by decide) (by decide)
  have f4 := frames_UH env.T p.uh huh [p.ph.creator] (8 + 16)
  have e := enc_eq p []
  rw [List.append_nil] at e
  unfold parseSummary
  rw [e]
  unfold parseSummaryRd
  rw [bind_ok _ _ _ _ _ (f1.exact _)]
  rw [ite_hdr_id]
  rw [bind_ok _ _ _ _ _ (f2.exact _)]
  simp only
  rw [bind_ok _ _ _ _ _ (f3.exact _)]
  rw [ite_hdr_id]
  rw [bind_ok _ _ _ _ _ (f4.exact _)]
  simp only [hsel, Bool.not_false, if_true]
  rfl

theorem parsePEL_unsel (env : Env) (cfg : SelCfg) (p : APel) (hp : p.WF)
    (hsel : considerPEL p.uh.sev p.uh.af cfg = false) : parsePEL env cfg p.enc = .filtered := by
  obtain ⟨hph, huh, hlen, hsecs⟩ := hp
  have f1 := frames_parseHeader sidPH 40 p.ph.hdr hph.1 (by decide) (by decide)
  have f2 := frames_PH env.T p.ph hph (p.sections.length + 2) (by omega) (8 + 40)
  have f3 := frames_parseHeader sidUH 16 p.uh.hdr huh.1 (by decide) (by decide)
  have f4 := frames_UH env.T p.uh huh [p.ph.creator] (8 + 16)
  have e := enc_eq p []
  rw [List.append_nil] at e
  unfold parsePEL
  rw [e]
  unfold parsePELRd
  rw [bind_ok _ _ _ _ _ (f1.exact _)]
  rw [ite_hdr_id]
  rw [bind_ok _ _ _ _ _ (f2.exact _)]
  simp only
  rw [bind_ok _ _ _ _ _ (f3.exact _)]
  rw [ite_hdr_id]
  rw [bind_ok _ _ _ _ _ (f4.exact _)]
  simp only [hsel, Bool.not_false, if_true]
  rfl

theorem parsePEL_sel (env : Env) (cfg : SelCfg) (p : APel) (hp : p.WF)
    (hsel : considerPEL p.uh.sev p.uh.af cfg = true) (d : J) (hr : render env p = .ok d)
    (hnames : (sectionName env.T sidPH :: sectionName env.T sidUH ::
        numberNames (p.sections.map (fun sec => sectionName env.T sec.body.id))
                    (p.sections.map (fun sec => sectionName env.T sec.body.id))).Nodup) :
    parsePEL env cfg p.enc = .doc (fmtHex 2 p.ph.eid) d := by
  have h := (frames_pel env cfg p hp hsel d hr hnames).exact []
  rw [List.append_nil] at h
  unfold parsePEL
  rw [h]

theorem countOne_enc (env : Env) (cfg : SelCfg) (p : APel) (hp : p.WF) (name : Text) :
    countOne env cfg { name := name, data := p.enc } =
      if considerPEL p.uh.sev p.uh.af cfg then .some () else .skip := by
  obtain ⟨hph, huh, hlen, hsecs⟩ := hp
  have f1 := frames_parseHeader sidPH 40 p.ph.hdr hph.1 (by decide) (by decide)
  have f2 := frames_PH env.T p.ph hph (p.sections.length + 2) (by omega) (8 + 40)
  have f3 := frames_parseHeader sidUH 16 p.uh.hdr huh.1 (by decide) (by decide)
  have f4 := frames_UH env.T p.uh huh [p.ph.creator] (8 + 16)
  have e := enc_eq p []
  rw [List.append_nil] at e
  unfold countOne
  simp only []
  rw [e]
  rw [bind_ok _ _ _ _ _ (f1.exact _)]
  rw [ite_hdr_id]
  rw [bind_ok _ _ _ _ _ (f2.exact _)]
  simp only
  rw [bind_ok _ _ _ _ _ (f3.exact _)]
  rw [ite_hdr_id]
  rw [bind_ok _ _ _ _ _ (f4.exact _)]
  simp only
  cases considerPEL p.uh.sev p.uh.af cfg <;> rfl


theorem summaryOf_enc (env : Env) (cfg : SelCfg) (p : APel) (hp : p.WF) (hr : ∃ d, render env p = .ok d) (name : Text) :
    summaryOf env cfg { name := name, data := p.enc } =
      if considerPEL p.uh.sev p.uh.af cfg then
        .some ({ eid := ox (fmtHex 2 p.ph.eid), fields := specFields env p (primaryRc p.sections) (primaryMsg env p.sections) }, p.ph.plid,
          primaryRc p.sections)
      else .skip := by
  unfold summaryOf
  cases hsel : considerPEL p.uh.sev p.uh.af cfg with
  | true => simp only [parseSummary_sel env cfg p hp hr hsel, if_true]
  | false => simp only [parseSummary_unsel env cfg p hp hsel]; rfl

theorem fullOf_enc (env : Env) (cfg : SelCfg) (p : APel) (hp : p.WF) (d : J) (hr : render env p = .ok d)
    (hnames : (sectionName env.T sidPH :: sectionName env.T sidUH ::
        numberNames (p.sections.map (fun sec => sectionName env.T sec.body.id))
                    (p.sections.map (fun sec => sectionName env.T sec.body.id))).Nodup) (name : Text) :
    fullOf env cfg { name := name, data := p.enc } =
      if considerPEL p.uh.sev p.uh.af cfg then .some (fmtHex 2 p.ph.eid, d) else .skip := by
  unfold fullOf
  cases hsel : considerPEL p.uh.sev p.uh.af cfg with
  | true => simp only [parsePEL_sel env cfg p hp hsel d hr hnames, if_true]
  | false => simp only [parsePEL_unsel env cfg p hp hsel]; rfl

/-! ### generic list facts used by the mode theorems -/

theorem filterMap_sel {α β γ} (L : List α) (sel : α → Bool) (h : α → β) (g : β → Option γ) (v : α → γ)
    (h1 : ∀ x ∈ L, sel x = true → g (h x) = some (v x)) (h2 : ∀ x ∈ L, sel x = false → g (h x) = none) :
    (L.map h).filterMap g = (L.filter sel).map v := by
  induction L with
  | nil => rfl
  | cons a L ih =>
    have ih' := ih (fun x hx => h1 x (by simp [hx])) (fun x hx => h2 x (by simp [hx]))
    cases hs : sel a with
    | true => simp only [List.map_cons, List.filterMap_cons, h1 a (by simp) hs, List.filter_cons, hs, if_true, ih']
    | false =>
      simp only [List.map_cons, List.filterMap_cons, h2 a (by simp) hs, List.filter_cons, hs, ih']
      simp

theorem nodup_map_inj {α β} (f : α → β) (hf : ∀ a b, f a = f b → a = b) (l : List α) (h : l.Nodup) : (l.map f).Nodup := by
  unfold List.Nodup at h ⊢
  exact List.Pairwise.map f (fun a b hab hfab => hab (hf a b hfab)) h

theorem lt_pow_hexLenAux : ∀ (f v : Nat), v ≤ f → v < 16 ^ hexLenAux f v
  | 0, v, h => by
    have : v = 0 := by omega
    subst this; simp [hexLenAux]
  | f+1, v, h => by
    unfold hexLenAux
    split
    · omega
    · rename_i hv
      have ih := lt_pow_hexLenAux f (v / 16) (by omega)
      rw [Nat.add_comm, Nat.pow_succ]
      omega

theorem lt_pow_hexLen (v : Nat) : v < 16 ^ hexLen v := lt_pow_hexLenAux v v (Nat.le_refl v)

theorem fmtHex_inj (w a b : Nat) (h : fmtHex w a = fmtHex w b) : a = b := by
  have key : ∀ v, parseHexText (fmtHex w v) = v := by
    intro v
    unfold fmtHex
    apply parseHexText_hexFix
    exact Nat.lt_of_lt_of_le (lt_pow_hexLen v) (Nat.pow_le_pow_right (by omega) (Nat.le_max_right _ _))
  rw [← key a, ← key b, h]

theorem ox_fmtHex_inj (w a b : Nat) (h : ox (fmtHex w a) = ox (fmtHex w b)) : a = b := by
  unfold ox at h
  exact fmtHex_inj w a b (List.append_cancel_left h)

theorem summaryObj_nodup (es : List Summary) (h : (es.map (·.eid)).Nodup) :
    summaryObj es = .obj (es.map fun e => (e.eid, .obj e.fields)) := by
  unfold summaryObj
  have := foldl_objSet (es.map fun e => (e.eid, J.obj e.fields)) [] (by simpa [Function.comp_def] using h)
  rw [List.foldl_map] at this
  rw [this]; rfl

theorem render_obj (env : Env) (p : APel) (d : J) (hr : render env p = .ok d) :
    ∃ tail, d = .obj ((sectionName env.T sidPH, renderPH env.T p.ph) ::
      (sectionName env.T sidUH, renderUH env.T p.uh [p.ph.creator]) :: tail) := by
  cases hjs : exceptAll (p.sections.map (renderSection env [p.ph.creator])) with
  | error e => simp [render, hjs] at hr
  | ok js =>
    simp only [render, hjs, Except.ok.injEq] at hr
    exact ⟨_, hr.symm⟩

theorem specFields_get (env : Env) (p : APel) (rc : Option Text) (msg : Option J) :
    objGet? (specFields env p rc msg) (s "PLID") = some (.str (ox (fmtHex 2 p.ph.plid))) ∧
    objGet? (specFields env p rc msg) (s "CreatorID") = some (.str ((lookupT env.T.creators [p.ph.creator]).getD (s "Unknown"))) ∧
    objGet? (specFields env p rc msg) (s "Commit Time") = some (.str (bcdTime p.ph.commit)) ∧
    objGet? (specFields env p rc msg) (s "CompID") = some (.str (displayCompID env.T p.ph.hdr.comp [p.ph.creator])) ∧
    objGet? (specFields env p rc msg) (s "Subsystem") = some (.str ((lookupN env.T.subsystems p.uh.subsys).getD (s "Invalid"))) ∧
    objGet? (specFields env p rc msg) (s "Sev") = some (.str ((lookupN env.T.severities p.uh.sev).getD (s "Invalid"))) := by
  cases rc <;> cases msg <;>
  (simp only [specFields, List.cons_append, List.nil_append]
   refine ⟨?_, ?_, ?_, ?_, ?_, ?_⟩ <;>
     repeat (first | rw [objGet?_cons_eq] | rw [objGet?_cons_ne _ _ _ _ (by decide)]))

theorem presentedGen_perm {α} (key : α → Text) (p : α → Bool) (l : List α) (rev : Bool) :
    (if rev then (sortBy key (l.filter p)).reverse else sortBy key (l.filter p)).Perm (l.filter p) := by
  cases rev
  · exact sortBy_perm key _
  · exact (List.reverse_perm _).trans (sortBy_perm key _)

theorem mem_presentedGen {α} (key : α → Text) (p : α → Bool) (l : List α) (rev : Bool) (x : α) :
    x ∈ (if rev then (sortBy key (l.filter p)).reverse else sortBy key (l.filter p)) ↔ x ∈ l ∧ p x = true := by
  rw [(presentedGen_perm key p l rev).mem_iff, List.mem_filter]

theorem nodup_presentedGen {α β} (key : α → Text) (p q : α → Bool) (l : List α) (rev : Bool) (f : α → β)
    (h : (l.map f).Nodup) :
    (((if rev then (sortBy key (l.filter p)).reverse else sortBy key (l.filter p)).filter q).map f).Nodup := by
  rw [(((presentedGen_perm key p l rev).filter q).map f).nodup_iff]
  exact List.Nodup.sublist (List.Sublist.map f (List.Sublist.trans List.filter_sublist List.filter_sublist)) h

end Pel
