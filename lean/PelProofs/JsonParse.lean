import PelModel.JsonSpec
import PelProofs.Basic
/- `loads` inverts the structural rendering `aText` (hence `dumps` and the aligned output). -/
namespace Pel

/-! ### strings -/

theorem hex4Val_hex4L (c : Nat) (r : Text) (h : c < 65536) : hex4Val (hex4L c ++ r) = some (c, r) := by
  have e : c / 4096 % 16 * 4096 + c / 256 % 16 * 256 + c / 16 % 16 * 16 + c % 16 = c := by omega
  simp only [hex4L, List.cons_append, List.nil_append, hex4Val, isHexDigit_hexL, hexVal_hexL,
    Bool.and_self, if_true, e]

/-- the text does not continue with a `\uDC00`..`\uDFFF` escape -/
def noLowAhead (r : Text) : Prop :=
  ∀ r3, r = 92 :: 117 :: r3 → ∀ u2 r4, hex4Val r3 = some (u2, r4) → ¬ (0xDC00 ≤ u2 ∧ u2 ≤ 0xDFFF)

theorem scan_u (fuel u : Nat) (r acc : Text) (hu : u < 65536)
    (h : ¬(0xD800 ≤ u ∧ u ≤ 0xDBFF) ∨ noLowAhead r) :
    scanString (fuel+1) (92 :: 117 :: (hex4L u ++ r)) acc = scanString fuel r (acc ++ [u]) := by
  rw [scanString]
  simp only [show (92:Nat) ≠ 34 by decide, show (117:Nat) ≠ 34 by decide, if_false, if_true,
    show (117:Nat) ≠ 92 by decide, show (117:Nat) ≠ 47 by decide, show (117:Nat) ≠ 98 by decide,
    show (117:Nat) ≠ 102 by decide, show (117:Nat) ≠ 110 by decide, show (117:Nat) ≠ 114 by decide,
    show (117:Nat) ≠ 116 by decide, hex4Val_hex4L u r hu]
  by_cases hs : 0xD800 ≤ u ∧ u ≤ 0xDBFF
  · rw [if_pos hs]
    have hn : noLowAhead r := by
      rcases h with h | h
      · exact absurd hs h
      · exact h
    split
    · rename_i r3
      split
      · rename_i u2 r4 he
        rw [if_neg (hn r3 rfl u2 r4 he)]
      · rfl
    · rfl
  · rw [if_neg hs]


theorem scan_char (fuel c : Nat) (r acc : Text) (hc : c < 0x110000)
    (h : ¬(0xD800 ≤ c ∧ c ≤ 0xDBFF) ∨ noLowAhead r) :
    scanString (fuel+1) (escChar c ++ r) acc = scanString fuel r (acc ++ [c]) := by
  unfold escChar
  split
  · subst c; simp [scanString]
  split
  · subst c; simp [scanString]
  split
  · subst c; simp [scanString]
  split
  · subst c; simp [scanString]
  split
  · subst c; simp [scanString]
  split
  · subst c; simp [scanString]
  split
  · subst c; simp [scanString]
  split
  · rename_i h1 h2 _ _ _ _ _ h8
    have h3 : ¬ c < 32 := by omega
    simp [scanString, h1, h2, h3]
  split
  · rename_i h9
    exact scan_u fuel c r acc h9 h
  · rename_i h9
    have hhi : 55296 + (c - 65536) / 1024 < 65536 := by omega
    have hlo : 56320 + (c - 65536) % 1024 < 65536 := by omega
    simp only [List.cons_append, List.append_assoc]
    rw [scanString]
    simp only [show (92:Nat) ≠ 34 by decide, show (117:Nat) ≠ 34 by decide, if_false, if_true,
      show (117:Nat) ≠ 92 by decide, show (117:Nat) ≠ 47 by decide, show (117:Nat) ≠ 98 by decide,
      show (117:Nat) ≠ 102 by decide, show (117:Nat) ≠ 110 by decide, show (117:Nat) ≠ 114 by decide,
      show (117:Nat) ≠ 116 by decide, hex4Val_hex4L _ _ hhi,
      hex4Val_hex4L _ _ hlo]
    have e1 : 0xD800 ≤ 55296 + (c - 65536) / 1024 ∧ 55296 + (c - 65536) / 1024 ≤ 0xDBFF := by omega
    have e2 : 0xDC00 ≤ 56320 + (c - 65536) % 1024 ∧ 56320 + (c - 65536) % 1024 ≤ 0xDFFF := by omega
    rw [if_pos e1, if_pos e2]
    have e3 : 0x10000 + (55296 + (c - 65536) / 1024 - 0xD800) * 1024 + (56320 + (c - 65536) % 1024 - 0xDC00) = c := by
      omega
    rw [e3]

theorem noLowAhead_quote (rest : Text) : noLowAhead (34 :: rest) := by
  intro r3 h; cases h

theorem noLowAhead_escChar (d : Nat) (r : Text) (hd : d < 0x110000) (hl : ¬(0xDC00 ≤ d ∧ d ≤ 0xDFFF)) :
    noLowAhead (escChar d ++ r) := by
  intro r3 he u2 r4 hv
  unfold escChar at he
  split at he
  · cases he
  split at he
  · cases he
  split at he
  · cases he
  split at he
  · cases he
  split at he
  · cases he
  split at he
  · cases he
  split at he
  · cases he
  split at he
  · rename_i h1 h2 _ _ _ _ _ _
    simp only [List.cons_append, List.nil_append, List.cons.injEq] at he
    omega
  split at he
  · rename_i h9
    simp only [List.cons_append, List.cons.injEq, true_and] at he
    subst he
    rw [hex4Val_hex4L d r h9] at hv
    simp only [Option.some.injEq, Prod.mk.injEq] at hv
    omega
  · rename_i h9
    have hhi : 55296 + (d - 65536) / 1024 < 65536 := by omega
    simp only [List.cons_append, List.append_assoc, List.cons.injEq, true_and] at he
    subst he
    rw [hex4Val_hex4L _ _ hhi] at hv
    simp only [Option.some.injEq, Prod.mk.injEq] at hv
    omega

theorem strOk_cons (c : Nat) (t : Text) (h : strOk (c :: t) = true) : c < 0x110000 ∧ strOk t = true := by
  cases t with
  | nil => simp [strOk] at h ⊢; exact h
  | cons d r =>
    simp only [strOk, Bool.and_eq_true, decide_eq_true_eq] at h
    exact ⟨h.1.1, h.2⟩

theorem strOk_cons2 (c d : Nat) (t : Text) (h : strOk (c :: d :: t) = true) :
    ¬(0xD800 ≤ c ∧ c ≤ 0xDBFF) ∨ ¬(0xDC00 ≤ d ∧ d ≤ 0xDFFF) := by
  simp only [strOk, Bool.and_eq_true, decide_eq_true_eq, Bool.not_eq_true', Bool.and_eq_false_iff,
    decide_eq_false_iff_not] at h
  omega

theorem scanString_render (t : Text) : ∀ (fuel : Nat) (rest acc : Text), strOk t = true → t.length + 1 ≤ fuel →
    scanString fuel (t.flatMap escChar ++ 34 :: rest) acc = .ok (acc ++ t) rest := by
  induction t with
  | nil =>
    intro fuel rest acc _ hf
    obtain ⟨f, rfl⟩ : ∃ f, fuel = f + 1 := ⟨fuel - 1, by simp at hf; omega⟩
    simp [scanString]
  | cons c t ih =>
    intro fuel rest acc hs hf
    obtain ⟨f, rfl⟩ : ∃ f, fuel = f + 1 := ⟨fuel - 1, by simp at hf; omega⟩
    have ⟨hc, hst⟩ := strOk_cons c t hs
    simp only [List.flatMap_cons, List.append_assoc]
    rw [scan_char f c _ _ hc]
    · rw [ih f rest (acc ++ [c]) hst (by simp at hf ⊢; omega)]
      simp
    · cases t with
      | nil => right; exact noLowAhead_quote rest
      | cons d t' =>
        rcases strOk_cons2 c d t' hs with h | h
        · left; exact h
        · right
          simp only [List.flatMap_cons, List.append_assoc]
          exact noLowAhead_escChar d _ (strOk_cons d t' hst).1 h

theorem escChar_length_pos (c : Nat) : 1 ≤ (escChar c).length := by
  unfold escChar
  repeat' split
  all_goals simp [hex4L]

theorem flatMap_escChar_length (t : Text) : t.length ≤ (t.flatMap escChar).length := by
  induction t with
  | nil => simp
  | cons c t ih =>
    have := escChar_length_pos c
    simp only [List.flatMap_cons, List.length_append, List.length_cons]
    omega

/-- a rendered string parses back (string scanning as done by `parseValue` / `parseMembers`) -/
theorem scanString_renderStr (t rest : Text) (h : strOk t = true) :
    scanString ((t.flatMap escChar ++ 34 :: rest).length + 1) (t.flatMap escChar ++ 34 :: rest) [] = .ok t rest := by
  have := flatMap_escChar_length t
  rw [scanString_render t _ rest [] h (by simp only [List.length_append, List.length_cons]; omega)]
  simp

/-! ### numbers -/

theorem decLenAux_eq (f : Nat) : ∀ (v f' : Nat), v ≤ f → v ≤ f' → decLenAux f v = decLenAux f' v := by
  induction f with
  | zero =>
    intro v f' h _
    have : v = 0 := by omega
    subst this
    cases f' <;> simp [decLenAux]
  | succ f ih =>
    intro v f' h h'
    by_cases hv : v < 10
    · cases f' <;> simp [decLenAux, hv]
    · obtain ⟨g, rfl⟩ : ∃ g, f' = g + 1 := ⟨f' - 1, by omega⟩
      simp only [decLenAux, hv, if_false]
      rw [ih (v / 10) g (by omega) (by omega)]

theorem natDec_small (v : Nat) (h : v < 10) : natDec v = [48 + v] := by
  have e : decLen v = 1 := by
    unfold decLen
    cases v <;> simp [decLenAux, h]
  simp [natDec, e, decFix, Nat.mod_eq_of_lt h]

theorem natDec_step (v : Nat) (h : 10 ≤ v) : natDec v = natDec (v / 10) ++ [48 + v % 10] := by
  have e : decLen v = decLen (v / 10) + 1 := by
    unfold decLen
    obtain ⟨k, rfl⟩ : ∃ k, v = k + 1 := ⟨v - 1, by omega⟩
    have hv : ¬ (k + 1 < 10) := by omega
    simp only [decLenAux, hv, if_false]
    rw [decLenAux_eq k ((k + 1) / 10) ((k + 1) / 10) (by omega) (Nat.le_refl _)]
    omega
  simp only [natDec, e, decFix]

theorem decVal_snoc (t : Text) (c : Nat) : decVal (t ++ [c]) = decVal t * 10 + (c - 48) := by
  simp [decVal, List.foldl_append]

theorem natDec_shape_p (v : Nat) : ∃ d dr, natDec v = d :: dr ∧ (48 ≤ d ∧ d ≤ 57) ∧
    (∀ c ∈ dr, 48 ≤ c ∧ c ≤ 57) ∧ (d = 48 → dr = []) ∧ decVal (d :: dr) = v := by
  induction v using Nat.strongRecOn with
  | _ v ih =>
    by_cases hv : v < 10
    · refine ⟨48 + v, [], natDec_small v hv, by omega, by simp, fun _ => rfl, ?_⟩
      simp [decVal]
    · obtain ⟨d, dr, e, hd, hdr, h0, hval⟩ := ih (v / 10) (by omega)
      refine ⟨d, dr ++ [48 + v % 10], ?_, hd, ?_, ?_, ?_⟩
      · rw [natDec_step v (by omega), e]; rfl
      · intro c hc
        simp only [List.mem_append, List.mem_singleton] at hc
        rcases hc with hc | hc
        · exact hdr c hc
        · omega
      · intro h48
        have := h0 h48
        subst this; subst h48
        simp [decVal] at hval
        omega
      · rw [← List.cons_append, decVal_snoc, hval]; omega

/-- what may follow a value in the printed text: end of text, a comma or a newline -/
def sepOk (rest : Text) : Prop := ∀ c r, rest = c :: r → c = 44 ∨ c = 10

theorem takeWhileDigits_append (ds rest : Text) (hds : ∀ c ∈ ds, 48 ≤ c ∧ c ≤ 57) (hr : sepOk rest) :
    takeWhileDigits (ds ++ rest) = (ds, rest) := by
  have hp : ∀ a ∈ ds, takeWhileDigits.isDigitC' a = true := by
    intro a ha; have := hds a ha
    simp [takeWhileDigits.isDigitC', this]
  unfold takeWhileDigits
  rw [List.takeWhile_append_of_pos hp, List.dropWhile_append_of_pos hp]
  cases rest with
  | nil => simp
  | cons c r =>
    have hc : takeWhileDigits.isDigitC' c = false := by
      rcases hr c r rfl with h | h <;> subst h <;> decide
    simp [hc]

theorem scanNumber_pos (d : Nat) (dr rest : Text) (hd : 48 ≤ d ∧ d ≤ 57)
    (hdr : ∀ c ∈ dr, 48 ≤ c ∧ c ≤ 57) (h0 : d = 48 → dr = []) (hr : sepOk rest) :
    scanNumber (d :: dr ++ rest) = .ok (decVal (d :: dr) : Int) rest := by
  have htw : takeWhileDigits (d :: (dr ++ rest)) = (d :: dr, rest) := by
    rw [← List.cons_append]
    apply takeWhileDigits_append _ _ _ hr
    intro c hc
    rcases List.mem_cons.1 hc with h | h
    · subst h; exact hd
    · exact hdr c h
  have h48 : ¬ (d = 48 ∧ dr ≠ []) := fun h => h.2 (h0 h.1)
  unfold scanNumber
  rw [scanNumber.match_1.eq_2 _ _ _ _ (by
    intro r h; simp only [List.cons_append, List.cons.injEq] at h; omega)]
  simp only [List.cons_append, htw, h48, if_false]
  cases rest with
  | nil => simp
  | cons c r =>
    rcases hr c r rfl with h | h <;> subst h <;> simp

theorem scanNumber_neg (d : Nat) (dr rest : Text) (hd : 48 ≤ d ∧ d ≤ 57)
    (hdr : ∀ c ∈ dr, 48 ≤ c ∧ c ≤ 57) (h0 : d = 48 → dr = []) (hr : sepOk rest) :
    scanNumber (45 :: d :: dr ++ rest) = .ok (-(decVal (d :: dr) : Int)) rest := by
  have htw : takeWhileDigits (d :: (dr ++ rest)) = (d :: dr, rest) := by
    rw [← List.cons_append]
    apply takeWhileDigits_append _ _ _ hr
    intro c hc
    rcases List.mem_cons.1 hc with h | h
    · subst h; exact hd
    · exact hdr c h
  have h48 : ¬ (d = 48 ∧ dr ≠ []) := fun h => h.2 (h0 h.1)
  unfold scanNumber
  simp only [List.cons_append, htw, h48, if_false]
  cases rest with
  | nil => simp
  | cons c r =>
    rcases hr c r rfl with h | h <;> subst h <;> simp

theorem scanNumber_intDec (k : Int) (rest : Text) (hr : sepOk rest) :
    scanNumber (intDec k ++ rest) = .ok k rest := by
  cases k with
  | ofNat v =>
    obtain ⟨d, dr, e, hd, hdr, h0, hval⟩ := natDec_shape_p v
    simp only [intDec, e]
    rw [scanNumber_pos d dr rest hd hdr h0 hr, hval]
    rfl
  | negSucc v =>
    obtain ⟨d, dr, e, hd, hdr, h0, hval⟩ := natDec_shape_p (v + 1)
    simp only [intDec, e]
    rw [scanNumber_neg d dr rest hd hdr h0 hr, hval]
    rfl

/-- first character of a printed integer -/
theorem intDec_head (k : Int) : ∃ c r, intDec k = c :: r ∧
    ((48 ≤ c ∧ c ≤ 57) ∨ (c = 45 ∧ ∃ d r', r = d :: r' ∧ 48 ≤ d ∧ d ≤ 57)) := by
  cases k with
  | ofNat v =>
    obtain ⟨d, dr, e, hd, _⟩ := natDec_shape_p v
    exact ⟨d, dr, by simp only [intDec, e], Or.inl hd⟩
  | negSucc v =>
    obtain ⟨d, dr, e, hd, _⟩ := natDec_shape_p (v + 1)
    exact ⟨45, d :: dr, by simp only [intDec, e], Or.inr ⟨rfl, d, dr, rfl, hd⟩⟩


/-! ### whitespace -/

def wsOnly (ws : Text) : Prop := ∀ c ∈ ws, isJsonWs c = true

theorem wsOnly_nil : wsOnly [] := by intro c h; cases h

theorem wsOnly_spaces (k : Nat) : wsOnly (spaces k) := by
  intro c h
  simp only [spaces, List.mem_replicate] at h
  rw [h.2]; rfl

theorem wsOnly_indentOf (lvl : Nat) : wsOnly (indentOf lvl) := wsOnly_spaces _

theorem wsOnly_alignGap (n lvl : Nat) (k : Text) (v : J) : wsOnly (alignGap n lvl k v) := by
  unfold alignGap
  split
  · exact wsOnly_nil
  · exact wsOnly_spaces _

theorem skipWs_ws_append (ws t : Text) (h : wsOnly ws) : skipWs (ws ++ t) = skipWs t := by
  unfold skipWs
  rw [List.dropWhile_append_of_pos h]

theorem skipWs_nl (t : Text) : skipWs (10 :: t) = skipWs t := by
  simp [skipWs, isJsonWs]

theorem skipWs_sp (t : Text) : skipWs (32 :: t) = skipWs t := by
  simp [skipWs, isJsonWs]

theorem skipWs_nonws (c : Nat) (r : Text) (h : isJsonWs c = false) : skipWs (c :: r) = c :: r := by
  simp [skipWs, h]

/-! ### shape of the printed text -/

theorem s_null : s "null" = [110, 117, 108, 108] := by decide
theorem s_true : s "true" = [116, 114, 117, 101] := by decide
theorem s_false : s "false" = [102, 97, 108, 115, 101] := by decide
theorem s_NaN : s "NaN" = [78, 97, 78] := by decide
theorem s_Inf : s "Infinity" = [73, 110, 102, 105, 110, 105, 116, 121] := by decide
theorem s_NInf : s "-Infinity" = [45, 73, 110, 102, 105, 110, 105, 116, 121] := by decide
theorem s_arr : s "[]" = [91, 93] := by decide
theorem s_obj : s "{}" = [123, 125] := by decide

/-- a printed value starts with a character that is neither whitespace nor a closing bracket -/
def goodHead (c : Nat) : Prop := isJsonWs c = false ∧ c ≠ 93 ∧ c ≠ 125

theorem aText_head (n : Nat) (d : J) (lvl : Nat) : ∃ c r, aText n d lvl = c :: r ∧ goodHead c := by
  cases d with
  | null => exact ⟨110, _, by rw [aText, s_null], by unfold goodHead; decide⟩
  | bool b =>
    cases b
    · exact ⟨102, _, by rw [aText, s_false], by unfold goodHead; decide⟩
    · exact ⟨116, _, by rw [aText, s_true], by unfold goodHead; decide⟩
  | num k =>
    obtain ⟨c, r, e, hc⟩ := intDec_head k
    refine ⟨c, r, by simp only [aText, e], ?_⟩
    unfold goodHead isJsonWs
    rcases hc with hc | hc
    · refine ⟨?_, by omega, by omega⟩
      simp; omega
    · rw [hc.1]; decide
  | str t => exact ⟨34, _, by rw [aText, renderStr]; rfl, by unfold goodHead; decide⟩
  | arr l =>
    cases l with
    | nil => exact ⟨91, _, by rw [aText, s_arr], by unfold goodHead; decide⟩
    | cons x xs => exact ⟨91, _, by rw [aText]; rfl, by unfold goodHead; decide⟩
  | obj l =>
    cases l with
    | nil => exact ⟨123, _, by rw [aText, s_obj], by unfold goodHead; decide⟩
    | cons x xs => exact ⟨123, _, by rw [aText]; rfl, by unfold goodHead; decide⟩

theorem skipWs_aText (n : Nat) (d : J) (lvl : Nat) (rest : Text) :
    skipWs (aText n d lvl ++ rest) = aText n d lvl ++ rest := by
  obtain ⟨c, r, e, hc⟩ := aText_head n d lvl
  rw [e, List.cons_append, skipWs_nonws c _ hc.1]

def itemsTail (n lvl : Nat) : List J → Text
  | [] => []
  | y :: r => [44, 10] ++ indentOf lvl ++ aText n y lvl ++ itemsTail n lvl r

theorem aItems_cons (n lvl : Nat) (xs : List J) : ∀ x : J,
    aItems n (x :: xs) lvl = indentOf lvl ++ aText n x lvl ++ itemsTail n lvl xs := by
  induction xs with
  | nil => intro x; simp only [aItems, itemsTail, List.append_nil]
  | cons y r ih => intro x; simp only [aItems, itemsTail, ih y, List.append_assoc]

def memberText (n lvl : Nat) (kv : Text × J) : Text :=
  renderStr kv.1 ++ [58] ++ alignGap n lvl kv.1 kv.2 ++ [32] ++ aText n kv.2 lvl

def membersTail (n lvl : Nat) : List (Text × J) → Text
  | [] => []
  | kv :: r => [44, 10] ++ indentOf lvl ++ memberText n lvl kv ++ membersTail n lvl r

theorem aMembers_cons (n lvl : Nat) (kvs : List (Text × J)) : ∀ kv : Text × J,
    aMembers n (kv :: kvs) lvl = indentOf lvl ++ memberText n lvl kv ++ membersTail n lvl kvs := by
  induction kvs with
  | nil => intro ⟨k, v⟩; simp only [aMembers, membersTail, memberText, List.append_nil, List.append_assoc]
  | cons y r ih =>
    intro ⟨k, v⟩
    simp only [aMembers, membersTail, ih y, memberText, List.append_assoc]

/-! ### fuel measure -/

mutual
  def J.sz : J → Nat
    | .arr l => 1 + szItems l
    | .obj l => 1 + szMembers l
    | .null => 1
    | .bool _ => 1
    | .num _ => 1
    | .str _ => 1
  def szItems : List J → Nat
    | [] => 0
    | x :: r => 1 + x.sz + szItems r
  def szMembers : List (Text × J) → Nat
    | [] => 0
    | (_, v) :: r => 1 + v.sz + szMembers r
end

theorem J.sz_pos (d : J) : 1 ≤ d.sz := by
  cases d <;> simp only [J.sz] <;> omega

mutual
  theorem sz_le_aText (n : Nat) : ∀ (d : J) (lvl : Nat), d.sz ≤ (aText n d lvl).length
    | .null, _ => by simp [J.sz, aText, s_null]
    | .bool true, _ => by simp [J.sz, aText, s_true]
    | .bool false, _ => by simp [J.sz, aText, s_false]
    | .num k, _ => by
      obtain ⟨c, r, e, _⟩ := intDec_head k
      simp [J.sz, aText, e]
    | .str t, _ => by simp [J.sz, aText, renderStr]
    | .arr [], _ => by simp [J.sz, szItems, aText, s_arr]
    | .arr (x :: xs), lvl => by
      have := sz_le_aItems n (x :: xs) (lvl + 1)
      simp only [J.sz, aText, List.length_append, List.length_cons, List.length_nil]
      omega
    | .obj [], _ => by simp [J.sz, szMembers, aText, s_obj]
    | .obj (kv :: kvs), lvl => by
      have := sz_le_aMembers n (kv :: kvs) (lvl + 1)
      simp only [J.sz, aText, List.length_append, List.length_cons, List.length_nil]
      omega
  theorem sz_le_aItems (n : Nat) : ∀ (l : List J) (lvl : Nat), szItems l ≤ (aItems n l lvl).length + 1
    | [], _ => by simp [szItems]
    | [x], lvl => by
      have := sz_le_aText n x lvl
      simp only [szItems, aItems, List.length_append]
      omega
    | x :: y :: r, lvl => by
      have := sz_le_aText n x lvl
      have := sz_le_aItems n (y :: r) lvl
      simp only [szItems, aItems, List.length_append, List.length_cons, List.length_nil] at this ⊢
      omega
  theorem sz_le_aMembers (n : Nat) : ∀ (l : List (Text × J)) (lvl : Nat), szMembers l ≤ (aMembers n l lvl).length + 1
    | [], _ => by simp [szMembers]
    | [(k, v)], lvl => by
      have := sz_le_aText n v lvl
      simp only [szMembers, aMembers, List.length_append]
      omega
    | (k, v) :: kv :: r, lvl => by
      have := sz_le_aText n v lvl
      have := sz_le_aMembers n (kv :: r) lvl
      simp only [szMembers, aMembers, List.length_append, List.length_cons, List.length_nil] at this ⊢
      omega
end

/-! ### leaves -/

theorem parseValue_null (f : Nat) (rest : Text) : parseValue (f+1) (s "null" ++ rest) = .ok .null rest := by
  simp [parseValue, s_null]

theorem parseValue_true (f : Nat) (rest : Text) : parseValue (f+1) (s "true" ++ rest) = .ok (.bool true) rest := by
  simp [parseValue, s_null, s_true]

theorem parseValue_false (f : Nat) (rest : Text) : parseValue (f+1) (s "false" ++ rest) = .ok (.bool false) rest := by
  simp [parseValue, s_null, s_true, s_false]

theorem parseValue_str (f : Nat) (t rest : Text) (h : strOk t = true) :
    parseValue (f+1) (renderStr t ++ rest) = .ok (.str t) rest := by
  simp only [renderStr, List.cons_append, List.nil_append, List.append_assoc, parseValue, if_true]
  rw [scanString_renderStr t rest h]

theorem parseValue_emptyArr (f : Nat) (rest : Text) : parseValue (f+1) (s "[]" ++ rest) = .ok (.arr []) rest := by
  simp [parseValue, s_arr, skipWs, isJsonWs]

theorem parseValue_emptyObj (f : Nat) (rest : Text) : parseValue (f+1) (s "{}" ++ rest) = .ok (.obj []) rest := by
  simp [parseValue, s_obj, skipWs, isJsonWs]

theorem parseValue_num (f : Nat) (k : Int) (rest : Text) (hr : sepOk rest) :
    parseValue (f+1) (intDec k ++ rest) = .ok (.num k) rest := by
  have hsn := scanNumber_intDec k rest hr
  obtain ⟨c, r, e, hc⟩ := intDec_head k
  rw [e] at hsn ⊢
  simp only [List.cons_append] at hsn ⊢
  rcases hc with hc | ⟨hc, d, r', e', hd⟩
  · have h1 : c ≠ 34 := by omega
    have h2 : c ≠ 123 := by omega
    have h3 : c ≠ 91 := by omega
    have h4 : ¬ (110 = c) := by omega
    have h5 : ¬ (116 = c) := by omega
    have h6 : ¬ (102 = c) := by omega
    have h7 : ¬ (78 = c) := by omega
    have h8 : ¬ (73 = c) := by omega
    have h9 : ¬ (45 = c) := by omega
    simp [parseValue, hsn, s_null, s_true, s_false, s_NaN, s_Inf, s_NInf, h1, h2, h3, h4, h5, h6, h7, h8, h9, hc]
  · subst hc; subst e'
    simp only [List.cons_append] at hsn
    simp [parseValue, hsn, s_null, s_true, s_false, s_NaN, s_Inf, s_NInf]
    intro h; omega

/-! ### containers: single parser steps -/

theorem parseValue_arr (f n : Nat) (x : J) (lvl : Nat) (ws T : Text) (hws : wsOnly ws) :
    parseValue (f+1) (91 :: 10 :: (ws ++ (aText n x lvl ++ T))) = parseItems f (aText n x lvl ++ T) [] := by
  have h : skipWs (10 :: (ws ++ (aText n x lvl ++ T))) = aText n x lvl ++ T := by
    rw [skipWs_nl, skipWs_ws_append _ _ hws, skipWs_aText]
  obtain ⟨c, r, e, hc⟩ := aText_head n x lvl
  rw [e] at h ⊢
  simp only [List.cons_append] at h ⊢
  simp only [parseValue, h, show (91:Nat) ≠ 34 by decide, show (91:Nat) ≠ 123 by decide, if_false, if_true]
  split
  · rename_i heq
    simp only [List.cons.injEq] at heq
    exact absurd heq.1 hc.2.1
  · rfl

theorem parseValue_obj (f : Nat) (k ws T : Text) (hws : wsOnly ws) :
    parseValue (f+1) (123 :: 10 :: (ws ++ (renderStr k ++ T))) = parseMembers f (renderStr k ++ T) [] := by
  have h : skipWs (10 :: (ws ++ (renderStr k ++ T))) = renderStr k ++ T := by
    rw [skipWs_nl, skipWs_ws_append _ _ hws]
    simp only [renderStr, List.cons_append, List.nil_append]
    rw [skipWs_nonws _ _ (by decide)]
  simp only [renderStr, List.cons_append, List.nil_append] at h ⊢
  simp only [parseValue, h, show (123:Nat) ≠ 34 by decide, if_false, if_true]

theorem parseItems_last (g : Nat) (t : Text) (acc : List J) (ws rest : Text) (v : J)
    (hws : wsOnly ws) (hv : parseValue g t = .ok v (10 :: (ws ++ 93 :: rest))) :
    parseItems (g+1) t acc = .ok (.arr (acc ++ [v])) rest := by
  have h : skipWs (10 :: (ws ++ 93 :: rest)) = 93 :: rest := by
    rw [skipWs_nl, skipWs_ws_append _ _ hws, skipWs_nonws _ _ (by decide)]
  simp only [parseItems, hv, h]

theorem parseItems_more (g : Nat) (t : Text) (acc : List J) (R : Text) (v : J)
    (hv : parseValue g t = .ok v (44 :: R)) :
    parseItems (g+1) t acc = parseItems g (skipWs R) (acc ++ [v]) := by
  have h : skipWs (44 :: R) = 44 :: R := skipWs_nonws _ _ (by decide)
  simp only [parseItems, hv, h]

theorem parseMembers_last (g : Nat) (k gap T : Text) (acc : List (Text × J)) (ws rest : Text) (v : J)
    (hk : strOk k = true) (hgap : wsOnly gap) (hT : skipWs T = T) (hws : wsOnly ws)
    (hv : parseValue g T = .ok v (10 :: (ws ++ 125 :: rest))) :
    parseMembers (g+1) (renderStr k ++ 58 :: (gap ++ 32 :: T)) acc = .ok (.obj (objSet acc k v)) rest := by
  have h1 : skipWs (58 :: (gap ++ 32 :: T)) = 58 :: (gap ++ 32 :: T) := skipWs_nonws _ _ (by decide)
  have h2 : skipWs (gap ++ 32 :: T) = T := by rw [skipWs_ws_append _ _ hgap, skipWs_sp, hT]
  have h3 : skipWs (10 :: (ws ++ 125 :: rest)) = 125 :: rest := by
    rw [skipWs_nl, skipWs_ws_append _ _ hws, skipWs_nonws _ _ (by decide)]
  simp only [renderStr, List.cons_append, List.nil_append, List.append_assoc, parseMembers]
  rw [scanString_renderStr k _ hk]
  simp only [h1, h2, hv, h3]

theorem parseMembers_more (g : Nat) (k gap T : Text) (acc : List (Text × J)) (R : Text) (v : J)
    (hk : strOk k = true) (hgap : wsOnly gap) (hT : skipWs T = T)
    (hv : parseValue g T = .ok v (44 :: R)) :
    parseMembers (g+1) (renderStr k ++ 58 :: (gap ++ 32 :: T)) acc = parseMembers g (skipWs R) (objSet acc k v) := by
  have h1 : skipWs (58 :: (gap ++ 32 :: T)) = 58 :: (gap ++ 32 :: T) := skipWs_nonws _ _ (by decide)
  have h2 : skipWs (gap ++ 32 :: T) = T := by rw [skipWs_ws_append _ _ hgap, skipWs_sp, hT]
  have h3 : skipWs (44 :: R) = 44 :: R := skipWs_nonws _ _ (by decide)
  simp only [renderStr, List.cons_append, List.nil_append, List.append_assoc, parseMembers]
  rw [scanString_renderStr k _ hk]
  simp only [h1, h2, hv, h3]

theorem objSet_fresh (acc : List (Text × J)) (k : Text) (v : J) (h : ∀ p ∈ acc, p.1 ≠ k) :
    objSet acc k v = acc ++ [(k, v)] := by
  induction acc with
  | nil => rfl
  | cons p r ih =>
    obtain ⟨k', v'⟩ := p
    have h1 : k' ≠ k := h (k', v') (List.mem_cons_self ..)
    simp only [objSet, if_neg h1, List.cons_append]
    rw [ih (fun p hp => h p (List.mem_cons_of_mem _ hp))]

theorem sepOk_nil : sepOk [] := by intro c r h; cases h
theorem sepOk_comma (R : Text) : sepOk (44 :: R) := by intro c r h; cases h; left; rfl
theorem sepOk_nl (R : Text) : sepOk (10 :: R) := by intro c r h; cases h; right; rfl

/-! ### containers: whole lists, given the statement for values at smaller fuel -/

def PVbelow (n F : Nat) : Prop :=
  ∀ fuel, fuel < F → ∀ (d : J) (lvl : Nat) (rest : Text), d.keysDistinct = true → d.stringsOk = true →
    sepOk rest → d.sz ≤ fuel → parseValue fuel (aText n d lvl ++ rest) = .ok d rest

theorem parseItems_ok (n lvl F : Nat) (hPV : PVbelow n F) (xs : List J) :
    ∀ (x : J) (fuel : Nat) (acc : List J) (ws rest : Text),
    fuel ≤ F → allDistinct (x :: xs) = true → allStringsOk (x :: xs) = true → wsOnly ws →
    szItems (x :: xs) ≤ fuel →
    parseItems fuel (aText n x lvl ++ (itemsTail n lvl xs ++ 10 :: (ws ++ 93 :: rest))) acc
      = .ok (.arr (acc ++ x :: xs)) rest := by
  induction xs with
  | nil =>
    intro x fuel acc ws rest hF hd hs hws hsz
    simp only [szItems] at hsz
    obtain ⟨g, rfl⟩ : ∃ g, fuel = g + 1 := ⟨fuel - 1, by omega⟩
    simp only [allDistinct, allStringsOk, Bool.and_true] at hd hs
    simp only [itemsTail, List.nil_append]
    exact parseItems_last g _ acc ws rest x hws
      (hPV g (by omega) x lvl _ hd hs (sepOk_nl _) (by omega))
  | cons y r ih =>
    intro x fuel acc ws rest hF hd hs hws hsz
    rw [szItems] at hsz
    obtain ⟨g, rfl⟩ : ∃ g, fuel = g + 1 := ⟨fuel - 1, by omega⟩
    rw [allDistinct, Bool.and_eq_true] at hd
    rw [allStringsOk, Bool.and_eq_true] at hs
    simp only [itemsTail, List.append_assoc, List.cons_append, List.nil_append]
    rw [parseItems_more g _ acc _ x (hPV g (by omega) x lvl _ hd.1 hs.1 (sepOk_comma _) (by omega))]
    rw [skipWs_nl, skipWs_ws_append _ _ (wsOnly_indentOf lvl), skipWs_aText]
    rw [ih y g (acc ++ [x]) ws rest (by omega) hd.2 hs.2 hws (by omega)]
    simp

theorem parseMembers_ok (n lvl F : Nat) (hPV : PVbelow n F) (kvs : List (Text × J)) :
    ∀ (kv : Text × J) (fuel : Nat) (acc : List (Text × J)) (seen : List Text) (ws rest : Text),
    fuel ≤ F → membersDistinct (kv :: kvs) seen = true → membersStringsOk (kv :: kvs) = true →
    (∀ p ∈ acc, p.1 ∈ seen) → wsOnly ws → szMembers (kv :: kvs) ≤ fuel →
    parseMembers fuel (memberText n lvl kv ++ (membersTail n lvl kvs ++ 10 :: (ws ++ 125 :: rest))) acc
      = .ok (.obj (acc ++ kv :: kvs)) rest := by
  induction kvs with
  | nil =>
    intro ⟨k, v⟩ fuel acc seen ws rest hF hd hs hacc hws hsz
    simp only [szMembers] at hsz
    obtain ⟨g, rfl⟩ : ∃ g, fuel = g + 1 := ⟨fuel - 1, by omega⟩
    simp only [membersDistinct, membersStringsOk, Bool.and_true, Bool.and_eq_true, Bool.not_eq_true',
      List.contains_eq_mem, decide_eq_false_iff_not] at hd hs
    simp only [membersTail, memberText, List.nil_append, List.append_assoc, List.cons_append]
    rw [parseMembers_last g k _ _ acc ws rest v hs.1 (wsOnly_alignGap _ _ _ _) (skipWs_aText _ _ _ _) hws
      (hPV g (by omega) v lvl _ hd.2 hs.2 (sepOk_nl _) (by omega))]
    rw [objSet_fresh acc k v (fun p hp he => hd.1 (he ▸ hacc p hp))]
  | cons kv2 r ih =>
    intro ⟨k, v⟩ fuel acc seen ws rest hF hd hs hacc hws hsz
    rw [szMembers] at hsz
    obtain ⟨g, rfl⟩ : ∃ g, fuel = g + 1 := ⟨fuel - 1, by omega⟩
    rw [membersDistinct] at hd
    rw [membersStringsOk] at hs
    simp only [Bool.and_eq_true, Bool.not_eq_true', List.contains_eq_mem, decide_eq_false_iff_not] at hd hs
    simp only [membersTail, memberText, List.nil_append, List.append_assoc, List.cons_append]
    rw [parseMembers_more g k _ _ acc _ v hs.1.1 (wsOnly_alignGap _ _ _ _) (skipWs_aText _ _ _ _)
      (hPV g (by omega) v lvl _ hd.1.2 hs.1.2 (sepOk_comma _) (by omega))]
    rw [objSet_fresh acc k v (fun p hp he => hd.1.1 (he ▸ hacc p hp))]
    rw [skipWs_nl, skipWs_ws_append _ _ (wsOnly_indentOf lvl)]
    have hsk : ∀ X, skipWs (renderStr kv2.1 ++ X) = renderStr kv2.1 ++ X := by
      intro X
      simp only [renderStr, List.cons_append, List.nil_append]
      exact skipWs_nonws _ _ (by decide)
    rw [hsk]
    have := ih kv2 g (acc ++ [(k, v)]) (k :: seen) ws rest (by omega) hd.2 hs.2 (by
      intro p hp
      rcases List.mem_append.1 hp with hp | hp
      · exact List.mem_cons_of_mem _ (hacc p hp)
      · rw [List.mem_singleton.1 hp]; exact List.mem_cons_self ..) hws (by omega)
    simp only [memberText, List.append_assoc, List.cons_append, List.nil_append] at this
    rw [this]

/-! ### values -/

theorem parseValue_aText_below (n : Nat) : ∀ F, PVbelow n F := by
  intro F
  induction F with
  | zero => intro fuel h; omega
  | succ F ih =>
    intro fuel hfuel d lvl rest hd hs hr hsz
    by_cases hlt : fuel < F
    · exact ih fuel hlt d lvl rest hd hs hr hsz
    · have hF : fuel = F := by omega
      subst hF
      have hpos := d.sz_pos
      obtain ⟨f, rfl⟩ : ∃ f, fuel = f + 1 := ⟨fuel - 1, by omega⟩
      cases d with
      | null => rw [aText]; exact parseValue_null f rest
      | bool b =>
        cases b
        · rw [aText]; exact parseValue_false f rest
        · rw [aText]; exact parseValue_true f rest
      | num k => rw [aText]; exact parseValue_num f k rest hr
      | str t =>
        rw [aText]
        rw [J.stringsOk] at hs
        exact parseValue_str f t rest hs
      | arr l =>
        cases l with
        | nil => rw [aText]; exact parseValue_emptyArr f rest
        | cons x xs =>
          rw [J.keysDistinct] at hd
          rw [J.stringsOk] at hs
          rw [J.sz] at hsz
          simp only [aText, aItems_cons, List.append_assoc, List.cons_append, List.nil_append]
          rw [parseValue_arr f n x (lvl + 1) _ _ (wsOnly_indentOf _)]
          exact parseItems_ok n (lvl + 1) (f + 1) ih xs x f [] (indentOf lvl) rest (by omega) hd hs
            (wsOnly_indentOf _) (by omega)
      | obj l =>
        cases l with
        | nil => rw [aText]; exact parseValue_emptyObj f rest
        | cons kv kvs =>
          rw [J.keysDistinct] at hd
          rw [J.stringsOk] at hs
          rw [J.sz] at hsz
          simp only [aText, aMembers_cons, List.append_assoc, List.cons_append, List.nil_append]
          have h := parseMembers_ok n (lvl + 1) (f + 1) ih kvs kv f [] [] (indentOf lvl) rest (by omega) hd hs
            (by intro p hp; cases hp) (wsOnly_indentOf _) (by omega)
          simp only [memberText, List.append_assoc, List.cons_append, List.nil_append] at h ⊢
          rw [parseValue_obj f _ _ _ (wsOnly_indentOf _)]
          exact h

/-- a printed well-formed value, followed by a separator, parses back to the value -/
theorem parseValue_aText (n : Nat) (d : J) (lvl fuel : Nat) (rest : Text) (h : d.wf = true)
    (hr : sepOk rest) (hf : d.sz ≤ fuel) : parseValue fuel (aText n d lvl ++ rest) = .ok d rest := by
  rw [J.wf, Bool.and_eq_true] at h
  exact parseValue_aText_below n (fuel + 1) fuel (Nat.lt_succ_self _) d lvl rest h.1 h.2 hr hf

/-- ★ the printed text parses back to exactly the document -/
theorem loads_aText (n : Nat) (d : J) (h : d.wf = true) : loads (aText n d 0) = .ok d := by
  have h1 : skipWs (aText n d 0) = aText n d 0 ++ [] := by
    have := skipWs_aText n d 0 []
    rw [List.append_nil] at this ⊢
    exact this
  have h2 := sz_le_aText n d 0
  unfold loads
  rw [h1, parseValue_aText n d 0 _ [] h sepOk_nil (by omega)]
  rfl

theorem joinWith_aText (n : Nat) (xs : List J) : ∀ x : J,
    joinWith [44, 10] ((x :: xs).map (fun d => aText n d 0)) = aText n x 0 ++ itemsTail n 0 xs := by
  induction xs with
  | nil => intro x; simp [joinWith, itemsTail]
  | cons y r ih =>
    intro x
    have := ih y
    simp only [List.map_cons] at this ⊢
    simp only [joinWith, itemsTail, this, indentOf, spaces, List.replicate, List.append_assoc, List.nil_append]

theorem allDistinct_of (l : List J) (h : ∀ d ∈ l, d.wf = true) : allDistinct l = true := by
  induction l with
  | nil => rfl
  | cons x r ih =>
    have hx := h x (List.mem_cons_self ..)
    rw [J.wf, Bool.and_eq_true] at hx
    rw [allDistinct, hx.1, ih (fun d hd => h d (List.mem_cons_of_mem _ hd))]
    rfl

theorem allStringsOk_of (l : List J) (h : ∀ d ∈ l, d.wf = true) : allStringsOk l = true := by
  induction l with
  | nil => rfl
  | cons x r ih =>
    have hx := h x (List.mem_cons_self ..)
    rw [J.wf, Bool.and_eq_true] at hx
    rw [allStringsOk, hx.2, ih (fun d hd => h d (List.mem_cons_of_mem _ hd))]
    rfl

/-- ★ the `-a` framing of printed documents parses back to the list of the documents -/
theorem loads_listFraming (n : Nat) (ds : List J) (h : ∀ d ∈ ds, d.wf = true) :
    loads (listFraming (ds.map (fun d => aText n d 0))) = .ok (.arr ds) := by
  cases ds with
  | nil => simp [listFraming, loads, parseValue, skipWs, isJsonWs]
  | cons x xs =>
    have hsz := sz_le_aItems n (x :: xs) 0
    rw [aItems_cons] at hsz
    have hi0 : indentOf 0 = [] := rfl
    rw [hi0, List.nil_append] at hsz
    have hlf : listFraming ((x :: xs).map (fun d => aText n d 0))
        = 91 :: 10 :: ([] ++ (aText n x 0 ++ (itemsTail n 0 xs ++ 10 :: ([] ++ 93 :: [10])))) := by
      have hj := joinWith_aText n xs x
      rw [List.map_cons] at hj
      simp only [List.map_cons, listFraming, hj, List.append_assoc, List.cons_append, List.nil_append]
    unfold loads
    rw [hlf, skipWs_nonws 91 _ (by decide), parseValue_arr _ n x 0 [] _ wsOnly_nil]
    rw [parseItems_ok n 0 _ (parseValue_aText_below n _) xs x _ [] [] [10] (Nat.le_refl _)
      (allDistinct_of _ h) (allStringsOk_of _ h) wsOnly_nil (by
        simp only [List.length_append, List.length_cons, List.length_nil] at hsz ⊢
        omega)]
    rfl

end Pel
