import PelModel.Hlog
import PelProofs.Basic
import PelProofs.HexDumpParse
/- Helper lemmas for C16 (history-log rendering). -/
namespace Pel

/-! ### size of a big-endian value -/

theorem foldl_BE_lt (bs : Bytes) (h : ∀ x ∈ bs, x < 256) : ∀ (acc k : Nat), acc < 256 ^ k →
    bs.foldl (fun a b => a * 256 + b) acc < 256 ^ (k + bs.length) := by
  induction bs with
  | nil => intro acc k hacc; simpa using hacc
  | cons x xs ih =>
    intro acc k hacc
    simp only [List.foldl_cons, List.length_cons]
    have hx : x < 256 := h x (by simp)
    have hstep : acc * 256 + x < 256 ^ (k + 1) := by
      rw [Nat.pow_succ]; omega
    have := ih (fun y hy => h y (by simp [hy])) (acc * 256 + x) (k + 1) hstep
    rw [show k + (xs.length + 1) = k + 1 + xs.length by omega]
    exact this

theorem fromBE_lt (bs : Bytes) (h : ∀ x ∈ bs, x < 256) : fromBE bs < 256 ^ bs.length := by
  have := foldl_BE_lt bs h 0 0 (by simp)
  simpa [fromBE] using this

theorem pow256_eq (n : Nat) : 256 ^ n = 16 ^ (2 * n) := by
  rw [Nat.pow_mul]

theorem fromBE_lt_16 (size : Nat) (bs : Bytes) (hlen : bs.length = size) (h : ∀ x ∈ bs, x < 256) :
    fromBE bs < 16 ^ (2 * size) := by
  rw [← pow256_eq, ← hlen]; exact fromBE_lt bs h

theorem fromBE_nil : fromBE [] = 0 := rfl

/-- a non-zero field value is shown with exactly `2·size` digits -/
theorem fmtHex_field (size : Nat) (bs : Bytes) (hlen : bs.length = size) (hb : ∀ x ∈ bs, x < 256)
    (hv : fromBE bs ≠ 0) : fmtHex (size * 2) (fromBE bs) = hexFix (2 * size) (fromBE bs) := by
  have hpos : 0 < size := by
    cases size with
    | zero =>
      have : bs = [] := List.eq_nil_of_length_eq_zero hlen
      subst this; exact absurd fromBE_nil hv
    | succ n => omega
  rw [Nat.mul_comm size 2]
  exact fmtHex_eq_hexFix (2 * size) (fromBE bs) (fromBE_lt_16 size bs hlen hb) (by omega)

/-! ### the field loop is the declarative rule -/

/-- the line (if any) the declarative rule produces for the field at offset `o` -/
def specLine (b : Bytes) : Nat × HlogField → Option Text := fun (o, f) =>
  let v := fromBE ((b.drop o).take f.2)
  if v ≠ 0 then some (f.1 ++ s ": 0x" ++ hexFix (2 * f.2) v) else none

def specFits (b : Bytes) : Nat × HlogField → Bool := fun (o, f) => o + f.2 ≤ b.length

theorem specHlogFields_eq (fields : List HlogField) (b : Bytes) :
    specHlogFields fields b = ((fieldOffsets 0 fields).takeWhile (specFits b)).filterMap (specLine b) := rfl

theorem mem_take_drop_lt (b : Bytes) (hb : ∀ x ∈ b, x < 256) (o n : Nat) :
    ∀ x ∈ (b.drop o).take n, x < 256 := by
  intro x hx
  exact hb x (List.mem_of_mem_drop (List.mem_of_mem_take hx))

theorem hlogFields_spec_aux (b : Bytes) (hb : ∀ x ∈ b, x < 256) : ∀ (fields : List HlogField) (o : Nat),
    o ≤ b.length →
    hlogFields fields (b.drop o) =
      ((fieldOffsets o fields).takeWhile (specFits b)).filterMap (specLine b) := by
  intro fields
  induction fields with
  | nil => intro o _; simp [hlogFields, fieldOffsets]
  | cons f fs ih =>
    intro o ho
    obtain ⟨name, size⟩ := f
    simp only [hlogFields, fieldOffsets, List.takeWhile_cons, List.length_drop]
    by_cases hfit : size ≤ b.length - o
    · have hfit' : specFits b (o, (name, size)) = true := by
        simp only [specFits, decide_eq_true_eq]; omega
      rw [if_pos hfit, if_pos hfit', List.filterMap_cons, List.drop_drop]
      rw [ih (o + size) (by omega)]
      have hlen : ((b.drop o).take size).length = size := by
        simp only [List.length_take, List.length_drop]; omega
      by_cases hv : fromBE ((b.drop o).take size) = 0
      · have hs : specLine b (o, (name, size)) = none := by
          simp only [specLine, hv]; simp
        rw [hs]; simp [hv]
      · have hs : specLine b (o, (name, size)) =
            some (name ++ s ": 0x" ++ hexFix (2 * size) (fromBE ((b.drop o).take size))) := by
          simp only [specLine]; simp [hv]
        rw [hs]
        simp only [ne_eq, hv, not_false_eq_true, if_true, hlogFieldLine]
        rw [fmtHex_field size _ hlen (mem_take_drop_lt b hb o size) hv]
        rfl
    · have hfit' : ¬ (specFits b (o, (name, size)) = true) := by
        simp only [specFits, decide_eq_true_eq]; omega
      rw [if_neg hfit, if_neg hfit']
      rfl

theorem hlogFields_eq_spec (fields : List HlogField) (b : Bytes) (hb : ∀ x ∈ b, x < 256) :
    hlogFields fields b = specHlogFields fields b := by
  rw [specHlogFields_eq]
  have := hlogFields_spec_aux b hb fields 0 (Nat.zero_le _)
  simpa using this

/-! ### layout of `parseHlog` -/

theorem parseHlog_eq (fields : List HlogField) (b : Bytes) :
    parseHlog fields b = s "Hex Dump" :: s "--------" :: (hexdump16 b ++
      ([[], s "Non-Zero Field Values", s "---------------------"] ++ hlogFields fields b)) := by
  simp [parseHlog]

theorem hexdump16_length (b : Bytes) : (hexdump16 b).length = ceilDiv b.length 16 := by
  unfold hexdump16 hexdump ceilDiv
  exact hexdumpFrom_length 16 4 (by omega) b.length b 0 (Nat.le_refl _)

theorem parseDump_hexdump16 (b : Bytes) (hb : ∀ x ∈ b, x < 256) (hlen : b.length ≤ 2 ^ 32) :
    parseDump fmtDefault (hexdump16 b) = b := by
  unfold hexdump16 hexdump
  have : (16:Nat) ^ 8 = 2 ^ 32 := by decide
  exact parseDump_hexdumpFrom b.length b 0 (Nat.le_refl _) hb (by intro; omega)

end Pel
