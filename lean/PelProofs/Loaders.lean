import PelProofs.Regex
import PelProofs.JsonParse
import PelModel.Loaders
/-
  Lemmas for the loader round trips (C14 / C15 / C16):
    * the seven patterns in explicit form, `fullmatch` of an entry / field / string line IN ANY LAYOUT (arbitrary blank
      runs where the pattern has `\s*`) yields exactly the intended groups; the message group `((?:[^"]|\\")*)` needs
      backtracking into the alternation (`msg_star`) and the string line backtracking of the greedy `(.*)` (`star_chr_back`);
    * entry lines do not match the start / end patterns;
    * `strip` / unescape / parameter / number post-processing undoes the printers;
    * the line loops on printed files, lines outside the table, non-matching lines.
-/
namespace Pel

def AllSp (w : Text) : Prop := ∀ x ∈ w, isPySpace x = true

abbrev rWs : Re := .star (.chr .space)
abbrev rL (x : Nat) : Re := .chr (.lit x)
/-- `(?:[^"]|\\")` -/
abbrev msgBody : Re := .alt (.chr (.notLit 34)) (.seq (.chr (.lit 92)) (.chr (.lit 34)))

theorem tblEntryRe_eq : tblEntryRe = Re.cat [
  rWs, rL 123, rWs, rL 34, .grp 1 (Re.plus (.chr (.notLit 34))), rL 34, rWs, rL 44, rWs,
  rL 34, .grp 2 (.star msgBody), rL 34, rWs, rL 44, rWs,
  rL 123, .grp 3 (.star (.chr (.notLit 125))), rL 125, rWs, rL 44, rWs,
  rL 34, .grp 4 (.star (.chr (.notLit 34))), rL 34, rWs, rL 44, rWs,
  .grp 5 (Re.plus (.chr .digit)), rWs, rL 125, rWs, rL 44, rWs] := by rfl

theorem isPySpace_not_digit (z : Nat) (h : isPySpace z = true) : CSet.test .digit z = false := by
  simp only [isPySpace, Bool.or_eq_true, beq_iff_eq, Bool.and_eq_true, decide_eq_true_eq] at h
  simp only [CSet.test, Bool.and_eq_false_iff, decide_eq_false_iff_not]
  omega

theorem digit_not_space (d : Nat) (h : 48 ≤ d ∧ d ≤ 57) : CSet.test .space d = false := by
  cases hs : isPySpace d with
  | false => exact hs
  | true => have := isPySpace_not_digit d hs; simp [CSet.test] at this; omega

theorem body_quote (r : Text) (c : Caps) (K : Kont) : msgBody.m (34 :: r) c K = none := by
  simp [Re.m, CSet.test]

theorem body_ok (x : Nat) (r : Text) (c : Caps) (K : Kont) (y : Caps) (hx : x ≠ 34) (h : K r c = some y) :
    msgBody.m (x :: r) c K = some y := by
  simp [Re.m, CSet.test, hx, h]

theorem body_esc (r : Text) (c : Caps) (K : Kont) (h : K (34 :: r) c = none) :
    msgBody.m (92 :: 34 :: r) c K = K r c := by
  simp [Re.m, CSet.test, h]

theorem msg_star_stop (r : Text) (c : Caps) (K : Kont) : (Re.star msgBody).m (34 :: r) c K = K (34 :: r) c := by
  rw [Re.m_star, body_quote]

theorem escapeQuote_cons (x : Nat) (m : Text) :
    escapeQuote (x :: m) = (if x = 34 then [92, 34] else [x]) ++ escapeQuote m := by
  simp [escapeQuote, List.flatMap_cons]

theorem quoteTailsOk_cons (x : Nat) (m : Text) (h : quoteTailsOk (x :: m) = true) :
    (x = 34 → looksLikeParams m = false) ∧ quoteTailsOk m = true := by
  simp only [quoteTailsOk, Bool.and_eq_true, Bool.or_eq_true, bne_iff_ne, ne_eq, Bool.not_eq_true'] at h
  refine ⟨fun e => ?_, h.2⟩
  rcases h.1 with h1 | h1
  · exact absurd e h1
  · exact h1

theorem msg_star (K : Kont) (tail : Text) (c res : Caps)
    (hfail : ∀ m', looksLikeParams m' = false → K (34 :: (escapeQuote m' ++ 34 :: tail)) c = none)
    (hK : K (34 :: tail) c = some res) :
    ∀ msg, quoteTailsOk msg = true → (Re.star msgBody).m (escapeQuote msg ++ 34 :: tail) c K = some res := by
  intro msg
  induction msg with
  | nil =>
    intro _
    show (Re.star msgBody).m (34 :: tail) c K = some res
    rw [msg_star_stop, hK]
  | cons x m ih =>
    intro hq
    obtain ⟨hq1, hq2⟩ := quoteTailsOk_cons x m hq
    have ih' := ih hq2
    rw [escapeQuote_cons]
    by_cases hx : x = 34
    · subst hx
      simp only [if_true, List.cons_append, List.nil_append]
      rw [Re.m_star, body_esc]
      · simp only [List.length_cons, List.length_append]
        rw [if_pos (by omega), ih']
      · simp only [List.length_cons, List.length_append]
        rw [if_pos (by omega), msg_star_stop]
        exact hfail m (hq1 rfl)
    · simp only [if_neg hx, List.cons_append, List.nil_append]
      rw [Re.m_star, body_ok x _ c _ res hx]
      simp only [List.length_cons, List.length_append]
      rw [if_pos (by omega), ih']

theorem test_space (x : Nat) : CSet.test .space x = isPySpace x := rfl

theorem dropWhile_escape (m tail : Text) :
    (escapeQuote m ++ 34 :: tail).dropWhile (CSet.test .space) = escapeQuote (lstripSp m) ++ 34 :: tail := by
  induction m with
  | nil =>
    show ((34 :: tail).dropWhile (CSet.test .space)) = 34 :: tail
    rw [List.dropWhile_cons_of_neg (by decide)]
  | cons x m ih =>
    by_cases hs : isPySpace x = true
    · have hx : x ≠ 34 := by intro e; subst e; revert hs; decide
      rw [escapeQuote_cons, if_neg hx]
      simp only [List.cons_append, List.nil_append]
      rw [List.dropWhile_cons_of_pos (by rw [test_space]; exact hs), ih]
      simp [lstripSp, hs]
    · have e : lstripSp (x :: m) = x :: m := by simp [lstripSp, hs]
      rw [e, escapeQuote_cons]
      by_cases hx : x = 34
      · subst hx; simp only [if_true, List.cons_append, List.nil_append]
        rw [List.dropWhile_cons_of_neg (by decide)]
      · simp only [if_neg hx, List.cons_append, List.nil_append]
        rw [List.dropWhile_cons_of_neg (by rw [test_space]; exact hs)]

/-- behind a quote that is not followed by `\s*,\s*{` the rest of the entry pattern cannot match -/
theorem afterQuote_fail (rest : List Re) (m' tail : Text) (c : Caps) (k : Kont) (h : looksLikeParams m' = false) :
    (Re.cat (rL 34 :: rWs :: rL 44 :: rWs :: rL 123 :: rest)).m (34 :: (escapeQuote m' ++ 34 :: tail)) c k = none := by
  rw [step_lit, det_star_lit .space 44 _ _ _ _ (by decide), dropWhile_escape]
  unfold looksLikeParams at h
  cases hl : lstripSp m' with
  | nil => exact fail_lit _ _ _ _ _ _ (by decide)
  | cons y r =>
    rw [hl] at h
    simp only [Bool.and_eq_false_iff, beq_eq_false_iff_ne, ne_eq] at h
    rw [escapeQuote_cons]
    by_cases hy : y = 44
    · subst hy
      simp only [show ¬ (44 = 34) by decide, if_false, List.cons_append, List.nil_append]
      rw [step_lit, det_star_lit .space 123 _ _ _ _ (by decide), dropWhile_escape]
      rcases h with h | h
      · exact absurd rfl h
      · cases hl2 : lstripSp r with
        | nil => exact fail_lit _ _ _ _ _ _ (by decide)
        | cons z r' =>
          rw [hl2] at h
          simp only [beq_eq_false_iff_ne, ne_eq] at h
          rw [escapeQuote_cons]
          by_cases hz : z = 34
          · subst hz; simp only [if_true, List.cons_append, List.nil_append]
            exact fail_lit _ _ _ _ _ _ (by decide)
          · simp only [if_neg hz, List.cons_append, List.nil_append]
            exact fail_lit _ _ _ _ _ _ h
    · by_cases hq : y = 34
      · subst hq; simp only [if_true, List.cons_append, List.nil_append]
        exact fail_lit _ _ _ _ _ _ (by decide)
      · simp only [if_neg hq, List.cons_append, List.nil_append]
        exact fail_lit _ _ _ _ _ _ hy

theorem step_grp_msg (rest : List Re) (msg tail : Text) (c : Caps) (k : Kont) (res : Caps)
    (hq : quoteTailsOk msg = true)
    (hfail : ∀ m' c', looksLikeParams m' = false → (Re.cat rest).m (34 :: (escapeQuote m' ++ 34 :: tail)) c' k = none)
    (h : (Re.cat rest).m (34 :: tail) ((2, escapeQuote msg) :: c) k = some res) :
    (Re.cat (.grp 2 (.star msgBody) :: rest)).m (escapeQuote msg ++ 34 :: tail) c k = some res := by
  rw [cat_cons]
  simp only [Re.m]
  apply msg_star _ tail c res _ _ msg hq
  · intro m' hm'; exact hfail m' _ hm'
  · simp only [take_len_sub (escapeQuote msg ++ 34 :: tail) (escapeQuote msg) (34 :: tail) rfl]
    exact h

/-- any layout of an entry line: arbitrary blank runs `w0 … w12` at the thirteen `\s*` of the pattern -/
def entryLine (w0 w1 w2 w3 w4 w5 w6 w7 w8 w9 w10 w11 w12 : Text) (p : Nat) (pat E P F : Text) (d : Nat) (ds : Text) : Text :=
  w0 ++ (123 :: (w1 ++ (34 :: (p :: (pat ++ (34 :: (w2 ++ (44 :: (w3 ++ (34 :: (E ++ (34 :: (w4 ++ (44 :: (w5 ++ (123 :: (P ++ (125 :: (w6 ++ (44 :: (w7 ++ (34 :: (F ++ (34 :: (w8 ++ (44 :: (w9 ++ (d :: (ds ++ (w10 ++ (125 :: (w11 ++ (44 :: (w12 ++ []))))))))))))))))))))))))))))))))))

theorem tblEntry_fullmatch (w0 w1 w2 w3 w4 w5 w6 w7 w8 w9 w10 w11 w12 : Text)
    (h0 : AllSp w0) (h1 : AllSp w1) (h2 : AllSp w2) (h3 : AllSp w3) (h4 : AllSp w4) (h5 : AllSp w5) (h6 : AllSp w6)
    (h7 : AllSp w7) (h8 : AllSp w8) (h9 : AllSp w9) (h10 : AllSp w10) (h11 : AllSp w11) (h12 : AllSp w12)
    (p : Nat) (pat msg P F : Text) (d : Nat) (ds : Text)
    (hp : p ≠ 34) (hpat : ∀ x ∈ pat, x ≠ 34) (hmsg : quoteTailsOk msg = true) (hP : ∀ x ∈ P, x ≠ 125)
    (hF : ∀ x ∈ F, x ≠ 34) (hd : 48 ≤ d ∧ d ≤ 57) (hds : ∀ x ∈ ds, 48 ≤ x ∧ x ≤ 57) :
    tblEntryRe.fullmatch (entryLine w0 w1 w2 w3 w4 w5 w6 w7 w8 w9 w10 w11 w12 p pat (escapeQuote msg) P F d ds)
      = some [(5, d :: ds), (4, F), (3, P), (2, escapeQuote msg), (1, p :: pat)] := by
  rw [tblEntryRe_eq]
  unfold Re.fullmatch entryLine
  have notq : ∀ (l : Text), (∀ x ∈ l, x ≠ 34) → ∀ x ∈ l, CSet.test (.notLit 34) x = true := by
    intro l hl x hx; simp [CSet.test, hl x hx]
  have dig : ∀ x, 48 ≤ x ∧ x ≤ 57 → CSet.test .digit x = true := by
    intro x hx; simp [CSet.test, hx.1, hx.2]
  apply step_star .space _ w0 _ _ _ _ h0 (StopsAt.cons _ (by decide))
  rw [step_lit]
  apply step_star .space _ w1 _ _ _ _ h1 (StopsAt.cons _ (by decide))
  rw [step_lit]
  apply step_grp_plus 1 (.notLit 34) _ p pat _ _ _ _ (by simp [CSet.test, hp]) (notq pat hpat) (StopsAt.cons _ (by decide))
  rw [step_lit]
  apply step_star .space _ w2 _ _ _ _ h2 (StopsAt.cons _ (by decide))
  rw [step_lit]
  apply step_star .space _ w3 _ _ _ _ h3 (StopsAt.cons _ (by decide))
  rw [step_lit]
  apply step_grp_msg _ msg _ _ _ _ hmsg
  · intro m' c' hm'; exact afterQuote_fail _ m' _ c' _ hm'
  rw [step_lit]
  apply step_star .space _ w4 _ _ _ _ h4 (StopsAt.cons _ (by decide))
  rw [step_lit]
  apply step_star .space _ w5 _ _ _ _ h5 (StopsAt.cons _ (by decide))
  rw [step_lit]
  apply step_grp_star 3 (.notLit 125) _ P _ _ _ _ (by intro x hx; simp [CSet.test, hP x hx]) (StopsAt.cons _ (by decide))
  rw [step_lit]
  apply step_star .space _ w6 _ _ _ _ h6 (StopsAt.cons _ (by decide))
  rw [step_lit]
  apply step_star .space _ w7 _ _ _ _ h7 (StopsAt.cons _ (by decide))
  rw [step_lit]
  apply step_grp_star 4 (.notLit 34) _ F _ _ _ _ (notq F hF) (StopsAt.cons _ (by decide))
  rw [step_lit]
  apply step_star .space _ w8 _ _ _ _ h8 (StopsAt.cons _ (by decide))
  rw [step_lit]
  apply step_star .space _ w9 _ _ _ _ h9 (StopsAt.cons _ (digit_not_space d hd))
  apply step_grp_plus 5 .digit _ d ds _ _ _ _ (dig d hd) (fun x hx => dig x (hds x hx))
    (StopsAt.append (fun z hz => isPySpace_not_digit z (h10 z hz)) (StopsAt.cons _ (by decide)))
  apply step_star .space _ w10 _ _ _ _ h10 (StopsAt.cons _ (by decide))
  rw [step_lit]
  apply step_star .space _ w11 _ _ _ _ h11 (StopsAt.cons _ (by decide))
  rw [step_lit]
  apply step_star .space _ w12 _ _ _ _ h12 (StopsAt.nil _)
  rfl

/-! ### string-file lines -/

theorem traceLineRe_eq : traceLineRe = Re.cat [
  rWs, .grp 1 (Re.plus (.chr .digit)), rWs, rL 124, rL 124, .grp 2 (.star (.chr .dot)),
  rL 124, rL 124, .grp 3 (.star (.chr .dot)), .opt (rL 10)] := by rfl

theorem noBarBar_tail (x : Nat) (t : Text) (h : noBarBar (x :: t) = true) : noBarBar t = true := by
  cases t with
  | nil => rfl
  | cons y r => simp only [noBarBar, Bool.and_eq_true] at h; exact h.2

theorem noBarBar_suffix (t : Text) : ∀ (pre s : Text), t = pre ++ s → noBarBar t = true → noBarBar s = true := by
  intro pre
  induction pre generalizing t with
  | nil => intro s e h; rw [e] at h; exact h
  | cons x pre ih =>
    intro s e h
    rw [e] at h
    exact ih (pre ++ s) s rfl (noBarBar_tail x _ h)

theorem noBarBar_snoc (t : Text) (z : Nat) (hz : z ≠ 124) (h : noBarBar t = true) : noBarBar (t ++ [z]) = true := by
  induction t with
  | nil => rfl
  | cons x t ih =>
    cases t with
    | nil => simp [noBarBar, hz]
    | cons y r =>
      simp only [noBarBar, Bool.and_eq_true] at h
      simp only [List.cons_append, noBarBar, Bool.and_eq_true]
      exact ⟨h.1, ih h.2⟩

/-- any layout of a string-file line: blanks around the hash, then `||` format `||` location and an optional newline -/
theorem traceLine_fullmatch (w0 w1 : Text) (h0 : AllSp w0) (h1 : AllSp w1) (d : Nat) (ds fmt loc nl : Text)
    (hd : 48 ≤ d ∧ d ≤ 57) (hds : ∀ x ∈ ds, 48 ≤ x ∧ x ≤ 57) (hfmt : ∀ x ∈ fmt, x ≠ 10) (hloc : ∀ x ∈ loc, x ≠ 10)
    (hbar : noBarBar (124 :: loc) = true) (hnl : nl = [10] ∨ nl = []) :
    traceLineRe.fullmatch (w0 ++ (d :: (ds ++ (w1 ++ (124 :: 124 :: (fmt ++ (124 :: 124 :: (loc ++ nl))))))))
      = some [(3, loc), (2, fmt), (1, d :: ds)] := by
  rw [traceLineRe_eq]
  unfold Re.fullmatch
  have dig : ∀ x, 48 ≤ x ∧ x ≤ 57 → CSet.test .digit x = true := by
    intro x hx; simp [CSet.test, hx.1, hx.2]
  have dot : ∀ (l : Text), (∀ x ∈ l, x ≠ 10) → ∀ x ∈ l, CSet.test .dot x = true := by
    intro l hl x hx; simp [CSet.test, hl x hx]
  apply step_star .space _ w0 _ _ _ _ h0 (StopsAt.cons _ (digit_not_space d hd))
  apply step_grp_plus 1 .digit _ d ds _ _ _ _ (dig d hd) (fun x hx => dig x (hds x hx))
    (StopsAt.append (fun z hz => isPySpace_not_digit z (h1 z hz)) (StopsAt.cons _ (by decide)))
  apply step_star .space _ w1 _ _ _ _ h1 (StopsAt.cons _ (by decide))
  rw [step_lit, step_lit]
  apply step_grp_star_back 2 .dot _ fmt _ _ _ _ (dot fmt hfmt)
  · -- every longer split leaves a suffix of `|` location newline, which does not begin with `||`
    intro b1 b2 e hne hall c'
    cases b1 with
    | nil => exact absurd rfl hne
    | cons y b1 =>
      simp only [List.cons_append, List.cons.injEq] at e
      obtain ⟨_, e⟩ := e
      have hs : noBarBar b2 = true := by
        have hx : noBarBar (124 :: (loc ++ nl)) = true := by
          rcases hnl with h | h <;> subst h
          · exact noBarBar_snoc (124 :: loc) 10 (by decide) hbar
          · simpa using hbar
        exact noBarBar_suffix _ b1 b2 e hx
      cases b2 with
      | nil => exact fail_lit_nil _ _ _ _
      | cons u b2 =>
        by_cases hu : u = 124
        · subst hu
          rw [step_lit]
          cases b2 with
          | nil => exact fail_lit_nil _ _ _ _
          | cons v b2 =>
            apply fail_lit
            intro hv; subst hv
            simp [noBarBar] at hs
        · exact fail_lit _ _ _ _ _ _ hu
  rw [step_lit, step_lit]
  rcases hnl with h | h <;> subst h
  · apply step_grp_star 3 .dot _ loc _ _ _ _ (dot loc hloc) (StopsAt.cons _ (by decide))
    apply step_opt_lit_some
    rfl
  · apply step_grp_star 3 .dot _ loc _ _ _ _ (dot loc hloc) (StopsAt.nil _)
    rw [step_opt_none]
    · rfl
    · rfl

/-! ### history-log field lines -/

theorem hlogFieldRe_eq : hlogFieldRe = Re.cat [
  rWs, rL 123, rWs, .grp 1 (.chr (.oneOf [49, 50])), rWs, rL 44, rWs,
  rL 34, .grp 2 (Re.plus (.chr (.notLit 34))), rL 34, rWs, rL 125, rWs, .opt (rL 44), rWs] := by
  rfl

theorem hlogField_fullmatch (w0 w1 w2 w3 w4 w5 w6 : Text) (h0 : AllSp w0) (h1 : AllSp w1) (h2 : AllSp w2) (h3 : AllSp w3)
    (h4 : AllSp w4) (h5 : AllSp w5) (h6 : AllSp w6) (sz : Nat) (hsz : sz = 49 ∨ sz = 50) (n : Nat) (name : Text)
    (hn : n ≠ 34) (hname : ∀ x ∈ name, x ≠ 34) :
    hlogFieldRe.fullmatch (w0 ++ 123 :: (w1 ++ sz :: (w2 ++ 44 :: (w3 ++ 34 :: n :: (name ++ 34 :: (w4 ++ 125 :: (w5 ++ 44 :: (w6 ++ []))))))))
      = some [(2, n :: name), (1, [sz])] := by
  rw [hlogFieldRe_eq]
  unfold Re.fullmatch
  apply step_star .space _ w0 _ _ _ _ h0 (StopsAt.cons _ (by decide))
  rw [step_lit]
  apply step_star .space _ w1 _ _ _ _ h1 (StopsAt.cons _ (by rcases hsz with h | h <;> subst h <;> decide))
  rw [step_grp_chr _ _ _ _ _ _ _ (by rcases hsz with h | h <;> subst h <;> decide)]
  apply step_star .space _ w2 _ _ _ _ h2 (StopsAt.cons _ (by decide))
  rw [step_lit]
  apply step_star .space _ w3 _ _ _ _ h3 (StopsAt.cons _ (by decide))
  rw [step_lit]
  apply step_grp_plus _ _ _ _ _ _ _ _ _ (by simp [CSet.test, hn]) (by intro y hy; simp [CSet.test, hname y hy]) (StopsAt.cons _ (by decide))
  rw [step_lit]
  apply step_star .space _ w4 _ _ _ _ h4 (StopsAt.cons _ (by decide))
  rw [step_lit]
  apply step_star .space _ w5 _ _ _ _ h5 (StopsAt.cons _ (by decide))
  apply step_opt_lit_some
  apply step_star .space _ w6 _ _ _ _ h6 (StopsAt.nil _)
  rfl



/-! ### entry / field lines do not match the start and end patterns -/

theorem tblStartRe_eq : tblStartRe = Re.cat (
  [.opt (.grp 1 (Re.cat ([rWs, rL 115, rL 116, rL 97, rL 116, rL 105, rL 99, Re.plus (.chr .space)]))),
   rWs, rL 115] ++ (Re.lits "truct" ++ [Re.ws1] ++
  Re.lits "pte_entry_struct" ++ [Re.ws1] ++ Re.lits "static_pte_entry_table" ++
  [.star (.chr .dot), Re.c '=', Re.ws, .opt (Re.c '{'), Re.ws])) := by rfl

theorem hlogStartRe_eq : hlogStartRe = Re.cat (
  [.opt (.grp 1 (Re.cat ([rWs, rL 115, rL 116, rL 97, rL 116, rL 105, rL 99, Re.plus (.chr .space)]))),
   rWs, rL 115] ++ (Re.lits "truct" ++ [Re.ws1] ++
  Re.lits "mex_hlog_field" ++ [Re.ws1] ++ Re.lits "mex_hlog_fields" ++
  [.star (.chr .dot), Re.c '=', Re.ws, .opt (Re.c '{'), Re.ws])) := by rfl

/-- `(\s*static\s+)?\s*s…` cannot match a line whose first non-blank character is `{` -/
theorem startLike_fail (tailRe : List Re) (w0 tl : Text) (h0 : AllSp w0) :
    (Re.cat ([.opt (.grp 1 (Re.cat ([rWs, rL 115, rL 116, rL 97, rL 116, rL 105, rL 99, Re.plus (.chr .space)]))),
      rWs, rL 115] ++ tailRe)).fullmatch (w0 ++ 123 :: tl) = none := by
  unfold Re.fullmatch
  simp only [List.cons_append, List.nil_append]
  rw [step_opt_none]
  · rw [det_star_lit .space 115 _ _ _ _ (by decide), dropWhile_append_stop .space w0 _ h0 (StopsAt.cons _ (by decide))]
    exact fail_lit _ _ _ _ _ _ (by decide)
  · show (Re.cat _).m _ _ _ = none
    rw [det_star_lit .space 115 _ _ _ _ (by decide), dropWhile_append_stop .space w0 _ h0 (StopsAt.cons _ (by decide))]
    exact fail_lit _ _ _ _ _ _ (by decide)

theorem tblStart_fail_brace (w0 tl : Text) (h0 : AllSp w0) : tblStartRe.fullmatch (w0 ++ 123 :: tl) = none := by
  rw [tblStartRe_eq]; exact startLike_fail _ w0 tl h0

theorem hlogStart_fail_brace (w0 tl : Text) (h0 : AllSp w0) : hlogStartRe.fullmatch (w0 ++ 123 :: tl) = none := by
  rw [hlogStartRe_eq]; exact startLike_fail _ w0 tl h0

theorem tblEndRe_eq : tblEndRe = Re.cat ([rWs, rL 123, rWs, rL 34, rL 34] ++
  ([Re.ws, Re.c ',', Re.ws] ++ Re.lits "\"The End\"" ++ [.star (.chr .dot), Re.ws])) := by rfl

/-- `\s*\{\s*""…` cannot match an entry whose pattern string is not empty -/
theorem tblEnd_fail_entry (w0 w1 : Text) (p : Nat) (tl : Text) (h0 : AllSp w0) (h1 : AllSp w1) (hp : p ≠ 34) :
    tblEndRe.fullmatch (w0 ++ 123 :: (w1 ++ 34 :: p :: tl)) = none := by
  rw [tblEndRe_eq]
  unfold Re.fullmatch
  simp only [List.cons_append, List.nil_append]
  rw [det_star_lit .space 123 _ _ _ _ (by decide), dropWhile_append_stop .space w0 _ h0 (StopsAt.cons _ (by decide)), step_lit,
    det_star_lit .space 34 _ _ _ _ (by decide), dropWhile_append_stop .space w1 _ h1 (StopsAt.cons _ (by decide)), step_lit]
  exact fail_lit _ _ _ _ _ _ hp

theorem hlogEndRe_eq : hlogEndRe = Re.cat [rWs, rL 125, rWs, rL 59, rWs] := by rfl

theorem hlogEnd_fail_brace (w0 tl : Text) (h0 : AllSp w0) : hlogEndRe.fullmatch (w0 ++ 123 :: tl) = none := by
  rw [hlogEndRe_eq]
  unfold Re.fullmatch
  rw [det_star_lit .space 125 _ _ _ _ (by decide), dropWhile_append_stop .space w0 _ h0 (StopsAt.cons _ (by decide))]
  exact fail_lit _ _ _ _ _ _ (by decide)

/-! ### the fixed lines of the printed files -/

theorem pteStartLine_start : (tblStartRe.fullmatch pteStartLine).isSome = true := by decide +kernel
theorem openBrace_pte : tblStartRe.fullmatch openBraceLine = none ∧ tblEndRe.fullmatch openBraceLine = none ∧
    tblEntryRe.fullmatch openBraceLine = none := by decide +kernel
theorem pteEndLine_end : tblStartRe.fullmatch pteEndLine = none ∧ (tblEndRe.fullmatch pteEndLine).isSome = true := by decide +kernel
theorem closeBrace_pte : tblStartRe.fullmatch closeBraceLine = none := by decide +kernel
theorem hlogStartLine_start : (hlogStartRe.fullmatch hlogStartLine).isSome = true := by decide +kernel
theorem openBrace_hlog : hlogStartRe.fullmatch openBraceLine = none ∧ hlogEndRe.fullmatch openBraceLine = none ∧
    hlogFieldRe.fullmatch openBraceLine = none := by decide +kernel
theorem closeBrace_hlog : hlogStartRe.fullmatch closeBraceLine = none ∧ (hlogEndRe.fullmatch closeBraceLine).isSome = true := by decide +kernel



/-! ### post-processing undoes the printers -/

theorem escapeQuote_head_ne (m : Text) (b : Nat) (r : Text) (h : escapeQuote m = b :: r) : b ≠ 34 := by
  cases m with
  | nil => cases h
  | cons x m =>
    rw [escapeQuote_cons] at h
    by_cases hx : x = 34
    · subst hx; simp only [if_true, List.cons_append, List.nil_append, List.cons.injEq] at h
      omega
    · simp only [if_neg hx, List.cons_append, List.nil_append, List.cons.injEq] at h
      omega

theorem unescape_escape (m : Text) : unescapeQuote (escapeQuote m) = m := by
  induction m with
  | nil => rfl
  | cons x m ih =>
    rw [escapeQuote_cons]
    by_cases hx : x = 34
    · subst hx
      simp only [if_true, List.cons_append, List.nil_append, unescapeQuote, and_self, ih]
    · simp only [if_neg hx, List.cons_append, List.nil_append]
      cases he : escapeQuote m with
      | nil => rw [he] at ih; simp only [unescapeQuote] at ih ⊢; rw [← ih]
      | cons b r =>
        have hb := escapeQuote_head_ne m b r he
        rw [he] at ih
        simp only [unescapeQuote, hb, and_false, if_false, ih]

theorem lstripSp_escape (m : Text) : lstripSp (escapeQuote m) = escapeQuote (lstripSp m) := by
  induction m with
  | nil => rfl
  | cons x m ih =>
    by_cases hs : isPySpace x = true
    · have hx : x ≠ 34 := by intro e; subst e; revert hs; decide
      rw [escapeQuote_cons, if_neg hx]
      simp only [List.cons_append, List.nil_append, lstripSp]
      rw [List.dropWhile_cons_of_pos hs, List.dropWhile_cons_of_pos hs]
      exact ih
    · have e : lstripSp (x :: m) = x :: m := by simp [lstripSp, hs]
      rw [e, escapeQuote_cons]
      by_cases hx : x = 34
      · subst hx; simp only [if_true, List.cons_append, List.nil_append, lstripSp]
        rw [List.dropWhile_cons_of_neg (by decide)]
      · simp only [if_neg hx, List.cons_append, List.nil_append, lstripSp]
        rw [List.dropWhile_cons_of_neg hs]

theorem rstripSp_snoc (a : Text) (x : Nat) : rstripSp (a ++ [x]) = if isPySpace x = true then rstripSp a else a ++ [x] := by
  unfold rstripSp
  rw [List.reverse_append]
  simp only [List.reverse_cons, List.reverse_nil, List.nil_append, List.cons_append]
  by_cases hs : isPySpace x = true
  · rw [List.dropWhile_cons_of_pos hs, if_pos hs]
  · rw [List.dropWhile_cons_of_neg hs, if_neg hs]; simp

theorem escapeQuote_append (a b : Text) : escapeQuote (a ++ b) = escapeQuote a ++ escapeQuote b := by
  simp [escapeQuote, List.flatMap_append]

theorem rstripSp_escape_rev (r : Text) : rstripSp (escapeQuote r.reverse) = escapeQuote (rstripSp r.reverse) := by
  induction r with
  | nil => rfl
  | cons x r ih =>
    rw [List.reverse_cons, escapeQuote_append, rstripSp_snoc]
    by_cases hs : isPySpace x = true
    · have hx : x ≠ 34 := by intro e; subst e; revert hs; decide
      rw [if_pos hs]
      have : escapeQuote [x] = [x] := by simp [escapeQuote, hx]
      rw [this, rstripSp_snoc, if_pos hs, ih]
    · rw [if_neg hs, escapeQuote_append]
      by_cases hx : x = 34
      · subst hx
        have : escapeQuote [34] = [92] ++ [34] := by simp [escapeQuote]
        rw [this, ← List.append_assoc, rstripSp_snoc, if_neg (by decide)]
      · have : escapeQuote [x] = [x] := by simp [escapeQuote, hx]
        rw [this, rstripSp_snoc, if_neg hs]

theorem stripSp_escape (m : Text) : stripSp (escapeQuote m) = escapeQuote (stripSp m) := by
  unfold stripSp
  rw [lstripSp_escape]
  have := rstripSp_escape_rev (lstripSp m).reverse
  rwa [List.reverse_reverse] at this

/-- what `_add_entry` makes of a printed message: `strip()` then unescape gives the stripped message -/
theorem message_roundtrip (m : Text) : unescapeQuote (stripSp (escapeQuote m)) = stripSp m := by
  rw [stripSp_escape, unescape_escape]

theorem paramsOfText_cons (x : Nat) (t : Text) :
    paramsOfText (x :: t) = if 48 ≤ x ∧ x ≤ 57 then (x - 48) :: paramsOfText t else paramsOfText t := by
  unfold paramsOfText
  by_cases h : 48 ≤ x ∧ x ≤ 57
  · rw [List.filter_cons_of_pos (by simp [h.1, h.2]), if_pos h]; rfl
  · rw [List.filter_cons_of_neg (by simp; omega), if_neg h]

theorem paramsOfText_render (ps : List Nat) (h : ∀ p ∈ ps, p < 10) : paramsOfText (renderParams ps) = ps := by
  induction ps with
  | nil => rfl
  | cons p ps ih =>
    have hp := h p (List.mem_cons_self ..)
    have ih' := ih (fun q hq => h q (List.mem_cons_of_mem _ hq))
    cases ps with
    | nil =>
      simp only [renderParams]
      rw [paramsOfText_cons, if_pos (by omega)]
      show (48 + p - 48) :: [] = [p]
      congr 1; omega
    | cons q qs =>
      simp only [renderParams] at ih' ⊢
      rw [paramsOfText_cons, if_pos (by omega), paramsOfText_cons, if_neg (by omega), paramsOfText_cons, if_neg (by omega), ih']
      congr 1; omega

theorem renderParams_ascii (ps : List Nat) (h : ∀ p ∈ ps, p < 10) : ∀ x ∈ renderParams ps, x < 128 ∧ x ≠ 125 := by
  induction ps with
  | nil => intro x hx; cases hx
  | cons p ps ih =>
    have hp := h p (List.mem_cons_self ..)
    have ih' := ih (fun q hq => h q (List.mem_cons_of_mem _ hq))
    cases ps with
    | nil => intro x hx; simp only [renderParams, List.mem_singleton] at hx; omega
    | cons q qs =>
      intro x hx
      rw [show renderParams (p :: q :: qs) = (48 + p) :: 44 :: 32 :: renderParams (q :: qs) by simp only [renderParams]] at hx
      simp only [List.mem_cons] at hx
      rcases hx with hx | hx | hx | hx
      · omega
      · omega
      · omega
      · exact ih' x hx



/-! ### the printed lines are instances of the general layouts -/

theorem allSp_nil : AllSp [] := by intro x hx; cases hx
theorem allSp_1 : AllSp [32] := by intro x hx; simp only [List.mem_singleton] at hx; subst hx; decide
theorem allSp_2 : AllSp [32, 32] := by
  intro x hx; simp only [List.mem_cons, List.not_mem_nil, or_false] at hx; rcases hx with h | h <;> subst h <;> decide
theorem allSp_nl : AllSp [10] := by intro x hx; simp only [List.mem_singleton] at hx; subst hx; decide

theorem decVal_natDec' (v : Nat) : decVal (natDec v) = v := by
  obtain ⟨d, dr, e, _, _, _, hval⟩ := natDec_shape_p v
  rw [e, hval]

theorem wf_parts (e : PteSrc) (h : e.wf = true) :
    (∃ p pat, e.pattern = p :: pat ∧ p ≠ 34 ∧ (∀ x ∈ pat, x ≠ 34)) ∧ e.pattern.any reMetaChar = false ∧
    quoteTailsOk e.msg = true ∧ (∀ p ∈ e.params, p < 10) ∧ (∀ x ∈ e.file, x ≠ 34) ∧ (natDec e.line).length ≤ intMaxStrDigits := by
  unfold PteSrc.wf at h
  simp only [Bool.and_eq_true, Bool.not_eq_true', List.isEmpty_eq_false_iff, List.contains_eq_mem, decide_eq_false_iff_not,
    List.all_eq_true, decide_eq_true_eq] at h
  obtain ⟨⟨⟨⟨⟨⟨hne, hq⟩, hmeta⟩, hmsg⟩, hpar⟩, hfile⟩, hline⟩ := h
  refine ⟨?_, hmeta, hmsg, hpar, ?_, hline⟩
  · cases hp : e.pattern with
    | nil => exact absurd hp hne
    | cons p pat =>
      rw [hp] at hq
      exact ⟨p, pat, rfl, fun h => hq (by rw [h]; exact List.mem_cons_self ..), fun x hx h => hq (by rw [← h]; exact List.mem_cons_of_mem _ hx)⟩
  · intro x hx h; exact hfile (by rw [← h]; exact hx)

/-- a printed entry line is matched by none of START / END, fully matched by ENTRY, and `_add_entry` stores the normal form -/
theorem renderPteLine_loaded (e : PteSrc) (h : e.wf = true) :
    tblStartRe.fullmatch (renderPteLine e) = none ∧ tblEndRe.fullmatch (renderPteLine e) = none ∧
    ∃ caps, tblEntryRe.fullmatch (renderPteLine e) = some caps ∧ addPteEntry caps = some (normalisePte e) := by
  obtain ⟨⟨p, pat, hpat, hp, hpat'⟩, hmeta, hmsg, hpar, hfile, hline⟩ := wf_parts e h
  obtain ⟨d, ds, hnd, hd, hds, _, _⟩ := natDec_shape_p e.line
  have hl : renderPteLine e = entryLine [32, 32] [32] [] [32] [] [32] [] [32] [] [32] [32] [] [10] p pat (escapeQuote e.msg)
      (renderParams e.params) e.file d ds := by
    simp only [renderPteLine, entryLine, hpat, hnd, List.cons_append, List.nil_append, List.append_nil]
  refine ⟨?_, ?_, _, hl ▸ tblEntry_fullmatch _ _ _ _ _ _ _ _ _ _ _ _ _ allSp_2 allSp_1 allSp_nil allSp_1 allSp_nil allSp_1 allSp_nil
      allSp_1 allSp_nil allSp_1 allSp_1 allSp_nil allSp_nl p pat e.msg _ e.file d ds hp hpat' hmsg
      (fun x hx => (renderParams_ascii e.params hpar x hx).2) hfile hd hds, ?_⟩
  · rw [hl]; exact tblStart_fail_brace [32, 32] _ allSp_2
  · rw [hl]; exact tblEnd_fail_entry [32, 32] [32] p _ allSp_2 allSp_1 hp
  · have hlen : ¬ (d :: ds).length > intMaxStrDigits := by rw [← hnd]; omega
    have hasc : (renderParams e.params).any (· ≥ 128) = false := by
      rw [List.any_eq_false]; intro x hx; have := (renderParams_ascii e.params hpar x hx).1; simp; omega
    simp only [addPteEntry, capGet, List.find?, beq_self_eq_true, Option.map_some, hlen, if_false, hasc, ← hpat, hmeta,
      Bool.false_eq_true, (by decide : (5 == 1) = false), (by decide : (5 == 2) = false), (by decide : (5 == 3) = false),
      (by decide : (5 == 4) = false), (by decide : (4 == 1) = false), (by decide : (4 == 2) = false), (by decide : (4 == 3) = false),
      (by decide : (3 == 1) = false), (by decide : (3 == 2) = false), (by decide : (2 == 1) = false)]
    rw [message_roundtrip, paramsOfText_render _ hpar, ← hnd, decVal_natDec']
    rfl

/-! ### the PTE line loop -/

theorem loadPteGo_skip (st : Bool) (l : Text) (ls : List Text) (h1 : tblStartRe.fullmatch l = none)
    (h2 : tblEndRe.fullmatch l = none) (h3 : st = true → tblEntryRe.fullmatch l = none) :
    loadPteGo st (l :: ls) = loadPteGo st ls := by
  cases st with
  | false => simp [loadPteGo, h1, h2]
  | true => simp [loadPteGo, h1, h2, h3 rfl]

theorem loadPteGo_start (st : Bool) (l : Text) (ls : List Text) (h : (tblStartRe.fullmatch l).isSome = true) :
    loadPteGo st (l :: ls) = loadPteGo true ls := by
  simp [loadPteGo, h]

theorem loadPteGo_end (st : Bool) (l : Text) (ls : List Text) (h1 : tblStartRe.fullmatch l = none)
    (h2 : (tblEndRe.fullmatch l).isSome = true) :
    loadPteGo st (l :: ls) = loadPteGo false ls := by
  simp [loadPteGo, h1, h2]

theorem loadPteGo_entry (l : Text) (ls : List Text) (caps : Caps) (r : PteRow) (h1 : tblStartRe.fullmatch l = none)
    (h2 : tblEndRe.fullmatch l = none) (h3 : tblEntryRe.fullmatch l = some caps) (h4 : addPteEntry caps = some r) :
    loadPteGo true (l :: ls) = (loadPteGo true ls).map (r :: ·) := by
  simp [loadPteGo, h1, h2, h3, h4]

theorem loadPteGo_rendered (tbl : List PteSrc) (hwf : ∀ e ∈ tbl, e.wf = true) (rest : List Text) :
    loadPteGo true (tbl.map renderPteLine ++ rest) = (loadPteGo true rest).map (tbl.map normalisePte ++ ·) := by
  induction tbl with
  | nil =>
    simp only [List.map_nil, List.nil_append]
    cases loadPteGo true rest <;> rfl
  | cons e tbl ih =>
    obtain ⟨h1, h2, caps, h3, h4⟩ := renderPteLine_loaded e (hwf e (List.mem_cons_self ..))
    rw [List.map_cons, List.cons_append, loadPteGo_entry _ _ caps _ h1 h2 h3 h4, ih (fun x hx => hwf x (List.mem_cons_of_mem _ hx))]
    cases loadPteGo true rest <;> rfl

/-- lines in front of the start line: nothing is loaded from them -/
theorem loadPteGo_before (pre rest : List Text) (h : ∀ l ∈ pre, tblStartRe.fullmatch l = none) :
    loadPteGo false (pre ++ rest) = loadPteGo false rest := by
  induction pre with
  | nil => rfl
  | cons l pre ih =>
    have hl := h l (List.mem_cons_self ..)
    have ih' := ih (fun x hx => h x (List.mem_cons_of_mem _ hx))
    rw [List.cons_append]
    by_cases he : (tblEndRe.fullmatch l).isSome = true
    · rw [loadPteGo_end false l _ hl he]; exact ih'
    · rw [loadPteGo_skip false l _ hl (by simpa using he) (by intro h; cases h)]; exact ih'

theorem loadPteGo_after (post : List Text) (h : ∀ l ∈ post, tblStartRe.fullmatch l = none) :
    loadPteGo false post = some [] := by
  have := loadPteGo_before post [] h
  rw [List.append_nil] at this
  rw [this]; rfl

theorem loadPteGo_bad_line (bad : Text) (h1 : tblStartRe.fullmatch bad = none) (h2 : tblEndRe.fullmatch bad = none)
    (h3 : tblEntryRe.fullmatch bad = none) (a b : List Text) :
    ∀ st, loadPteGo st (a ++ bad :: b) = loadPteGo st (a ++ b) := by
  induction a with
  | nil => intro st; exact loadPteGo_skip st bad b h1 h2 (fun _ => h3)
  | cons l a ih =>
    intro st
    simp only [List.cons_append, loadPteGo]
    split
    · exact ih _
    split
    · exact ih _
    split
    · split
      · split
        · rfl
        · rw [ih]
      · exact ih _
    · exact ih _

theorem pte_header_loaded (tbl : List PteSrc) (hwf : ∀ e ∈ tbl, e.wf = true) (post : List Text)
    (hpost : ∀ l ∈ post, tblStartRe.fullmatch l = none) :
    loadPteGo false (renderPteHeader tbl ++ post) = some (tbl.map normalisePte) := by
  unfold renderPteHeader
  rw [List.cons_append, List.cons_append, loadPteGo_start false _ _ pteStartLine_start,
    loadPteGo_skip true _ _ openBrace_pte.1 openBrace_pte.2.1 (fun _ => openBrace_pte.2.2),
    List.append_assoc, loadPteGo_rendered tbl hwf]
  simp only [List.cons_append, List.nil_append]
  rw [loadPteGo_end true _ _ pteEndLine_end.1 pteEndLine_end.2, loadPteGo_skip false _ _ closeBrace_pte (by decide +kernel)
    (by intro h; cases h), loadPteGo_after post hpost]
  simp
/-! ### the history-log line loop -/

theorem renderHlogLine_loaded (f : HlogField) (h : hlogFieldWf f = true) :
    hlogStartRe.fullmatch (renderHlogLine f) = none ∧ hlogEndRe.fullmatch (renderHlogLine f) = none ∧
    ∃ caps, hlogFieldRe.fullmatch (renderHlogLine f) = some caps ∧ addHlogField caps = some f := by
  obtain ⟨name, size⟩ := f
  unfold hlogFieldWf at h
  simp only [Bool.and_eq_true, Bool.or_eq_true, beq_iff_eq, Bool.not_eq_true', List.isEmpty_eq_false_iff, List.contains_eq_mem,
    decide_eq_false_iff_not] at h
  obtain ⟨⟨hsz, hne⟩, hq⟩ := h
  cases name with
  | nil => exact absurd rfl hne
  | cons n name =>
    have hn : n ≠ 34 := fun e => hq (by rw [e]; exact List.mem_cons_self ..)
    have hname : ∀ x ∈ name, x ≠ 34 := fun x hx e => hq (by rw [← e]; exact List.mem_cons_of_mem _ hx)
    have hl : renderHlogLine (n :: name, size) =
        [32, 32] ++ 123 :: ([32] ++ (48 + size) :: ([] ++ 44 :: ([32] ++ 34 :: n :: (name ++ 34 :: ([32] ++ 125 :: ([] ++ 44 :: ([10] ++ []))))))) := by
      simp [renderHlogLine]
    have hs : 48 + size = 49 ∨ 48 + size = 50 := by omega
    refine ⟨?_, ?_, _, hl ▸ hlogField_fullmatch _ _ _ _ _ _ _ allSp_2 allSp_1 allSp_nil allSp_1 allSp_1 allSp_nil allSp_nl
      (48 + size) hs n name hn hname, ?_⟩
    · rw [hl]; exact hlogStart_fail_brace [32, 32] _ allSp_2
    · rw [hl]; exact hlogEnd_fail_brace [32, 32] _ allSp_2
    · rcases hsz with h | h <;> subst h <;> rfl

theorem loadHlogGo_skip (st : Bool) (l : Text) (ls : List Text) (h1 : hlogStartRe.fullmatch l = none)
    (h2 : hlogEndRe.fullmatch l = none) (h3 : st = true → hlogFieldRe.fullmatch l = none) :
    loadHlogGo st (l :: ls) = loadHlogGo st ls := by
  cases st with
  | false => simp [loadHlogGo, h1, h2]
  | true => simp [loadHlogGo, h1, h2, h3 rfl]

theorem loadHlogGo_start (st : Bool) (l : Text) (ls : List Text) (h : (hlogStartRe.fullmatch l).isSome = true) :
    loadHlogGo st (l :: ls) = loadHlogGo true ls := by
  simp [loadHlogGo, h]

theorem loadHlogGo_end (st : Bool) (l : Text) (ls : List Text) (h1 : hlogStartRe.fullmatch l = none)
    (h2 : (hlogEndRe.fullmatch l).isSome = true) :
    loadHlogGo st (l :: ls) = loadHlogGo false ls := by
  simp [loadHlogGo, h1, h2]

theorem loadHlogGo_entry (l : Text) (ls : List Text) (caps : Caps) (r : HlogField) (h1 : hlogStartRe.fullmatch l = none)
    (h2 : hlogEndRe.fullmatch l = none) (h3 : hlogFieldRe.fullmatch l = some caps) (h4 : addHlogField caps = some r) :
    loadHlogGo true (l :: ls) = (loadHlogGo true ls).map (r :: ·) := by
  simp [loadHlogGo, h1, h2, h3, h4]

theorem loadHlogGo_rendered (fs : List HlogField) (hwf : ∀ f ∈ fs, hlogFieldWf f = true) (rest : List Text) :
    loadHlogGo true (fs.map renderHlogLine ++ rest) = (loadHlogGo true rest).map (fs ++ ·) := by
  induction fs with
  | nil =>
    simp only [List.map_nil, List.nil_append]
    cases loadHlogGo true rest <;> rfl
  | cons f fs ih =>
    obtain ⟨h1, h2, caps, h3, h4⟩ := renderHlogLine_loaded f (hwf f (List.mem_cons_self ..))
    rw [List.map_cons, List.cons_append, loadHlogGo_entry _ _ caps _ h1 h2 h3 h4, ih (fun x hx => hwf x (List.mem_cons_of_mem _ hx))]
    cases loadHlogGo true rest <;> rfl

theorem loadHlogGo_before (pre rest : List Text) (h : ∀ l ∈ pre, hlogStartRe.fullmatch l = none) :
    loadHlogGo false (pre ++ rest) = loadHlogGo false rest := by
  induction pre with
  | nil => rfl
  | cons l pre ih =>
    have hl := h l (List.mem_cons_self ..)
    have ih' := ih (fun x hx => h x (List.mem_cons_of_mem _ hx))
    rw [List.cons_append]
    by_cases he : (hlogEndRe.fullmatch l).isSome = true
    · rw [loadHlogGo_end false l _ hl he]; exact ih'
    · rw [loadHlogGo_skip false l _ hl (by simpa using he) (by intro h; cases h)]; exact ih'

theorem loadHlogGo_after (post : List Text) (h : ∀ l ∈ post, hlogStartRe.fullmatch l = none) :
    loadHlogGo false post = some [] := by
  have := loadHlogGo_before post [] h
  rw [List.append_nil] at this
  rw [this]; rfl

theorem loadHlogGo_bad_line (bad : Text) (h1 : hlogStartRe.fullmatch bad = none) (h2 : hlogEndRe.fullmatch bad = none)
    (h3 : hlogFieldRe.fullmatch bad = none) (a b : List Text) :
    ∀ st, loadHlogGo st (a ++ bad :: b) = loadHlogGo st (a ++ b) := by
  induction a with
  | nil => intro st; exact loadHlogGo_skip st bad b h1 h2 (fun _ => h3)
  | cons l a ih =>
    intro st
    simp only [List.cons_append, loadHlogGo]
    split
    · exact ih _
    split
    · exact ih _
    split
    · split
      · split
        · rfl
        · rw [ih]
      · exact ih _
    · exact ih _

theorem hlog_header_loaded (fs : List HlogField) (hwf : ∀ f ∈ fs, hlogFieldWf f = true) (post : List Text)
    (hpost : ∀ l ∈ post, hlogStartRe.fullmatch l = none) :
    loadHlogGo false (renderHlogHeader fs ++ post) = some fs := by
  unfold renderHlogHeader
  rw [List.cons_append, List.cons_append, loadHlogGo_start false _ _ hlogStartLine_start,
    loadHlogGo_skip true _ _ openBrace_hlog.1 openBrace_hlog.2.1 (fun _ => openBrace_hlog.2.2),
    List.append_assoc, loadHlogGo_rendered fs hwf]
  simp only [List.cons_append, List.nil_append]
  rw [loadHlogGo_end true _ _ closeBrace_hlog.1 closeBrace_hlog.2, loadHlogGo_after post hpost]
  simp

/-! ### the string-file loop -/

theorem stripSp_nospace (t : Text) (h : ∀ x ∈ t, isPySpace x = false) : stripSp t = t := by
  have hl : lstripSp t = t := by
    cases t with
    | nil => rfl
    | cons x t => unfold lstripSp; rw [List.dropWhile_cons_of_neg]; simp [h x (List.mem_cons_self ..)]
  unfold stripSp
  rw [hl]
  unfold rstripSp
  cases hr : t.reverse with
  | nil => simp only [List.reverse_eq_nil_iff] at hr; rw [hr]; rfl
  | cons x r =>
    have hx : isPySpace x = false := h x (by rw [← List.mem_reverse, hr]; exact List.mem_cons_self ..)
    rw [List.dropWhile_cons_of_neg (by simp [hx]), ← hr, List.reverse_reverse]

theorem traceStringWf_parts (t : TraceString) (h : traceStringWf t = true) :
    (∀ x ∈ t.fmt, x ≠ 10) ∧ (∀ x ∈ t.location, x ≠ 10) ∧ noBarBar (124 :: t.location) = true ∧
    (natDec t.hash).length ≤ intMaxStrDigits := by
  unfold traceStringWf at h
  simp only [Bool.and_eq_true, Bool.not_eq_true', List.contains_eq_mem, decide_eq_false_iff_not, decide_eq_true_eq] at h
  obtain ⟨⟨⟨h1, h2⟩, h3⟩, h4⟩ := h
  exact ⟨fun x hx e => h1 (by rw [← e]; exact hx), fun x hx e => h2 (by rw [← e]; exact hx), h3, h4⟩

theorem renderStringLine_loaded (t : TraceString) (h : traceStringWf t = true) :
    ∃ caps, traceLineRe.fullmatch (renderStringLine t) = some caps ∧ addTraceString caps = some (normaliseTraceString t) := by
  obtain ⟨hfmt, hloc, hbar, hlen⟩ := traceStringWf_parts t h
  obtain ⟨d, ds, hnd, hd, hds, _, _⟩ := natDec_shape_p t.hash
  have hl : renderStringLine t = [] ++ (d :: (ds ++ ([] ++ (124 :: 124 :: (t.fmt ++ (124 :: 124 :: (t.location ++ [10]))))))) := by
    simp only [renderStringLine, hnd, List.cons_append, List.nil_append]
  refine ⟨_, hl ▸ traceLine_fullmatch [] [] allSp_nil allSp_nil d ds t.fmt t.location [10] hd hds hfmt hloc hbar (Or.inl rfl), ?_⟩
  have hns : ∀ x ∈ d :: ds, isPySpace x = false := by
    intro x hx
    have : 48 ≤ x ∧ x ≤ 57 := by
      rcases List.mem_cons.mp hx with e | e
      · rw [e]; exact hd
      · exact hds x e
    exact digit_not_space x this
  have hlen' : ¬ (d :: ds).length > intMaxStrDigits := by rw [← hnd]; omega
  simp only [addTraceString, capGet, List.find?, beq_self_eq_true, Option.map_some, stripSp_nospace _ hns, hlen', if_false,
    (by decide : (3 == 1) = false), (by decide : (3 == 2) = false), (by decide : (2 == 1) = false)]
  rw [← hnd, decVal_natDec']
  rfl

theorem loadTraceStrings_rendered (ss : List TraceString) (hwf : ∀ t ∈ ss, traceStringWf t = true) (rest : List Text) :
    loadTraceStrings (ss.map renderStringLine ++ rest) = (loadTraceStrings rest).map (ss.map normaliseTraceString ++ ·) := by
  induction ss with
  | nil =>
    simp only [List.map_nil, List.nil_append]
    cases loadTraceStrings rest <;> rfl
  | cons t ss ih =>
    obtain ⟨caps, h3, h4⟩ := renderStringLine_loaded t (hwf t (List.mem_cons_self ..))
    rw [List.map_cons, List.cons_append]
    simp only [loadTraceStrings, h3, h4]
    rw [ih (fun x hx => hwf x (List.mem_cons_of_mem _ hx))]
    cases loadTraceStrings rest <;> rfl

theorem loadTraceStrings_bad_line (bad : Text) (h : traceLineRe.fullmatch bad = none) (a b : List Text) :
    loadTraceStrings (a ++ bad :: b) = loadTraceStrings (a ++ b) := by
  induction a with
  | nil => simp [loadTraceStrings, h]
  | cons l a ih =>
    simp only [List.cons_append, loadTraceStrings]
    split
    · split
      · rfl
      · rw [ih]
    · exact ih
end Pel
