import PelModel.HexDump
import PelProofs.Basic
/- Lemmas about `hexdump` / `parse` (C13, reused by C04, C15, C16, C17). -/
namespace Pel

/-! ### unfolding `hexdumpFrom` -/

theorem hexdumpFrom_nil (l c off : Nat) : hexdumpFrom l c off [] = [] := by
  unfold hexdumpFrom; simp

theorem hexdumpFrom_cons (l c off : Nat) (b : Bytes) (hb : b ≠ []) (hl : l ≠ 0) :
    hexdumpFrom l c off b = dumpLine l c off (b.take l) :: hexdumpFrom l c (off + l) (b.drop l) := by
  conv => lhs; unfold hexdumpFrom
  simp [hb, hl]

theorem hexdumpFrom_length (l c : Nat) (hl : 0 < l) : ∀ (n : Nat) (b : Bytes) (off : Nat), b.length ≤ n →
    (hexdumpFrom l c off b).length = (b.length + l - 1) / l := by
  intro n
  induction n with
  | zero =>
    intro b off h
    have : b = [] := List.length_eq_zero_iff.mp (by omega)
    subst this
    simp [hexdumpFrom_nil]
    exact (Nat.div_eq_of_lt (by omega)).symm
  | succ n ih =>
    intro b off h
    by_cases hb : b = []
    · subst hb; simp [hexdumpFrom_nil]; exact (Nat.div_eq_of_lt (by omega)).symm
    · have hpos : 0 < b.length := List.length_pos_iff.mpr hb
      rw [hexdumpFrom_cons l c off b hb (by omega)]
      simp only [List.length_cons]
      rw [ih (b.drop l) (off + l) (by simp; omega)]
      simp only [List.length_drop]
      by_cases hlt : b.length ≤ l
      · have h1 : (b.length - l + l - 1) / l = 0 := Nat.div_eq_of_lt (by omega)
        have h2 : (b.length + l - 1) / l = 1 :=
          Nat.div_eq_of_lt_le (by omega) (by omega)
        omega
      · have : b.length + l - 1 = (b.length - l + l - 1) + l := by omega
        rw [this, Nat.add_div_right _ hl]

/-- the `i`-th line is the dump line of the `i`-th chunk at offset `off + i*l` -/
theorem hexdumpFrom_getElem (l c : Nat) (hl : 0 < l) : ∀ (i : Nat) (b : Bytes) (off : Nat)
    (h : i < (hexdumpFrom l c off b).length),
    (hexdumpFrom l c off b)[i] = dumpLine l c (off + i * l) ((b.drop (i * l)).take l) := by
  intro i
  induction i with
  | zero =>
    intro b off h
    have hb : b ≠ [] := by
      intro e; subst e; simp [hexdumpFrom_nil] at h
    simp [hexdumpFrom_cons l c off b hb (by omega)]
  | succ i ih =>
    intro b off h
    have hb : b ≠ [] := by
      intro e; subst e; simp [hexdumpFrom_nil] at h
    have e := hexdumpFrom_cons l c off b hb (by omega)
    simp only [e, List.getElem_cons_succ]
    rw [ih (b.drop l) (off + l) (by simpa [e] using h)]
    congr 1
    · rw [Nat.succ_mul]; omega
    · rw [List.drop_drop, Nat.succ_mul, Nat.add_comm]

/-! ### the per-line scanner -/

/-- format of a hex column of `n` bytes: `DD` per byte, `w` spaces before each chunk but the first -/
def rawD (w c : Nat) : Nat → Nat → Text
  | _, 0 => []
  | j, n+1 => (if j ≠ 0 ∧ j % c = 0 then spaces w else []) ++ [chD, chD] ++ rawD w c (j+1) n

@[simp] theorem parseGo_nil_line (f : Text) (hi : Option Nat) (acc : Bytes) : parseGo f [] hi acc = acc := by
  cases f <;> simp [parseGo]

theorem parseGo_A (fs ls : Text) (ch : Nat) (hi : Option Nat) (acc : Bytes) (h : isHexDigit ch = true) :
    parseGo (chA :: fs) (ch :: ls) hi acc = parseGo fs ls hi acc := by
  simp [parseGo, h]

theorem parseGo_C (fs ls : Text) (ch : Nat) (hi : Option Nat) (acc : Bytes) :
    parseGo (chC :: fs) (ch :: ls) hi acc = parseGo fs ls hi acc := by
  simp [parseGo, chC, chA, chD]

theorem parseGo_lit (fs ls : Text) (ch : Nat) (hi : Option Nat) (acc : Bytes)
    (h : ch ≠ chA ∧ ch ≠ chD ∧ ch ≠ chC) :
    parseGo (ch :: fs) (ch :: ls) hi acc = parseGo fs ls hi acc := by
  simp [parseGo, h.1, h.2.1, h.2.2]

theorem parseGo_D_space (fs ls : Text) (hi : Option Nat) (acc : Bytes) :
    parseGo (chD :: fs) (32 :: ls) hi acc = acc := by
  simp [parseGo, chD, chA, isHexDigit]

theorem parseGo_byte (fs ls : Text) (b : Nat) (acc : Bytes) (hb : b < 256) :
    parseGo (chD :: chD :: fs) (hexU (b / 16) :: hexU b :: ls) none acc = parseGo fs ls none (acc ++ [b]) := by
  have e : 16 * (b / 16 % 16) + b % 16 = b := by omega
  simp [parseGo, chD, chA, isHexDigit_hexU, hexVal_hexU, e]

theorem parseGo_As (n : Nat) (cs fs ls : Text) (hi : Option Nat) (acc : Bytes)
    (hlen : cs.length = n) (hhex : ∀ c ∈ cs, isHexDigit c = true) :
    parseGo (List.replicate n chA ++ fs) (cs ++ ls) hi acc = parseGo fs ls hi acc := by
  induction n generalizing cs with
  | zero =>
    have : cs = [] := List.length_eq_zero_iff.mp hlen
    subst this; simp
  | succ n ih =>
    match cs, hlen with
    | c :: cs, hlen =>
      simp only [List.replicate_succ, List.cons_append]
      rw [parseGo_A _ _ _ _ _ (hhex c (by simp))]
      exact ih cs (by simpa using hlen) (fun x hx => hhex x (by simp [hx]))

theorem parseGo_Cs (n : Nat) (cs fs ls : Text) (hi : Option Nat) (acc : Bytes) (hlen : cs.length = n) :
    parseGo (List.replicate n chC ++ fs) (cs ++ ls) hi acc = parseGo fs ls hi acc := by
  induction n generalizing cs with
  | zero =>
    have : cs = [] := List.length_eq_zero_iff.mp hlen
    subst this; simp
  | succ n ih =>
    match cs, hlen with
    | c :: cs, hlen =>
      simp only [List.replicate_succ, List.cons_append]
      rw [parseGo_C]
      exact ih cs (by simpa using hlen)

theorem parseGo_spaces (n : Nat) (fs ls : Text) (hi : Option Nat) (acc : Bytes) :
    parseGo (spaces n ++ fs) (spaces n ++ ls) hi acc = parseGo fs ls hi acc := by
  induction n with
  | zero => simp [spaces]
  | succ n ih =>
    simp only [spaces, List.replicate_succ, List.cons_append] at *
    rw [parseGo_lit _ _ _ _ _ (by simp [chA, chD, chC])]
    exact ih

/-- a complete hex column is consumed and yields its bytes -/
theorem parseGo_raw_full (w c : Nat) : ∀ (ck : Bytes) (j : Nat) (acc : Bytes) (F R : Text),
    (∀ x ∈ ck, x < 256) →
    parseGo (rawD w c j ck.length ++ F) (rawSep w c j ck ++ R) none acc = parseGo F R none (acc ++ ck) := by
  intro ck
  induction ck with
  | nil => intro j acc F R _; simp [rawD, rawSep]
  | cons b bs ih =>
    intro j acc F R hb
    simp only [List.length_cons, rawD, rawSep]
    by_cases hj : j ≠ 0 ∧ j % c = 0
    · simp only [if_pos hj, List.append_assoc]
      rw [parseGo_spaces]
      simp only [List.cons_append, List.nil_append]
      rw [parseGo_byte _ _ _ _ (hb b (by simp))]
      rw [ih (j+1) (acc ++ [b]) F R (fun x hx => hb x (by simp [hx]))]
      simp
    · simp only [if_neg hj, List.nil_append, List.cons_append]
      rw [parseGo_byte _ _ _ _ (hb b (by simp))]
      rw [ih (j+1) (acc ++ [b]) F R (fun x hx => hb x (by simp [hx]))]
      simp

/-- a short hex column followed by at least `w+1` spaces: the scan stops at the first empty data cell -/
theorem parseGo_raw_short (w c : Nat) : ∀ (ck : Bytes) (j n : Nat) (acc : Bytes) (F R : Text),
    (∀ x ∈ ck, x < 256) → ck.length < n →
    parseGo (rawD w c j n ++ F) (rawSep w c j ck ++ (spaces (w+1) ++ R)) none acc = acc ++ ck := by
  intro ck
  induction ck with
  | nil =>
    intro j n acc F R _ hn
    match n, hn with
    | n+1, _ =>
      simp only [rawD, rawSep, List.nil_append, List.append_nil]
      by_cases hj : j ≠ 0 ∧ j % c = 0
      · simp only [if_pos hj, List.append_assoc]
        have : spaces (w+1) ++ R = spaces w ++ (32 :: R) := by
          simp [spaces, List.replicate_succ']
        rw [this, parseGo_spaces]
        simp only [List.cons_append, List.nil_append]
        exact parseGo_D_space _ _ _ _
      · simp only [if_neg hj, List.nil_append, List.cons_append]
        simp only [spaces, List.replicate_succ, List.cons_append]
        exact parseGo_D_space _ _ _ _
  | cons b bs ih =>
    intro j n acc F R hb hn
    match n, hn with
    | n+1, hn =>
      simp only [rawD, rawSep]
      by_cases hj : j ≠ 0 ∧ j % c = 0
      · simp only [if_pos hj, List.append_assoc]
        rw [parseGo_spaces]
        simp only [List.cons_append, List.nil_append]
        rw [parseGo_byte _ _ _ _ (hb b (by simp))]
        rw [ih (j+1) n (acc ++ [b]) F R (fun x hx => hb x (by simp [hx])) (by simpa using hn)]
        simp
      · simp only [if_neg hj, List.nil_append, List.cons_append]
        rw [parseGo_byte _ _ _ _ (hb b (by simp))]
        rw [ih (j+1) n (acc ++ [b]) F R (fun x hx => hb x (by simp [hx])) (by simpa using hn)]
        simp

/-- a hex column that simply ends (truncated last line) -/
theorem parseGo_raw_trunc (w c : Nat) : ∀ (ck : Bytes) (j n : Nat) (acc : Bytes) (F : Text),
    (∀ x ∈ ck, x < 256) → ck.length ≤ n →
    parseGo (rawD w c j n ++ F) (rawSep w c j ck) none acc = acc ++ ck := by
  intro ck
  induction ck with
  | nil => intro j n acc F _ _; simp [rawSep]
  | cons b bs ih =>
    intro j n acc F hb hn
    match n, hn with
    | n+1, hn =>
      simp only [rawD, rawSep]
      by_cases hj : j ≠ 0 ∧ j % c = 0
      · simp only [if_pos hj, List.append_assoc]
        rw [parseGo_spaces]
        simp only [List.cons_append, List.nil_append]
        rw [parseGo_byte _ _ _ _ (hb b (by simp))]
        rw [ih (j+1) n (acc ++ [b]) F (fun x hx => hb x (by simp [hx])) (by simpa using hn)]
        simp
      · simp only [if_neg hj, List.nil_append, List.cons_append]
        rw [parseGo_byte _ _ _ _ (hb b (by simp))]
        rw [ih (j+1) n (acc ++ [b]) F (fun x hx => hb x (by simp [hx])) (by simpa using hn)]
        simp

/-! ### length of a hex column -/

theorem rawSep_length_le (w c : Nat) : ∀ (ck : Bytes) (j : Nat),
    (rawSep w c j ck).length ≤ (2 + w) * ck.length := by
  intro ck
  induction ck with
  | nil => intro j; simp [rawSep]
  | cons b bs ih =>
    intro j
    have := ih (j+1)
    simp only [rawSep, List.length_append, List.length_cons, List.length_nil]
    split <;> simp [spaces] <;> rw [Nat.mul_succ] <;> omega

/-! ### rstrip of newlines -/

theorem rstripChar_of_last_ne (c : Nat) (t : Text) (x : Nat) (h : x ≠ c) : rstripChar c (t ++ [x]) = t ++ [x] := by
  simp [rstripChar, List.dropWhile, h]

theorem rstripChar_nil (c : Nat) : rstripChar c [] = [] := by simp [rstripChar]

theorem rstripChar_idem (c : Nat) (t : Text) : rstripChar c (rstripChar c t) = rstripChar c t := by
  unfold rstripChar
  simp only [List.reverse_reverse]
  congr 1
  generalize t.reverse = r
  induction r with
  | nil => simp
  | cons a r ih =>
    by_cases h : a = c
    · have hb : (a == c) = true := by simp [h]
      simp only [List.dropWhile_cons, hb, if_true, ih]
    · have hb : (a == c) = false := by simp [h]
      simp [List.dropWhile_cons, hb]

theorem parseLine_rstrip (fmt line : Text) : parseLine fmt (rstripNL line) = parseLine fmt line := by
  unfold parseLine rstripNL
  rw [rstripChar_idem]

theorem flatMap_filter_of_nil {α β} (f : α → List β) (p : α → Bool) (l : List α)
    (h : ∀ x ∈ l, p x = false → f x = []) : l.flatMap f = (l.filter p).flatMap f := by
  induction l with
  | nil => simp
  | cons a l ih =>
    have ih' := ih (fun x hx => h x (by simp [hx]))
    by_cases hp : p a = true
    · simp [List.filter, hp, ih']
    · have hp' : p a = false := by simpa using hp
      simp [List.filter, hp', h a (by simp) hp', ih']

end Pel

namespace Pel

/-! ### exact length of a hex column -/

theorem div_pred_step (j c : Nat) (hj : 1 ≤ j) :
    j / c = (j - 1) / c + (if j % c = 0 then 1 else 0) := by
  obtain ⟨k, rfl⟩ : ∃ k, j = k + 1 := ⟨j - 1, by omega⟩
  simp only [Nat.add_sub_cancel]
  by_cases h : (k + 1) % c = 0
  · simp [h, Nat.succ_div_of_mod_eq_zero h]
  · simp [h, Nat.succ_div_of_mod_ne_zero h]

theorem rawSep_length_pos (w c : Nat) : ∀ (ck : Bytes) (j : Nat), 1 ≤ j →
    (rawSep w c j ck).length + w * ((j - 1) / c) = 2 * ck.length + w * ((j + ck.length - 1) / c) := by
  intro ck
  induction ck with
  | nil => intro j hj; simp [rawSep]
  | cons b bs ih =>
    intro j hj
    have h1 := ih (j+1) (by omega)
    have h2 := div_pred_step j c hj
    simp only [Nat.add_sub_cancel] at h1
    simp only [rawSep, List.length_append, List.length_cons, List.length_nil]
    have e : j + (bs.length + 1) - 1 = j + 1 + bs.length - 1 := by omega
    rw [e]
    by_cases hjc : j % c = 0
    · have hne : j ≠ 0 := by omega
      simp only [hjc, if_true] at h2
      rw [if_pos ⟨hne, hjc⟩]
      simp only [spaces_length]
      rw [h2, Nat.mul_add] at h1
      omega
    · simp only [hjc, if_false, Nat.add_zero] at h2
      rw [if_neg (fun h => hjc h.2)]
      rw [h2] at h1
      simp only [List.length_nil]
      omega

theorem rawSep_length_zero (w c : Nat) (ck : Bytes) (h : ck ≠ []) :
    (rawSep w c 0 ck).length = 2 * ck.length + w * ((ck.length - 1) / c) := by
  match ck, h with
  | b :: bs, _ =>
    have h1 := rawSep_length_pos w c bs 1 (by omega)
    simp only [rawSep, List.length_append, List.length_cons, List.length_nil]
    simp only [Nat.sub_self, Nat.zero_div, Nat.mul_zero, Nat.add_zero] at h1
    have e : 1 + bs.length - 1 = bs.length := by omega
    rw [e] at h1
    simp only [Nat.add_sub_cancel]
    simp
    omega

theorem ceilDiv_eq (l c : Nat) (hl : 1 ≤ l) (hc : 1 ≤ c) : ceilDiv l c = (l - 1) / c + 1 := by
  unfold ceilDiv
  have : l + c - 1 = (l - 1) + c := by omega
  rw [this, Nat.add_div_right _ (by omega)]

theorem charPerLine_eq (l c : Nat) (hl : 1 ≤ l) (hc : 1 ≤ c) : charPerLine l c = 2 * l + 2 * ((l - 1) / c) := by
  unfold charPerLine
  rw [ceilDiv_eq l c hl hc]; omega

theorem rawFrom_length_le (l c : Nat) (ck : Bytes) (hl : 1 ≤ l) (hc : 1 ≤ c) (hk : ck.length ≤ l) :
    (rawFrom c 0 ck).length ≤ charPerLine l c := by
  rw [charPerLine_eq l c hl hc]
  unfold rawFrom
  by_cases h : ck = []
  · subst h; simp [rawSep]
  · rw [rawSep_length_zero 2 c ck h]
    have : (ck.length - 1) / c ≤ (l - 1) / c := Nat.div_le_div_right (by omega)
    omega

theorem dumpLine_length (l c off : Nat) (ck : Bytes) (hl : 1 ≤ l) (hc : 1 ≤ c) (hk : ck.length ≤ l)
    (hoff : off < 16 ^ 8) : (dumpLine l c off ck).length = 8 + 5 + charPerLine l c + 5 + l := by
  unfold dumpLine
  rw [fmtHex_eq_hexFix 8 off hoff (by omega)]
  have := rawFrom_length_le l c ck hl hc hk
  simp only [List.length_append, hexFix_length, spaces_length, ljust_length, List.length_map]
  omega

/-! ### rstrip is the identity on lines that do not end in a newline -/

theorem rstripChar_eq_self (c : Nat) (t : Text) (h : ∀ x, t.getLast? = some x → x ≠ c) : rstripChar c t = t := by
  unfold rstripChar
  cases hr : t.reverse with
  | nil => simp at hr; subst hr; simp
  | cons a r =>
    have ht : t = r.reverse ++ [a] := by
      have := congrArg List.reverse hr
      simpa using this
    have ha : a ≠ c := h a (by rw [ht]; simp)
    have hb : (a == c) = false := by simp [ha]
    simp [List.dropWhile_cons, hb, ht]

theorem rstripNL_append_of_all_ne (xs ys : Text) (hne : ys ≠ []) (h : ∀ x ∈ ys, x ≠ 10) :
    rstripNL (xs ++ ys) = xs ++ ys := by
  apply rstripChar_eq_self
  intro x hx
  rw [List.getLast?_append] at hx
  cases hy : ys.getLast? with
  | none => simp [List.getLast?_eq_none_iff] at hy; exact absurd hy hne
  | some y =>
    rw [hy] at hx
    simp at hx
    subst hx
    exact h y (List.mem_of_getLast? hy)

theorem asciiCell_ne_nl (b : Nat) : asciiCell b ≠ 10 := by
  unfold asciiCell; split <;> omega

theorem ljust_text_all_ne_nl (n : Nat) (ck : Bytes) : ∀ x ∈ ljust n 32 (ck.map asciiCell), x ≠ 10 := by
  intro x hx
  simp only [ljust, List.mem_append, List.mem_map, List.mem_replicate] at hx
  rcases hx with ⟨b, _, rfl⟩ | ⟨_, rfl⟩
  · exact asciiCell_ne_nl b
  · omega

end Pel
