import PelModel.Regex
/-
  Lemmas about the backtracking matcher `Re.m` (PelModel/Regex.lean):
    * the fuel of a repeat never runs out (`starM_fuel`), hence the fuel-free unfolding `Re.m_star`;
    * repeats of a single character class: greedy success (`star_chr_ok`), deterministic reading when the
      continuation cannot start with a character of the class (`star_chr_det`);
    * "step" lemmas that walk a `Re.cat` list along an input, for success and for failure proofs.
-/
namespace Pel

/-! ### a match only ever succeeds through its continuation -/

theorem starM_knone (step : Text → Caps → Kont → Option Caps)
    (hstep : ∀ inp c, step inp c (fun _ _ => none) = none) :
    ∀ (n : Nat) (inp : Text) (c : Caps), starM step n inp c (fun _ _ => none) = none := by
  intro n
  induction n with
  | zero => intro inp c; rfl
  | succ n ih =>
    intro inp c
    simp only [starM]
    have : (fun (r : Text) (c' : Caps) => if r.length < inp.length then starM step n r c' (fun _ _ => none) else none)
        = (fun _ _ => none) := by
      funext r c'; simp [ih]
    rw [this, hstep]

theorem Re.m_knone (a : Re) : ∀ (inp : Text) (c : Caps), a.m inp c (fun _ _ => none) = none := by
  induction a with
  | eps => intro inp c; rfl
  | chr p => intro inp c; cases inp with
    | nil => rfl
    | cons x r => simp [Re.m]
  | seq a b iha ihb =>
    intro inp c
    simp only [Re.m]
    have : (fun (r : Text) (c' : Caps) => b.m r c' (fun _ _ => none)) = (fun _ _ => none) := by
      funext r c'; exact ihb r c'
    rw [this, iha]
  | alt a b iha ihb => intro inp c; simp [Re.m, iha, ihb]
  | star a iha => intro inp c; simp only [Re.m]; exact starM_knone a.m iha _ _ _
  | opt a iha => intro inp c; simp [Re.m, iha]
  | grp i a iha => intro inp c; simp only [Re.m]; exact iha inp c

/-! ### the fuel of a repeat never runs out -/

theorem starM_succ (step : Text → Caps → Kont → Option Caps)
    (hstep : ∀ inp c, step inp c (fun _ _ => none) = none) :
    ∀ (n : Nat) (inp : Text) (c : Caps) (k : Kont), inp.length ≤ n →
      starM step (n + 1) inp c k = starM step n inp c k := by
  intro n
  induction n with
  | zero =>
    intro inp c k h
    have hl : inp.length = 0 := by omega
    simp only [starM, hl, Nat.not_lt_zero, if_false]
    rw [hstep]
  | succ n ih =>
    intro inp c k h
    show (match step inp c (fun r c' => if r.length < inp.length then starM step (n + 1) r c' k else none) with
          | some x => some x | none => k inp c) =
         (match step inp c (fun r c' => if r.length < inp.length then starM step n r c' k else none) with
          | some x => some x | none => k inp c)
    have : (fun (r : Text) (c' : Caps) => if r.length < inp.length then starM step (n + 1) r c' k else none)
        = (fun r c' => if r.length < inp.length then starM step n r c' k else none) := by
      funext r c'
      by_cases hr : r.length < inp.length
      · simp only [hr, if_true]; exact ih r c' k (by omega)
      · simp only [hr, if_false]
    rw [this]

/-- every fuel ≥ the length of the remaining input gives the same answer -/
theorem starM_fuel (step : Text → Caps → Kont → Option Caps)
    (hstep : ∀ inp c, step inp c (fun _ _ => none) = none)
    (n : Nat) (inp : Text) (c : Caps) (k : Kont) (h : inp.length ≤ n) :
    starM step n inp c k = starM step inp.length inp c k := by
  induction n with
  | zero => have : inp.length = 0 := by omega
            rw [this]
  | succ n ih =>
    by_cases he : inp.length = n + 1
    · rw [he]
    · rw [starM_succ step hstep n inp c k (by omega)]; exact ih (by omega)

/-- fuel-free unfolding of a greedy repeat: one more iteration (that consumes something) first, then stop -/
theorem Re.m_star (a : Re) (inp : Text) (c : Caps) (k : Kont) :
    (Re.star a).m inp c k =
      match a.m inp c (fun r c' => if r.length < inp.length then (Re.star a).m r c' k else none) with
      | some x => some x
      | none => k inp c := by
  show starM a.m inp.length inp c k = _
  cases hl : inp.length with
  | zero =>
    simp only [starM, Nat.not_lt_zero, if_false]
    rw [Re.m_knone]
  | succ n =>
    show (match a.m inp c (fun r c' => if r.length < inp.length then starM a.m n r c' k else none) with
          | some x => some x | none => k inp c) = _
    have : (fun (r : Text) (c' : Caps) => if r.length < inp.length then starM a.m n r c' k else none)
        = (fun r c' => if r.length < n + 1 then (Re.star a).m r c' k else none) := by
      funext r c'
      rw [hl]
      by_cases hr : r.length < n + 1
      · simp only [hr, if_true]
        show _ = starM a.m r.length r c' k
        exact starM_fuel a.m (Re.m_knone a) n r c' k (by omega)
      · simp only [hr, if_false]
    rw [this]

/-! ### repeats of one character class -/

theorem Re.m_star_chr_nil (p : CSet) (c : Caps) (k : Kont) : (Re.star (.chr p)).m [] c k = k [] c := by
  rw [Re.m_star]; simp [Re.m]

theorem Re.m_star_chr_cons (p : CSet) (x : Nat) (r : Text) (c : Caps) (k : Kont) :
    (Re.star (.chr p)).m (x :: r) c k =
      if p.test x then (match (Re.star (.chr p)).m r c k with | some y => some y | none => k (x :: r) c)
      else k (x :: r) c := by
  rw [Re.m_star]
  by_cases h : p.test x = true <;> simp [Re.m, h]

/-- the next character (if any) is not in the class: a greedy repeat of the class stops here -/
def StopsAt (p : CSet) (b : Text) : Prop := ∀ y r, b = y :: r → p.test y = false

theorem StopsAt.nil (p : CSet) : StopsAt p [] := by intro y r h; cases h
theorem StopsAt.cons {p : CSet} {y : Nat} (r : Text) (h : p.test y = false) : StopsAt p (y :: r) := by
  intro y' r' e; cases e; exact h
theorem StopsAt.append {p : CSet} {w b : Text} (hw : ∀ z ∈ w, p.test z = false) (hb : StopsAt p b) : StopsAt p (w ++ b) := by
  cases w with
  | nil => exact hb
  | cons z w' => intro y r e; cases e; exact hw _ (List.mem_cons_self ..)

theorem star_chr_stop (p : CSet) (b : Text) (c : Caps) (k : Kont) (hb : StopsAt p b) :
    (Re.star (.chr p)).m b c k = k b c := by
  cases b with
  | nil => exact Re.m_star_chr_nil p c k
  | cons y r => rw [Re.m_star_chr_cons, hb y r rfl]; rfl

/-- greedy success: the class characters `a` are all consumed when the continuation succeeds behind them -/
theorem star_chr_ok (p : CSet) (a b : Text) (c : Caps) (k : Kont) (res : Caps)
    (ha : ∀ x ∈ a, p.test x = true) (hb : StopsAt p b) (hk : k b c = some res) :
    (Re.star (.chr p)).m (a ++ b) c k = some res := by
  induction a with
  | nil => rw [List.nil_append, star_chr_stop p b c k hb, hk]
  | cons x a ih =>
    rw [List.cons_append, Re.m_star_chr_cons, ha x (List.mem_cons_self ..), if_pos rfl,
      ih (fun y hy => ha y (List.mem_cons_of_mem _ hy))]

/-- backtracking success: behind the class characters `a` the continuation succeeds, and it fails at every
    longer split that the repeat could reach inside `b` -/
theorem star_chr_back (p : CSet) (a b : Text) (c : Caps) (k : Kont) (res : Caps)
    (ha : ∀ x ∈ a, p.test x = true)
    (hb : ∀ b1 b2, b = b1 ++ b2 → b1 ≠ [] → (∀ x ∈ b1, p.test x = true) → k b2 c = none)
    (hk : k b c = some res) :
    (Re.star (.chr p)).m (a ++ b) c k = some res := by
  have base : ∀ (b : Text), (∀ b1 b2, b = b1 ++ b2 → b1 ≠ [] → (∀ x ∈ b1, p.test x = true) → k b2 c = none) →
      (Re.star (.chr p)).m b c k = k b c := by
    intro b
    induction b with
    | nil => intro _; exact Re.m_star_chr_nil p c k
    | cons y r ih =>
      intro hb
      rw [Re.m_star_chr_cons]
      by_cases hy : p.test y = true
      · rw [if_pos hy, ih]
        · rw [hb [y] r rfl (by simp) (by simpa using hy)]
        · intro b1 b2 e hne hall
          exact hb (y :: b1) b2 (by rw [e]; rfl) (by simp) (by
            intro x hx
            rcases List.mem_cons.mp hx with h | h
            · rw [h]; exact hy
            · exact hall x h)
      · rw [if_neg hy]
  induction a with
  | nil => rw [List.nil_append, base b hb, hk]
  | cons x a ih =>
    rw [List.cons_append, Re.m_star_chr_cons, ha x (List.mem_cons_self ..), if_pos rfl,
      ih (fun y hy => ha y (List.mem_cons_of_mem _ hy))]

/-- deterministic reading: a continuation that fails on every input beginning with a class character is only ever
    entered behind the longest run of class characters -/
theorem star_chr_det (p : CSet) (inp : Text) (c : Caps) (k : Kont)
    (hk : ∀ x r, p.test x = true → k (x :: r) c = none) :
    (Re.star (.chr p)).m inp c k = k (inp.dropWhile p.test) c := by
  induction inp with
  | nil => exact Re.m_star_chr_nil p c k
  | cons x r ih =>
    rw [Re.m_star_chr_cons]
    by_cases hx : p.test x = true
    · rw [if_pos hx, ih, List.dropWhile_cons_of_pos hx]
      cases hd : k (List.dropWhile p.test r) c with
      | some y => rfl
      | none => exact hk x r hx
    · rw [if_neg hx, List.dropWhile_cons_of_neg hx]

theorem dropWhile_append_stop (p : CSet) (w b : Text) (hw : ∀ x ∈ w, p.test x = true) (hb : StopsAt p b) :
    (w ++ b).dropWhile p.test = b := by
  induction w with
  | nil =>
    cases b with
    | nil => rfl
    | cons y r => rw [List.nil_append, List.dropWhile_cons_of_neg]; rw [hb y r rfl]; simp
  | cons x w ih =>
    rw [List.cons_append, List.dropWhile_cons_of_pos (hw x (List.mem_cons_self ..))]
    exact ih (fun y hy => hw y (List.mem_cons_of_mem _ hy))

/-! ### walking a `Re.cat` list along the input: success steps -/

theorem take_len_sub (l a b : Text) (h : l = a ++ b) : l.take (l.length - b.length) = a := by
  subst h; simp

theorem cat_nil (inp : Text) (c : Caps) (k : Kont) : (Re.cat []).m inp c k = k inp c := rfl

theorem cat_cons (a : Re) (rest : List Re) (inp : Text) (c : Caps) (k : Kont) :
    (Re.cat (a :: rest)).m inp c k = a.m inp c (fun r c' => (Re.cat rest).m r c' k) := rfl

theorem step_lit (x : Nat) (rest : List Re) (r : Text) (c : Caps) (k : Kont) :
    (Re.cat (.chr (.lit x) :: rest)).m (x :: r) c k = (Re.cat rest).m r c k := by
  simp [cat_cons, Re.m, CSet.test]

theorem step_chr (p : CSet) (x : Nat) (rest : List Re) (r : Text) (c : Caps) (k : Kont) (h : p.test x = true) :
    (Re.cat (.chr p :: rest)).m (x :: r) c k = (Re.cat rest).m r c k := by
  simp [cat_cons, Re.m, h]

theorem step_star (p : CSet) (rest : List Re) (a b : Text) (c : Caps) (k : Kont) (res : Caps)
    (ha : ∀ x ∈ a, p.test x = true) (hb : StopsAt p b) (h : (Re.cat rest).m b c k = some res) :
    (Re.cat (.star (.chr p) :: rest)).m (a ++ b) c k = some res := by
  rw [cat_cons]; exact star_chr_ok p a b c _ res ha hb h

theorem step_plus (p : CSet) (rest : List Re) (x : Nat) (a b : Text) (c : Caps) (k : Kont) (res : Caps)
    (hx : p.test x = true) (ha : ∀ y ∈ a, p.test y = true) (hb : StopsAt p b) (h : (Re.cat rest).m b c k = some res) :
    (Re.cat (Re.plus (.chr p) :: rest)).m (x :: (a ++ b)) c k = some res := by
  rw [cat_cons]
  simp only [Re.plus, Re.m, hx, if_true]
  exact star_chr_ok p a b c _ res ha hb h

theorem step_grp_star (i : Nat) (p : CSet) (rest : List Re) (a b : Text) (c : Caps) (k : Kont) (res : Caps)
    (ha : ∀ x ∈ a, p.test x = true) (hb : StopsAt p b) (h : (Re.cat rest).m b ((i, a) :: c) k = some res) :
    (Re.cat (.grp i (.star (.chr p)) :: rest)).m (a ++ b) c k = some res := by
  rw [cat_cons]
  simp only [Re.m]
  apply star_chr_ok p a b c _ res ha hb
  simp only [take_len_sub (a ++ b) a b rfl]
  exact h

/-- a capturing greedy repeat that has to give characters back: the continuation fails at every longer split -/
theorem step_grp_star_back (i : Nat) (p : CSet) (rest : List Re) (a b : Text) (c : Caps) (k : Kont) (res : Caps)
    (ha : ∀ x ∈ a, p.test x = true)
    (hb : ∀ b1 b2, b = b1 ++ b2 → b1 ≠ [] → (∀ x ∈ b1, p.test x = true) → ∀ c', (Re.cat rest).m b2 c' k = none)
    (h : (Re.cat rest).m b ((i, a) :: c) k = some res) :
    (Re.cat (.grp i (.star (.chr p)) :: rest)).m (a ++ b) c k = some res := by
  rw [cat_cons]
  simp only [Re.m]
  apply star_chr_back p a b c _ res ha
  · intro b1 b2 e hne hall; exact hb b1 b2 e hne hall _
  · simp only [take_len_sub (a ++ b) a b rfl]
    exact h

theorem step_grp_plus (i : Nat) (p : CSet) (rest : List Re) (x : Nat) (a b : Text) (c : Caps) (k : Kont) (res : Caps)
    (hx : p.test x = true) (ha : ∀ y ∈ a, p.test y = true) (hb : StopsAt p b)
    (h : (Re.cat rest).m b ((i, x :: a) :: c) k = some res) :
    (Re.cat (.grp i (Re.plus (.chr p)) :: rest)).m (x :: (a ++ b)) c k = some res := by
  rw [cat_cons]
  simp only [Re.plus, Re.m, hx, if_true]
  apply star_chr_ok p a b c _ res ha hb
  simp only [take_len_sub (x :: (a ++ b)) (x :: a) b rfl]
  exact h

theorem step_grp_chr (i : Nat) (p : CSet) (rest : List Re) (x : Nat) (r : Text) (c : Caps) (k : Kont)
    (hx : p.test x = true) :
    (Re.cat (.grp i (.chr p) :: rest)).m (x :: r) c k = (Re.cat rest).m r ((i, [x]) :: c) k := by
  rw [cat_cons]
  simp only [Re.m, hx, if_true]
  rw [take_len_sub (x :: r) [x] r rfl]

theorem step_opt_lit_some (x : Nat) (rest : List Re) (r : Text) (c : Caps) (k : Kont) (res : Caps)
    (h : (Re.cat rest).m r c k = some res) :
    (Re.cat (.opt (.chr (.lit x)) :: rest)).m (x :: r) c k = some res := by
  rw [cat_cons]
  simp [Re.m, CSet.test, h]

theorem step_opt_none (a : Re) (rest : List Re) (inp : Text) (c : Caps) (k : Kont)
    (h : a.m inp c (fun r c' => (Re.cat rest).m r c' k) = none) :
    (Re.cat (.opt a :: rest)).m inp c k = (Re.cat rest).m inp c k := by
  rw [cat_cons]
  simp only [Re.m, h]

theorem kEnd_nil (c : Caps) : kEnd [] c = some c := rfl

/-! ### failure steps -/

theorem fail_lit_nil (x : Nat) (rest : List Re) (c : Caps) (k : Kont) :
    (Re.cat (.chr (.lit x) :: rest)).m [] c k = none := by
  simp [cat_cons, Re.m]

theorem fail_lit (x y : Nat) (rest : List Re) (r : Text) (c : Caps) (k : Kont) (h : y ≠ x) :
    (Re.cat (.chr (.lit x) :: rest)).m (y :: r) c k = none := by
  simp [cat_cons, Re.m, CSet.test, h]

/-- a repeat of a class followed by a literal outside the class reads deterministically -/
theorem det_star_lit (p : CSet) (x : Nat) (rest : List Re) (inp : Text) (c : Caps) (k : Kont)
    (hx : p.test x = false) :
    (Re.cat (.star (.chr p) :: .chr (.lit x) :: rest)).m inp c k =
      (Re.cat (.chr (.lit x) :: rest)).m (inp.dropWhile p.test) c k := by
  rw [cat_cons]
  apply star_chr_det
  intro y r hy
  apply fail_lit
  intro e; subst e; rw [hx] at hy; cases hy

theorem isPySpace_ne (x y : Nat) (hx : isPySpace x = true) (hy : isPySpace y = false) : x ≠ y := by
  intro e; subst e; rw [hx] at hy; cases hy

end Pel
