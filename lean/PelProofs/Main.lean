import PelModel.Main
/-
  Helper lemmas about `main()`'s model (PelModel/Main.lean): Python truthiness, the fields of `mkConfig`, and the
  inversion of the priority chain `dispatch` (which tests failed before a branch was taken).
-/
namespace Pel

theorem tv_some {o : Option Text} {v : Text} (h : tv o = some v) : o = some v ∧ v ≠ [] := by
  unfold tv at h
  split at h
  · simp only [Option.some.injEq] at h; subst h; simp
  · simp at h

theorem tv_eq_none {o : Option Text} : tv o = none ↔ (o = none ∨ o = some []) := by
  cases o with
  | none => simp [tv]
  | some v => cases v <;> simp [tv]

theorem truthy_eq_true {o : Option Text} : truthy o = true ↔ ∃ v, tv o = some v := by
  unfold truthy
  cases tv o <;> simp

theorem truthy_eq_false {o : Option Text} : truthy o = false ↔ tv o = none := by
  unfold truthy
  cases tv o <;> simp

theorem truthy_iff {o : Option Text} : truthy o = true ↔ ∃ v, o = some v ∧ v ≠ [] := by
  cases o with
  | none => simp [truthy, tv]
  | some v => cases v <;> simp [truthy, tv]

/-- all fields of `mkConfig` at once -/
theorem mkConfig_eq (t : List (Text × Nat)) (a : Args) :
    mkConfig t a =
      { sel := { every := a.every, term := a.term, serviceable := a.serviceable, nonServiceable := a.nonServiceable,
                 hidden := a.hidden, only := a.only, severities := a.severities.filterMap (sevLookup t), lookup := false },
        allowPlugins := !a.skipPlugins, hex := a.hex, rev := a.reverse, ext := tv a.extension } := by
  obtain ⟨path, sp, file, list, all, count, delete, deleteAll, pelID, bmcID, plid, src, srcExclude, hex, reverse,
    extension, every, sv, ns, hidden, term, sevs, only, json, outputDir, clean⟩ := a
  unfold mkConfig
  simp only
  have h1 : ({} : MainCfg).when sp (fun c => { c with allowPlugins := false }) = { allowPlugins := !sp } := by
    cases sp <;> rfl
  have h2 : ({ allowPlugins := !sp } : MainCfg).when sv (fun c => { c with sel := { c.sel with serviceable := true } }) =
      { allowPlugins := !sp, sel := { serviceable := sv } } := by
    cases sv <;> rfl
  have h3 : ({ allowPlugins := !sp, sel := { serviceable := sv } } : MainCfg).when ns
      (fun c => { c with sel := { c.sel with nonServiceable := true } }) =
      { allowPlugins := !sp, sel := { serviceable := sv, nonServiceable := ns } } := by
    cases ns <;> rfl
  have h4 : ({ allowPlugins := !sp, sel := { serviceable := sv, nonServiceable := ns } } : MainCfg).when term
      (fun c => { c with sel := { c.sel with term := true } }) =
      { allowPlugins := !sp, sel := { serviceable := sv, nonServiceable := ns, term := term } } := by
    cases term <;> rfl
  have h5 : ({ allowPlugins := !sp, sel := { serviceable := sv, nonServiceable := ns, term := term } } : MainCfg).when hidden
      (fun c => { c with sel := { c.sel with hidden := true } }) =
      { allowPlugins := !sp, sel := { serviceable := sv, nonServiceable := ns, term := term, hidden := hidden } } := by
    cases hidden <;> rfl
  have h6 : ({ allowPlugins := !sp, sel := { serviceable := sv, nonServiceable := ns, term := term, hidden := hidden } } : MainCfg).when only
      (fun c => { c with sel := { c.sel with only := true } }) =
      { allowPlugins := !sp, sel := { serviceable := sv, nonServiceable := ns, term := term, hidden := hidden, only := only } } := by
    cases only <;> rfl
  have h7 : ({ allowPlugins := !sp, sel := { serviceable := sv, nonServiceable := ns, term := term, hidden := hidden, only := only } } : MainCfg).when every
      (fun c => { c with sel := { c.sel with every := true } }) =
      { allowPlugins := !sp, sel := { serviceable := sv, nonServiceable := ns, term := term, hidden := hidden, only := only, every := every } } := by
    cases every <;> rfl
  have h8 : ({ allowPlugins := !sp, sel := { serviceable := sv, nonServiceable := ns, term := term, hidden := hidden, only := only, every := every } } : MainCfg).when
      (!sevs.isEmpty) (fun c => { c with sel := { c.sel with severities := c.sel.severities ++ sevs.filterMap (sevLookup t) } }) =
      { allowPlugins := !sp, sel := { serviceable := sv, nonServiceable := ns, term := term, hidden := hidden, only := only, every := every,
                                      severities := sevs.filterMap (sevLookup t) } } := by
    cases sevs <;> rfl
  have h9 : ∀ c : MainCfg, c.when hex (fun c => { c with hex := true }) = { c with hex := hex || c.hex } := by
    intro c; cases hex <;> rfl
  have h10 : ∀ c : MainCfg, c.when reverse (fun c => { c with rev := true }) = { c with rev := reverse || c.rev } := by
    intro c; cases reverse <;> rfl
  have h11 : ∀ c : MainCfg, c.ext = none → c.when (truthy extension) (fun c => { c with ext := extension }) = { c with ext := tv extension } := by
    intro c hc
    obtain ⟨_, _, _, _, e⟩ := c
    simp only at hc; subst hc
    cases extension with
    | none => rfl
    | some v => cases v <;> rfl
  rw [h1, h2, h3, h4, h5, h6, h7, h8, h9, h10, h11 _ rfl]
  simp

/-- the configuration `dispatch` hands on is `mkConfig`, with the look-up flag possibly set -/
theorem dispatch_cfg (fs : FsView) (a : Args) :
    (dispatch fs a).2 = mkConfig severityGroupTable a ∨ (dispatch fs a).2 = (mkConfig severityGroupTable a).withLookup := by
  unfold dispatch
  simp only
  repeat' split
  all_goals first | exact Or.inl rfl | exact Or.inr rfl

theorem mkConfig_lookup (t : List (Text × Nat)) (a : Args) : (mkConfig t a).sel.lookup = false := by
  rw [mkConfig_eq]

/-- the executable chain satisfies the declarative one … -/
theorem dispatch_chain (fs : FsView) (a : Args) : Chain fs a (dispatch fs a).1 (dispatch fs a).2.sel.lookup := by
  unfold dispatch
  simp only
  repeat' split
  all_goals simp only [Bool.not_eq_true, Bool.not_eq_true', Bool.not_eq_false] at *
  all_goals simp only [mkConfig_lookup, MainCfg.withLookup]
  all_goals first
    | exact .file ‹_›
    | exact .noPath ‹_› ‹_›
    | exact .notDir ‹_› ‹_› ‹_›
    | exact .jsonNoOut ‹_› ‹_› ‹_› ‹_› ‹_› ‹_›
    | exact .jsonOut ‹_› ‹_› ‹_› ‹_› ‹_› ‹_›
    | exact .jsonIn ‹_› ‹_› ‹_› ‹_› ‹_›
    | exact .id ‹_› ‹_› ‹_› ‹_› ‹_›
    | exact .bmcId ‹_› ‹_› ‹_› ‹_› ‹_› ‹_›
    | exact .plid ‹_› ‹_› ‹_› ‹_› ‹_› ‹_› ‹_›
    | exact .src ‹_› ‹_› ‹_› ‹_› ‹_› ‹_› ‹_› ‹_›
    | exact .noExclude ‹_› ‹_› ‹_› ‹_› ‹_› ‹_› ‹_› ‹_› ‹_› ‹_›
    | exact .srcExclude ‹_› ‹_› ‹_› ‹_› ‹_› ‹_› ‹_› ‹_› ‹_› ‹_›
    | exact .list ‹_› ‹_› ‹_› ‹_› ‹_› ‹_› ‹_› ‹_› ‹_› ‹_›
    | exact .count ‹_› ‹_› ‹_› ‹_› ‹_› ‹_› ‹_› ‹_› ‹_› ‹_› ‹_›
    | exact .all ‹_› ‹_› ‹_› ‹_› ‹_› ‹_› ‹_› ‹_› ‹_› ‹_› ‹_› ‹_›
    | exact .delete ‹_› ‹_› ‹_› ‹_› ‹_› ‹_› ‹_› ‹_› ‹_› ‹_› ‹_› ‹_› ‹_›
    | exact .deleteAll ‹_› ‹_› ‹_› ‹_› ‹_› ‹_› ‹_› ‹_› ‹_› ‹_› ‹_› ‹_› ‹_› ‹_›
    | exact .nothing ‹_› ‹_› ‹_› ‹_› ‹_› ‹_› ‹_› ‹_› ‹_› ‹_› ‹_› ‹_› ‹_› ‹_›

/-- … and the declarative chain determines the result (its rules are mutually exclusive) -/
theorem chain_unique {fs : FsView} {a : Args} {act : Action} {lk : Bool} (h : Chain fs a act lk) :
    (dispatch fs a).1 = act ∧ (dispatch fs a).2.sel.lookup = lk := by
  cases h <;> simp [dispatch, mkConfig_lookup, MainCfg.withLookup, *]

end Pel
