import Lean.Meta.Tactic.Simp.RegisterCommand
/- the simp set `outm`: the `*_apply` lemmas of PelProofs/TieDirModes.lean that let `simp` run a program of the output monad -/
/-- lemmas that run a program of the output monad `OutM` on a symbolic state -/
register_simp_attr outm
/-- the dictionary keys of `parsePELSummary` as code points -/
register_simp_attr pykeys
