import PelModel.PelSpec
import PelProofs.Basic
import PelProofs.JsonParse
import PelProofs.HexDumpParse
/- Helper lemmas for C04 (user data sections). -/
namespace Pel

/-! ### merging into the three header members -/

theorem k_sv_ne_data : s "Section Version" ≠ s "Data" := by decide
theorem k_st_ne_data : s "Sub-section type" ≠ s "Data" := by decide
theorem k_cb_ne_data : s "Created by" ≠ s "Data" := by decide
theorem k_sv_ne_error : s "Section Version" ≠ s "Error" := by decide
theorem k_st_ne_error : s "Sub-section type" ≠ s "Error" := by decide
theorem k_cb_ne_error : s "Created by" ≠ s "Error" := by decide
theorem k_error_ne_data : s "Error" ≠ s "Data" := by decide

theorem objSet_head_data (a b c j : J) :
    objSet [kv "Section Version" a, kv "Sub-section type" b, kv "Created by" c] (s "Data") j =
      [kv "Section Version" a, kv "Sub-section type" b, kv "Created by" c] ++ [kv "Data" j] := by
  simp only [kv, objSet, k_sv_ne_data, k_st_ne_data, k_cb_ne_data, if_false, List.cons_append,
    List.nil_append]

theorem objUpdate_head_data (a b c j : J) :
    objUpdate [kv "Section Version" a, kv "Sub-section type" b, kv "Created by" c] [kv "Data" j] =
      [kv "Section Version" a, kv "Sub-section type" b, kv "Created by" c] ++ [kv "Data" j] := by
  simp only [objUpdate, List.foldl_cons, List.foldl_nil]
  exact objSet_head_data a b c j

theorem objUpdate_head_error_data (a b c e j : J) :
    objUpdate [kv "Section Version" a, kv "Sub-section type" b, kv "Created by" c] [kv "Error" e, kv "Data" j] =
      [kv "Section Version" a, kv "Sub-section type" b, kv "Created by" c] ++ [kv "Error" e, kv "Data" j] := by
  simp only [objUpdate, List.foldl_cons, List.foldl_nil, kv, objSet, k_sv_ne_data, k_st_ne_data,
    k_cb_ne_data, k_sv_ne_error, k_st_ne_error, k_cb_ne_error, k_error_ne_data, if_false,
    List.cons_append, List.nil_append]

theorem objUpdate_nil (d : List (Text × J)) : objUpdate d [] = d := rfl

/-! ### objGet? / objSet / objUpdate -/

theorem objGet_objSet_same (d : List (Text × J)) (k : Text) (v : J) : objGet? (objSet d k v) k = some v := by
  induction d with
  | nil => simp [objSet, objGet?]
  | cons p r ih =>
    obtain ⟨k', v'⟩ := p
    by_cases h : k' = k
    · simp [objSet, h, objGet?]
    · simp [objSet, h, objGet?, ih]

theorem objGet_objSet_other (d : List (Text × J)) (k k2 : Text) (v : J) (hne : k ≠ k2) :
    objGet? (objSet d k v) k2 = objGet? d k2 := by
  induction d with
  | nil => simp [objSet, objGet?, hne]
  | cons p r ih =>
    obtain ⟨k', v'⟩ := p
    by_cases h : k' = k
    · subst h
      simp [objSet, objGet?, hne]
    · simp only [objSet, if_neg h, objGet?, ih]

theorem objGet_objUpdate_notin (ms : List (Text × J)) : ∀ (d : List (Text × J)) (k : Text),
    (∀ p ∈ ms, p.1 ≠ k) → objGet? (objUpdate d ms) k = objGet? d k := by
  induction ms with
  | nil => intro d k _; rfl
  | cons m ms ih =>
    intro d k h
    have e : objUpdate d (m :: ms) = objUpdate (objSet d m.1 m.2) ms := rfl
    rw [e, ih _ k (fun p hp => h p (List.mem_cons_of_mem _ hp))]
    exact objGet_objSet_other d m.1 k m.2 (h m (List.mem_cons_self ..))

theorem objGet_objUpdate_mem (ms : List (Text × J)) : ∀ (d : List (Text × J)), (ms.map (·.1)).Nodup →
    ∀ p ∈ ms, objGet? (objUpdate d ms) p.1 = some p.2 := by
  induction ms with
  | nil => intro d _ p hp; cases hp
  | cons m ms ih =>
    intro d hnd p hp
    have e : objUpdate d (m :: ms) = objUpdate (objSet d m.1 m.2) ms := rfl
    rw [List.map_cons, List.nodup_cons] at hnd
    rw [e]
    rcases List.mem_cons.mp hp with rfl | hp'
    · rw [objGet_objUpdate_notin ms _ p.1 ?_]
      · exact objGet_objSet_same d p.1 p.2
      · intro q hq hqk
        exact hnd.1 (List.mem_map.mpr ⟨q, hq, hqk⟩)
    · exact ih _ hnd.2 p hp'

/-! ### the built-in text format -/

def dotCh (ch : Nat) : Nat := if ch < 32 ∨ ch > 126 then 46 else ch

def finLines (ls : List Text) : List Text := if ls.getLast? = some [] then ls.dropLast else ls

theorem splitNL_ne_nil (t : Text) : ∃ l ls, splitNL t = l :: ls := by
  induction t with
  | nil => exact ⟨[], [], rfl⟩
  | cons c r ih =>
    obtain ⟨l, ls, e⟩ := ih
    by_cases h : c = 10
    · exact ⟨[], l :: ls, by simp [splitNL, e, h]⟩
    · exact ⟨c :: l, ls, by simp [splitNL, e, h]⟩

theorem splitNL_cons_nl (r : Text) : splitNL (10 :: r) = [] :: splitNL r := by
  obtain ⟨l, ls, e⟩ := splitNL_ne_nil r
  simp [splitNL, e]

theorem splitNL_cons_other (c : Nat) (r l : Text) (ls : List Text) (h : c ≠ 10) (e : splitNL r = l :: ls) :
    splitNL (c :: r) = (c :: l) :: ls := by
  simp [splitNL, e, h]

theorem finLines_cons_cons (a b : Text) (r : List Text) : finLines (a :: b :: r) = a :: finLines (b :: r) := by
  unfold finLines
  rw [List.getLast?_cons_cons]
  split <;> simp [List.dropLast]

theorem textLinesGo_gen (t : Text) : ∀ (line l : Text) (ls : List Text), splitNL t = l :: ls →
    textLinesGo t line = finLines ((line ++ l.map dotCh) :: ls.map (fun x => x.map dotCh)) := by
  induction t with
  | nil =>
    intro line l ls e
    simp only [splitNL, List.cons.injEq] at e
    obtain ⟨rfl, rfl⟩ := e
    simp only [textLinesGo, List.map_nil, List.append_nil, finLines, List.getLast?_singleton, Option.some.injEq,
      List.dropLast_singleton]
    by_cases h : line = []
    · simp [h]
    · simp [h]
  | cons c r ih =>
    intro line l ls e
    obtain ⟨l', ls', e'⟩ := splitNL_ne_nil r
    by_cases h : c = 10
    · subst h
      rw [splitNL_cons_nl, e'] at e
      simp only [List.cons.injEq] at e
      obtain ⟨rfl, rfl⟩ := e
      have hne : ¬ ((10:Nat) ≠ 10) := by simp
      rw [textLinesGo, if_neg hne, ih [] l' ls' e']
      simp only [List.map_nil, List.append_nil, List.nil_append, List.map_cons]
      rw [finLines_cons_cons]
    · rw [splitNL_cons_other c r l' ls' h e'] at e
      simp only [List.cons.injEq] at e
      obtain ⟨rfl, rfl⟩ := e
      rw [textLinesGo, if_pos h, ih _ l' ls' e']
      simp only [List.map_cons, List.append_assoc, List.singleton_append, dotCh]

/-! ### ASCII text decodes to itself -/

theorem utf8Decode_asciiU (b : Bytes) (h : ∀ x ∈ b, x < 128) : utf8Decode b = some b := by
  induction b with
  | nil => rfl
  | cons x r ih =>
    have hx : x < 0x80 := h x (List.mem_cons_self ..)
    unfold utf8Decode
    rw [if_pos hx, ih (fun y hy => h y (List.mem_cons_of_mem _ hy))]
    rfl

def ascii (t : Text) : Prop := ∀ x ∈ t, x < 128

theorem ascii_nil : ascii [] := by intro x h; cases h
theorem ascii_append {a b : Text} (ha : ascii a) (hb : ascii b) : ascii (a ++ b) := by
  intro x hx
  rcases List.mem_append.mp hx with h | h
  · exact ha x h
  · exact hb x h
theorem ascii_cons {c : Nat} {t : Text} (hc : c < 128) (ht : ascii t) : ascii (c :: t) := by
  intro x hx
  rcases List.mem_cons.mp hx with h | h
  · omega
  · exact ht x h
theorem ascii_spaces (k : Nat) : ascii (spaces k) := by
  intro x hx
  simp only [spaces, List.mem_replicate] at hx
  omega
theorem ascii_replicate0 (k : Nat) : ascii (List.replicate k 0) := by
  intro x hx
  simp only [List.mem_replicate] at hx
  omega

theorem hexL_lt (n : Nat) : hexL n < 128 := by unfold hexL; split <;> omega

theorem ascii_escChar (c : Nat) : ascii (escChar c) := by
  unfold escChar
  repeat' split
  all_goals try simp only [hex4L, List.cons_append, List.nil_append]
  all_goals
    repeat (first | exact ascii_nil | (refine ascii_cons ?_ ?_; first | omega | exact hexL_lt _))

theorem ascii_flatMap_escChar (t : Text) : ascii (t.flatMap escChar) := by
  intro x hx
  obtain ⟨c, _, hc⟩ := List.mem_flatMap.mp hx
  exact ascii_escChar c x hc

theorem ascii_renderStr (t : Text) : ascii (renderStr t) := by
  unfold renderStr
  exact ascii_append (ascii_append (ascii_cons (by omega) ascii_nil) (ascii_flatMap_escChar t))
    (ascii_cons (by omega) ascii_nil)

theorem ascii_decFix (n v : Nat) : ascii (decFix n v) := by
  induction n generalizing v with
  | zero => exact ascii_nil
  | succ n ih =>
    rw [decFix]
    exact ascii_append (ih _) (ascii_cons (by omega) ascii_nil)

theorem ascii_intDec (k : Int) : ascii (intDec k) := by
  cases k with
  | ofNat v => exact ascii_decFix _ _
  | negSucc v => exact ascii_cons (by omega) (ascii_decFix _ _)

theorem ascii_alignGap (n lvl : Nat) (k : Text) (v : J) : ascii (alignGap n lvl k v) := by
  unfold alignGap
  split
  · exact ascii_nil
  · exact ascii_spaces _

theorem ascii_indentOf (lvl : Nat) : ascii (indentOf lvl) := ascii_spaces _

mutual
  theorem ascii_aText (n : Nat) : ∀ (d : J) (lvl : Nat), ascii (aText n d lvl)
    | .null, _ => by rw [aText, s_null]; intro x hx; simp at hx; omega
    | .bool true, _ => by rw [aText, s_true]; intro x hx; simp at hx; omega
    | .bool false, _ => by rw [aText, s_false]; intro x hx; simp at hx; omega
    | .num k, _ => by rw [aText]; exact ascii_intDec k
    | .str t, _ => by rw [aText]; exact ascii_renderStr t
    | .arr [], _ => by rw [aText, s_arr]; intro x hx; simp at hx; omega
    | .arr (x :: xs), lvl => by
      rw [aText]
      exact ascii_append (ascii_append (ascii_append (ascii_append (ascii_cons (by omega) (ascii_cons (by omega) ascii_nil))
        (ascii_aItems n (x :: xs) (lvl + 1))) (ascii_cons (by omega) ascii_nil)) (ascii_indentOf lvl))
        (ascii_cons (by omega) ascii_nil)
    | .obj [], _ => by rw [aText, s_obj]; intro x hx; simp at hx; omega
    | .obj (kv :: kvs), lvl => by
      rw [aText]
      exact ascii_append (ascii_append (ascii_append (ascii_append (ascii_cons (by omega) (ascii_cons (by omega) ascii_nil))
        (ascii_aMembers n (kv :: kvs) (lvl + 1))) (ascii_cons (by omega) ascii_nil)) (ascii_indentOf lvl))
        (ascii_cons (by omega) ascii_nil)
  theorem ascii_aItems (n : Nat) : ∀ (l : List J) (lvl : Nat), ascii (aItems n l lvl)
    | [], _ => by rw [aItems]; exact ascii_nil
    | [x], lvl => by
      rw [aItems]
      exact ascii_append (ascii_indentOf lvl) (ascii_aText n x lvl)
    | x :: y :: r, lvl => by
      rw [aItems]
      exact ascii_append (ascii_append (ascii_append (ascii_indentOf lvl) (ascii_aText n x lvl))
        (ascii_cons (by omega) (ascii_cons (by omega) ascii_nil))) (ascii_aItems n (y :: r) lvl)
  theorem ascii_aMembers (n : Nat) : ∀ (l : List (Text × J)) (lvl : Nat), ascii (aMembers n l lvl)
    | [], _ => by rw [aMembers]; exact ascii_nil
    | [(k, v)], lvl => by
      rw [aMembers]
      exact ascii_append (ascii_append (ascii_append (ascii_append (ascii_append (ascii_indentOf lvl) (ascii_renderStr k))
        (ascii_cons (by omega) ascii_nil)) (ascii_alignGap n lvl k v)) (ascii_cons (by omega) ascii_nil))
        (ascii_aText n v lvl)
    | (k, v) :: kv :: r, lvl => by
      rw [aMembers]
      exact ascii_append (ascii_append (ascii_append (ascii_append (ascii_append (ascii_append (ascii_append
        (ascii_indentOf lvl) (ascii_renderStr k))
        (ascii_cons (by omega) ascii_nil)) (ascii_alignGap n lvl k v)) (ascii_cons (by omega) ascii_nil))
        (ascii_aText n v lvl)) (ascii_cons (by omega) (ascii_cons (by omega) ascii_nil))) (ascii_aMembers n (kv :: r) lvl)
end

/-! ### first and last character of a printed value -/

theorem notSpace_digit (c : Nat) (h : 48 ≤ c ∧ c ≤ 57) : isPySpace c = false := by
  simp [isPySpace]; omega

theorem aText_first (n : Nat) (d : J) (lvl : Nat) : ∃ c r, aText n d lvl = c :: r ∧ isPySpace c = false := by
  cases d with
  | null => exact ⟨110, _, by rw [aText, s_null], by decide⟩
  | bool b =>
    cases b
    · exact ⟨102, _, by rw [aText, s_false], by decide⟩
    · exact ⟨116, _, by rw [aText, s_true], by decide⟩
  | num k =>
    obtain ⟨c, r, e, hc⟩ := intDec_head k
    refine ⟨c, r, by simp only [aText, e], ?_⟩
    rcases hc with hc | hc
    · exact notSpace_digit c hc
    · rw [hc.1]; decide
  | str t => exact ⟨34, _, by rw [aText, renderStr]; rfl, by decide⟩
  | arr l =>
    cases l with
    | nil => exact ⟨91, _, by rw [aText, s_arr], by decide⟩
    | cons x xs => exact ⟨91, _, by rw [aText]; rfl, by decide⟩
  | obj l =>
    cases l with
    | nil => exact ⟨123, _, by rw [aText, s_obj], by decide⟩
    | cons x xs => exact ⟨123, _, by rw [aText]; rfl, by decide⟩

theorem natDec_last (v : Nat) : ∃ r c, natDec v = r ++ [c] ∧ 48 ≤ c ∧ c ≤ 57 := by
  by_cases h : v < 10
  · exact ⟨[], 48 + v, by rw [natDec_small v h]; rfl, by omega, by omega⟩
  · exact ⟨_, _, natDec_step v (by omega), by omega, by omega⟩

theorem intDec_last (k : Int) : ∃ r c, intDec k = r ++ [c] ∧ 48 ≤ c ∧ c ≤ 57 := by
  cases k with
  | ofNat v => exact natDec_last v
  | negSucc v =>
    obtain ⟨r, c, e, hc⟩ := natDec_last (v + 1)
    exact ⟨45 :: r, c, by simp only [intDec, e, List.cons_append], hc⟩

theorem aText_last (n : Nat) (d : J) (lvl : Nat) :
    ∃ r c, aText n d lvl = r ++ [c] ∧ isPySpace c = false ∧ c ≠ 0 := by
  cases d with
  | null => exact ⟨[110, 117, 108], 108, by rw [aText, s_null]; rfl, by decide, by decide⟩
  | bool b =>
    cases b
    · exact ⟨[102, 97, 108, 115], 101, by rw [aText, s_false]; rfl, by decide, by decide⟩
    · exact ⟨[116, 114, 117], 101, by rw [aText, s_true]; rfl, by decide, by decide⟩
  | num k =>
    obtain ⟨r, c, e, hc⟩ := intDec_last k
    exact ⟨r, c, by simp only [aText, e], notSpace_digit c hc, by omega⟩
  | str t => exact ⟨_, 34, by rw [aText, renderStr], by decide, by decide⟩
  | arr l =>
    cases l with
    | nil => exact ⟨[91], 93, by rw [aText, s_arr]; rfl, by decide, by decide⟩
    | cons x xs => exact ⟨_, 93, by rw [aText], by decide, by decide⟩
  | obj l =>
    cases l with
    | nil => exact ⟨[123], 125, by rw [aText, s_obj]; rfl, by decide, by decide⟩
    | cons x xs => exact ⟨_, 125, by rw [aText], by decide, by decide⟩

/-! ### stripping -/

theorem rstrip_keep (P : Nat → Bool) (r : Text) (c : Nat) (h : P c = false) :
    ((r ++ [c]).reverse.dropWhile P).reverse = r ++ [c] := by
  simp [h]

theorem stripSp_padded (x : Text) (pad : Nat) (hf : ∃ c r, x = c :: r ∧ isPySpace c = false)
    (hl : ∃ r c, x = r ++ [c] ∧ isPySpace c = false ∧ c ≠ 0) :
    stripSp (x ++ List.replicate pad 0) = x ++ List.replicate pad 0 := by
  have h1 : lstripSp (x ++ List.replicate pad 0) = x ++ List.replicate pad 0 := by
    obtain ⟨c, r, e, hc⟩ := hf
    subst e
    simp [lstripSp, hc]
  unfold stripSp
  rw [h1]
  unfold rstripSp
  cases pad with
  | zero =>
    obtain ⟨r, c, e, hc, _⟩ := hl
    subst e
    rw [List.replicate_zero, List.append_nil]
    exact rstrip_keep _ r c hc
  | succ k =>
    rw [List.replicate_succ', ← List.append_assoc]
    exact rstrip_keep _ _ 0 (by decide)

theorem rstripNul_padded (x : Text) (pad : Nat) (hl : ∃ r c, x = r ++ [c] ∧ isPySpace c = false ∧ c ≠ 0) :
    rstripChar 0 (x ++ List.replicate pad 0) = x := by
  obtain ⟨r, c, e, _, hc⟩ := hl
  subst e
  unfold rstripChar
  rw [List.reverse_append, List.reverse_replicate,
    List.dropWhile_append_of_pos (by intro a ha; simp only [List.mem_replicate] at ha; simp [ha.2])]
  exact rstrip_keep _ r c (by simp [hc])

/-- the built-in JSON format sees exactly the printed text -/
theorem builtin_sees_aText (n : Nat) (d : J) (pad : Nat) :
    utf8Decode (aText n d 0 ++ List.replicate pad 0) = some (aText n d 0 ++ List.replicate pad 0) ∧
    rstripChar 0 (stripSp (aText n d 0 ++ List.replicate pad 0)) = aText n d 0 := by
  refine ⟨utf8Decode_asciiU _ (ascii_append (ascii_aText n d 0) (ascii_replicate0 pad)), ?_⟩
  rw [stripSp_padded _ pad (aText_first n d 0) (aText_last n d 0), rstripNul_padded _ pad (aText_last n d 0)]

end Pel
