import PelProofs.FramesDefs
/- Framing lemmas for the SRC section and its callout subsection. -/
namespace Pel

/-! ### generic reader lemmas -/

/-- `r` fails on every proper prefix of `a` -/
def Strict {α} (r : Rd α) (a : Bytes) : Prop := ∀ k, k < a.length → ∃ e, r (a.take k) = .error e

theorem Strict.nil {α} (r : Rd α) : Strict r [] := fun k h => by simp at h

theorem Frames.toStrict {α} {r : Rd α} {a : Bytes} {x : α} (h : Frames r a x) : Strict r a := h.strict

theorem Strict.bind {α β} {r : Rd α} {f : α → Rd β} {a b : Bytes} {x : α}
    (hr : Frames r a x) (hf : Strict (f x) b) : Strict (r >>= f) (a ++ b) := by
  intro k hk
  by_cases h : k < a.length
  · obtain ⟨e, he⟩ := hr.strict k h
    refine ⟨e, ?_⟩
    have : (a ++ b).take k = a.take k := by
      rw [List.take_append]; simp [Nat.sub_eq_zero_of_le (Nat.le_of_lt h)]
    rw [this, bind_err r f _ e he]
  · have hk' : k - a.length < b.length := by simp at hk; omega
    obtain ⟨e, he⟩ := hf _ hk'
    refine ⟨e, ?_⟩
    have : (a ++ b).take k = a ++ b.take (k - a.length) := by
      rw [List.take_append]; simp [List.take_of_length_le (Nat.le_of_not_lt h)]
    rw [this, bind_ok r f _ _ x (hr.exact _)]; exact he

theorem Strict.bind_left {α β} {r : Rd α} (f : α → Rd β) {a : Bytes} (hr : Strict r a) : Strict (r >>= f) a := by
  intro k hk
  obtain ⟨e, he⟩ := hr k hk
  exact ⟨e, bind_err r f _ e he⟩

theorem Frames.bind_exact {α β} {r : Rd α} {a : Bytes} {x : α} (hr : Frames r a x) (f : α → Rd β) (rest : Bytes) :
    (r >>= f) (a ++ rest) = f x rest := bind_ok r f _ _ x (hr.exact rest)

theorem Frames.bind0 {α β} {r : Rd α} {f : α → Rd β} {a : Bytes} {x : α} {y : β}
    (hr : Frames r a x) (hf : Frames (f x) [] y) : Frames (r >>= f) a y := by
  have := Frames.bind hr hf
  rwa [List.append_nil] at this

theorem Frames.pure' {α} {x y : α} (h : x = y) : Frames (Pure.pure x : Rd α) [] y := h ▸ Frames.pure x

theorem Frames.cast {α} {r : Rd α} {a b : Bytes} {x y : α} (hf : Frames r a x) (hb : a = b) (hx : x = y) : Frames r b y :=
  hb ▸ hx ▸ hf

theorem Frames.iteS {α} (c : Prop) [Decidable c] {r1 r2 : Rd α} {a : Bytes} {x : α}
    (h1 : c → Frames r1 a x) (h2 : ¬ c → Frames r2 a x) : Frames (if c then r1 else r2) a x := by
  by_cases h : c
  · simp only [if_pos h]; exact h1 h
  · simp only [if_neg h]; exact h2 h

/-! ### text -/

theorem utf8Decode_asciiS (b : Bytes) (h : isAscii b) : utf8Decode b = some b := by
  induction b with
  | nil => simp [utf8Decode]
  | cons x r ih =>
    have hx : x < 128 := h x (by simp)
    have hr : isAscii r := fun y hy => h y (by simp [hy])
    unfold utf8Decode
    simp only [if_pos hx, ih hr]; rfl

theorem Frames.getTextS (b : Bytes) (h : 0 < b.length) (ha : isAscii b) : Frames (Pel.getText b.length) b b := by
  unfold Pel.getText
  refine Frames.bind0 (Frames.getMem b h) ?_
  show Frames (match utf8Decode b with | some t => Pure.pure t | none => Rd.fail .decode) [] b
  rw [utf8Decode_asciiS b ha]
  exact Frames.pure b

theorem Frames.getText' (n : Nat) (b : Bytes) (hn : b.length = n) (h : 0 < n) (ha : isAscii b) : Frames (Pel.getText n) b b := by
  subst hn; exact Frames.getTextS b h ha

theorem isAscii_nil : isAscii [] := fun _ h => by simp at h

theorem isAscii_append {a b : Bytes} (ha : isAscii a) (hb : isAscii b) : isAscii (a ++ b) := by
  intro x hx
  rcases List.mem_append.1 hx with h | h
  · exact ha x h
  · exact hb x h

/-- an optional fixed-width text field, present iff `c` -/
theorem Frames.optText (c : Prop) [Decidable c] (n : Nat) (b : Bytes) (hb : b.length = if c then n else 0) (hn : 0 < n)
    (ha : isAscii b) :
    Frames (if c then (do let t ← Pel.getText n; Pure.pure (some (stripNul t))) else Pure.pure none : Rd (Option Text)) b
      (if c then some (stripNul b) else none) := by
  by_cases h : c
  · simp only [if_pos h] at hb ⊢
    exact Frames.bind0 (Frames.getText' n b hb hn ha) (Frames.pure _)
  · simp only [if_neg h] at hb ⊢
    have : b = [] := List.eq_nil_of_length_eq_zero hb
    subst this
    exact Frames.pure _

/-- the same in the join-point form produced by `let x ← if c then … else …; k x` -/
theorem Frames.optTextK {β} (c : Prop) [Decidable c] (n : Nat) (b : Bytes) (hb : b.length = if c then n else 0) (hn : 0 < n)
    (ha : isAscii b) (k : Option Text → Rd β) (rest : Bytes) (y : β)
    (hk : Frames (k (if c then some (stripNul b) else none)) rest y) :
    Frames (if c then ((do let t ← Pel.getText n; Pure.pure (some (stripNul t))) >>= k) else (Pure.pure none >>= k)) (b ++ rest) y := by
  by_cases h : c
  · simp only [if_pos h] at hb hk ⊢
    exact Frames.bind (Frames.bind0 (Frames.getText' n b hb hn ha) (Frames.pure _)) hk
  · simp only [if_neg h] at hb hk ⊢
    have : b = [] := List.eq_nil_of_length_eq_zero hb
    subst this
    exact Frames.bind (Frames.pure _) hk

/-! ### bits -/

theorem and_two_pow' (n k : Nat) : n &&& 2^k = if n.testBit k then 2^k else 0 := by
  apply Nat.eq_of_testBit_eq
  intro i
  rw [Nat.testBit_and, Nat.testBit_two_pow]
  by_cases h : k = i
  · subst h; cases hh : n.testBit k <;> simp
  · cases hh : n.testBit k <;> simp [h]

theorem and_pow_ne_zero (n k : Nat) : (n &&& 2 ^ k != 0) = decide (n / 2 ^ k % 2 = 1) := by
  rw [and_two_pow', ← Nat.testBit_eq_decide_div_mod_eq]
  cases h : n.testBit k <;> simp

theorem and_pow_ne_zero' (n k : Nat) : (n &&& 2 ^ k ≠ 0) ↔ (n / 2 ^ k % 2 = 1) := by
  have := and_pow_ne_zero n k
  by_cases h : n / 2 ^ k % 2 = 1
  · simp [h] at this ⊢; exact this
  · simp [h] at this ⊢; exact this

/-! ### callout substructures -/

def fruOf (f : AFru) : Fru :=
  { flags := f.flags, pnOrProc := stripNul f.pn, ccin := stripNul f.ccin, sn := stripNul f.sn, flatSize := f.size }

def pceOf (p : APce) : Pce :=
  { declaredSize := p.size, mtm := stripNul p.mtm, sn := stripNul p.sn, name := some (stripNul p.name) }

def mruOf (m : AMru) : Mru := { declaredSize := m.size, ids := m.items }

theorem stripNul_nil : stripNul [] = [] := by decide

theorem getInt2_lit (a b : Nat) (ha : a < 256) (hb : b < 256) : Frames (getInt 2) [a, b] (a * 256 + b) := by
  have := Frames.getInt 2 (a * 256 + b) (by omega) (by omega)
  have e : toBE 2 (a * 256 + b) = [a, b] := by
    simp only [toBE, List.nil_append, List.cons_append, List.cons.injEq, and_true]
    omega
  rwa [e] at this

theorem AFru.size_lt (f : AFru) (hf : f.WF) : f.size < 256 := by
  obtain ⟨_, hpn, hcc, hsn, _⟩ := hf
  unfold AFru.size
  split at hpn <;> split at hcc <;> split at hsn <;> omega

theorem optField_getD (c : Prop) [Decidable c] (n : Nat) (b : Bytes) (hb : b.length = if c then n else 0) :
    (if c then some (stripNul b) else none).getD [] = stripNul b ∧
    (if (if c then some (stripNul b) else none).isSome = true then n else 0) = b.length := by
  by_cases h : c
  · simp only [if_pos h] at hb ⊢; simp [hb]
  · simp only [if_neg h] at hb ⊢
    have : b = [] := List.eq_nil_of_length_eq_zero hb
    subst this; simp [stripNul_nil]

theorem Frames.readFru (f : AFru) (hf : f.WF) : Frames Pel.readFru f.enc (fruOf f) := by
  have hsz := f.size_lt hf
  obtain ⟨hfl, hpn, hcc, hsn, apn, acc, asn⟩ := hf
  have e : f.enc = [0x49, 0x44] ++ ([f.size] ++ ([f.flags] ++ (f.pn ++ (f.ccin ++ (f.sn ++ []))))) := by simp [AFru.enc]
  rw [e]; unfold Pel.readFru
  refine Frames.bind (getInt2_lit 0x49 0x44 (by omega) (by omega)) ?_
  refine Frames.bind (Frames.getInt1 _ hsz) ?_
  refine Frames.bind (Frames.getInt1 _ hfl) ?_
  have hpn' : f.pn.length = if (f.flags &&& 0x08 ≠ 0 ∨ f.flags &&& 0x02 ≠ 0) then 8 else 0 := by
    rw [hpn]; simp [AFru.hasPn]
  have hcc' : f.ccin.length = if (f.flags &&& 0x04 ≠ 0) then 4 else 0 := by
    rw [hcc]; simp [AFru.hasCcin]
  have hsn' : f.sn.length = if (f.flags &&& 0x01 ≠ 0) then 12 else 0 := by
    rw [hsn]; simp [AFru.hasSn]
  dsimp only
  refine Frames.optTextK _ 8 f.pn hpn' (by omega) apn _ _ _ ?_
  refine Frames.optTextK _ 4 f.ccin hcc' (by omega) acc _ _ _ ?_
  refine Frames.optTextK _ 12 f.sn hsn' (by omega) asn _ _ _ ?_
  refine Frames.pure' ?_
  unfold fruOf AFru.size
  rw [(optField_getD _ 8 f.pn hpn').1, (optField_getD _ 8 f.pn hpn').2, (optField_getD _ 4 f.ccin hcc').1,
    (optField_getD _ 4 f.ccin hcc').2, (optField_getD _ 12 f.sn hsn').1, (optField_getD _ 12 f.sn hsn').2]

theorem APce.size_lt (p : APce) (hp : p.WF) : 25 ≤ p.size ∧ p.size < 256 := by
  obtain ⟨_, _, _, h1, h2, _⟩ := hp
  unfold APce.size; omega

theorem Frames.readPce (p : APce) (hp : p.WF) : Frames Pel.readPce p.enc (pceOf p) := by
  have hsz := p.size_lt hp
  obtain ⟨hfl, hm, hs, hn1, hn2, am, as, an⟩ := hp
  have e : p.enc = [0x50, 0x45] ++ ([p.size] ++ ([p.flags] ++ (p.mtm ++ (p.sn ++ (p.name ++ []))))) := by simp [APce.enc]
  rw [e]; unfold Pel.readPce
  refine Frames.bind (getInt2_lit 0x50 0x45 (by omega) (by omega)) ?_
  refine Frames.bind (Frames.getInt1 _ hsz.2) ?_
  refine Frames.bind (Frames.getInt1 _ hfl) ?_
  refine Frames.bind (Frames.getText' 8 _ hm (by omega) am) ?_
  refine Frames.bind (Frames.getText' 12 _ hs (by omega) as) ?_
  have hlt : ¬ p.size < 24 := by omega
  simp only [if_neg hlt]
  refine Frames.bind (Frames.getText' (p.size - 24) _ (by unfold APce.size; omega) (by unfold APce.size; omega) an) ?_
  exact Frames.pure' rfl

theorem Frames.readMruItems (items : List (Nat × Nat)) (h : ∀ p ∈ items, p.1 < 2^32 ∧ p.2 < 2^32) :
    Frames (Pel.readMruItems items.length) (items.flatMap (fun p => toBE 4 p.1 ++ toBE 4 p.2)) items := by
  induction items with
  | nil => exact Frames.pure []
  | cons a r ih =>
    have ha := h a (by simp)
    have hr : ∀ p ∈ r, p.1 < 2^32 ∧ p.2 < 2^32 := fun p hp => h p (by simp [hp])
    have e : (a :: r).flatMap (fun p => toBE 4 p.1 ++ toBE 4 p.2) =
        toBE 4 a.1 ++ (toBE 4 a.2 ++ (r.flatMap (fun p => toBE 4 p.1 ++ toBE 4 p.2) ++ [])) := by simp
    rw [e]
    show Frames (Pel.readMruItems (r.length + 1)) _ _
    unfold Pel.readMruItems
    refine Frames.bind (Frames.getInt 4 a.1 (by omega) (by omega)) ?_
    refine Frames.bind (Frames.getInt 4 a.2 (by omega) (by omega)) ?_
    refine Frames.bind (ih hr) ?_
    exact Frames.pure' rfl

theorem and_0xf (h n : Nat) (hn : n ≤ 15) : (h * 16 + n) &&& 0xf = n := by
  show (h * 16 + n) &&& 2 ^ 4 - 1 = n
  rw [Nat.and_two_pow_sub_one_eq_mod]; omega

theorem AMru.size_lt (m : AMru) (hm : m.WF) : 8 ≤ m.size ∧ m.size < 256 := by
  obtain ⟨_, _, h, _⟩ := hm
  unfold AMru.size; omega

theorem Frames.readMru (m : AMru) (hm : m.WF) : Frames Pel.readMru m.enc (mruOf m) := by
  have hsz := m.size_lt hm
  obtain ⟨hfl, hrs, hn, hit⟩ := hm
  have e : m.enc = [0x4D, 0x52] ++ ([m.size] ++ ([m.flagsHi * 16 + m.items.length] ++ (toBE 4 m.resv ++
      (m.items.flatMap (fun p => toBE 4 p.1 ++ toBE 4 p.2) ++ [])))) := by simp [AMru.enc]
  rw [e]; unfold Pel.readMru
  refine Frames.bind (getInt2_lit 0x4D 0x52 (by omega) (by omega)) ?_
  refine Frames.bind (Frames.getInt1 _ hsz.2) ?_
  refine Frames.bind (Frames.getInt1 _ (by omega)) ?_
  refine Frames.bind (Frames.getInt 4 _ (by omega) (by omega)) ?_
  rw [and_0xf _ _ hn]
  refine Frames.bind (Frames.readMruItems _ hit) ?_
  exact Frames.pure' rfl

/-! ### the substructure walk -/

theorem readSubs_stop (fuel size cur : Nat) (f : Option Fru) (p : Option Pce) (m : Option Mru) (h : ¬ size > cur) (st : Bytes) :
    readSubs fuel size cur f p m st = .ok ((f, p, m), st) := by
  cases fuel with
  | zero => rfl
  | succ n => rw [readSubs, if_neg h]; rfl

theorem readSubs_fru (fuel size cur : Nat) (f : Option Fru) (p : Option Pce) (m : Option Mru) (st : Bytes)
    (h : size > cur) (hp : fromBE (st.take 2) = 0x4944) :
    readSubs (fuel+1) size cur f p m st =
      (readFru >>= fun x => readSubs fuel size (cur + x.flatSize) (some x) p m) st := by
  rw [readSubs, if_pos h, bind_ok peek2 _ st st _ rfl]
  simp only [hp, if_true]

theorem readSubs_pce (fuel size cur : Nat) (f : Option Fru) (p : Option Pce) (m : Option Mru) (st : Bytes)
    (h : size > cur) (hp : fromBE (st.take 2) = 0x5045) :
    readSubs (fuel+1) size cur f p m st =
      (readPce >>= fun x => readSubs fuel size (cur + x.declaredSize) f (some x) m) st := by
  rw [readSubs, if_pos h, bind_ok peek2 _ st st _ rfl]
  simp only [hp, if_true, show ¬ (0x5045 = 0x4944) by decide, if_false]

theorem readSubs_mru (fuel size cur : Nat) (f : Option Fru) (p : Option Pce) (m : Option Mru) (st : Bytes)
    (h : size > cur) (hp : fromBE (st.take 2) = 0x4D52) :
    readSubs (fuel+1) size cur f p m st =
      (readMru >>= fun x => readSubs fuel size (cur + x.declaredSize) f p (some x)) st := by
  rw [readSubs, if_pos h, bind_ok peek2 _ st st _ rfl]
  simp only [hp, if_true, show ¬ (0x4D52 = 0x4944) by decide, show ¬ (0x4D52 = 0x5045) by decide, if_false]

theorem readSubs_other (fuel size cur : Nat) (f : Option Fru) (p : Option Pce) (m : Option Mru) (st : Bytes)
    (h1 : fromBE (st.take 2) ≠ 0x4944) (h2 : fromBE (st.take 2) ≠ 0x5045) (h3 : fromBE (st.take 2) ≠ 0x4D52) :
    readSubs fuel size cur f p m st = .ok ((f, p, m), st) := by
  cases fuel with
  | zero => rfl
  | succ n =>
    rw [readSubs]
    split
    · rw [bind_ok peek2 _ st st _ rfl]
      simp only [h1, h2, h3, if_false]; rfl
    · rfl

theorem peek_fru (f : AFru) (rest : Bytes) : fromBE ((f.enc ++ rest).take 2) = 0x4944 := by
  simp [AFru.enc, fromBE]
theorem peek_pce (f : APce) (rest : Bytes) : fromBE ((f.enc ++ rest).take 2) = 0x5045 := by
  simp [APce.enc, fromBE]
theorem peek_mru (f : AMru) (rest : Bytes) : fromBE ((f.enc ++ rest).take 2) = 0x4D52 := by
  simp [AMru.enc, fromBE]

theorem subs_mru_exact (mo : Option AMru) (hm : ∀ m ∈ mo, m.WF) (fuel : Nat) (hf : 1 ≤ fuel) (size cur : Nat)
    (hs : size = cur + (mo.map (·.size)).getD 0) (f : Option Fru) (p : Option Pce) (rest : Bytes) :
    readSubs fuel size cur f p none ((mo.map (·.enc)).getD [] ++ rest) = .ok ((f, p, mo.map mruOf), rest) := by
  cases mo with
  | none => simp at hs; subst hs; exact readSubs_stop _ _ _ _ _ _ (by omega) _
  | some m =>
    have hw := hm m rfl
    have hsz := m.size_lt hw
    simp at hs
    obtain ⟨n, rfl⟩ : ∃ n, fuel = n + 1 := ⟨fuel - 1, by omega⟩
    show readSubs (n+1) size cur f p none (m.enc ++ rest) = _
    rw [readSubs_mru _ _ _ _ _ _ _ (by omega) (peek_mru m rest), (Frames.readMru m hw).bind_exact]
    exact readSubs_stop _ _ _ _ _ _ (by simp [mruOf]; omega) _

theorem subs_pce_exact (po : Option APce) (hp : ∀ p ∈ po, p.WF) (mo : Option AMru) (hm : ∀ m ∈ mo, m.WF)
    (fuel : Nat) (hf : 2 ≤ fuel) (size cur : Nat)
    (hs : size = cur + (po.map (·.size)).getD 0 + (mo.map (·.size)).getD 0) (f : Option Fru) (rest : Bytes) :
    readSubs fuel size cur f none none ((po.map (·.enc)).getD [] ++ ((mo.map (·.enc)).getD [] ++ rest)) =
      .ok ((f, po.map pceOf, mo.map mruOf), rest) := by
  cases po with
  | none => simp at hs; exact subs_mru_exact mo hm fuel (by omega) size cur hs f none rest
  | some p =>
    have hw := hp p rfl
    have hsz := p.size_lt hw
    simp at hs
    obtain ⟨n, rfl⟩ : ∃ n, fuel = n + 1 := ⟨fuel - 1, by omega⟩
    show readSubs (n+1) size cur f none none (p.enc ++ _) = _
    rw [readSubs_pce _ _ _ _ _ _ _ (by omega) (peek_pce p _), (Frames.readPce p hw).bind_exact]
    exact subs_mru_exact mo hm n (by omega) size _ (by simp [pceOf]; omega) f _ rest

theorem subs_exact (fr : AFru) (hfr : fr.WF) (po : Option APce) (hp : ∀ p ∈ po, p.WF) (mo : Option AMru) (hm : ∀ m ∈ mo, m.WF)
    (fuel : Nat) (hf : 3 ≤ fuel) (size cur : Nat)
    (hs : size = cur + fr.size + (po.map (·.size)).getD 0 + (mo.map (·.size)).getD 0) (rest : Bytes) :
    readSubs fuel size cur none none none (fr.enc ++ ((po.map (·.enc)).getD [] ++ ((mo.map (·.enc)).getD [] ++ rest))) =
      .ok ((some (fruOf fr), po.map pceOf, mo.map mruOf), rest) := by
  obtain ⟨n, rfl⟩ : ∃ n, fuel = n + 1 := ⟨fuel - 1, by omega⟩
  have : 4 ≤ fr.size := by unfold AFru.size; omega
  rw [readSubs_fru _ _ _ _ _ _ _ (by omega) (peek_fru fr _), (Frames.readFru fr hfr).bind_exact]
  exact subs_pce_exact po hp mo hm n (by omega) size _ (by simp [fruOf]; omega) _ rest

/-! ### one callout -/

theorem ite_bind {α β} (c : Prop) [Decidable c] (r1 r2 : Rd α) (k : α → Rd β) :
    (if c then r1 >>= k else r2 >>= k) = ((if c then r1 else r2) >>= k) := by
  split <;> rfl

theorem Frames.loc (n : Nat) (loc : Bytes) (hl : loc.length = n) (ha : isAscii loc) :
    Frames (if n > 0 then (do let t ← Pel.getText n; Pure.pure (stripNul t)) else Pure.pure [] : Rd Text) loc (stripNul loc) := by
  by_cases h : n > 0
  · simp only [if_pos h]
    exact Frames.bind0 (Frames.getText' n loc hl h ha) (Frames.pure _)
  · simp only [if_neg h]
    have : loc = [] := List.eq_nil_of_length_eq_zero (by omega)
    subst this
    exact Frames.pure' stripNul_nil.symm

def calloutOf (c : ACallout) : Callout :=
  { size := c.size, flags := c.flags, priority := c.priority, locSize := c.loc.length, loc := stripNul c.loc,
    fru := some (fruOf c.fru), pce := c.pce.map pceOf, mru := c.mru.map mruOf }

theorem calloutOf_flattenedSize (c : ACallout) : (calloutOf c).flattenedSize = c.size := by
  unfold Callout.flattenedSize calloutOf ACallout.size
  cases c.pce <;> cases c.mru <;> simp [fruOf, pceOf, mruOf]

theorem ACallout.enc_eq (c : ACallout) : c.enc = [c.size] ++ ([c.flags] ++ ([c.priority] ++ ([c.loc.length] ++ (c.loc ++
    (c.fru.enc ++ ((c.pce.map (·.enc)).getD [] ++ ((c.mru.map (·.enc)).getD [] ++ []))))))) := by
  simp [ACallout.enc]

theorem AFru.enc_length_ge (f : AFru) : 4 ≤ f.enc.length := by simp [AFru.enc]

theorem readCallout_exact (c : ACallout) (hc : c.WF) (rest : Bytes) :
    readCallout (c.enc ++ rest) = .ok (calloutOf c, rest) := by
  obtain ⟨hfl, hpr, hll, hla, hfr, hp, hm, hsz⟩ := hc
  have hl256 : c.loc.length < 256 := by omega
  rw [c.enc_eq]; unfold readCallout
  simp only [List.append_assoc]
  rw [(Frames.getInt1 _ hsz).bind_exact, (Frames.getInt1 _ hfl).bind_exact, (Frames.getInt1 _ hpr).bind_exact,
    (Frames.getInt1 _ hl256).bind_exact]
  rw [ite_bind, (Frames.loc _ c.loc rfl hla).bind_exact, bind_ok remaining _ _ _ _ rfl]
  have hfuel : 3 ≤ (c.fru.enc ++ ((c.pce.map APce.enc).getD [] ++ ((c.mru.map AMru.enc).getD [] ++ ([] ++ rest)))).length + 1 := by
    have := c.fru.enc_length_ge
    simp only [List.length_append]; omega
  rw [bind_ok _ _ _ _ _ (subs_exact c.fru hfr c.pce hp c.mru hm _ hfuel c.size (4 + c.loc.length)
    (by unfold ACallout.size; omega) ([] ++ rest))]
  rfl

/-! ### the list of callouts -/

theorem ACallout.size_ge (c : ACallout) : 4 ≤ c.size := by unfold ACallout.size; omega

theorem readCallouts_exact (cs : List ACallout) (hcs : ∀ c ∈ cs, c.WF) (fuel total cur : Nat)
    (hf : cs.length ≤ fuel) (ht : total = cur + (cs.map (·.size)).sum) (rest : Bytes) :
    readCallouts fuel total cur (cs.flatMap (·.enc) ++ rest) = .ok (cs.map calloutOf, rest) := by
  induction cs generalizing fuel cur with
  | nil =>
    simp at ht
    cases fuel with
    | zero => rfl
    | succ n => rw [readCallouts, if_neg (by omega)]; rfl
  | cons c r ih =>
    obtain ⟨n, rfl⟩ : ∃ n, fuel = n + 1 := ⟨fuel - 1, by simp at hf; omega⟩
    have hc := hcs c (by simp)
    have hr : ∀ c ∈ r, c.WF := fun x hx => hcs x (by simp [hx])
    have := c.size_ge
    simp only [List.map_cons, List.sum_cons] at ht
    simp only [List.flatMap_cons, List.append_assoc]
    rw [readCallouts, if_pos (by omega), bind_ok _ _ _ _ _ (readCallout_exact c hc _), calloutOf_flattenedSize,
      bind_ok _ _ _ _ _ (ih hr n (cur + c.size) (by simp at hf; omega) (by omega))]
    rfl

theorem flatMap_enc_length_ge (cs : List ACallout) : cs.length ≤ (cs.flatMap (·.enc)).length := by
  induction cs with
  | nil => simp
  | cons c r ih =>
    have : 4 ≤ c.enc.length := by simp [ACallout.enc]
    simp only [List.flatMap_cons, List.length_append, List.length_cons]; omega

/-! ### JSON of one callout -/

theorem objSet_fresh (acc : List (Text × J)) (k : Text) (v : J) (h : k ∉ acc.map (·.1)) : objSet acc k v = acc ++ [(k, v)] := by
  induction acc with
  | nil => rfl
  | cons a r ih =>
    obtain ⟨k', v'⟩ := a
    simp only [List.map_cons, List.mem_cons, not_or] at h
    rw [objSet, if_neg (fun e => h.1 e.symm), ih h.2]; rfl

theorem foldl_objSet (l acc : List (Text × J)) (h : ((acc ++ l).map (·.1)).Nodup) :
    l.foldl (fun acc p => objSet acc p.1 p.2) acc = acc ++ l := by
  induction l generalizing acc with
  | nil => simp
  | cons a r ih =>
    have hfresh : a.1 ∉ acc.map (·.1) := by
      simp only [List.map_append, List.map_cons] at h
      intro hm
      exact (List.nodup_append.1 h).2.2 _ hm _ (by simp) rfl
    rw [List.foldl_cons, objSet_fresh _ _ _ hfresh, ih]
    · simp
    · simpa using h

theorem objFromList_nodup (l : List (Text × J)) (h : (l.map (·.1)).Nodup) : calloutJson.objFromList l = l := by
  unfold calloutJson.objFromList
  rw [foldl_objSet l [] (by simpa using h)]; rfl

theorem and_f0 (n : Nat) (h : n < 256) : n &&& 0xf0 = n / 16 * 16 := by
  have h1 : (n &&& 0xf0) % 2^4 = 0 := by
    rw [Nat.and_mod_two_pow]; simp
  have h2 : (n &&& 0xf0) / 2^4 = n / 16 := by
    rw [Nat.and_div_two_pow]
    show n / 16 &&& 2^4 - 1 = _
    rw [Nat.and_two_pow_sub_one_eq_mod]; omega
  omega

def calloutKeys : List Text := [s "FRU Type", s "Priority", s "Location Code", s "Part Number", s "Procedure", s "Description",
  s "CCIN", s "Serial Number", s "PCE MTMS", s "PCE Name", s "MRU Id"]

theorem calloutKeys_nodup : calloutKeys.Nodup := by decide

theorem sub_ite1 (c : Prop) [Decidable c] (x : Text × J) : ((if c then [x] else []).map (·.1)).Sublist [x.1] := by
  split <;> simp

theorem procDescription_keys (env : SrcEnv) (creator : Text) (allow : Bool) (proc : Text) :
    ((procDescription env creator allow proc).map (·.1)).Sublist [s "Description"] := by
  unfold procDescription
  split
  · simp
  · split
    · split
      · simp [kv]
      · simp
    · simp

/-- the members `renderCallout` prescribes -/
def calloutMembers (T : Tables) (env : SrcEnv) (creator : Text) (allowPlugins : Bool) (c : ACallout) : List (Text × J) :=
    [kv "FRU Type" (jstr ((lookupN T.failingCompTypes (c.fru.flags / 16 * 16)).getD (s "Invalid"))),
     kv "Priority" (jstr ((lookupN T.calloutPriorities c.priority).getD (s "Invalid")))] ++
    (if stripNul c.loc ≠ [] then [kv "Location Code" (jstr (stripNul c.loc))] else []) ++
    (if c.fru.flags &&& 0x08 ≠ 0 then [kv "Part Number" (jstr (stripNul c.fru.pn))] else []) ++
    (if c.fru.flags &&& 0x02 ≠ 0 then [kv "Procedure" (jstr (stripNul c.fru.pn))] ++
        procDescription env creator allowPlugins (stripNul c.fru.pn) else []) ++
    (if c.fru.flags &&& 0x04 ≠ 0 then [kv "CCIN" (jstr (stripNul c.fru.ccin))] else []) ++
    (if c.fru.flags &&& 0x01 ≠ 0 then [kv "Serial Number" (jstr (stripNul c.fru.sn))] else []) ++
    (match c.pce with
      | none => []
      | some p => (if stripNul p.mtm ≠ [] then [kv "PCE MTMS" (jstr (stripNul p.mtm ++ [95] ++ stripNul p.sn))] else []) ++
                  (if stripNul p.name ≠ [] then [kv "PCE Name" (jstr (stripNul p.name))] else [])) ++
    (match c.mru with
      | none => []
      | some m => [kv "MRU Id" (jstr (joinWith [44] (m.items.map fun pi => hexFix 8 pi.2)))])

theorem renderCallout_eq (T : Tables) (env : SrcEnv) (creator : Text) (allow : Bool) (c : ACallout) :
    renderCallout T env creator allow c = .obj (calloutMembers T env creator allow c) := rfl

theorem calloutMembers_nodup (T : Tables) (env : SrcEnv) (creator : Text) (allow : Bool) (c : ACallout) :
    ((calloutMembers T env creator allow c).map (·.1)).Nodup := by
  refine List.Sublist.nodup ?_ calloutKeys_nodup
  show List.Sublist _ ((((((([s "FRU Type", s "Priority"] ++ [s "Location Code"]) ++ [s "Part Number"]) ++ [s "Procedure", s "Description"]) ++
    [s "CCIN"]) ++ [s "Serial Number"]) ++ [s "PCE MTMS", s "PCE Name"]) ++ [s "MRU Id"])
  unfold calloutMembers
  simp only [List.map_append]
  refine List.Sublist.append (List.Sublist.append (List.Sublist.append (List.Sublist.append (List.Sublist.append
    (List.Sublist.append (List.Sublist.append ?_ ?_) ?_) ?_) ?_) ?_) ?_) ?_
  · exact List.Sublist.refl _
  · exact sub_ite1 _ _
  · exact sub_ite1 _ _
  · split
    · rw [List.map_append]
      exact List.Sublist.append (l₂ := [s "Procedure"]) (r₂ := [s "Description"]) (List.Sublist.refl _)
        (procDescription_keys _ _ _ _)
    · simp
  · exact sub_ite1 _ _
  · exact sub_ite1 _ _
  · cases c.pce with
    | none => simp
    | some p =>
      simp only [List.map_append]
      exact List.Sublist.append (l₂ := [s "PCE MTMS"]) (r₂ := [s "PCE Name"]) (sub_ite1 _ _) (sub_ite1 _ _)
  · cases c.mru with
    | none => simp
    | some m => exact List.Sublist.refl _

theorem ite_length_pos {α β} (t : List α) (a b : β) : (if t.length > 0 then a else b) = if t ≠ [] then a else b := by
  cases t <;> simp

theorem mru_ids_hex (m : AMru) (hm : m.WF) :
    m.items.map (fun pi => fmtHex 8 pi.2) = m.items.map (fun pi => hexFix 8 pi.2) := by
  apply List.map_congr_left
  intro a ha
  exact fmtHex_eq_hexFix 8 a.2 (by have := (hm.2.2.2 a ha).2; omega) (by omega)

theorem calloutJson_calloutOf (T : Tables) (env : SrcEnv) (creator : Text) (allow : Bool) (c : ACallout) (hc : c.WF) :
    calloutJson T env creator allow (calloutOf c) = some (renderCallout T env creator allow c) := by
  rw [renderCallout_eq, ← objFromList_nodup _ (calloutMembers_nodup T env creator allow c)]
  obtain ⟨hfl, hpr, hll, hla, hfr, hp, hm, hsz⟩ := hc
  unfold calloutJson calloutOf calloutMembers
  dsimp only
  have hf0 := and_f0 _ hfr.1
  cases hpce : c.pce with
  | none =>
    cases hmru : c.mru with
    | none =>
      dsimp only [Option.map, fruOf]
      simp only [hf0, ite_length_pos]
      rfl
    | some m =>
      dsimp only [Option.map, fruOf, mruOf]
      simp only [hf0, ite_length_pos, mru_ids_hex m (hm m (by simp [hmru]))]
      rfl
  | some p =>
    cases hmru : c.mru with
    | none =>
      dsimp only [Option.map, fruOf, pceOf]
      simp only [hf0, ite_length_pos]
      rfl
    | some m =>
      dsimp only [Option.map, fruOf, mruOf, pceOf]
      simp only [hf0, ite_length_pos, mru_ids_hex m (hm m (by simp [hmru]))]
      rfl

theorem optAllJ_callouts (T : Tables) (env : SrcEnv) (creator : Text) (allow : Bool) (cs : List ACallout) (hcs : ∀ c ∈ cs, c.WF) :
    optAllJ ((cs.map calloutOf).map (calloutJson T env creator allow)) = some (cs.map (renderCallout T env creator allow)) := by
  induction cs with
  | nil => rfl
  | cons c r ih =>
    have hr : ∀ c ∈ r, c.WF := fun x hx => hcs x (by simp [hx])
    simp only [List.map_cons, calloutJson_calloutOf T env creator allow c (hcs c (by simp)), optAllJ, ih hr, Option.map]

/-- the callout subsection is consumed exactly and rendered as prescribed -/
theorem decodeCallouts_exact (T : Tables) (env : SrcEnv) (creator : Text) (allow : Bool) (cs : ACalloutSec) (hcs : cs.WF)
    (rest : Bytes) :
    decodeCallouts T env creator allow (cs.enc ++ rest) =
      .ok (.obj [kv "Callout Count" (jnum cs.callouts.length),
                 kv "Callouts" (.arr (cs.callouts.map (renderCallout T env creator allow)))], rest) := by
  obtain ⟨hid, hfl, hwf, hmod, hlen⟩ := hcs
  have e : cs.enc = [cs.subId] ++ ([cs.subFlags] ++ (toBE 2 (cs.total / 4) ++ (cs.callouts.flatMap (·.enc) ++ []))) := by
    simp [ACalloutSec.enc]
  rw [e]; unfold decodeCallouts
  simp only [List.append_assoc]
  rw [(Frames.getInt1 _ hid).bind_exact, (Frames.getInt1 _ hfl).bind_exact,
    (Frames.getInt 2 _ (by omega) (by omega)).bind_exact, bind_ok remaining _ _ _ _ rfl]
  have hfuel : cs.callouts.length ≤ (cs.callouts.flatMap (fun x : ACallout => x.enc) ++ ([] ++ rest)).length + 1 := by
    have := flatMap_enc_length_ge cs.callouts
    simp only [List.length_append]; omega
  rw [bind_ok _ _ _ _ _ (readCallouts_exact cs.callouts hwf _ (cs.total / 4 * 4) 4 hfuel
    (by unfold ACalloutSec.total at hmod ⊢; omega) ([] ++ rest))]
  simp only [optAllJ_callouts T env creator allow cs.callouts hwf, List.length_map]
  rfl

/-! ### the SRC section -/

theorem Frames.getInts (w : Nat) (hw : 0 < w) (vs : List Nat) (h : ∀ v ∈ vs, v < 256 ^ w) :
    Frames (Pel.getInts w vs.length) (vs.flatMap (toBE w)) vs := by
  induction vs with
  | nil => exact Frames.pure []
  | cons a r ih =>
    have hr : ∀ v ∈ r, v < 256 ^ w := fun v hv => h v (by simp [hv])
    have e : (a :: r).flatMap (toBE w) = toBE w a ++ (r.flatMap (toBE w) ++ []) := by simp
    rw [e]
    show Frames (Pel.getInts w (r.length + 1)) _ _
    unfold Pel.getInts
    refine Frames.bind (Frames.getInt w a hw (h a (by simp))) ?_
    refine Frames.bind (ih hr) ?_
    exact Frames.pure' rfl

theorem bytesHexL_single (v : Nat) : bytesHexL [v] = hexFixL 2 v := by
  simp [bytesHexL, hexFixL]

theorem ASrc.flags_lt (x : ASrc) (hx : x.WF) : x.flags < 256 := by
  obtain ⟨_, h1, h2, _⟩ := hx
  unfold ASrc.flags; split <;> omega

theorem ASrc.encBody_eq (x : ASrc) : x.encBody = [x.version] ++ ([x.flags] ++ ([x.resv1] ++ ([x.wordCount] ++ (toBE 2 x.resv2 ++
    (toBE 2 x.size ++ (x.words.flatMap (toBE 4) ++ (x.ascii ++ ((x.callouts.map (·.enc)).getD [])))))))) := by
  simp [ASrc.encBody]

theorem Frames.getMem1 (b : Nat) : Frames (Pel.getMem 1) [b] [b] := Frames.getMem [b] (by simp)

/-- the members `decodeSRC` builds before the callout subsection -/
def srcEd (env : SrcEnv) (ascii : Text) (words : List Nat) : ErrDet :=
  let srcType := ascii.take 2
  let isBmc := srcType = s "BD" ∨ srcType = s "11"
  let isHb := srcType = s "BC"
  if isBmc ∨ isHb then errorDetails env.registry ascii words else .none

def srcMembers (T : Tables) (env : SrcEnv) (h : SecHdr) (creator : Text) (verB : Bytes) (flags wordCount : Nat) (words : List Nat)
    (ascii : Text) : List (Text × J) :=
  let srcType := ascii.take 2
  let isBmc := srcType = s "BD" ∨ srcType = s "11"
  let isHb := srcType = s "BC"
  let w (i : Nat) : Nat := words.getD i 0
  let ed : ErrDet := if isBmc ∨ isHb then errorDetails env.registry ascii words else .none
  let base : List (Text × J) := [
    kv "Section Version" (jnum h.ver), kv "Sub-section type" (jnum h.sub),
    kv "Created by" (jstr (displayCompID T h.comp creator)),
    kv "SRC Version" (jstr (ox (bytesHexL verB))),
    kv "SRC Format" (jstr (ox (fmtHex 2 (w 0 &&& 0xFF)))),
    kv "Virtual Progress SRC" (boolStr (flags &&& 0x80 != 0)),
    kv "I5/OS Service Event Bit" (boolStr (flags &&& 0x10 != 0)),
    kv "Hypervisor Dump Initiated" (boolStr (flags &&& 0x04 != 0))] ++
    (if isBmc then [kv "Backplane CCIN" (jstr (fmtHex 4 (w 1 >>> 16))),
                    kv "Terminate FW Error" (boolStr (w 3 &&& 0x20000000 != 0))] else []) ++
    (if isBmc ∨ isHb then [kv "Deconfigured" (boolStr (w 3 &&& 0x02000000 != 0)),
                           kv "Guarded" (boolStr (w 3 &&& 0x01000000 != 0))] ++ ed.members else []) ++
    [kv "Valid Word Count" (jstr (ox (fmtHex 2 wordCount))),
     kv "Reference Code" (jstr (stripSp ascii))]
  let idxs := (List.range (wordCount + 1)).drop 2
  let hexw := idxs.map fun i => (s "Hex Word " ++ natDec i, fmtHex 8 (w (i - 2)))
  base ++ hexw.map fun p => (p.1, jstr p.2)

def srcHexwords (wordCount : Nat) (words : List Nat) : List Text :=
  let w (i : Nat) : Nat := words.getD i 0
  let idxs := (List.range (wordCount + 1)).drop 2
  let hexw := idxs.map fun i => (s "Hex Word " ++ natDec i, fmtHex 8 (w (i - 2)))
  (hexw.map (·.2)) ++ List.replicate (8 - hexw.length) (s "00000000")

def srcFinish (env : SrcEnv) (creator : Text) (allowPlugins : Bool) (ascii : Text) (hexwords : List Text)
    (withCallouts : List (Text × J)) : Rd (J × Text) :=
  if allowPlugins then
    match srcDetails env creator ascii hexwords with
    | .none => pure (.obj withCallouts, stripSp ascii)
    | .some j => pure (.obj (withCallouts ++ [kv "SRC Details" j]), stripSp ascii)
    | .fail => Rd.fail .other
    | .unsupported => Rd.fail .unsupported
  else pure (.obj withCallouts, stripSp ascii)

/-- what `decodeSRC` does after the fixed part, once the registry look-up has not raised -/
def srcTail' (T : Tables) (env : SrcEnv) (h : SecHdr) (creator : Text) (allow : Bool) (verB : Bytes) (flags wordCount : Nat)
    (words : List Nat) (ascii : Text) : Rd (J × Text) :=
  if wordCount ≥ 10 then Rd.fail .other else
    ((if flags &&& 0x01 ≠ 0 then
        (decodeCallouts T env creator allow >>= fun c =>
          pure (srcMembers T env h creator verB flags wordCount words ascii ++ [kv "Callout Section" c]))
      else pure (srcMembers T env h creator verB flags wordCount words ascii)) >>=
      srcFinish env creator allow ascii (srcHexwords wordCount words))

/-- what `decodeSRC` does after the fixed part -/
def srcTail (T : Tables) (env : SrcEnv) (h : SecHdr) (creator : Text) (allow : Bool) (verB : Bytes) (flags wordCount : Nat)
    (words : List Nat) (ascii : Text) : Rd (J × Text) :=
  match srcEd env ascii words with
  | .fail => Rd.fail .other
  | .unsupported => Rd.fail .unsupported
  | _ => srcTail' T env h creator allow verB flags wordCount words ascii

theorem decodeSRC_eq (T : Tables) (env : SrcEnv) (h : SecHdr) (creator : Text) (allow : Bool) :
    decodeSRC T env h creator allow =
      (getMem 1 >>= fun verB => getInt 1 >>= fun flags => getInt 1 >>= fun _ => getInt 1 >>= fun wordCount =>
        getInt 2 >>= fun _ => getInt 2 >>= fun _ => getInts 4 8 >>= fun words => getText 32 >>= fun ascii =>
        srcTail T env h creator allow verB flags wordCount words ascii) := by
  unfold decodeSRC srcTail srcTail' srcEd
  simp only [ite_bind]
  rfl

/-- the members `renderSrc` prescribes before the callout subsection -/
def srcSpecMembers (T : Tables) (env : SrcEnv) (h : AHdr) (creator : Text) (x : ASrc) : List (Text × J) :=
  let w (i : Nat) : Nat := x.words.getD i 0
  let ty := x.ascii.take 2
  let isBmc := ty = s "BD" ∨ ty = s "11"
  let isHb := ty = s "BC"
  hdrMembers T h creator "Created by" ++ [
    kv "SRC Version" (jstr (ox (hexFixL 2 x.version))),
    kv "SRC Format" (jstr (ox (hexFix 2 (w 0 % 256)))),
    kv "Virtual Progress SRC" (boolStr (x.flags / 128 % 2 = 1)),
    kv "I5/OS Service Event Bit" (boolStr (x.flags / 16 % 2 = 1)),
    kv "Hypervisor Dump Initiated" (boolStr (x.flags / 4 % 2 = 1))] ++
    (if isBmc then [kv "Backplane CCIN" (jstr (hexFix 4 (w 1 / 65536))),
                    kv "Terminate FW Error" (boolStr (w 3 / 2^29 % 2 = 1))] else []) ++
    (if isBmc ∨ isHb then [kv "Deconfigured" (boolStr (w 3 / 2^25 % 2 = 1)),
                           kv "Guarded" (boolStr (w 3 / 2^24 % 2 = 1))] ++
                          (match errorDetails env.registry x.ascii x.words with
                            | .some ms => [kv "Error Details" (.obj ms)]
                            | _ => []) else []) ++
    [kv "Valid Word Count" (jstr (ox (hexFix 2 x.wordCount))),
     kv "Reference Code" (jstr (stripSp x.ascii))] ++
    (((List.range (x.wordCount + 1)).drop 2).map fun i => (s "Hex Word " ++ natDec i, jstr (hexFix 8 (w (i - 2)))))

def srcSpecHexwords (x : ASrc) : List Text :=
  let w (i : Nat) : Nat := x.words.getD i 0
  let hexw := ((List.range (x.wordCount + 1)).drop 2).map fun i => hexFix 8 (w (i - 2))
  hexw ++ List.replicate (8 - hexw.length) (s "00000000")

theorem renderSrc_eq (T : Tables) (env : SrcEnv) (h : AHdr) (creator : Text) (allow : Bool) (x : ASrc) :
    renderSrc T env h creator allow x = .obj (srcSpecMembers T env h creator x ++
      (match x.callouts with
        | none => []
        | some cs => [kv "Callout Section" (.obj [kv "Callout Count" (jnum cs.callouts.length),
            kv "Callouts" (.arr (cs.callouts.map (renderCallout T env creator allow)))])]) ++
      (if allow then
        (match srcDetails env creator x.ascii (srcSpecHexwords x) with
          | .some j => [kv "SRC Details" j]
          | _ => [])
       else [])) := rfl

theorem srcDisplayable_eq (env : SrcEnv) (creator : Text) (allow : Bool) (x : ASrc) :
    srcDisplayable env creator allow x =
      (registryDisplayable env x &&
      (if !allow then true else
        match srcDetails env creator x.ascii (srcSpecHexwords x) with
        | .fail => false
        | .unsupported => false
        | _ => true)) := rfl

theorem ErrDet.members_eq (e : ErrDet) :
    e.members = (match e with | .some ms => [kv "Error Details" (.obj ms)] | _ => []) := by
  cases e <;> rfl

/-- a displayable SRC passes the registry step -/
theorem srcTail_of_displayable (T : Tables) (env : SrcEnv) (h : SecHdr) (creator : Text) (allow : Bool) (verB : Bytes)
    (flags : Nat) (x : ASrc) (hd : registryDisplayable env x = true) :
    srcTail T env h creator allow verB flags x.wordCount x.words x.ascii =
      srcTail' T env h creator allow verB flags x.wordCount x.words x.ascii := by
  unfold srcTail srcEd
  unfold registryDisplayable at hd
  simp only [← or_assoc] at hd
  split at hd
  · rw [if_pos (by assumption)]
    cases he : errorDetails env.registry x.ascii x.words <;> rw [he] at hd <;> simp at hd <;> rfl
  · rw [if_neg (by assumption)]

theorem srcTail_strict (T : Tables) (env : SrcEnv) (h : SecHdr) (creator : Text) (allow : Bool) (verB : Bytes)
    (flags wordCount : Nat) (words : List Nat) (ascii : Text) (a : Bytes)
    (hs : Strict (srcTail' T env h creator allow verB flags wordCount words ascii) a) :
    Strict (srcTail T env h creator allow verB flags wordCount words ascii) a := by
  unfold srcTail
  cases srcEd env ascii words with
  | none => exact hs
  | some ms => exact hs
  | fail => intro k _; exact ⟨_, rfl⟩
  | unsupported => intro k _; exact ⟨_, rfl⟩

theorem and_0x80 (n : Nat) : (n &&& 0x80 != 0) = decide (n / 128 % 2 = 1) := and_pow_ne_zero n 7
theorem and_0x10 (n : Nat) : (n &&& 0x10 != 0) = decide (n / 16 % 2 = 1) := and_pow_ne_zero n 4
theorem and_0x04 (n : Nat) : (n &&& 0x04 != 0) = decide (n / 4 % 2 = 1) := and_pow_ne_zero n 2
theorem and_bit29 (n : Nat) : (n &&& 0x20000000 != 0) = decide (n / 2^29 % 2 = 1) := and_pow_ne_zero n 29
theorem and_bit25 (n : Nat) : (n &&& 0x02000000 != 0) = decide (n / 2^25 % 2 = 1) := and_pow_ne_zero n 25
theorem and_bit24 (n : Nat) : (n &&& 0x01000000 != 0) = decide (n / 2^24 % 2 = 1) := and_pow_ne_zero n 24
theorem and_0xFF (n : Nat) : n &&& 0xFF = n % 256 := Nat.and_two_pow_sub_one_eq_mod n 8
theorem shr16 (n : Nat) : n >>> 16 = n / 65536 := Nat.shiftRight_eq_div_pow n 16

theorem getD_lt (ws : List Nat) (b : Nat) (hb : 0 < b) (h : ∀ w ∈ ws, w < b) (i : Nat) : ws.getD i 0 < b := by
  rw [List.getD_eq_getElem?_getD]
  cases hi : ws[i]? with
  | none => simpa using hb
  | some v => simpa using h v (List.mem_of_getElem? hi)

theorem srcMembers_eq (T : Tables) (env : SrcEnv) (h : AHdr) (creator : Text) (x : ASrc) (hx : x.WF) (id len : Nat) :
    srcMembers T env (mkSecHdr id len h) creator [x.version] x.flags x.wordCount x.words x.ascii = srcSpecMembers T env h creator x := by
  obtain ⟨hv, hfh, hev, hr1, hwc, hr2, hsz, hwl, hwb, hal, haa, hcs⟩ := hx
  have hw : ∀ i, x.words.getD i 0 < 2^32 := getD_lt x.words _ (by omega) hwb
  unfold srcMembers srcSpecMembers
  simp only [bytesHexL_single, and_0x80, and_0x10, and_0x04, and_bit29, and_bit25, and_bit24, and_0xFF, shr16, List.map_map,
    ErrDet.members_eq]
  rw [fmtHex_eq_hexFix 2 (x.words.getD 0 0 % 256) (by omega) (by omega),
    fmtHex_eq_hexFix 4 (x.words.getD 1 0 / 65536) (by have := hw 1; omega) (by omega),
    fmtHex_eq_hexFix 2 x.wordCount (by omega) (by omega)]
  have e : (List.drop 2 (List.range (x.wordCount + 1))).map
        ((fun p : Text × Text => (p.1, jstr p.2)) ∘ fun i => (s "Hex Word " ++ natDec i, fmtHex 8 (x.words.getD (i - 2) 0))) =
      (List.drop 2 (List.range (x.wordCount + 1))).map
        (fun i => (s "Hex Word " ++ natDec i, jstr (hexFix 8 (x.words.getD (i - 2) 0)))) := by
    apply List.map_congr_left
    intro i _
    simp only [Function.comp]
    rw [fmtHex_eq_hexFix 8 _ (by have := hw (i - 2); omega) (by omega)]
  rw [e]
  by_cases hc : (List.take 2 x.ascii = s "BD" ∨ List.take 2 x.ascii = s "11") ∨ List.take 2 x.ascii = s "BC"
  · simp only [if_pos hc]; rfl
  · simp only [if_neg hc]; rfl

theorem srcHexwords_eq (x : ASrc) (hx : x.WF) : srcHexwords x.wordCount x.words = srcSpecHexwords x := by
  obtain ⟨hv, hfh, hev, hr1, hwc, hr2, hsz, hwl, hwb, hal, haa, hcs⟩ := hx
  have hw : ∀ i, x.words.getD i 0 < 2^32 := getD_lt x.words _ (by omega) hwb
  unfold srcHexwords srcSpecHexwords
  simp only [List.map_map, List.length_map]
  have e : (List.drop 2 (List.range (x.wordCount + 1))).map
        ((fun p : Text × Text => p.2) ∘ fun i => (s "Hex Word " ++ natDec i, fmtHex 8 (x.words.getD (i - 2) 0))) =
      (List.drop 2 (List.range (x.wordCount + 1))).map (fun i => hexFix 8 (x.words.getD (i - 2) 0)) := by
    apply List.map_congr_left
    intro i _
    simp only [Function.comp]
    rw [fmtHex_eq_hexFix 8 _ (by have := hw (i - 2); omega) (by omega)]
  rw [e]

theorem srcFinish_ok (env : SrcEnv) (creator : Text) (allow : Bool) (x : ASrc)
    (hd : srcDisplayable env creator allow x = true) (L : List (Text × J)) (st : Bytes) :
    srcFinish env creator allow x.ascii (srcSpecHexwords x) L st =
      .ok ((.obj (L ++ (if allow then
        (match srcDetails env creator x.ascii (srcSpecHexwords x) with
          | .some j => [kv "SRC Details" j]
          | _ => [])
       else [])), stripSp x.ascii), st) := by
  rw [srcDisplayable_eq, Bool.and_eq_true] at hd
  replace hd := hd.2
  unfold srcFinish
  cases allow with
  | false => simp; rfl
  | true =>
    simp only [if_true] at hd ⊢
    cases hs : srcDetails env creator x.ascii (srcSpecHexwords x) with
    | none => simp; rfl
    | some j => rfl
    | fail => rw [hs] at hd; simp at hd
    | unsupported => rw [hs] at hd; simp at hd

theorem ASrc.flags_and1 (x : ASrc) (hx : x.WF) : x.flags &&& 0x01 ≠ 0 ↔ x.callouts.isSome = true := by
  have hev := hx.2.2.1
  rw [Nat.and_one_is_mod]
  unfold ASrc.flags
  cases x.callouts <;> simp <;> omega

/-- the fixed part of the SRC section frames its encoding -/
theorem srcFixed_exact (T : Tables) (env : SrcEnv) (hdr : SecHdr) (creator : Text) (allow : Bool) (x : ASrc) (hx : x.WF)
    (rest : Bytes) :
    decodeSRC T env hdr creator allow (x.encBody ++ rest) =
      srcTail T env hdr creator allow [x.version] x.flags x.wordCount x.words x.ascii
        ((x.callouts.map (·.enc)).getD [] ++ rest) := by
  have hfl := x.flags_lt hx
  obtain ⟨hv, hfh, hev, hr1, hwc, hr2, hsz, hwl, hwb, hal, haa, hcs⟩ := hx
  rw [x.encBody_eq, decodeSRC_eq]
  simp only [List.append_assoc]
  have h8 : Frames (getInts 4 8) (x.words.flatMap (toBE 4)) x.words := by
    have := Frames.getInts 4 (by omega) x.words (fun v hv => by have := hwb v hv; omega)
    rwa [hwl] at this
  rw [(Frames.getMem1 x.version).bind_exact, (Frames.getInt1 _ hfl).bind_exact, (Frames.getInt1 _ hr1).bind_exact,
    (Frames.getInt1 _ (by omega : x.wordCount < 256)).bind_exact, (Frames.getInt 2 _ (by omega) (by omega)).bind_exact,
    (Frames.getInt 2 _ (by omega) (by omega)).bind_exact, h8.bind_exact,
    (Frames.getText' 32 _ hal (by omega) haa).bind_exact]

theorem srcFixed_strict (T : Tables) (env : SrcEnv) (hdr : SecHdr) (creator : Text) (allow : Bool) (x : ASrc) (hx : x.WF)
    (hs : Strict (srcTail T env hdr creator allow [x.version] x.flags x.wordCount x.words x.ascii)
      ((x.callouts.map (·.enc)).getD [])) :
    Strict (decodeSRC T env hdr creator allow) x.encBody := by
  have hfl := x.flags_lt hx
  obtain ⟨hv, hfh, hev, hr1, hwc, hr2, hsz, hwl, hwb, hal, haa, hcs⟩ := hx
  rw [x.encBody_eq, decodeSRC_eq]
  have h8 : Frames (getInts 4 8) (x.words.flatMap (toBE 4)) x.words := by
    have := Frames.getInts 4 (by omega) x.words (fun v hv => by have := hwb v hv; omega)
    rwa [hwl] at this
  refine Strict.bind (Frames.getMem1 x.version) ?_
  refine Strict.bind (Frames.getInt1 _ hfl) ?_
  refine Strict.bind (Frames.getInt1 _ hr1) ?_
  refine Strict.bind (Frames.getInt1 _ (by omega : x.wordCount < 256)) ?_
  refine Strict.bind (Frames.getInt 2 _ (by omega) (by omega)) ?_
  refine Strict.bind (Frames.getInt 2 _ (by omega) (by omega)) ?_
  refine Strict.bind h8 ?_
  refine Strict.bind (Frames.getText' 32 _ hal (by omega) haa) ?_
  exact hs

/-- ★ exactness: a well-formed SRC body is consumed exactly and displayed as the property prescribes, whatever follows -/
theorem exact_SRC (T : Tables) (env : SrcEnv) (h : AHdr) (creator : Text) (allow : Bool) (x : ASrc) (hx : x.WF)
    (id len : Nat) (hd : srcDisplayable env creator allow x = true) (rest : Bytes) :
    decodeSRC T env (mkSecHdr id len h) creator allow (x.encBody ++ rest) =
      .ok ((renderSrc T env h creator allow x, stripSp x.ascii), rest) := by
  have hreg : registryDisplayable env x = true := by
    rw [srcDisplayable_eq, Bool.and_eq_true] at hd; exact hd.1
  rw [srcFixed_exact T env _ creator allow x hx rest, renderSrc_eq, srcTail_of_displayable T env _ creator allow _ _ x hreg]
  unfold srcTail'
  rw [if_neg (by have := hx.2.2.2.2.1; omega), srcMembers_eq T env h creator x hx id len, srcHexwords_eq x hx]
  have hfl := x.flags_and1 hx
  have hcs := hx.2.2.2.2.2.2.2.2.2.2.2
  cases hc : x.callouts with
  | none =>
    rw [hc] at hfl
    rw [if_neg (by simpa using hfl)]
    show srcFinish env creator allow x.ascii (srcSpecHexwords x) _ _ = _
    rw [srcFinish_ok env creator allow x hd]
    simp
  | some cs =>
    rw [hc] at hfl
    rw [if_pos (by simpa using hfl)]
    show ((decodeCallouts T env creator allow >>= _) >>= _) (cs.enc ++ rest) = _
    rw [bind_ok _ _ _ _ _ (bind_ok _ _ _ _ _ (decodeCallouts_exact T env creator allow cs (hcs cs (by simp [hc])) rest))]
    show srcFinish env creator allow x.ascii (srcSpecHexwords x) _ _ = _
    rw [srcFinish_ok env creator allow x hd]

/-- strictness for an SRC without a callout subsection -/
theorem strict_SRC_nocallouts (T : Tables) (env : SrcEnv) (h : AHdr) (creator : Text) (allow : Bool) (x : ASrc) (hx : x.WF)
    (id len : Nat) (hno : x.callouts = none) (k : Nat) (hk : k < x.encBody.length) :
    ∃ e, decodeSRC T env (mkSecHdr id len h) creator allow (x.encBody.take k) = .error e := by
  refine srcFixed_strict T env _ creator allow x hx ?_ k hk
  rw [hno]
  exact Strict.nil _

/-! ### strictness with callouts: behaviour on proper prefixes -/

theorem take_append_cases (a b : Bytes) (k : Nat) :
    (k < a.length ∧ (a ++ b).take k = a.take k) ∨ (a.length ≤ k ∧ (a ++ b).take k = a ++ b.take (k - a.length)) := by
  by_cases h : k < a.length
  · left; refine ⟨h, ?_⟩
    rw [List.take_append]; simp [Nat.sub_eq_zero_of_le (Nat.le_of_lt h)]
  · right; refine ⟨Nat.le_of_not_lt h, ?_⟩
    rw [List.take_append]; simp [List.take_of_length_le (Nat.le_of_not_lt h)]

/-- on a proper prefix `r` fails or yields a result satisfying `P` -/
def Pre {α} (P : α → Bytes → Prop) (r : Rd α) (a : Bytes) : Prop :=
  ∀ k, k < a.length → (∃ e, r (a.take k) = .error e) ∨ (∃ x st, r (a.take k) = .ok (x, st) ∧ P x st)

theorem Pre.bind {α β} {P : β → Bytes → Prop} {r : Rd α} {f : α → Rd β} {a b : Bytes} {x : α}
    (hr : Frames r a x) (hf : Pre P (f x) b) : Pre P (r >>= f) (a ++ b) := by
  intro k hk
  rcases take_append_cases a b k with ⟨h, e⟩ | ⟨h, e⟩
  · obtain ⟨er, he⟩ := hr.strict k h
    left; refine ⟨er, ?_⟩
    rw [e, bind_err r f _ er he]
  · have hk' : k - a.length < b.length := by simp at hk; omega
    rw [e, bind_ok r f _ _ x (hr.exact _)]
    exact hf _ hk'

def subAcc (f : Option Fru) (p : Option Pce) (m : Option Mru) : Nat :=
  (f.map (·.flatSize)).getD 0 + (p.map (·.declaredSize)).getD 0 + (m.map (·.declaredSize)).getD 0

/-- outcome of the substructure walk on a cut callout: failure, or an early exit below the declared size with
    at most one byte left over -/
def SubsPost (base size : Nat) (r : Except Err ((Option Fru × Option Pce × Option Mru) × Bytes)) : Prop :=
  (∃ e, r = .error e) ∨ (∃ f p m st, r = .ok ((f, p, m), st) ∧ base + subAcc f p m < size ∧ st.length ≤ 1)

theorem cut_stop (fuel size cur : Nat) (f : Option Fru) (p : Option Pce) (m : Option Mru) (enc : Bytes) (b0 : Nat) (tl : Bytes)
    (he : enc = b0 :: tl) (hb : b0 < 256) (k : Nat) (hk : k ≤ 1) (base : Nat) (hcur : cur = base + subAcc f p m)
    (hs : size > cur) : SubsPost base size (readSubs fuel size cur f p m (enc.take k)) := by
  have hlt : fromBE ((enc.take k).take 2) < 256 ∧ (enc.take k).length ≤ 1 := by
    subst he
    match k, hk with
    | 0, _ => simp [fromBE]
    | 1, _ => simp [fromBE]; exact hb
  rw [readSubs_other _ _ _ _ _ _ _ (by omega) (by omega) (by omega)]
  right
  exact ⟨f, p, m, _, rfl, by omega, hlt.2⟩

theorem take2_take (l : Bytes) (k : Nat) (hk : 2 ≤ k) : (l.take k).take 2 = l.take 2 := by
  rw [List.take_take, Nat.min_eq_left hk]

theorem subs_mru_pre (m : AMru) (hm : m.WF) (fuel k : Nat) (hf : k + 1 ≤ fuel) (hk : k < m.enc.length) (size cur base : Nat)
    (hs : size = cur + m.size) (f : Option Fru) (p : Option Pce) (hcur : cur = base + subAcc f p none) :
    SubsPost base size (readSubs fuel size cur f p none (m.enc.take k)) := by
  have hsz := m.size_lt hm
  by_cases h1 : k ≤ 1
  · exact cut_stop fuel size cur f p none m.enc 0x4D _ (by simp [AMru.enc]; rfl) (by omega) k h1 base hcur (by omega)
  · obtain ⟨n, rfl⟩ : ∃ n, fuel = n + 1 := ⟨fuel - 1, by omega⟩
    have hp : fromBE ((m.enc.take k).take 2) = 0x4D52 := by
      rw [take2_take _ _ (by omega)]; simpa using peek_mru m []
    obtain ⟨e, he⟩ := (Frames.readMru m hm).strict k hk
    left; refine ⟨e, ?_⟩
    rw [readSubs_mru _ _ _ _ _ _ _ (by omega) hp, bind_err _ _ _ e he]

theorem subs_mruo_pre (mo : Option AMru) (hm : ∀ m ∈ mo, m.WF) (fuel k : Nat) (hf : k + 1 ≤ fuel)
    (hk : k < ((mo.map (·.enc)).getD []).length) (size cur base : Nat)
    (hs : size = cur + (mo.map (·.size)).getD 0) (f : Option Fru) (p : Option Pce) (hcur : cur = base + subAcc f p none) :
    SubsPost base size (readSubs fuel size cur f p none (((mo.map (·.enc)).getD []).take k)) := by
  cases mo with
  | none => simp at hk
  | some m => exact subs_mru_pre m (hm m rfl) fuel k hf hk size cur base (by simpa using hs) f p hcur

theorem subs_pce_pre (po : Option APce) (hp : ∀ p ∈ po, p.WF) (mo : Option AMru) (hm : ∀ m ∈ mo, m.WF) (fuel k : Nat)
    (hf : k + 1 ≤ fuel) (hk : k < ((po.map (·.enc)).getD [] ++ (mo.map (·.enc)).getD []).length) (size cur base : Nat)
    (hs : size = cur + (po.map (·.size)).getD 0 + (mo.map (·.size)).getD 0) (f : Option Fru)
    (hcur : cur = base + subAcc f none none) :
    SubsPost base size (readSubs fuel size cur f none none (((po.map (·.enc)).getD [] ++ (mo.map (·.enc)).getD []).take k)) := by
  cases po with
  | none =>
    simp only [Option.map_none, Option.getD_none, List.nil_append] at hk ⊢
    exact subs_mruo_pre mo hm fuel k hf hk size cur base (by simpa using hs) f none hcur
  | some p =>
    have hw := hp p rfl
    have hsz := p.size_lt hw
    simp only [Option.map_some, Option.getD_some] at hk hs ⊢
    rcases take_append_cases p.enc ((mo.map (·.enc)).getD []) k with ⟨h, e⟩ | ⟨h, e⟩
    · rw [e]
      by_cases h1 : k ≤ 1
      · exact cut_stop fuel size cur f none none p.enc 0x50 _ (by simp [APce.enc]; rfl) (by omega) k h1 base hcur (by omega)
      · obtain ⟨n, rfl⟩ : ∃ n, fuel = n + 1 := ⟨fuel - 1, by omega⟩
        have hpk : fromBE ((p.enc.take k).take 2) = 0x5045 := by
          rw [take2_take _ _ (by omega)]; simpa using peek_pce p []
        obtain ⟨er, he⟩ := (Frames.readPce p hw).strict k h
        left; refine ⟨er, ?_⟩
        rw [readSubs_pce _ _ _ _ _ _ _ (by omega) hpk, bind_err _ _ _ er he]
    · rw [e]
      have hl : 4 ≤ p.enc.length := by simp [APce.enc]
      obtain ⟨n, rfl⟩ : ∃ n, fuel = n + 1 := ⟨fuel - 1, by omega⟩
      rw [readSubs_pce _ _ _ _ _ _ _ (by omega) (peek_pce p _), (Frames.readPce p hw).bind_exact]
      refine subs_mruo_pre mo hm n (k - p.enc.length) (by omega) (by simp at hk; omega) size _ base ?_ f _ ?_
      · simp [pceOf]; omega
      · simp [subAcc, pceOf] at hcur ⊢; omega

theorem subs_fru_pre (fr : AFru) (hfr : fr.WF) (po : Option APce) (hp : ∀ p ∈ po, p.WF) (mo : Option AMru) (hm : ∀ m ∈ mo, m.WF)
    (fuel k : Nat) (hf : k + 1 ≤ fuel)
    (hk : k < (fr.enc ++ ((po.map (·.enc)).getD [] ++ (mo.map (·.enc)).getD [])).length) (size cur : Nat)
    (hs : size = cur + fr.size + (po.map (·.size)).getD 0 + (mo.map (·.size)).getD 0) :
    SubsPost cur size (readSubs fuel size cur none none none
      ((fr.enc ++ ((po.map (·.enc)).getD [] ++ (mo.map (·.enc)).getD [])).take k)) := by
  have hsz : 4 ≤ fr.size := by unfold AFru.size; omega
  rcases take_append_cases fr.enc ((po.map (·.enc)).getD [] ++ (mo.map (·.enc)).getD []) k with ⟨h, e⟩ | ⟨h, e⟩
  · rw [e]
    by_cases h1 : k ≤ 1
    · exact cut_stop fuel size cur none none none fr.enc 0x49 _ (by simp [AFru.enc]; rfl) (by omega) k h1 cur
        (by simp [subAcc]) (by omega)
    · obtain ⟨n, rfl⟩ : ∃ n, fuel = n + 1 := ⟨fuel - 1, by omega⟩
      have hpk : fromBE ((fr.enc.take k).take 2) = 0x4944 := by
        rw [take2_take _ _ (by omega)]; simpa using peek_fru fr []
      obtain ⟨er, he⟩ := (Frames.readFru fr hfr).strict k h
      left; refine ⟨er, ?_⟩
      rw [readSubs_fru _ _ _ _ _ _ _ (by omega) hpk, bind_err _ _ _ er he]
  · rw [e]
    have hl := fr.enc_length_ge
    obtain ⟨n, rfl⟩ : ∃ n, fuel = n + 1 := ⟨fuel - 1, by omega⟩
    rw [readSubs_fru _ _ _ _ _ _ _ (by omega) (peek_fru fr _), (Frames.readFru fr hfr).bind_exact]
    refine subs_pce_pre po hp mo hm n (k - fr.enc.length) (by omega) (by simp at hk; simp; omega) size _ cur ?_ _ ?_
    · simp [fruOf]; omega
    · simp [subAcc, fruOf]

theorem ACallout.enc_eq' (c : ACallout) : c.enc = [c.size] ++ ([c.flags] ++ ([c.priority] ++ ([c.loc.length] ++ (c.loc ++
    (c.fru.enc ++ ((c.pce.map (·.enc)).getD [] ++ (c.mru.map (·.enc)).getD [])))))) := by
  simp [ACallout.enc]

/-- a cut callout is rejected, or read with a flattened size below the declared one leaving at most one byte -/
theorem readCallout_pre (c : ACallout) (hc : c.WF) :
    Pre (fun c' st' => c'.flattenedSize < c.size ∧ st'.length ≤ 1) readCallout c.enc := by
  obtain ⟨hfl, hpr, hll, hla, hfr, hp, hm, hsz⟩ := hc
  have hl256 : c.loc.length < 256 := by omega
  rw [c.enc_eq']; unfold readCallout
  refine Pre.bind (Frames.getInt1 _ hsz) ?_
  refine Pre.bind (Frames.getInt1 _ hfl) ?_
  refine Pre.bind (Frames.getInt1 _ hpr) ?_
  refine Pre.bind (Frames.getInt1 _ hl256) ?_
  dsimp only
  rw [ite_bind]
  refine Pre.bind (Frames.loc _ c.loc rfl hla) ?_
  intro k hk
  rw [bind_ok remaining _ _ _ _ rfl]
  have hlen : ((c.fru.enc ++ ((c.pce.map (·.enc)).getD [] ++ (c.mru.map (·.enc)).getD [])).take k).length = k := by
    rw [List.length_take]; omega
  rw [hlen]
  rcases subs_fru_pre c.fru hfr c.pce hp c.mru hm (k + 1) k (by omega) hk c.size (4 + c.loc.length)
    (by unfold ACallout.size; omega) with ⟨e, he⟩ | ⟨f, p, m, st, he, hlt, hst⟩
  · left; exact ⟨e, by rw [bind_err _ _ _ e he]⟩
  · right
    refine ⟨_, st, by rw [bind_ok _ _ _ _ _ he]; rfl, ?_, hst⟩
    simp only [Callout.flattenedSize, subAcc] at hlt ⊢
    omega

theorem readCallout_short (st : Bytes) (h : st.length ≤ 1) : ∃ e, readCallout st = .error e := by
  match st, h with
  | [], _ => exact ⟨.range, rfl⟩
  | [b], _ => exact ⟨.range, rfl⟩

theorem readCallouts_pre (cs : List ACallout) (hcs : ∀ c ∈ cs, c.WF) (fuel total cur k : Nat)
    (hf : k + 1 ≤ fuel) (ht : total = cur + (cs.map (·.size)).sum) (hk : k < (cs.flatMap (·.enc)).length) :
    ∃ e, readCallouts fuel total cur ((cs.flatMap (·.enc)).take k) = .error e := by
  induction cs generalizing fuel cur k with
  | nil => simp at hk
  | cons c r ih =>
    obtain ⟨n, rfl⟩ : ∃ n, fuel = n + 1 := ⟨fuel - 1, by omega⟩
    have hc := hcs c (by simp)
    have hr : ∀ c ∈ r, c.WF := fun x hx => hcs x (by simp [hx])
    have hge := c.size_ge
    have hnn : 0 ≤ (r.map (·.size)).sum := Nat.zero_le _
    simp only [List.map_cons, List.sum_cons] at ht
    simp only [List.flatMap_cons] at hk ⊢
    rw [readCallouts, if_pos (by omega)]
    rcases take_append_cases c.enc (r.flatMap (·.enc)) k with ⟨h, e⟩ | ⟨h, e⟩
    · rw [e]
      rcases readCallout_pre c hc k h with ⟨er, he⟩ | ⟨c', st', he, hlt, hst⟩
      · exact ⟨er, by rw [bind_err _ _ _ er he]⟩
      · rw [bind_ok _ _ _ _ _ he]
        have hk1 : 1 ≤ k := by
          rcases Nat.eq_zero_or_pos k with h0 | h0
          · subst h0
            rw [List.take_zero] at he
            obtain ⟨e0, he0⟩ := readCallout_short [] (by simp)
            rw [he0] at he; cases he
          · exact h0
        obtain ⟨m, rfl⟩ : ∃ m, n = m + 1 := ⟨n - 1, by omega⟩
        obtain ⟨e2, he2⟩ := readCallout_short st' hst
        refine ⟨e2, ?_⟩
        rw [bind_err _ _ _ e2 (show readCallouts (m+1) total (cur + c'.flattenedSize) st' = .error e2 by
          rw [readCallouts, if_pos (by omega), bind_err _ _ _ e2 he2])]
    · rw [e, bind_ok _ _ _ _ _ (readCallout_exact c hc _), calloutOf_flattenedSize]
      have hl : 4 ≤ c.enc.length := by simp [ACallout.enc]
      obtain ⟨e2, he2⟩ := ih hr n (cur + c.size) (k - c.enc.length) (by omega) (by omega)
        (by rw [List.length_append] at hk; omega)
      exact ⟨e2, by rw [bind_err _ _ _ e2 he2]⟩

theorem decodeCallouts_strict (T : Tables) (env : SrcEnv) (creator : Text) (allow : Bool) (cs : ACalloutSec) (hcs : cs.WF) :
    Strict (decodeCallouts T env creator allow) cs.enc := by
  obtain ⟨hid, hfl, hwf, hmod, hlen⟩ := hcs
  have e : cs.enc = [cs.subId] ++ ([cs.subFlags] ++ (toBE 2 (cs.total / 4) ++ cs.callouts.flatMap (·.enc))) := by
    simp [ACalloutSec.enc]
  rw [e]; unfold decodeCallouts
  refine Strict.bind (Frames.getInt1 _ hid) ?_
  refine Strict.bind (Frames.getInt1 _ hfl) ?_
  refine Strict.bind (Frames.getInt 2 _ (by omega) (by omega)) ?_
  intro k hk
  rw [bind_ok remaining _ _ _ _ rfl]
  have hlen' : ((cs.callouts.flatMap (·.enc)).take k).length = k := by
    rw [List.length_take]; omega
  rw [hlen']
  obtain ⟨e2, he2⟩ := readCallouts_pre cs.callouts hwf (k + 1) (cs.total / 4 * 4) 4 k (by omega)
    (by unfold ACalloutSec.total at hmod ⊢; omega) hk
  exact ⟨e2, by rw [bind_err _ _ _ e2 he2]⟩

/-- STRETCH: strictness also with callouts (every proper prefix is rejected: a callout cut short makes the walk
    leave it early, the accumulated length stays below the declared one, and the next read meets too few bytes) -/
theorem strict_SRC (T : Tables) (env : SrcEnv) (h : AHdr) (creator : Text) (allow : Bool) (x : ASrc) (hx : x.WF)
    (id len : Nat) (k : Nat) (hk : k < x.encBody.length) :
    ∃ e, decodeSRC T env (mkSecHdr id len h) creator allow (x.encBody.take k) = .error e := by
  refine srcFixed_strict T env _ creator allow x hx ?_ k hk
  have hfl := x.flags_and1 hx
  have hcs := hx.2.2.2.2.2.2.2.2.2.2.2
  cases hc : x.callouts with
  | none => exact Strict.nil _
  | some cs =>
    rw [hc] at hfl
    apply srcTail_strict
    unfold srcTail'
    rw [if_neg (by have := hx.2.2.2.2.1; omega), if_pos (by simpa using hfl)]
    exact Strict.bind_left _ (Strict.bind_left _ (decodeCallouts_strict T env creator allow cs (hcs cs (by simp [hc]))))

end Pel
