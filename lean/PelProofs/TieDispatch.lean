import PelGen.GenDispatch
import PelProofs.FramesDefs
/-
  Helper lemmas and proof scripts of the source tie of stream `dispatch` (harness/trans_dispatch.py → PelGen/GenDispatch.lean):
  PelProps/TieC01.lean (sectionFun, the generate* wrappers, the section loop of parsePEL) and PelProps/TieC18.lean (m2c00 routing,
  osrc look-up, module names, getMaintProcDesc).

  The tie theorems say `generated definition = model function`.  The scripts first try `rfl`; the fall-backs split every `if` /
  `match` of the generated side, let `simp_all` decide the conditions of the model side from the hypotheses of the case, and
  compare what is left (functor / monad laws, string literals evaluated to code points).  They make the proofs survive HARMLESS
  rewrites (branches with disjoint tests in another order, a test written the other way round, a message split differently into
  literals); they can never prove a wrong equation: the kernel checks the result.
-/
set_option linter.unusedSimpArgs false
namespace Pel.TieAux

theorem lower_o : (s "o").map toLowerAscii = s "o" := by decide

/-- the dotted module name determines the short name the model's environments are indexed by -/
theorem modPath_injective (pkg a b : Text) (h : modPath pkg a = modPath pkg b) : a = b := by
  unfold modPath at h
  simp only [List.append_assoc, List.append_cancel_left_eq] at h
  have hl : a.length = b.length := by
    have := congrArg List.length h
    simp only [List.length_append, List.length_cons, List.length_nil] at this
    omega
  exact (List.append_inj h hl).1

/-- one iteration of the section loop: header, `sectionFun`, the member stored under the section's name -/
theorem decodeOne_eq (env : Env) (creator : Text) :
    decodeOne env creator = parseHeader >>= fun h => namedBy env.T h (Prod.fst <$> decodeSection env creator h) := by
  unfold decodeOne namedBy
  simp only [map_eq_pure_bind, bind_assoc, pure_bind]

/-- the model's recursive section loop is the counted loop over `decodeOne` -/
theorem decodeSections_eq_collect (env : Env) (creator : Text) (n : Nat) :
    decodeSections env creator n = Rd.collect (decodeOne env creator) n := by
  induction n with
  | zero => rfl
  | succ n ih =>
    simp only [decodeSections, Rd.collect, decodeOne, ih, bind_assoc, pure_bind]

end Pel.TieAux

open Pel in
/-- case analysis on the generated side, the model side decided from the hypotheses of each case -/
macro "tie_split" : tactic => `(tactic|
  (repeat' split
   all_goals first
     | with_reducible rfl
     | (simp_all [bind_assoc, map_pure, pure_bind, bind_pure_comp, Functor.map_map, Option.map]; done)
     | (simp_all [bind_assoc, map_pure, pure_bind, bind_pure_comp, Functor.map_map, Option.map, s]; done)))

/-- close `generated = model` after both sides are unfolded; the second attempt first brings `a = b` / `a == b` / `∨` / `∧` into one
    orientation on both sides (a test written the other way round) -/
macro "tie_cases" : tactic => `(tactic| first
  | tie_split
  | (simp only [or_comm, and_comm, eq_comm, BEq.comm]; tie_split))
