import PelModel.TransSrc
import PelProofs.TieSections
import PelProofs.FramesSrc
/-
  Helper lemmas and proof scripts of the source tie of the SRC section (PelProps/TieC03.lean).
  `harness/trans_src.py` renders the loops of src.py with the combinators of PelModel/TransSrc.lean (`rdRepeat`, `rdWhile`,
  `forRangeRd`, `padTo`); the lemmas here relate each combinator, instantiated with the loop body the source has, to the
  recursive function of PelModel/Src.lean that the model uses for that loop.  The loop bodies are HYPOTHESES of the lemmas
  (`hB : ∀ st, B st = <canonical body>`), discharged in the tie by comparing the generated body with the canonical one.
-/
namespace Pel.TieSrc
open Pel Pel.TieAux

theorem peek2_eq : peek2 = peekInt 2 := rfl

/-! ### `for _ in range(n): mrus.append(MRUCallout(get_int(4), get_int(4)))` -/

theorem rdRepeat_mru (r : Rd (Nat × Nat)) (hr : r = (getInt 4 >>= fun p => getInt 4 >>= fun i => pure (p, i))) :
    ∀ n, rdRepeat r n = readMruItems n := by
  subst hr
  intro n
  induction n with
  | zero => rfl
  | succ n ih =>
    unfold rdRepeat readMruItems
    simp only [bind_assoc, pure_bind, ih]

/-! ### the substructure walk of `Callout.__init__` -/

abbrev SubsSt := Option Fru × Option Pce × Option Mru × Nat

/-- the body of `while self.size > currentSize` as the translator renders it (state: fruIdentity, pceIdentity, mru, currentSize) -/
def subsBody (st : SubsSt) : Rd (SubsSt × Bool) :=
  peekInt 2 >>= fun ty =>
    if ty = 0x4944 then readFru >>= fun x => pure ((some x, st.2.1, st.2.2.1, st.2.2.2 + x.flatSize), true)
    else if ty = 0x5045 then readPce >>= fun x => pure ((st.1, some x, st.2.2.1, st.2.2.2 + x.declaredSize), true)
    else if ty = 0x4D52 then readMru >>= fun x => pure ((st.1, st.2.1, some x, st.2.2.2 + x.declaredSize), true)
    else pure ((st.1, st.2.1, st.2.2.1, st.2.2.2), false)

theorem rdWhile_subs (size : Nat) : ∀ (fuel : Nat) (f : Option Fru) (p : Option Pce) (m : Option Mru) (cur : Nat),
    (fun st : SubsSt => (st.1, st.2.1, st.2.2.1)) <$> rdWhile (fun st : SubsSt => size > st.2.2.2) subsBody fuel (f, p, m, cur)
      = readSubs fuel size cur f p m := by
  intro fuel
  induction fuel with
  | zero => intro f p m cur; rfl
  | succ n ih =>
    intro f p m cur
    unfold rdWhile readSubs
    by_cases hc : size > cur
    · simp only [hc, if_true, subsBody, peek2_eq, bind_assoc, map_bind]
      refine bind_congr fun t => ?_
      split
      · simp only [bind_assoc, pure_bind, if_true]
        refine bind_congr fun x => ?_
        exact ih _ _ _ _
      · split
        · simp only [bind_assoc, pure_bind, if_true]
          refine bind_congr fun x => ?_
          exact ih _ _ _ _
        · split
          · simp only [bind_assoc, pure_bind, if_true]
            refine bind_congr fun x => ?_
            exact ih _ _ _ _
          · simp only [pure_bind]; rfl
    · simp only [hc, if_false]; rfl

/-- the loop followed by its continuation = the model's `readSubs` followed by the same continuation (the final
    `currentSize` is dead) -/
theorem subs_bind {β : Type} (size fuel : Nat) (f : Option Fru) (p : Option Pce) (m : Option Mru) (cur : Nat)
    (B : SubsSt → Rd (SubsSt × Bool)) (hB : ∀ st, B st = subsBody st)
    (k : SubsSt → Rd β) (k' : Option Fru × Option Pce × Option Mru → Rd β) (hk : ∀ st, k st = k' (st.1, st.2.1, st.2.2.1)) :
    rdWhile (fun st : SubsSt => size > st.2.2.2) B fuel (f, p, m, cur) >>= k = readSubs fuel size cur f p m >>= k' := by
  have e : B = subsBody := funext hB
  subst e
  rw [← rdWhile_subs, bind_map_left]
  exact bind_congr hk

/-! ### the callout walk of `SRC.getCallouts` -/

abbrev CoSt := Nat × List Callout

/-- the body of `while subsectionWordLength * 4 > currentLength` (state: currentLength, callouts) -/
def calloutsBody (st : CoSt) : Rd (CoSt × Bool) :=
  readCallout >>= fun c => pure ((st.1 + Callout.flattenedSize c, st.2 ++ [c]), true)

theorem rdWhile_callouts {β : Type} (total : Nat) (k : CoSt → Rd β) (k' : List Callout → Rd β) (hk : ∀ c r, k (c, r) = k' r) :
    ∀ (fuel cur : Nat) (acc : List Callout),
      rdWhile (fun st : CoSt => total > st.1) calloutsBody fuel (cur, acc) >>= k
        = readCallouts fuel total cur >>= fun r => k' (acc ++ r) := by
  intro fuel
  induction fuel with
  | zero => intro cur acc; unfold rdWhile readCallouts; simp only [pure_bind, hk, List.append_nil]
  | succ n ih =>
    intro cur acc
    unfold rdWhile readCallouts
    by_cases hc : total > cur
    · simp only [hc, if_true, calloutsBody, bind_assoc, pure_bind]
      refine bind_congr fun c => ?_
      rw [ih]
      refine bind_congr fun r => ?_
      simp only [List.append_assoc, List.singleton_append]
    · simp only [hc, if_false, pure_bind, hk, List.append_nil]

theorem callouts_bind {β : Type} (total fuel cur : Nat) (B : CoSt → Rd (CoSt × Bool)) (hB : ∀ st, B st = calloutsBody st)
    (k : CoSt → Rd β) (k' : List Callout → Rd β) (hk : ∀ c r, k (c, r) = k' r) :
    rdWhile (fun st : CoSt => total > st.1) B fuel (cur, ([] : List Callout)) >>= k = readCallouts fuel total cur >>= k' := by
  have e : B = calloutsBody := funext hB
  subst e
  rw [rdWhile_callouts total k k' hk]
  rfl

/-! ### reads whose result has a known length -/

theorem getInts_length (w : Nat) : ∀ (n : Nat) (st st' : Bytes) (xs : List Nat), getInts w n st = .ok (xs, st') → xs.length = n := by
  intro n
  induction n with
  | zero => intro st st' xs h; cases h; rfl
  | succ n ih =>
    intro st st' xs h
    unfold getInts at h
    simp only [bind, StateT.bind, Except.bind] at h
    split at h
    · cases h
    · rename_i a hx
      split at h
      · cases h
      · rename_i b hy
        simp only [pure, StateT.pure, Except.pure] at h
        cases h
        simp only [List.length_cons, Nat.add_right_cancel_iff]
        exact ih _ _ _ hy

theorem getInts_bind_congr {β : Type} (w n : Nat) (f g : List Nat → Rd β) (h : ∀ xs, xs.length = n → f xs = g xs) :
    getInts w n >>= f = getInts w n >>= g := by
  funext st
  show (getInts w n >>= f) st = (getInts w n >>= g) st
  simp only [bind, StateT.bind, Except.bind]
  split
  · rfl
  · rename_i a hx
    obtain ⟨xs, st'⟩ := a
    rw [h xs (getInts_length w n st st' xs hx)]

/-! ### failing pure steps -/

theorem rdOfOption_bind {α β : Type} (o : Option α) (k : α → Rd β) :
    rdOfOption o >>= k = (match o with | none => Rd.fail .other | some x => k x) := by
  cases o <;> rfl

/-! ### the per-callout dictionary -/

theorem foldl_join_aux {α : Type} (f : α → Text) (c : Nat) : ∀ (xs : List α) (x : α) (acc : Text),
    (x :: xs).foldl (fun a y => a ++ (f y ++ [c])) acc = acc ++ joinWith [c] ((x :: xs).map f) ++ [c] := by
  intro xs
  induction xs with
  | nil => intro x acc; simp [joinWith]
  | cons y r ih =>
    intro x acc
    rw [List.foldl_cons, ih]
    simp [joinWith, List.append_assoc]

theorem foldl_join {α : Type} (f : α → Text) (sep : Text) (c : Nat) (hs : sep = [c]) (l : List α) :
    (l.foldl (fun a x => a ++ (f x ++ sep)) []).dropLast = joinWith [c] (l.map f) := by
  subst hs
  cases l with
  | nil => rfl
  | cons x xs => rw [foldl_join_aux, List.dropLast_concat]; simp

theorem procDesc_if (env : SrcEnv) (creator : Text) (allow : Bool) (p : Text) :
    (if allow = true then procDescCall env creator p else []) = procDescription env creator allow p := by
  cases allow <;> rfl

/-! ### `SRC.toJSON` -/

theorem errorDetails_call (reg : List RegEntry) (ascii : Text) (words : List Nat) :
    errorDetails reg ascii words = errDetailsCall reg ((ascii.drop 4).take 4) (ascii.take 2) words := rfl

theorem fail_bind {α β : Type} (e : Err) (k : α → Rd β) : (Rd.fail e : Rd α) >>= k = Rd.fail e := rfl

abbrev HexSt := List (Text × J) × List Text

/-- the body of `for i in range(2, self.wordCount + 1)` as the translator renders it (state: members added to `out`, hexwords) -/
def hexBody (words : List Nat) (i : Nat) (st : HexSt) : Rd HexSt :=
  rdIndex words (if i ≥ 2 ∧ i ≤ 9 then i - 2 else i) >>= fun x =>
    pure (st.1 ++ [(s "Hex Word " ++ natDec i, jstr (fmtHex 8 x))], st.2 ++ [fmtHex 8 x])

def hexKey (words : List Nat) (i : Nat) : Text × Text := (s "Hex Word " ++ natDec i, fmtHex 8 (words.getD (i - 2) 0))

theorem hexBody_ok (words : List Nat) (hw : words.length = 8) (i : Nat) (h : 2 ≤ i ∧ i ≤ 9) (st : HexSt) :
    hexBody words i st = pure (st.1 ++ [((hexKey words i).1, jstr (hexKey words i).2)], st.2 ++ [(hexKey words i).2]) := by
  unfold hexBody rdIndex hexKey
  have hi : i - 2 < words.length := by omega
  simp only [ge_iff_le, h, and_self, if_true, List.getElem?_eq_getElem hi, List.getD_eq_getElem?_getD, Option.getD_some]
  rfl

theorem hexBody_fail (words : List Nat) (hw : words.length = 8) (st : HexSt) : hexBody words 10 st = Rd.fail .other := by
  unfold hexBody rdIndex
  have : words[10]? = none := List.getElem?_eq_none (by omega)
  simp only [ge_iff_le, Nat.reduceLeDiff, and_false, if_false, this]
  rfl

theorem hex_foldl (words : List Nat) (hw : words.length = 8) : ∀ (l : List Nat) (_ : ∀ i ∈ l, 2 ≤ i ∧ i ≤ 9) (st : HexSt),
    l.foldlM (fun st i => hexBody words i st) st
      = pure (st.1 ++ (l.map (hexKey words)).map (fun p => (p.1, jstr p.2)), st.2 ++ (l.map (hexKey words)).map (·.2)) := by
  intro l
  induction l with
  | nil => intro _ st; simp only [List.foldlM_nil, List.map_nil, List.append_nil]
  | cons i r ih =>
    intro hl st
    rw [List.foldlM_cons, hexBody_ok words hw i (hl i (List.mem_cons_self)), pure_bind,
      ih (fun j hj => hl j (List.mem_cons_of_mem _ hj))]
    simp only [List.map_cons, List.append_assoc, List.singleton_append]

theorem idxs_small (wc : Nat) (h : ¬ wc ≥ 10) : ∀ i ∈ (List.range (wc + 1)).drop 2, 2 ≤ i ∧ i ≤ 9 := by
  intro i hi
  rw [List.range_eq_range', List.drop_range', List.mem_range'] at hi
  obtain ⟨k, hk, rfl⟩ := hi
  omega

theorem idxs_large (wc : Nat) (h : wc ≥ 10) :
    (List.range (wc + 1)).drop 2 = [2, 3, 4, 5, 6, 7, 8, 9] ++ 10 :: List.range' 11 (wc - 10) := by
  rw [List.range_eq_range', List.drop_range']
  have e : wc + 1 - 2 = 8 + (1 + (wc - 10)) := by omega
  rw [e, ← List.range'_append, ← List.range'_append]
  rfl

/-- the hex-word loop = the model's `wordCount ≥ 10` test and its two maps -/
theorem hex_loop (words : List Nat) (hw : words.length = 8) (wc : Nat) (B : Nat → HexSt → Rd HexSt) (hB : ∀ i st, B i st = hexBody words i st) :
    forRangeRd 2 (wc + 1) B (([] : List (Text × J)), ([] : List Text)) =
      if wc ≥ 10 then Rd.fail .other
      else pure ((((List.range (wc + 1)).drop 2).map (hexKey words)).map (fun p => (p.1, jstr p.2)),
                 (((List.range (wc + 1)).drop 2).map (hexKey words)).map (·.2)) := by
  have e : B = hexBody words := funext fun i => funext fun st => hB i st
  subst e
  unfold forRangeRd
  split
  · rename_i h
    rw [idxs_large wc h, List.foldlM_append, hex_foldl words hw _ (by decide), pure_bind, List.foldlM_cons, hexBody_fail words hw, fail_bind]
  · rename_i h
    rw [hex_foldl words hw _ (idxs_small wc h)]
    rfl


theorem hex_loop' (words : List Nat) (hw : words.length = 8) (wc : Nat) :
    forRangeRd 2 (wc + 1) (fun i (st : HexSt) => rdIndex words (if i ≥ 2 ∧ i ≤ 9 then i - 2 else i) >>= fun x =>
        pure (st.1 ++ [(s "Hex Word " ++ natDec i, jstr (fmtHex 8 x))], st.2 ++ [fmtHex 8 x])) (([] : List (Text × J)), ([] : List Text)) =
      if wc ≥ 10 then Rd.fail .other
      else pure ((((List.range (wc + 1)).drop 2).map (hexKey words)).map (fun p => (p.1, jstr p.2)),
                 (((List.range (wc + 1)).drop 2).map (hexKey words)).map (·.2)) :=
  hex_loop words hw wc _ (fun _ _ => rfl)

theorem boolStr_ne (x : Nat) : boolStr (x != 0) = jstr (if x ≠ 0 then s "True" else s "False") := by
  unfold boolStr
  by_cases h : x = 0 <;> simp [h]

theorem padTo_hex (l : List (Text × Text)) :
    padTo 8 (s "00000000") (l.map (·.2)) = l.map (·.2) ++ List.replicate (8 - l.length) (s "00000000") := by
  unfold padTo; rw [List.length_map]

/-- the end of `toJSON` (callout subsection, parser plug-in) over any member list built so far -/
theorem tail_eq (T : Tables) (env : SrcEnv) (creator : Text) (allow : Bool) (flags : Nat) (ascii : Text) (hexwords : List Text)
    (M : List (Text × J)) :
    ((if (flags &&& 1) ≠ 0 then (decodeCallouts T env creator allow >>= fun c => pure [kv "Callout Section" c]) else pure []) >>= fun v22 =>
      (if (allow = true) then ((srcDetails env creator ascii hexwords).rd (s "SRC Details")) else pure []) >>= fun v24 =>
      (pure (J.obj (M ++ v22 ++ v24), stripSp ascii) : Rd (J × Text)))
    = ((if flags &&& 0x01 ≠ 0 then (decodeCallouts T env creator allow >>= fun c => pure (M ++ [kv "Callout Section" c])) else pure M) >>=
        srcFinish env creator allow ascii hexwords) := by
  unfold srcFinish
  by_cases hf : flags &&& 1 ≠ 0
  · simp only [if_pos hf, bind_assoc, pure_bind]
    refine bind_congr fun c => ?_
    cases allow
    · simp only [Bool.false_eq_true, if_false, pure_bind, List.append_nil]
    · simp only [if_true]
      cases srcDetails env creator ascii hexwords <;> simp only [SrcDetails.rd, pure_bind, List.append_nil] <;> rfl
  · simp only [if_neg hf, pure_bind, List.append_nil]
    cases allow
    · simp only [Bool.false_eq_true, if_false, pure_bind, List.append_nil]
    · simp only [if_true]
      cases srcDetails env creator ascii hexwords <;> simp only [SrcDetails.rd, pure_bind, List.append_nil] <;> rfl

/-- what the translator makes of `SRC.toJSON` after the eight header reads (hexData has eight words) is the model's `srcTail` -/
theorem srcTail_shape (T : Tables) (env : SrcEnv) (h : SecHdr) (creator : Text) (allow : Bool) (v1 : Bytes) (v2 v4 : Nat)
    (v7 : List Nat) (v9 : Text) (hw : v7.length = 8) :
    (do
      let v11 ← (if ((v9.take 2) = (s "BD") ∨ (v9.take 2) = (s "11")) ∨ ((v9.take 2) = (s "BC")) then (do let v10 ← (errDetailsCall env.registry ((v9.drop 4).take 4) (v9.take 2) v7).rd (s "Error Details"); pure ([kv "Deconfigured" (jstr (if ((v7.getD 3 0) &&& 33554432) ≠ 0 then (s "True") else (s "False"))),
          kv "Guarded" (jstr (if ((v7.getD 3 0) &&& 16777216) ≠ 0 then (s "True") else (s "False")))] ++
        v10)) else pure [])
      let v18 ← forRangeRd 2 (v4 + 1) (fun i13 st14 => (do let v16 ← rdIndex v7 (if i13 ≥ 2 ∧ i13 ≤ 9 then (i13 - 2) else i13); pure ((st14.1 ++ [(((s "Hex Word ") ++ (natDec i13)), (jstr (fmtHex 8 v16)))]), (st14.2 ++ [(fmtHex 8 v16)])))) ([], ([] : List Text))
      let v22 ← (if (v2 &&& 1) ≠ 0 then (do let v21 ← decodeCallouts T env creator allow; pure [kv "Callout Section" v21]) else pure [])
      let v24 ← (if (allow = true) then ((srcDetails env creator v9 (padTo 8 (s "00000000") v18.2)).rd (s "SRC Details")) else pure [])
      pure ((J.obj ([kv "Section Version" (jnum h.ver),
          kv "Sub-section type" (jnum h.sub),
          kv "Created by" (jstr (displayCompID T h.comp creator)),
          kv "SRC Version" (jstr ((s "0x") ++ (bytesHexL v1))),
          kv "SRC Format" (jstr ((s "0x") ++ (fmtHex 2 ((v7.getD 0 0) &&& 255)))),
          kv "Virtual Progress SRC" (jstr (if (v2 &&& 128) ≠ 0 then (s "True") else (s "False"))),
          kv "I5/OS Service Event Bit" (jstr (if (v2 &&& 16) ≠ 0 then (s "True") else (s "False"))),
          kv "Hypervisor Dump Initiated" (jstr (if (v2 &&& 4) ≠ 0 then (s "True") else (s "False")))] ++
        (if ((v9.take 2) = (s "BD") ∨ (v9.take 2) = (s "11")) then [kv "Backplane CCIN" (jstr (fmtHex 4 ((v7.getD 1 0) >>> 16))),
          kv "Terminate FW Error" (jstr (if ((v7.getD 3 0) &&& 536870912) ≠ 0 then (s "True") else (s "False")))] else []) ++
        v11 ++
        [kv "Valid Word Count" (jstr ((s "0x") ++ (fmtHex 2 v4))),
          kv "Reference Code" (jstr (stripSp v9))] ++
        v18.1 ++
        v22 ++
        v24)),
        (stripSp v9))) = srcTail T env h creator allow v1 v2 v4 v7 v9 := by
  rw [hex_loop' v7 hw v4]
  unfold srcTail srcEd srcTail'
  simp only [errorDetails_call]
  have hx : srcHexwords v4 v7 = padTo 8 (s "00000000") (List.map (fun x => x.snd) (List.map (hexKey v7) (List.drop 2 (List.range (v4 + 1))))) := by
    unfold srcHexwords padTo; simp only [List.length_map]; rfl
  have hM : ∀ mid : List (Text × J),
      (if ((v9.take 2) = (s "BD") ∨ (v9.take 2) = (s "11")) ∨ ((v9.take 2) = (s "BC")) then
        [kv "Deconfigured" (jstr (if ((v7.getD 3 0) &&& 33554432) ≠ 0 then (s "True") else (s "False"))),
         kv "Guarded" (jstr (if ((v7.getD 3 0) &&& 16777216) ≠ 0 then (s "True") else (s "False")))] ++
          (errDetailsCall env.registry ((v9.drop 4).take 4) (v9.take 2) v7).members else []) = mid →
      srcMembers T env h creator v1 v2 v4 v7 v9 =
        ([kv "Section Version" (jnum h.ver),
          kv "Sub-section type" (jnum h.sub),
          kv "Created by" (jstr (displayCompID T h.comp creator)),
          kv "SRC Version" (jstr ((s "0x") ++ (bytesHexL v1))),
          kv "SRC Format" (jstr ((s "0x") ++ (fmtHex 2 ((v7.getD 0 0) &&& 255)))),
          kv "Virtual Progress SRC" (jstr (if (v2 &&& 128) ≠ 0 then (s "True") else (s "False"))),
          kv "I5/OS Service Event Bit" (jstr (if (v2 &&& 16) ≠ 0 then (s "True") else (s "False"))),
          kv "Hypervisor Dump Initiated" (jstr (if (v2 &&& 4) ≠ 0 then (s "True") else (s "False")))] ++
        (if ((v9.take 2) = (s "BD") ∨ (v9.take 2) = (s "11")) then [kv "Backplane CCIN" (jstr (fmtHex 4 ((v7.getD 1 0) >>> 16))),
          kv "Terminate FW Error" (jstr (if ((v7.getD 3 0) &&& 536870912) ≠ 0 then (s "True") else (s "False")))] else []) ++
        mid ++
        [kv "Valid Word Count" (jstr ((s "0x") ++ (fmtHex 2 v4))),
          kv "Reference Code" (jstr (stripSp v9))] ++
        List.map (fun p => (p.fst, jstr p.snd)) (List.map (hexKey v7) (List.drop 2 (List.range (v4 + 1))))) := by
    intro mid hmid
    rw [← hmid]
    unfold srcMembers
    simp only [boolStr_ne, ox, errorDetails_call]
    by_cases hb : ((v9.take 2) = (s "BD") ∨ (v9.take 2) = (s "11")) ∨ ((v9.take 2) = (s "BC"))
    · simp only [if_pos hb]; rfl
    · simp only [if_neg hb]; rfl
  generalize hE : errDetailsCall env.registry ((v9.drop 4).take 4) (v9.take 2) v7 = E at hM
  by_cases hb : ((v9.take 2) = (s "BD") ∨ (v9.take 2) = (s "11")) ∨ ((v9.take 2) = (s "BC"))
  · simp only [hb, if_true] at hM ⊢
    cases E with
    | fail => rfl
    | unsupported => rfl
    | none =>
      simp only [ErrDet.rd, pure_bind]
      by_cases hwc : v4 ≥ 10
      · simp only [hwc, if_true, fail_bind]
      · simp only [hwc, if_false, pure_bind]
        rw [hx, hM _ rfl]
        exact tail_eq T env creator allow v2 v9 _ _
    | some ms =>
      simp only [ErrDet.rd, pure_bind]
      by_cases hwc : v4 ≥ 10
      · simp only [hwc, if_true, fail_bind]
      · simp only [hwc, if_false, pure_bind]
        rw [hx, hM _ rfl]
        exact tail_eq T env creator allow v2 v9 _ _
  · simp only [hb, if_false] at hM ⊢
    simp only [pure_bind]
    have hE' : (match E with | ErrDet.fail => True | ErrDet.unsupported => True | _ => True) := by cases E <;> trivial
    by_cases hwc : v4 ≥ 10
    · simp only [hwc, if_true, fail_bind]
    · simp only [hwc, if_false, pure_bind]
      rw [hx, hM _ rfl]
      exact tail_eq T env creator allow v2 v9 _ _

end Pel.TieSrc

/-- `rd_auto`: the goal `p = q` for two reader programs: equal heads are stepped over (`bind_congr`), `if`/`match` are split on both
    sides, loops are replaced by the model's recursive functions (lemmas above), leaves are compared by `rfl` -/
macro "rd_auto" : tactic => `(tactic|
  repeat' (first
    | with_reducible rfl
    | contradiction
    | omega
    | (refine Pel.TieSrc.subs_bind _ _ _ _ _ _ _ (fun _ => ?_) _ _ (fun _ => ?_))
    | (refine Pel.TieSrc.callouts_bind _ _ _ _ (fun _ => ?_) _ _ (fun _ _ => ?_))
    | (rw [Pel.TieSrc.rdRepeat_mru _ (by first | rfl | (simp only [bind_assoc, pure_bind]; rfl))])
    | (rw [Pel.TieSrc.rdOfOption_bind]; dsimp only; split <;> simp only [*])
    | (refine bind_congr fun _ => ?_)
    | split
    | rfl))

/-- `tie_src f`: the goal `generated = f …` for a reader `f` of PelModel/Src.lean.  Second attempt: `getText` unfolded (a decode
    split into two statements) and `a &&& b` / `a ||| b` / `a + b` ordered. -/
macro "tie_src " f:ident : tactic => `(tactic| first
  | (unfold $f; (try simp only [bind_assoc, pure_bind, Pel.TieAux.ite_bind]); rd_auto; done)
  | (unfold $f; (try simp only [Pel.getText, Pel.stripNul, bind_assoc, pure_bind, Pel.TieAux.ite_bind, Nat.and_comm, Nat.or_comm, Nat.add_comm]); rd_auto; done))
