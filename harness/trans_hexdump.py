"""
Source-to-Lean translator for the hex dumps and the I/O-drawer dump partition (stream `hexdump`, properties C13 and C17).

Reads the CURRENT text of
    modules/pel/hexdump.py        hexdump (+ its default arguments), parse (+ its default template), DEFAULT_LINE_FORMAT
    modules/io_drawer/dump.py     parse_dump_data (with _format_ilog_data / _format_trace_data inlined), parse_dump_file,
                                  TRACE_BUFFER_HEADER_START, HEX_DUMP_LINE_FORMATS, DIVIDER_LINE
    modules/io_drawer/trace.py    TraceBufferHeader.BUFFER_NAMES
with `ast` (nothing is imported or run) and writes lean/PelGen/GenHexdump.lean.  PelProps/TieC13.lean and TieC17.lean prove the
hand-written model (PelModel/HexDump.lean, PelModel/Dump.lean) equal to what is generated here.

HOW A FUNCTION IS TRANSLATED.  These functions are loops over mutable state, so the body is NOT rewritten into a functional
form by this script: it is copied, statement by statement and in source order, into a Lean `do` block in the `Option` monad,

    x = e            ->  let mut x : T := e        (first binding)      /  x := e   (later ones; the Lean type must not change)
    x += e           ->  x := x ++ e  (str, bytes, lists)               /  x := x + e  (int)
    L.append(e)      ->  L := L ++ [e]            L.extend(e)  ->  L := L ++ e
    if / elif / else ->  if … then … else …        (an `elif` is an `else` holding an `if`; conditions are evaluated in order)
    for v in it:     ->  for v in it do            (`break`, `continue`, `return e` are the same words in Lean)
    assert c[, msg]  ->  Py.assert c
    pass, docstrings, bare string statements       ->  nothing

and Lean's own elaboration of `do` (state tuples, `ForInStep`) gives the functional meaning; the tie theorems are about that
elaborated term.  `none` of the `Option` monad stands for "Python raises an exception here, or an integer drops below zero"
(negative integers are not modelled).  Every partial Python operation therefore becomes a bind (`let t ← …`), hoisted in front of the
statement (or branch, or `and`/`or` operand, or conditional-expression arm) that evaluates it, in Python's evaluation order:
    x[i]             ->  ← x[i]?                   IndexError for i >= len(x)  (i is a Nat: negative indices are not modelled)
    a - b            ->  ← Py.sub a b              none if the result is negative
    a % b            ->  ← Py.mod a b              ZeroDivisionError            (a % <positive literal> stays pure)
    math.ceil(a / b) ->  ← Py.ceilDiv a b          ZeroDivisionError
    range(a, n, s)   ->  ← Py.range3 a n s         ValueError for s = 0         (range(n) -> List.range n, range(a, n) -> Py.range3 a n 1)
    chr(n)           ->  ← Py.chr n                ValueError from 0x110000 on
    bytes.fromhex(t) ->  ← Py.fromHex t            ValueError; a string containing white space is answered `none` (not modelled)
    parse_ilog_data(d, H) / parse_trace_data(d, S) / parse_dump_data(d, H, S)
                     ->  ← parseIlog H d / ← parseTrace S d / ← parseDumpData H S d      (the model's `none` = a `%` format outside its subset)
The definitions of `Py.*` are in lean/PelModel/TransHexdump.lean (trusted, a dozen lines each, with kernel-checked examples).
Local names never reach the output: the k-th distinct local (parameters first, then in order of first binding) is `x<k>`,
temporaries are `t<k>`.  A name first bound in BOTH branches of an `if` is declared in front of it (`let mut x : T := default`);
a name bound in one branch or in a loop body only is local to that block, and reading it afterwards makes the function `none`.
A loop variable that the body re-binds is copied first (`for x' in … do let mut x := x'`).
Anything that is not listed here raises `Untranslatable` (the definition becomes `none`); nothing is skipped silently.

=====================================================================================================================
TRUSTED TABLE: types, name maps and idioms (the only knowledge about the code that is hard-wired here)
=====================================================================================================================
Parameters, by POSITION (their names do not matter)
    hexdump(data, bytes_per_line, bytes_per_chunk)   : Bytes, Nat, Nat        (a bytes-like object iterates as ints 0..255: the ties carry
                                                                                the hypothesis ∀ x ∈ data, x < 256)
    parse(lines, line_format)                        : List Text, Text
    parse_dump_data(data, header_file, string_file)  : Bytes, List PteEntry, List TraceString
        (a header-file / string-file path stands for the table loaded from that file, as everywhere in the model; such a value may
         only be handed on to parse_ilog_data / parse_trace_data / parse_dump_data / the inlined helpers)
    parse_dump_file(dump_file, header_file, string_file) : List Text (the lines of that file), List PteEntry, List TraceString
    default values of parameters are emitted separately (Gen.hexdumpDefaults?, Gen.parseDefaultFormat?)
Python values
    int literal >= 0 -> Nat      True/False -> Bool      'text' -> List Nat (code points)      b'..' -> List Nat      [] / bytearray() -> []
    a one-character string obtained as s[i] is kept as its code point (Nat); it may be compared (== !=) with another such
    character or with a one-character literal, and matched against a compiled character class
    truth value: bool -> itself | int -> != 0 | str, bytes, list -> !·.isEmpty      not / and / or -> ! / && / || (short-circuit kept
    when the right operand can raise)      a < b <= c -> a < b && b <= c (b must be a name or a literal)
    + * on ints -> + *      + on str/bytes -> ++      == != < <= > >= on ints -> == != decide(<) …      == != on str -> == !=
    e1 if c else e2 -> if c then e1 else e2
    len(x) -> x.length      x[a:b] -> Py.slice x a b (= (x.take b).drop a; a missing bound is 0 / x.length)
    "%0wX" "%0wx" "%X" "%x" "%d" "%0wd" "%s" via %, f-string or str.format on ints -> fmtHex w / fmtHexL w / fmtHex 1 / fmtHexL 1 / natDec /
        fmtDec0 w / natDec;   %s / {} on a str -> the str;   literal text -> code points
    s.ljust(n) -> ljust n 32 s      s.rstrip(<one character>) -> rstripChar c s
    enumerate(xs) with a two-name target -> Py.enumerate xs        sorted(<list of ints>) -> sortNat
    memoryview(b), bytes(b), b.tobytes() -> b        <ASCII str>.encode() -> the same code points (only for a string known to be ASCII:
        a literal, or the loop variable of a loop over a literal list)
    B.find(P) on bytes -> findSub P B 0 : Option Nat.  Such a value may only be tested with `if v != -1:` / `if v == -1:`
        (-> match v with | some k => … | none => …) and used as the int k inside the branch where it is not -1
    R = re.compile('^[…]$') with a class of literal characters and ranges; R.match(<one character>) -> Py.inClass [(lo, hi), …] c
    with open(P) as F: …; F.readlines() where P is the dump-file parameter -> the lines parameter
    a call, as a statement, of a function defined in the same module -> its body, inlined (positional arguments; a name passed as
        argument is aliased, so `.append` / `.extend` on a list parameter act on the caller's list as in Python; the body may not
        re-bind a parameter and may not `return`)
Names of the code -> names of the model
    pel.hexdump.parse(L, F) (called from dump.py through `import pel.hexdump as hexdump`) -> parseDump F L   (tied by Tie.parse, C13)
    parse_ilog_data / parse_trace_data / parse_dump_data -> parseIlog / parseTrace / parseDumpData            (arguments reordered as above)
    module constants (DEFAULT_LINE_FORMAT, HEX_DUMP_LINE_FORMATS, TRACE_BUFFER_HEADER_START, DIVIDER_LINE) and the class constant
    io_drawer.trace.TraceBufferHeader.BUFFER_NAMES are read from their (single) assignment and inlined as literals
Module-level names the maps rely on (math, re, hexdump, TraceBufferHeader, parse_ilog_data, parse_trace_data, the translated
functions and constants) must each be bound exactly once, by the expected import / def / assignment, with no star import and no
`global`; a local of the same name un-maps it.
Values versus objects.  Python lists and bytearrays are objects, the Lean terms are values.  What could tell the difference is
excluded (`Untranslatable`): a second name for a list that is changed in place (`x = L`, an argument of a helper, memoryview(L)),
a loop that changes the list it iterates over, `+=` on a list, element / slice assignment, insert / pop / sort / reverse …;  a
list-valued constant (HEX_DUMP_LINE_FORMATS, BUFFER_NAMES) must only be READ in its module and in the modules followed here
(sequence of a `for`, argument of len / enumerate / sorted / list / tuple …, subscript load, operand of `in`).
`x = []`: the Lean type of the empty list (List Text / List Nat) is taken from how the function uses the name (returned as the
lines / handed to sorted()).  This is a type annotation only: a wrong guess makes the definition fail to elaborate (`none`), it
cannot change a value.
Exceptions are not told apart (`none` for every kind), and `assert` is that of an interpreter started without -O.
"""
import ast
import re as _re
import string
import warnings

from pytrans import GenFile, Untranslatable, load_module_ast, lean_text, dotted
from trans_peltool import module_bindings, ind

NAT, BOOL, STR, ASTR, CHAR, BYTES, STRS, ASTRS, NATS, FIND, REGEX, TBL, SSF, FILEOBJ = (
    'nat', 'bool', 'str', 'astr', 'char', 'bytes', 'strs', 'astrs', 'nats', 'find', 'regex', 'tbl', 'ssf', 'file')
LEAN_TYPE = {NAT: 'Nat', BOOL: 'Bool', STR: 'Text', ASTR: 'Text', CHAR: 'Nat', BYTES: 'Bytes', STRS: 'List Text', ASTRS: 'List Text',
             NATS: 'List Nat', FIND: 'Option Nat', TBL: 'List PteEntry', SSF: 'List TraceString', 'linesfile': 'List Text'}
DEFAULT = {NAT: '0', BOOL: 'false', STR: '[]', ASTR: '[]', CHAR: '0', BYTES: '[]', STRS: '[]', ASTRS: '[]', NATS: '[]', FIND: 'none'}
ELEM = {STRS: STR, ASTRS: ASTR, NATS: NAT, BYTES: NAT, STR: CHAR, ASTR: CHAR}
TEXTY = (STR, ASTR)
LISTY = (STR, ASTR, BYTES, STRS, ASTRS, NATS)


def U(msg, node=None):
    ln = getattr(node, 'lineno', None)
    return Untranslatable(msg + (' (line %d)' % ln if ln else ''))


def same_lean(a, b):
    return LEAN_TYPE.get(a) is not None and LEAN_TYPE.get(a) == LEAN_TYPE.get(b)


def join_type(a, b, node=None):
    """type of a value that is an `a` on one path and a `b` on another"""
    if a == b:
        return a
    if {a, b} <= {STR, ASTR}:
        return STR
    if {a, b} <= {STRS, ASTRS}:
        return STRS
    raise U('a value is a %s on one path and a %s on another' % (a, b), node)


def atom(t):
    t = t.strip()
    if _re.fullmatch(r"[A-Za-z0-9_.'?]+", t):
        return t
    if t[0] in '([' and _closes_at_end(t):
        return t
    return '(%s)' % t


def _closes_at_end(t):
    depth = 0
    for i, ch in enumerate(t):
        if ch in '([':
            depth += 1
        elif ch in ')]':
            depth -= 1
            if depth == 0:
                return i == len(t) - 1
    return False


class E:
    """a translated expression: do-statements to run first (in order), a pure Lean term, its type"""

    def __init__(self, term, ty, pre=None, extra=None):
        self.term, self.ty, self.pre, self.extra = term, ty, list(pre or []), extra


class Var:
    def __init__(self, lean, ty, extra=None):
        self.lean, self.ty, self.extra = lean, ty, extra       # extra: class ranges of a REGEX, lines term of a FILEOBJ
        self.refined = None                                    # FIND: Lean name of the index inside a `!= -1` branch


# ------------------------------------------------------------------------------------------------------------------
# module-level information

class Module:
    """one parsed source file: what its module-level names are bound to"""

    def __init__(self, repo, rel):
        self.rel = rel
        try:
            with warnings.catch_warnings():
                warnings.simplefilter('ignore')         # invalid escape sequences in the regular expressions of ilog.py / hlog.py
                self.tree = load_module_ast(repo, rel)
        except (OSError, SyntaxError) as e:
            raise Untranslatable('cannot parse %s: %s' % (rel, e))
        self.bind = module_bindings(self.tree)
        if '*' in self.bind:
            raise Untranslatable('%s has a star import' % rel)
        self.globals_named = set()
        for n in ast.walk(self.tree):
            if isinstance(n, (ast.Global, ast.Nonlocal)):
                self.globals_named.update(n.names)

    def how(self, name):
        """the single module-level binding of `name`: ('import', module) | ('from', module, orig) | ('def', node) | ('assign', value)
           | ('class', node) | None (not bound)"""
        b = self.bind.get(name)
        if not b:
            return None
        if len(b) != 1 or name in self.globals_named:
            raise Untranslatable('%s: the name %s is bound %d times%s' % (self.rel, name, len(b), ' / named in a `global`' if name in self.globals_named else ''))
        for st in self._top(self.tree.body):
            if isinstance(st, ast.Import):
                for a in st.names:
                    if (a.asname or a.name.split('.')[0]) == name:
                        if a.asname is None and '.' in a.name:
                            return ('import-pkg', a.name)
                        return ('import', a.name)
            elif isinstance(st, ast.ImportFrom):
                for a in st.names:
                    if (a.asname or a.name) == name:
                        if st.level:
                            raise Untranslatable('%s: relative import of %s' % (self.rel, name))
                        return ('from', st.module, a.name)
            elif isinstance(st, ast.FunctionDef) and st.name == name:
                if st.decorator_list:
                    raise Untranslatable('%s: %s is decorated' % (self.rel, name))
                return ('def', st)
            elif isinstance(st, ast.ClassDef) and st.name == name:
                if st.decorator_list or st.keywords:
                    raise Untranslatable('%s: class %s is decorated / has a metaclass' % (self.rel, name))
                return ('class', st)
            elif isinstance(st, ast.Assign) and len(st.targets) == 1 and isinstance(st.targets[0], ast.Name) and st.targets[0].id == name:
                return ('assign', st.value)
            elif isinstance(st, ast.AnnAssign) and isinstance(st.target, ast.Name) and st.target.id == name and st.value is not None:
                return ('assign', st.value)
        raise Untranslatable('%s: the name %s is bound in a way that is not understood (%s)' % (self.rel, name, b[0]))

    def _top(self, body):
        return body                     # bindings nested in module-level if/try/with are "not understood" on purpose


class World:
    def __init__(self, repo):
        self.repo = repo
        self.mods = {}

    def module(self, rel):
        if rel not in self.mods:
            try:
                self.mods[rel] = Module(self.repo, rel)
            except Untranslatable as e:
                self.mods[rel] = e
        m = self.mods[rel]
        if isinstance(m, Untranslatable):
            raise m
        return m


MODULE_FILES = {'pel.hexdump': 'pel/hexdump.py', 'io_drawer.trace': 'io_drawer/trace.py', 'io_drawer.ilog': 'io_drawer/ilog.py',
                'io_drawer.dump': 'io_drawer/dump.py'}


def require_read_only(mod, name, attr_of=None):
    """every use of the list constant `name` (or `<attr_of>.name`) in `mod` is a plain read: the sequence of a `for`, the argument of
       len / enumerate / sorted / list / tuple, a subscript load, an operand of `in`; lists are objects, anything else could change them"""
    parents = {}
    for n in ast.walk(mod.tree):
        for ch in ast.iter_child_nodes(n):
            parents[ch] = n
    ok_calls = ('len', 'enumerate', 'sorted', 'list', 'tuple', 'set', 'frozenset', 'reversed', 'iter')
    for n in ast.walk(mod.tree):
        hit = False
        if attr_of is None:
            hit = isinstance(n, ast.Name) and n.id == name
        else:
            hit = isinstance(n, ast.Attribute) and n.attr == name
        if not hit:
            continue
        if isinstance(n.ctx, (ast.Store, ast.Del)):
            par = parents.get(n)
            if attr_of is None and isinstance(par, (ast.Assign, ast.AnnAssign)) and parents.get(par) is mod.tree:
                continue                    # the defining assignment (there is only one: Module.how)
            if attr_of is not None:
                raise U('%s is stored into' % name, n)
            if isinstance(par, (ast.Assign, ast.AnnAssign)) and isinstance(parents.get(par), ast.ClassDef):
                continue
            # a local of the same name in some function: it hides the constant there, it does not change it
            continue
        par = parents.get(n)
        if isinstance(par, (ast.For, ast.comprehension)) and par.iter is n:
            continue
        if isinstance(par, ast.Subscript) and par.value is n and isinstance(par.ctx, ast.Load):
            continue
        if isinstance(par, ast.Call) and n in par.args and isinstance(par.func, ast.Name) and par.func.id in ok_calls:
            continue
        if isinstance(par, ast.Compare) and n in par.comparators and all(isinstance(o, (ast.In, ast.NotIn)) for o in par.ops):
            continue
        raise U('the list constant %s is used in a way that could change it (line %d)' % (name, getattr(n, 'lineno', 0)))


def const_value(world, mod, node, depth=0):
    """a module-level constant expression -> (lean term, type); literals, lists of literals, names of other constants"""
    if depth > 8:
        raise U('constant definitions nest too deeply', node)
    if isinstance(node, ast.Constant):
        v = node.value
        if isinstance(v, bool):
            return ('true' if v else 'false'), BOOL
        if isinstance(v, int):
            if v < 0:
                raise U('negative literal', node)
            return str(v), NAT
        if isinstance(v, str):
            return lean_text(v), (ASTR if v.isascii() else STR)
        if isinstance(v, bytes):
            return '[' + ', '.join(str(x) for x in v) + ']', BYTES
        raise U('literal %r' % (v,), node)
    if isinstance(node, ast.List):
        if not node.elts:
            raise U('empty list constant (its element type is not known)', node)
        items = [const_value(world, mod, e, depth + 1) for e in node.elts]
        tys = {t for _, t in items}
        if tys <= {STR, ASTR}:
            return '[' + ', '.join(t for t, _ in items) + ']', (ASTRS if tys == {ASTR} else STRS)
        if tys == {NAT}:
            return '[' + ', '.join(t for t, _ in items) + ']', NATS
        raise U('list constant of %s' % ', '.join(sorted(tys)), node)
    if isinstance(node, ast.Name):
        h = mod.how(node.id)
        if h and h[0] == 'assign':
            t, ty = const_value(world, mod, h[1], depth + 1)
            if ty in (STRS, ASTRS, NATS):
                require_read_only(mod, node.id)
            return t, ty
        raise U('the constant %s is not a module-level assignment' % node.id, node)
    if isinstance(node, ast.BinOp) and isinstance(node.op, ast.Add):
        (a, ta), (b, tb) = const_value(world, mod, node.left, depth + 1), const_value(world, mod, node.right, depth + 1)
        if ta in TEXTY and tb in TEXTY:
            return '(%s ++ %s)' % (a, b), (ASTR if ta == tb == ASTR else STR)
        if ta == tb == BYTES:
            return '(%s ++ %s)' % (a, b), BYTES
    raise U('constant expression %s' % type(node).__name__, node)


def class_const(world, mod, cls_node, attr):
    """`Class.ATTR` assigned exactly once in the class body (and nowhere else in that module)"""
    if cls_node.bases and not all(isinstance(b, ast.Name) and b.id == 'object' for b in cls_node.bases):
        raise U('class %s has base classes' % cls_node.name, cls_node)
    b = module_bindings(ast.Module(body=cls_node.body, type_ignores=[]))
    if b.get(attr) != ['assignment']:
        raise U('%s.%s is bound by %s' % (cls_node.name, attr, b.get(attr) or 'nothing'), cls_node)
    for n in ast.walk(mod.tree):
        if isinstance(n, ast.Attribute) and n.attr == attr and isinstance(n.ctx, (ast.Store, ast.Del)):
            raise U('%s is stored into as an attribute' % attr, n)
        if isinstance(n, ast.Call) and isinstance(n.func, ast.Name) and n.func.id in ('setattr', 'delattr'):
            raise U('setattr in %s' % mod.rel, n)
    for st in cls_node.body:
        val = None
        if isinstance(st, ast.Assign) and len(st.targets) == 1 and isinstance(st.targets[0], ast.Name) and st.targets[0].id == attr:
            val = st.value
        if isinstance(st, ast.AnnAssign) and isinstance(st.target, ast.Name) and st.target.id == attr and st.value is not None:
            val = st.value
        if val is not None:
            t, ty = const_value(world, mod, val)
            if ty in (STRS, ASTRS, NATS):
                # read-only in the defining module and in every module that this translator follows an import from
                for rel in sorted(set(MODULE_FILES.values()) | {mod.rel}):
                    try:
                        m2 = world.module(rel)
                    except Untranslatable:
                        continue
                    require_read_only(m2, attr, attr_of=cls_node.name)
                    if m2 is mod:
                        # inside the class body the attribute is a plain name
                        for n in ast.walk(cls_node):
                            if isinstance(n, ast.Name) and n.id == attr and isinstance(n.ctx, ast.Load):
                                raise U('%s is used inside its class body' % attr, n)
            return t, ty
    raise U('%s.%s is not a plain assignment' % (cls_node.name, attr), cls_node)


# ------------------------------------------------------------------------------------------------------------------
# %-formats and format specs

def spec_term(spec, conv_char, e, node):
    """one formatted value: `spec` = flags/width text before the conversion character"""
    m = _re.fullmatch(r'(0?)(\d*)', spec)
    if not m:
        raise U('format spec %r' % (spec + conv_char), node)
    zero, width = m.group(1), m.group(2)
    if width and not zero and conv_char != 's':
        raise U('space-padded number format %r' % (spec + conv_char), node)
    w = int(width) if width else None
    if e.ty == NAT:
        if conv_char in 'Xx':
            return '%s %d %s' % ('fmtHex' if conv_char == 'X' else 'fmtHexL', w if w else 1, atom(e.term))
        if conv_char in ('d', 'i') or (conv_char == 's' and w is None):
            if w:
                return 'fmtDec0 %d %s' % (w, atom(e.term))
            return 'natDec %s' % atom(e.term)
    if e.ty in TEXTY and conv_char == 's' and w is None and not zero:
        return e.term
    raise U('format %r of a %s' % ('%' + spec + conv_char, e.ty), node)


# ------------------------------------------------------------------------------------------------------------------
# the statement / expression translator

class Env:
    def __init__(self):
        self.vars = {}            # python name -> Var (only names in scope in the Lean block)
        self.in_loop = False

    def copy(self):
        e = Env()
        e.vars = dict(self.vars)
        e.in_loop = self.in_loop
        return e


class FnTr:
    """one Python function -> the lines of a Lean `do` block"""

    def __init__(self, world, mod, fn, param_types, ret_type, where):
        self.world, self.mod, self.fn, self.ret_type, self.where = world, mod, fn, ret_type, where
        self.nx, self.nt = 0, 0
        self.leans = {}                          # (scope id, python name) -> x<k>
        self.scope = 0
        a = fn.args
        if a.vararg or a.kwarg or a.kwonlyargs or a.posonlyargs or a.kw_defaults or len(a.args) != len(param_types):
            raise U('unexpected parameter list of %s' % fn.name, fn)
        if fn.decorator_list:
            raise U('%s is decorated' % fn.name, fn)
        self.params = [x.arg for x in a.args]
        self.param_types = param_types
        self.locals_all = self.assigned_names(fn.body) | set(self.params)
        self.inline_stack = []
        self.check_aliasing(fn)

    # ---- Python lists / bytearrays are objects, the translation treats them as values: exclude what would tell the difference
    @staticmethod
    def check_aliasing(fn):
        """`L.append` / `L.extend` (in-place) on a name that is also (a) copied by a plain `x = L` / `L = x`, (b) wrapped by memoryview(L),
           (c) the sequence an enclosing `for` iterates over"""
        mutated = set()
        for n in ast.walk(fn):
            if isinstance(n, ast.Call) and isinstance(n.func, ast.Attribute) and isinstance(n.func.value, ast.Name):
                if n.func.attr in ('append', 'extend'):
                    mutated.add(n.func.value.id)
                elif n.func.attr in ('insert', 'remove', 'pop', 'clear', 'sort', 'reverse', '__setitem__', '__delitem__', '__iadd__'):
                    raise U('in-place list operation %s' % n.func.attr, n)
            if isinstance(n, ast.Subscript) and isinstance(n.ctx, (ast.Store, ast.Del)):
                raise U('assignment to an element / slice', n)
            # a name handed to a function called as a statement (an inlined helper) may be changed in place there
            if isinstance(n, ast.Expr) and isinstance(n.value, ast.Call) and isinstance(n.value.func, ast.Name):
                for a in n.value.args:
                    if isinstance(a, ast.Name):
                        mutated.add(a.id)
        for n in ast.walk(fn):
            if isinstance(n, (ast.Assign, ast.AnnAssign)) and isinstance(n.value, ast.Name):
                tg = n.targets[0] if isinstance(n, ast.Assign) else n.target
                names = {n.value.id} | ({tg.id} if isinstance(tg, ast.Name) else set())
                if names & mutated:
                    raise U('`%s` is another name for a list that is changed in place' % n.value.id, n)
            if isinstance(n, ast.Call) and isinstance(n.func, ast.Name) and n.func.id == 'memoryview' and n.args and \
                    isinstance(n.args[0], ast.Name) and n.args[0].id in mutated:
                raise U('memoryview of a bytearray that is changed in place', n)
            if isinstance(n, ast.For):
                seqs = set()
                it = n.iter
                if isinstance(it, ast.Call) and isinstance(it.func, ast.Name) and it.func.id == 'enumerate' and it.args:
                    it = it.args[0]
                for m in ast.walk(it):
                    if isinstance(m, ast.Name):
                        seqs.add(m.id)
                inner = set()
                for b in n.body:
                    for m in ast.walk(b):
                        if isinstance(m, ast.Call) and isinstance(m.func, ast.Attribute) and isinstance(m.func.value, ast.Name) and \
                                m.func.attr in ('append', 'extend'):
                            inner.add(m.func.value.id)
                if seqs & inner:
                    raise U('a loop changes the list it iterates over', n)

    # ---- names
    def lean_name(self, py):
        k = (self.scope, py)
        if k not in self.leans:
            self.nx += 1
            self.leans[k] = 'x%d' % self.nx
        return self.leans[k]

    def tmp(self):
        self.nt += 1
        return 't%d' % self.nt

    @staticmethod
    def assigned_names(stmts):
        out = set()
        for st in stmts:
            for n in ast.walk(st):
                if isinstance(n, ast.Name) and isinstance(n.ctx, (ast.Store, ast.Del)):
                    out.add(n.id)
                elif isinstance(n, (ast.FunctionDef, ast.ClassDef, ast.Lambda, ast.AsyncFunctionDef, ast.ListComp, ast.SetComp, ast.DictComp,
                                    ast.GeneratorExp)):
                    raise U('nested function / class / comprehension', n)
                elif isinstance(n, (ast.Import, ast.ImportFrom)):
                    raise U('import inside a function', n)
                elif isinstance(n, ast.NamedExpr):
                    raise U('assignment expression', n)
        return out

    # ---- module-level names as seen from this function
    def module_name(self, name, node):
        """what a non-local name refers to: the `how` of the module, or None"""
        if name in self.locals_all and not self.inline_stack:
            raise U('the local name %s is read before it is bound' % name, node)
        if self.inline_stack and name in self.inline_stack[-1]:
            raise U('the local name %s is read before it is bound' % name, node)
        return self.mod.how(name)

    def is_module(self, node, modname):
        """`node` is a name bound (once) to the module `modname`"""
        if isinstance(node, ast.Name) and node.id not in self.env_names:
            h = self.module_name(node.id, node)
            return bool(h) and h[0] == 'import' and h[1] == modname
        return False

    def is_builtin(self, node, name):
        if isinstance(node, ast.Name) and node.id == name and node.id not in self.env_names:
            return self.module_name(name, node) is None
        return False

    def imported_from(self, node, module, orig):
        if isinstance(node, ast.Name) and node.id not in self.env_names:
            h = self.module_name(node.id, node)
            return bool(h) and h[0] == 'from' and h[1] == module and h[2] == orig
        return False

    # ---- top level
    def translate(self):
        env = Env()
        self.env_names = set()
        binders = []
        for p, ty in zip(self.params, self.param_types):
            v = Var(self.lean_name(p), ty)
            env.vars[p] = v
            binders.append('(%s : %s)' % (v.lean, LEAN_TYPE[ty]))
        body = [st for st in self.fn.body]
        lines = self.block(body, env, top=True)
        return 'fun %s => do\n%s' % (' '.join(binders), '\n'.join('  ' + l for l in lines))

    # ---- blocks and statements
    @staticmethod
    def is_noise(st):
        return isinstance(st, ast.Pass) or (isinstance(st, ast.Expr) and isinstance(st.value, ast.Constant) and
                                            isinstance(st.value.value, (str, type(Ellipsis))))

    def block(self, stmts, env, top=False):
        """the statements in the scope `env` (which is updated with the names they declare)"""
        self.env_names = set(env.vars)
        stmts = [s for s in stmts if not self.is_noise(s)]
        out = []
        for i, st in enumerate(stmts):
            self.env_names = set(env.vars)
            if isinstance(st, (ast.Return, ast.Break, ast.Continue)) and i != len(stmts) - 1:
                raise U('statements after %s' % type(st).__name__.lower(), stmts[i + 1])
            out += self.stmt(st, env)
        if top:
            if not stmts or not isinstance(stmts[-1], ast.Return):
                raise U('%s does not end in `return`' % self.fn.name, self.fn)
        if not out:
            out = ['pure ()']
        return out

    def declare(self, env, name, ty, term, pre, node):
        """`name = term`"""
        if name in self.params and not self.inline_stack and name not in env.vars:
            raise U('parameter out of scope', node)
        if self.inline_stack and name in self.inline_stack[-1].get('__params__', ()):
            raise U('the inlined function re-binds its parameter %s' % name, node)
        if ty not in LEAN_TYPE or ty in (REGEX, FILEOBJ, 'linesfile'):
            raise U('a %s cannot be stored in a variable' % ty, node)
        # a variable is never *known* to be ASCII (it may be re-bound on another path); only literals and loop variables over literals are
        ty = {ASTR: STR, ASTRS: STRS}.get(ty, ty)
        if name in env.vars:
            v = env.vars[name]
            if v.ty in (REGEX, FILEOBJ, TBL, SSF, FIND, 'linesfile') or v.ty != ty:
                raise U('the variable %s changes its type from %s to %s' % (name, v.ty, ty), node)
            return pre + ['%s := %s' % (v.lean, term)]
        v = Var(self.lean_name(name), ty)
        env.vars[name] = v
        return pre + ['let mut %s : %s := %s' % (v.lean, LEAN_TYPE[ty], term)]

    def stmt(self, st, env):
        if isinstance(st, ast.Assign):
            if len(st.targets) != 1 or not isinstance(st.targets[0], ast.Name):
                raise U('assignment target', st)
            return self.assign(st.targets[0].id, st.value, env, st)
        if isinstance(st, ast.AnnAssign):
            if st.value is None or not isinstance(st.target, ast.Name) or not st.simple:
                raise U('annotated assignment', st)
            return self.assign(st.target.id, st.value, env, st)
        if isinstance(st, ast.AugAssign):
            if not isinstance(st.target, ast.Name) or not isinstance(st.op, ast.Add):
                raise U('augmented assignment other than `name += e`', st)
            n = st.target.id
            if n not in env.vars:
                raise U('`%s +=` before the name is bound' % n, st)
            v = env.vars[n]
            e = self.expr(st.value, env)
            if v.ty == NAT and e.ty == NAT:
                return self.declare(env, n, NAT, '%s + %s' % (v.lean, atom(e.term)), e.pre, st)
            if v.ty in TEXTY and e.ty in TEXTY:
                return self.declare(env, n, STR, '%s ++ %s' % (v.lean, atom(e.term)), e.pre, st)
            if v.ty in (STRS, ASTRS, NATS, BYTES):
                raise U('`+=` on a list / bytearray (in-place: aliases would see it)', st)
            raise U('`+=` on %s, %s' % (v.ty, e.ty), st)
        if isinstance(st, ast.Assert):
            c = self.truth(st.test, env)
            if st.msg is not None and not (isinstance(st.msg, ast.Constant) and isinstance(st.msg.value, str)):
                raise U('assert message', st)
            return c.pre + ['Py.assert %s' % atom(c.term)]
        if isinstance(st, ast.Return):
            if self.inline_stack:
                raise U('`return` in an inlined function', st)
            if st.value is None:
                raise U('return without a value', st)
            e = self.expr(st.value, env)
            if not same_lean(e.ty, self.ret_type):
                raise U('return of a %s where a %s is expected' % (e.ty, self.ret_type), st)
            return e.pre + ['return %s' % e.term]
        if isinstance(st, ast.Break):
            if not env.in_loop:
                raise U('break outside a loop', st)
            return ['break']
        if isinstance(st, ast.Continue):
            if not env.in_loop:
                raise U('continue outside a loop', st)
            return ['continue']
        if isinstance(st, ast.If):
            return self.if_(st, env)
        if isinstance(st, ast.For):
            return self.for_(st, env)
        if isinstance(st, ast.With):
            return self.with_(st, env)
        if isinstance(st, ast.Expr) and isinstance(st.value, ast.Call):
            return self.call_stmt(st.value, env)
        raise U('statement %s' % type(st).__name__, st)

    def assign(self, name, value, env, st):
        # R = re.compile('^[...]$'): no run-time value
        if isinstance(value, ast.Call) and isinstance(value.func, ast.Attribute) and value.func.attr == 'compile' and \
                self.is_module(value.func.value, 're'):
            cls = self.regex_class(value)
            if name in env.vars:
                raise U('a compiled pattern is stored in a variable that is already bound', st)
            env.vars[name] = Var(None, REGEX, cls)
            return []
        e = self.expr(value, env)
        if e.ty == FIND:
            if name in env.vars:
                raise U('the result of find() is stored in a variable that is already bound', st)
        return self.declare(env, name, e.ty, e.term, e.pre, st)

    def regex_class(self, call):
        if call.keywords or len(call.args) != 1 or not (isinstance(call.args[0], ast.Constant) and isinstance(call.args[0].value, str)):
            raise U('re.compile of something other than one string literal', call)
        pat = call.args[0].value
        m = _re.fullmatch(r'\^\[([^\]\\^]+)\]\$', pat)
        if not m:
            raise U('regular expression %r is not of the form ^[class]$' % pat, call)
        body, ranges, i = m.group(1), [], 0
        while i < len(body):
            if i + 2 < len(body) and body[i + 1] == '-':
                lo, hi = ord(body[i]), ord(body[i + 2])
                if lo > hi:
                    raise U('bad character range in %r' % pat, call)
                ranges.append((lo, hi))
                i += 3
            else:
                if body[i] == '-' and 0 < i < len(body) - 1:
                    raise U('character class %r' % pat, call)
                ranges.append((ord(body[i]), ord(body[i])))
                i += 1
        return ranges

    def definitely_assigned(self, stmts):
        out = set()
        for st in stmts:
            if isinstance(st, ast.Assign) and len(st.targets) == 1 and isinstance(st.targets[0], ast.Name):
                out.add(st.targets[0].id)
            elif isinstance(st, ast.AnnAssign) and isinstance(st.target, ast.Name) and st.value is not None:
                out.add(st.target.id)
            elif isinstance(st, ast.If) and st.orelse:
                out |= self.definitely_assigned(st.body) & self.definitely_assigned(st.orelse)
            elif isinstance(st, (ast.Return, ast.Break, ast.Continue)):
                break
        return out

    def trial_types(self, stmts, env, names):
        """types that `names` get in `stmts` (a trial translation whose output is thrown away)"""
        saved = (self.nx, self.nt, dict(self.leans), set(self.env_names))
        try:
            inner = env.copy()
            self.block(stmts, inner)
            return {n: inner.vars[n].ty for n in names if n in inner.vars}
        finally:
            self.nx, self.nt, self.leans, self.env_names = saved[0], saved[1], saved[2], saved[3]

    def find_test(self, test, env):
        """`v != -1` / `v == -1` for an unrefined find() result v -> (v, test is `!=`)"""
        if isinstance(test, ast.Compare) and len(test.ops) == 1 and isinstance(test.ops[0], (ast.Eq, ast.NotEq)):
            a, b = test.left, test.comparators[0]
            for x, y in ((a, b), (b, a)):
                if isinstance(x, ast.Name) and x.id in env.vars and env.vars[x.id].ty == FIND and env.vars[x.id].refined is None:
                    if isinstance(y, ast.UnaryOp) and isinstance(y.op, ast.USub) and isinstance(y.operand, ast.Constant) and \
                            type(y.operand.value) is int and y.operand.value == 1:
                        return x.id, isinstance(test.ops[0], ast.NotEq)
                    raise U('the result of find() is compared with something other than -1', test)
        return None

    def if_(self, st, env):
        out = []
        body, orelse = st.body, st.orelse
        # names first bound in both branches are declared in front
        both = (self.definitely_assigned(body) & self.definitely_assigned(orelse)) - set(env.vars)
        if both:
            if self.find_test(st.test, env):
                raise U('names first bound inside an `if v != -1`', st)
            t1 = self.trial_types(body, env, both)
            t2 = self.trial_types(orelse, env, both)
            for n in sorted(both, key=lambda n: self.first_store(st, n)):
                if n not in t1 or n not in t2:
                    raise U('the type of %s is not known in front of the `if`' % n, st)
                ty = join_type(t1[n], t2[n], st)
                if ty not in DEFAULT:
                    raise U('a %s first bound inside an `if`' % ty, st)
                out += self.declare(env, n, ty, DEFAULT[ty], [], st)
        ft = self.find_test(st.test, env)
        if ft:
            name, ne = ft
            v = env.vars[name]
            k = self.tmp()
            yes, no = (body, orelse) if ne else (orelse, body)
            e1 = env.copy()
            vr = Var(v.lean, FIND)
            vr.refined = k
            e1.vars[name] = vr
            a = self.block(yes, e1)
            b = self.block(no, env.copy())
            out += ['match %s with' % v.lean, '| some %s =>' % k] + ['  ' + l for l in a] + ['| none =>'] + ['  ' + l for l in b]
            return out
        c = self.truth(st.test, env)
        out += c.pre
        e1, e2 = env.copy(), env.copy()
        a = self.block(body, e1)
        out += ['if %s then' % c.term] + ['  ' + l for l in a]
        if [s for s in orelse if not self.is_noise(s)]:
            b = self.block(orelse, e2)
            out += ['else'] + ['  ' + l for l in b]
        return out

    @staticmethod
    def first_store(node, name):
        best = (10 ** 9, 10 ** 9)
        for n in ast.walk(node):
            if isinstance(n, ast.Name) and n.id == name and isinstance(n.ctx, ast.Store):
                best = min(best, (n.lineno, n.col_offset))
        return best

    def for_(self, st, env):
        if st.orelse:
            raise U('for … else', st)
        out = []
        it = st.iter
        assigned = self.assigned_names(st.body)
        inner = env.copy()
        inner.in_loop = True
        head_extra = []
        # enumerate(xs) with a two-name target
        if isinstance(it, ast.Call) and self.is_builtin(it.func, 'enumerate'):
            if it.keywords or len(it.args) != 1:
                raise U('enumerate with a start value', it)
            if not (isinstance(st.target, ast.Tuple) and len(st.target.elts) == 2 and all(isinstance(t, ast.Name) for t in st.target.elts)) or \
                    st.target.elts[0].id == st.target.elts[1].id:
                raise U('enumerate needs a two-name target', st)
            xs = self.expr(it.args[0], env)
            if xs.ty not in ELEM:
                raise U('enumerate of a %s' % xs.ty, it)
            out += xs.pre
            names, tys = [t.id for t in st.target.elts], [NAT, ELEM[xs.ty]]
            iter_term = 'Py.enumerate %s' % atom(xs.term)
        else:
            if not isinstance(st.target, ast.Name):
                raise U('loop target', st)
            names = [st.target.id]
            if isinstance(it, ast.Call) and self.is_builtin(it.func, 'range'):
                if it.keywords or not 1 <= len(it.args) <= 3:
                    raise U('range arguments', it)
                args = [self.expr(a, env) for a in it.args]
                for a in args:
                    if a.ty != NAT:
                        raise U('range of a %s' % a.ty, it)
                    out += a.pre
                if len(args) == 1:
                    iter_term = 'List.range %s' % atom(args[0].term)
                else:
                    step = atom(args[2].term) if len(args) == 3 else '1'
                    iter_term = '(← Py.range3 %s %s %s)' % (atom(args[0].term), atom(args[1].term), step)
                tys = [NAT]
            else:
                xs = self.expr(it, env)
                if xs.ty not in ELEM:
                    raise U('loop over a %s' % xs.ty, it)
                out += xs.pre
                iter_term = xs.term
                tys = [ELEM[xs.ty]]
        for n in names:
            if self.inline_stack and n in self.inline_stack[-1].get('__params__', ()):
                raise U('the inlined function re-binds its parameter %s' % n, st)
            if n in env.vars and env.vars[n].ty in (REGEX, FILEOBJ, TBL, SSF):
                raise U('the loop variable %s re-binds a %s' % (n, env.vars[n].ty), st)
        # a loop variable that is a variable of the enclosing scope keeps its last value after the loop in Python; here it is local
        pats = []
        for n, ty in zip(names, tys):
            if n in env.vars:
                raise U('the loop variable %s is already bound outside the loop (its value after the loop would be visible)' % n, st)
            lean = self.lean_name(n)
            if n in assigned:
                pats.append(lean + "'")
                head_extra.append('let mut %s : %s := %s' % (lean, LEAN_TYPE[ty], lean + "'"))
            else:
                pats.append(lean)
            inner.vars[n] = Var(lean, ty)
        pat = pats[0] if len(pats) == 1 else '(%s)' % ', '.join(pats)
        body = self.block(st.body, inner)
        out += ['for %s in %s do' % (pat, iter_term)] + ['  ' + l for l in head_extra + body]
        return out

    def with_(self, st, env):
        # with open(P) as F:   (P the parameter that stands for the lines of a file)
        if len(st.items) != 1:
            raise U('with statement', st)
        item = st.items[0]
        c = item.context_expr
        if not (isinstance(c, ast.Call) and self.is_builtin(c.func, 'open') and not c.keywords and len(c.args) == 1 and
                isinstance(c.args[0], ast.Name) and c.args[0].id in env.vars and env.vars[c.args[0].id].ty == 'linesfile'):
            raise U('`with` other than `with open(<dump file parameter>) as f`', st)
        if not isinstance(item.optional_vars, ast.Name):
            raise U('with … as target', st)
        f = item.optional_vars.id
        if f in env.vars:
            raise U('the file object re-binds %s' % f, st)
        env.vars[f] = Var(None, FILEOBJ, env.vars[c.args[0].id].lean)
        out = self.block(st.body, env)          # `with` is not a scope in Python
        del env.vars[f]                          # closed: any later use is an error in Python, untranslatable here
        return [] if out == ['pure ()'] else out

    def call_stmt(self, call, env):
        f = call.func
        # L.append(e) / L.extend(e)
        if isinstance(f, ast.Attribute) and isinstance(f.value, ast.Name) and f.value.id in env.vars and f.attr in ('append', 'extend'):
            n = f.value.id
            v = env.vars[n]
            if call.keywords or len(call.args) != 1:
                raise U('arguments of %s' % f.attr, call)
            e = self.expr(call.args[0], env)
            if f.attr == 'append':
                if v.ty in (STRS, ASTRS) and e.ty in TEXTY:
                    ty = STRS if (v.ty == STRS or e.ty == STR) else ASTRS
                elif v.ty == NATS and e.ty == NAT:
                    ty = NATS
                elif v.ty == BYTES and e.ty == NAT:
                    raise U('bytearray.append (ValueError above 255 is not modelled)', call)
                else:
                    raise U('append of a %s to a %s' % (e.ty, v.ty), call)
                return self.mutate(env, n, ty, '%s ++ [%s]' % (v.lean, e.term), e.pre, call)
            if v.ty in (STRS, ASTRS) and e.ty in (STRS, ASTRS):
                ty = STRS if STRS in (v.ty, e.ty) else ASTRS
            elif v.ty == NATS and e.ty == NATS:
                ty = NATS
            elif v.ty == BYTES and e.ty == BYTES:
                ty = BYTES
            else:
                raise U('extend of a %s by a %s' % (v.ty, e.ty), call)
            return self.mutate(env, n, ty, '%s ++ %s' % (v.lean, atom(e.term)), e.pre, call)
        # a function of the same module, inlined
        if isinstance(f, ast.Name) and f.id not in env.vars:
            h = self.module_name(f.id, call)
            if h and h[0] == 'def':
                return self.inline(h[1], call, env)
        raise U('call of %s as a statement' % (dotted(f) or '?'), call)

    def mutate(self, env, name, ty, term, pre, node):
        """in-place change of the list `name` (allowed on an aliased parameter of an inlined function, unlike re-binding)"""
        v = env.vars[name]
        return pre + ['%s := %s' % (v.lean, term)]

    def inline(self, fn, call, env):
        if len(self.inline_stack) >= 3 or any(fr.get('__fn__') == fn.name for fr in self.inline_stack):
            raise U('nested / recursive inlining of %s' % fn.name, call)
        a = fn.args
        if a.vararg or a.kwarg or a.kwonlyargs or a.posonlyargs or a.defaults or a.kw_defaults or call.keywords or \
                len(a.args) != len(call.args) or any(isinstance(x, ast.Starred) for x in call.args):
            raise U('argument list of %s' % fn.name, call)
        self.check_aliasing(fn)
        out = []
        inner = Env()
        inner.in_loop = False
        params = [x.arg for x in a.args]
        if len(set(params)) != len(params):
            raise U('parameters of %s' % fn.name, fn)
        aliased = {}
        self.scope_counter = getattr(self, 'scope_counter', 0) + 1
        new_scope = self.scope_counter
        for p, arg in zip(params, call.args):
            if isinstance(arg, ast.Name) and arg.id in env.vars:
                inner.vars[p] = env.vars[arg.id]
                aliased[p] = arg.id
            else:
                e = self.expr(arg, env)
                if e.ty not in LEAN_TYPE:
                    raise U('a %s as argument of %s' % (e.ty, fn.name), call)
                out += e.pre
                old_scope, self.scope = self.scope, new_scope
                lean = self.lean_name(p)
                self.scope = old_scope
                out.append('let %s : %s := %s' % (lean, LEAN_TYPE[e.ty], e.term))
                inner.vars[p] = Var(lean, e.ty)
        targets = [aliased[p] for p in params if p in aliased]
        if len(set(targets)) != len(targets):
            raise U('the same variable is passed twice to %s' % fn.name, call)
        frame = {n: True for n in self.assigned_names(fn.body)}
        frame['__params__'] = set(params)
        frame['__fn__'] = fn.name
        for n in self.assigned_names(fn.body):
            if n in params:
                raise U('the inlined function %s re-binds its parameter %s' % (fn.name, n), fn)
        self.inline_stack.append(frame)
        old_scope, self.scope = self.scope, new_scope
        old_ret = self.ret_type
        try:
            body = self.block(fn.body, inner)
        finally:
            self.scope = old_scope
            self.inline_stack.pop()
            self.ret_type = old_ret
        # what the body did to the aliased variables (only in-place list changes are possible) goes back to the caller's names
        for p, n in aliased.items():
            env.vars[n] = inner.vars[p]
        self.env_names = set(env.vars)
        out += [l for l in body if l != 'pure ()']
        return out

    # ---- expressions
    def truth(self, node, env):
        if isinstance(node, ast.UnaryOp) and isinstance(node.op, ast.Not):
            c = self.truth(node.operand, env)
            return E('(!%s)' % c.term, BOOL, c.pre)
        if isinstance(node, ast.BoolOp):
            vals = [self.truth(v, env) for v in node.values]
            is_and = isinstance(node.op, ast.And)
            acc = vals[-1]
            for v in reversed(vals[:-1]):
                if not acc.pre:
                    acc = E('(%s %s %s)' % (v.term, '&&' if is_and else '||', acc.term), BOOL, v.pre)
                else:
                    t = self.tmp()
                    rhs = '(do\n%s\n  pure %s)' % ('\n'.join('  ' + l for l in acc.pre), atom(acc.term))
                    if is_and:
                        line = 'let %s ← (if %s then %s else pure false)' % (t, v.term, rhs)
                    else:
                        line = 'let %s ← (if %s then pure true else %s)' % (t, v.term, rhs)
                    acc = E(t, BOOL, v.pre + line.split('\n'))
            return acc
        e = self.expr(node, env)
        if e.ty == BOOL:
            return e
        if e.ty == NAT:
            return E('(%s != 0)' % e.term, BOOL, e.pre)
        if e.ty in LISTY:
            return E('(!%s.isEmpty)' % atom(e.term), BOOL, e.pre)
        raise U('truth value of a %s' % e.ty, node)

    def pure_simple(self, node):
        return isinstance(node, ast.Name) or (isinstance(node, ast.Constant) and type(node.value) in (int, str))

    def expr(self, node, env):
        self.env_names = set(env.vars)
        if isinstance(node, ast.Constant):
            v = node.value
            if isinstance(v, bool):
                return E('true' if v else 'false', BOOL)
            if isinstance(v, int):
                if v < 0:
                    raise U('negative literal', node)
                return E(str(v), NAT)
            if isinstance(v, str):
                return E(lean_text(v), ASTR if v.isascii() else STR)
            if isinstance(v, bytes):
                return E('[' + ', '.join(str(x) for x in v) + ']', BYTES)
            raise U('literal %r' % (v,), node)
        if isinstance(node, ast.Name):
            if node.id in env.vars:
                v = env.vars[node.id]
                if v.ty == FIND:
                    if v.refined is None:
                        raise U('the result of find() is used without a test against -1', node)
                    return E(v.refined, NAT)
                if v.ty in (REGEX, FILEOBJ):
                    raise U('a %s used as a value' % v.ty, node)
                if v.ty == 'linesfile':
                    raise U('the dump file name is used other than in open()', node)
                return E(v.lean, v.ty)
            h = self.module_name(node.id, node)
            if h and h[0] == 'assign':
                t, ty = const_value(self.world, self.mod, node)
                return E(t, ty)
            raise U('unknown name %s' % node.id, node)
        if isinstance(node, ast.Attribute):
            # Class.CONST of a class imported from a known module
            if isinstance(node.value, ast.Name) and node.value.id not in env.vars:
                h = self.module_name(node.value.id, node)
                if h and h[0] == 'from' and h[1] in MODULE_FILES:
                    m2 = self.world.module(MODULE_FILES[h[1]])
                    h2 = m2.how(h[2])
                    if h2 and h2[0] == 'class':
                        t, ty = class_const(self.world, m2, h2[1], node.attr)
                        return E(t, ty)
                if h and h[0] == 'class':
                    t, ty = class_const(self.world, self.mod, h[1], node.attr)
                    return E(t, ty)
            raise U('attribute %s' % (dotted(node) or '?'), node)
        if isinstance(node, ast.List):
            if node.elts:
                raise U('non-empty list display', node)
            return E('[]', 'emptylist')
        if isinstance(node, ast.UnaryOp) and isinstance(node.op, ast.Not):
            return self.truth(node, env)
        if isinstance(node, ast.BoolOp):
            return self.truth(node, env) if self.all_bool(node, env) else self._raise(U('`and`/`or` of non-boolean values', node))
        if isinstance(node, ast.BinOp):
            return self.binop(node, env)
        if isinstance(node, ast.Compare):
            return self.compare(node, env)
        if isinstance(node, ast.IfExp):
            c = self.truth(node.test, env)
            a, b = self.expr(node.body, env), self.expr(node.orelse, env)
            ty = join_type(a.ty, b.ty, node)
            if not a.pre and not b.pre:
                return E('(if %s then %s else %s)' % (c.term, a.term, b.term), ty, c.pre)
            t = self.tmp()

            def arm(x):
                if not x.pre:
                    return 'pure %s' % atom(x.term)
                # a single bind whose value is the result: `pure (← m)` = m
                m = _re.fullmatch(r'let (t\d+) ← (.*)', x.pre[-1])
                if len(x.pre) == 1 and m and m.group(1) == x.term:
                    return m.group(2)
                return '(do\n%s\n  pure %s)' % ('\n'.join('  ' + l for l in x.pre), atom(x.term))
            line = 'let %s ← (if %s then %s else %s)' % (t, c.term, arm(a), arm(b))
            return E(t, ty, c.pre + line.split('\n'))
        if isinstance(node, ast.Subscript):
            return self.subscript(node, env)
        if isinstance(node, ast.JoinedStr):
            return self.fstring(node, env)
        if isinstance(node, ast.Call):
            return self.call(node, env)
        raise U('expression %s' % type(node).__name__, node)

    @staticmethod
    def _raise(e):
        raise e

    def all_bool(self, node, env):
        """every operand of an and/or is a comparison / not / and / or (so the value IS its truth value)"""
        for v in node.values:
            if isinstance(v, ast.BoolOp):
                if not self.all_bool(v, env):
                    return False
            elif not (isinstance(v, ast.Compare) or (isinstance(v, ast.UnaryOp) and isinstance(v.op, ast.Not)) or
                      (isinstance(v, ast.Constant) and isinstance(v.value, bool))):
                return False
        return True

    def binop(self, node, env):
        if isinstance(node.op, ast.Mod) and isinstance(node.left, ast.Constant) and isinstance(node.left.value, str):
            return self.percent(node, env)
        a, b = self.expr(node.left, env), self.expr(node.right, env)
        pre = a.pre + b.pre
        if a.ty == NAT and b.ty == NAT:
            if isinstance(node.op, ast.Add):
                return E('(%s + %s)' % (a.term, b.term), NAT, pre)
            if isinstance(node.op, ast.Mult):
                return E('(%s * %s)' % (a.term, b.term), NAT, pre)
            if isinstance(node.op, ast.Sub):
                t = self.tmp()
                return E(t, NAT, pre + ['let %s ← Py.sub %s %s' % (t, atom(a.term), atom(b.term))])
            if isinstance(node.op, ast.Mod):
                if isinstance(node.right, ast.Constant) and type(node.right.value) is int and node.right.value > 0:
                    return E('(%s %% %s)' % (a.term, b.term), NAT, pre)
                t = self.tmp()
                return E(t, NAT, pre + ['let %s ← Py.mod %s %s' % (t, atom(a.term), atom(b.term))])
            if isinstance(node.op, ast.FloorDiv) and isinstance(node.right, ast.Constant) and type(node.right.value) is int and node.right.value > 0:
                return E('(%s / %s)' % (a.term, b.term), NAT, pre)
            raise U('integer operator %s' % type(node.op).__name__, node)
        if isinstance(node.op, ast.Add):
            if a.ty in TEXTY and b.ty in TEXTY:
                return E('(%s ++ %s)' % (a.term, b.term), ASTR if a.ty == b.ty == ASTR else STR, pre)
            if a.ty == BYTES and b.ty == BYTES:
                return E('(%s ++ %s)' % (a.term, b.term), BYTES, pre)
        raise U('operator %s on %s, %s' % (type(node.op).__name__, a.ty, b.ty), node)

    def compare(self, node, env):
        operands = [node.left] + list(node.comparators)
        if len(operands) > 2:
            for mid in operands[1:-1]:
                if not self.pure_simple(mid):
                    raise U('chained comparison whose middle operand is not a name or a literal', node)
        parts, pre = [], []
        for op, l, r in zip(node.ops, operands, operands[1:]):
            e = self.compare1(op, l, r, env, node)
            if e.pre and parts:
                raise U('chained comparison with an operand that can raise', node)
            pre += e.pre
            parts.append(e.term)
        t = parts[0]
        for p in parts[1:]:
            t = '(%s && %s)' % (t, p)
        return E(t, BOOL, pre)

    def compare1(self, op, l, r, env, node):
        if self.find_test(ast.Compare(left=l, ops=[op], comparators=[r]), env):
            raise U('a test of find() against -1 must be the whole condition of an `if`', node)
        # a character against a one-character literal
        a, b = self.expr(l, env), self.expr(r, env)
        pre = a.pre + b.pre
        if a.ty == CHAR or b.ty == CHAR:
            def as_char(e, n):
                if e.ty == CHAR:
                    return e.term
                if isinstance(n, ast.Constant) and isinstance(n.value, str) and len(n.value) == 1:
                    return str(ord(n.value))
                raise U('a character is compared with a %s' % e.ty, node)
            x, y = as_char(a, l), as_char(b, r)
            if isinstance(op, ast.Eq):
                return E('(%s == %s)' % (x, y), BOOL, pre)
            if isinstance(op, ast.NotEq):
                return E('(%s != %s)' % (x, y), BOOL, pre)
            raise U('ordering of characters', node)
        if a.ty == NAT and b.ty == NAT:
            if isinstance(op, ast.Eq):
                return E('(%s == %s)' % (a.term, b.term), BOOL, pre)
            if isinstance(op, ast.NotEq):
                return E('(%s != %s)' % (a.term, b.term), BOOL, pre)
            for k, o in ((ast.Lt, '<'), (ast.LtE, '≤'), (ast.Gt, '>'), (ast.GtE, '≥')):
                if isinstance(op, k):
                    return E('decide (%s %s %s)' % (a.term, o, b.term), BOOL, pre)
        if (a.ty in TEXTY and b.ty in TEXTY) or (a.ty == b.ty and a.ty in (BYTES, NATS, BOOL)):
            if isinstance(op, ast.Eq):
                return E('(%s == %s)' % (a.term, b.term), BOOL, pre)
            if isinstance(op, ast.NotEq):
                return E('(%s != %s)' % (a.term, b.term), BOOL, pre)
        raise U('comparison %s on %s, %s' % (type(op).__name__, a.ty, b.ty), node)

    def subscript(self, node, env):
        v = self.expr(node.value, env)
        sl = node.slice
        if isinstance(sl, ast.Slice):
            if sl.step is not None:
                raise U('slice with a step', node)
            if v.ty not in LISTY:
                raise U('slice of a %s' % v.ty, node)
            pre = list(v.pre)
            if sl.lower is None:
                lo = '0'
            else:
                e = self.expr(sl.lower, env)
                if e.ty != NAT:
                    raise U('slice bound of type %s' % e.ty, node)
                pre += e.pre
                lo = atom(e.term)
            if sl.upper is None:
                hi = '%s.length' % atom(v.term)
            else:
                e = self.expr(sl.upper, env)
                if e.ty != NAT:
                    raise U('slice bound of type %s' % e.ty, node)
                pre += e.pre
                hi = atom(e.term)
            return E('Py.slice %s %s %s' % (atom(v.term), lo, hi), v.ty, pre)
        i = self.expr(sl, env)
        if i.ty != NAT or v.ty not in ELEM:
            raise U('subscript of a %s by a %s' % (v.ty, i.ty), node)
        t = self.tmp()
        return E(t, ELEM[v.ty], v.pre + i.pre + ['let %s ← %s[%s]?' % (t, atom(v.term), i.term)])

    # ---- strings
    def concat(self, parts):
        parts = [p for p in parts if p != '[]']
        if not parts:
            return '[]'
        t = parts[0]
        for p in parts[1:]:
            t = '%s ++ %s' % (t, atom(p))
        return t

    def percent(self, node, env):
        fmt = node.left.value
        vals = list(node.right.elts) if isinstance(node.right, ast.Tuple) else [node.right]
        es = [self.expr(v, env) for v in vals]
        pre = [l for e in es for l in e.pre]
        parts, i, lit, k = [], 0, '', 0
        while k < len(fmt):
            if fmt[k] != '%':
                lit += fmt[k]
                k += 1
                continue
            m = _re.match(r'%([0-9]*)([a-zA-Z%])', fmt[k:])
            if not m:
                raise U('%% conversion in %r' % fmt, node)
            if m.group(2) == '%':
                if m.group(1):
                    raise U('%% conversion in %r' % fmt, node)
                lit += '%'
            else:
                if i >= len(es):
                    raise U('too few values for %', node)
                if lit:
                    parts.append(lean_text(lit))
                    lit = ''
                parts.append(spec_term(m.group(1), m.group(2), es[i], node))
                i += 1
            k += len(m.group(0))
        if i != len(es):
            raise U('too many values for %', node)
        if lit:
            parts.append(lean_text(lit))
        return E(self.concat(parts), STR, pre)

    def spec_of(self, spec, e, node):
        """format_spec of an f-string / str.format field"""
        if spec == '':
            return spec_term('', 's', e, node)
        m = _re.fullmatch(r'([0-9]*)([a-zA-Z])', spec)
        if not m:
            raise U('format spec %r' % spec, node)
        return spec_term(m.group(1), m.group(2), e, node)

    def fstring(self, node, env):
        parts, pre = [], []
        for v in node.values:
            if isinstance(v, ast.Constant) and isinstance(v.value, str):
                if v.value:
                    parts.append(lean_text(v.value))
            elif isinstance(v, ast.FormattedValue):
                if v.conversion != -1:
                    raise U('f-string conversion', node)
                spec = ''
                if v.format_spec is not None:
                    if not (isinstance(v.format_spec, ast.JoinedStr) and all(isinstance(x, ast.Constant) for x in v.format_spec.values)):
                        raise U('nested format spec', node)
                    spec = ''.join(x.value for x in v.format_spec.values)
                e = self.expr(v.value, env)
                pre += e.pre
                parts.append(self.spec_of(spec, e, node))
            else:
                raise U('f-string part', node)
        return E(self.concat(parts), STR, pre)

    def dotformat(self, node, env):
        if node.keywords:
            raise U('format with keywords', node)
        fmt = node.func.value.value
        es = [self.expr(a, env) for a in node.args]
        pre = [l for e in es for l in e.pre]
        try:
            parsed = list(string.Formatter().parse(fmt))
        except ValueError:
            raise U('format string', node)
        parts, auto, numbering, used = [], 0, None, set()
        for lit, field, spec, conv in parsed:
            if lit:
                parts.append(lean_text(lit))
            if field is None:
                continue
            if conv:
                raise U('format conversion', node)
            if field == '':
                if numbering == 'manual':
                    raise U('mixed field numbering', node)
                numbering, idx = 'auto', auto
                auto += 1
            elif field.isdigit():
                if numbering == 'auto':
                    raise U('mixed field numbering', node)
                numbering, idx = 'manual', int(field)
            else:
                raise U('format field %r' % field, node)
            if idx >= len(es):
                raise U('format index', node)
            used.add(idx)
            parts.append(self.spec_of(spec or '', es[idx], node))
        return E(self.concat(parts), STR, pre)

    # ---- calls
    def args(self, node, n, env):
        if node.keywords or len(node.args) != n or any(isinstance(a, ast.Starred) for a in node.args):
            raise U('argument list of %s' % (dotted(node.func) or '?'), node)
        return [self.expr(a, env) for a in node.args]

    def call(self, node, env):
        f = node.func
        if self.is_builtin(f, 'len'):
            x, = self.args(node, 1, env)
            if x.ty not in LISTY:
                raise U('len of a %s' % x.ty, node)
            return E('%s.length' % atom(x.term), NAT, x.pre)
        if self.is_builtin(f, 'chr'):
            x, = self.args(node, 1, env)
            if x.ty != NAT:
                raise U('chr of a %s' % x.ty, node)
            t = self.tmp()
            return E(t, STR, x.pre + ['let %s ← Py.chr %s' % (t, atom(x.term))])
        if self.is_builtin(f, 'sorted'):
            x, = self.args(node, 1, env)
            if x.ty != NATS:
                raise U('sorted of a %s' % x.ty, node)
            return E('sortNat %s' % atom(x.term), NATS, x.pre)
        if self.is_builtin(f, 'bytearray') and not node.args and not node.keywords:
            return E('[]', BYTES)
        if any(self.is_builtin(f, n) for n in ('memoryview', 'bytes', 'bytearray')):
            x, = self.args(node, 1, env)
            if x.ty != BYTES:
                raise U('%s of a %s' % (f.id, x.ty), node)
            return E(x.term, BYTES, x.pre)
        if isinstance(f, ast.Attribute):
            # math.ceil(a / b)
            if f.attr == 'ceil' and self.is_module(f.value, 'math'):
                if node.keywords or len(node.args) != 1 or not (isinstance(node.args[0], ast.BinOp) and isinstance(node.args[0].op, ast.Div)):
                    raise U('math.ceil of something other than a / b', node)
                a, b = self.expr(node.args[0].left, env), self.expr(node.args[0].right, env)
                if a.ty != NAT or b.ty != NAT:
                    raise U('math.ceil(a / b) on %s, %s' % (a.ty, b.ty), node)
                t = self.tmp()
                return E(t, NAT, a.pre + b.pre + ['let %s ← Py.ceilDiv %s %s' % (t, atom(a.term), atom(b.term))])
            # bytes.fromhex(t)
            if f.attr == 'fromhex' and (self.is_builtin(f.value, 'bytes') or self.is_builtin(f.value, 'bytearray')):
                x, = self.args(node, 1, env)
                if x.ty not in TEXTY:
                    raise U('fromhex of a %s' % x.ty, node)
                t = self.tmp()
                return E(t, BYTES, x.pre + ['let %s ← Py.fromHex %s' % (t, atom(x.term))])
            # pel.hexdump.parse through `import pel.hexdump as hexdump`
            if f.attr == 'parse' and self.is_module(f.value, 'pel.hexdump'):
                ls, fm = self.args(node, 2, env)
                if not same_lean(ls.ty, STRS) or fm.ty not in TEXTY:
                    raise U('hexdump.parse of %s, %s' % (ls.ty, fm.ty), node)
                return E('parseDump %s %s' % (atom(fm.term), atom(ls.term)), BYTES, ls.pre + fm.pre)
            # "...".format(...)
            if f.attr == 'format' and isinstance(f.value, ast.Constant) and isinstance(f.value.value, str):
                return self.dotformat(node, env)
            # F.readlines()
            if f.attr == 'readlines' and isinstance(f.value, ast.Name) and f.value.id in env.vars and env.vars[f.value.id].ty == FILEOBJ:
                self.args(node, 0, env)
                return E(env.vars[f.value.id].extra, STRS)
            # R.match(c)
            if f.attr == 'match' and isinstance(f.value, ast.Name) and f.value.id in env.vars and env.vars[f.value.id].ty == REGEX:
                c, = self.args(node, 1, env)
                if c.ty != CHAR:
                    raise U('a compiled character class is matched against a %s (only one character is understood)' % c.ty, node)
                cls = ', '.join('(%d, %d)' % r for r in env.vars[f.value.id].extra)
                return E('Py.inClass [%s] %s' % (cls, atom(c.term)), BOOL, c.pre)
            # methods of values
            recv = self.expr(f.value, env)
            if f.attr == 'ljust' and recv.ty in TEXTY:
                n, = self.args(node, 1, env)
                if n.ty != NAT:
                    raise U('ljust width of type %s' % n.ty, node)
                return E('ljust %s 32 %s' % (atom(n.term), atom(recv.term)), STR, recv.pre + n.pre)
            if f.attr == 'rstrip' and recv.ty in TEXTY:
                if node.keywords or len(node.args) != 1 or not (isinstance(node.args[0], ast.Constant) and isinstance(node.args[0].value, str)
                                                                and len(node.args[0].value) == 1):
                    raise U('rstrip of something other than one literal character', node)
                return E('rstripChar %d %s' % (ord(node.args[0].value), atom(recv.term)), recv.ty, recv.pre)
            if f.attr == 'tobytes' and recv.ty == BYTES:
                self.args(node, 0, env)
                return E(recv.term, BYTES, recv.pre)
            if f.attr == 'encode' and recv.ty in TEXTY:
                self.args(node, 0, env)
                if recv.ty != ASTR:
                    raise U('encode() of a string that is not known to be ASCII', node)
                return E(recv.term, BYTES, recv.pre)
            if f.attr == 'find' and recv.ty == BYTES:
                p, = self.args(node, 1, env)
                if p.ty != BYTES:
                    raise U('find of a %s in bytes' % p.ty, node)
                return E('findSub %s %s 0' % (atom(p.term), atom(recv.term)), FIND, recv.pre + p.pre)
            raise U('method %s of a %s' % (f.attr, recv.ty), node)
        if isinstance(f, ast.Name) and f.id not in env.vars:
            for fname, module, lean, tys, rty in (
                    ('parse_ilog_data', 'io_drawer.ilog', 'parseIlog', (BYTES, TBL), STRS),
                    ('parse_trace_data', 'io_drawer.trace', 'parseTrace', (BYTES, SSF), STRS)):
                if self.imported_from(f, module, fname):
                    d, tb = self.args(node, 2, env)
                    if (d.ty, tb.ty) != tys:
                        raise U('%s of %s, %s' % (fname, d.ty, tb.ty), node)
                    t = self.tmp()
                    return E(t, rty, d.pre + tb.pre + ['let %s ← %s %s %s' % (t, lean, atom(tb.term), atom(d.term))])
            h = self.module_name(f.id, node)
            if f.id == 'parse_dump_data' and h and h[0] == 'def' and self.mod.rel == 'io_drawer/dump.py':
                d, tb, sf = self.args(node, 3, env)
                if (d.ty, tb.ty, sf.ty) != (BYTES, TBL, SSF):
                    raise U('parse_dump_data of %s, %s, %s' % (d.ty, tb.ty, sf.ty), node)
                t = self.tmp()
                return E(t, STRS, d.pre + tb.pre + sf.pre + ['let %s ← parseDumpData %s %s %s' % (t, atom(tb.term), atom(sf.term), atom(d.term))])
        raise U('call of %s' % (dotted(f) or '?'), node)


# ------------------------------------------------------------------------------------------------------------------

class EmptyListFix(FnTr):
    """`x = []`: the element type comes from the first use; the translated functions only build lists of str, ints are declared by
       the first `append`/`extend`/`sorted`.  We resolve it by looking ahead for the first append/extend on that name."""

    def assign(self, name, value, env, st):
        if isinstance(value, ast.List) and not value.elts:
            ty = self.list_type(name, env)
            return self.declare(env, name, ty, '[]', [], st)
        return super().assign(name, value, env, st)

    def list_type(self, name, env):
        """element kind of the empty list bound to `name`, from the way the function uses that name"""
        if name in env.vars and env.vars[name].ty in (STRS, ASTRS, NATS):
            return STRS if env.vars[name].ty != NATS else NATS
        hint = self.list_hints.get(name)
        if hint is None:
            raise Untranslatable('the element type of the empty list %s is not known' % name)
        return hint


def infer_list_hints(world, mod, fn, ret_type):
    """names bound to `[]` in `fn`: STRS if the name is returned (and the function returns lines) or handed to an inlined helper or
       appended a string; NATS if it is handed to sorted() / appended the result of find().  Purely a TYPE annotation for `[]`
       (a wrong guess makes the generated definition fail to elaborate, i.e. `none`; it cannot change a value)."""
    hints = {}
    empties = set()
    for n in ast.walk(fn):
        if isinstance(n, ast.Assign) and len(n.targets) == 1 and isinstance(n.targets[0], ast.Name) and isinstance(n.value, ast.List) and not n.value.elts:
            empties.add(n.targets[0].id)
        if isinstance(n, ast.AnnAssign) and isinstance(n.target, ast.Name) and isinstance(n.value, ast.List) and not n.value.elts:
            empties.add(n.target.id)
    for n in ast.walk(fn):
        if isinstance(n, ast.Return) and isinstance(n.value, ast.Name) and n.value.id in empties and ret_type == STRS:
            hints.setdefault(n.value.id, STRS)
        if isinstance(n, ast.Call) and isinstance(n.func, ast.Name) and n.func.id == 'sorted' and n.args and isinstance(n.args[0], ast.Name) \
                and n.args[0].id in empties:
            hints.setdefault(n.args[0].id, NATS)
        if isinstance(n, ast.Call) and isinstance(n.func, ast.Attribute) and n.func.attr == 'append' and isinstance(n.func.value, ast.Name) and \
                n.func.value.id in empties and n.args:
            a = n.args[0]
            if isinstance(a, (ast.JoinedStr,)) or (isinstance(a, ast.Constant) and isinstance(a.value, str)) or \
                    (isinstance(a, ast.BinOp) and isinstance(a.op, ast.Mod) and isinstance(a.left, ast.Constant) and isinstance(a.left.value, str)) or \
                    (isinstance(a, ast.Call) and isinstance(a.func, ast.Attribute) and a.func.attr == 'format'):
                hints.setdefault(n.func.value.id, STRS)
    for e in empties:
        hints.setdefault(e, NATS if ret_type != STRS else None)
    return {k: v for k, v in hints.items() if v is not None}


def translate_fn(world, rel, name, param_types, ret_type):
    mod = world.module(rel)
    h = mod.how(name)
    if not h or h[0] != 'def':
        raise Untranslatable('%s: %s is not a plain function definition' % (rel, name))
    fn = h[1]
    tr = EmptyListFix(world, mod, fn, param_types, ret_type, rel)
    tr.list_hints = infer_list_hints(world, mod, fn, ret_type)
    return tr.translate()


def defaults_of(world, rel, name, n_params, which):
    """default values of the parameters `which` (indices) of function `name`, as constant terms"""
    mod = world.module(rel)
    h = mod.how(name)
    if not h or h[0] != 'def':
        raise Untranslatable('%s: %s is not a plain function definition' % (rel, name))
    fn = h[1]
    a = fn.args
    if a.vararg or a.kwarg or a.kwonlyargs or a.posonlyargs or len(a.args) != n_params:
        raise U('unexpected parameter list of %s' % name, fn)
    out = []
    first_default = len(a.args) - len(a.defaults)
    for i in which:
        if i < first_default:
            raise U('parameter %d of %s has no default value' % (i + 1, name), fn)
        out.append(const_value(world, mod, a.defaults[i - first_default]))
    for i in range(first_default, len(a.args)):
        if i not in which:
            raise U('parameter %d of %s has a default value' % (i + 1, name), fn)
    return out


def module_const(world, rel, name, want):
    mod = world.module(rel)
    h = mod.how(name)
    if not h or h[0] != 'assign':
        raise Untranslatable('%s: %s is not a module-level assignment' % (rel, name))
    t, ty = const_value(world, mod, ast.Name(id=name, ctx=ast.Load()))
    if not same_lean(ty, want):
        raise Untranslatable('%s: %s is a %s' % (rel, name, ty))
    # no function of the module may store into it (`global` is excluded by Module.how)
    return t


def buffer_names(world):
    mod = world.module('io_drawer/trace.py')
    h = mod.how('TraceBufferHeader')
    if not h or h[0] != 'class':
        raise Untranslatable('io_drawer/trace.py: TraceBufferHeader is not a class')
    t, ty = class_const(world, mod, h[1], 'BUFFER_NAMES')
    if ty != ASTRS:
        raise Untranslatable('TraceBufferHeader.BUFFER_NAMES is a %s (a list of ASCII strings is expected)' % ty)
    return t


HD, DP = 'pel/hexdump.py', 'io_drawer/dump.py'


def generate(repo, verif):
    gf = GenFile(verif, 'GenHexdump', ['PelModel.HexDump', 'PelModel.Dump', 'PelModel.TransHexdump'],
                 'modules/pel/hexdump.py, modules/io_drawer/dump.py, TraceBufferHeader.BUFFER_NAMES of modules/io_drawer/trace.py')
    world = World(repo)
    emit0 = gf.emit
    gf.emit = lambda nm, ty, th: emit0(nm, ty, lambda: ind(th()))

    def pair(ts):
        (a, ta), (b, tb) = ts
        if ta != NAT or tb != NAT:
            raise Untranslatable('default arguments of hexdump are %s, %s' % (ta, tb))
        return '(%s, %s)' % (a, b)

    def one_text(ts):
        (a, ta), = ts
        if ta not in TEXTY:
            raise Untranslatable('the default template of parse is a %s' % ta)
        return a

    # ---- pel/hexdump.py (C13)
    gf.emit('hexdump', 'Bytes → Nat → Nat → Option (List Text)', lambda: translate_fn(world, HD, 'hexdump', [BYTES, NAT, NAT], STRS))
    gf.emit('hexdumpDefaults', 'Nat × Nat', lambda: pair(defaults_of(world, HD, 'hexdump', 3, [1, 2])))
    gf.emit('parse', 'List Text → Text → Option Bytes', lambda: translate_fn(world, HD, 'parse', [STRS, STR], BYTES))
    gf.emit('parseDefaultFormat', 'Text', lambda: one_text(defaults_of(world, HD, 'parse', 2, [1])))
    gf.emit('defaultLineFormat', 'Text', lambda: module_const(world, HD, 'DEFAULT_LINE_FORMAT', STR))
    # ---- io_drawer/dump.py (C17)
    gf.emit('hexDumpLineFormats', 'List Text', lambda: module_const(world, DP, 'HEX_DUMP_LINE_FORMATS', STRS))
    gf.emit('traceBufferHeaderStart', 'Bytes', lambda: module_const(world, DP, 'TRACE_BUFFER_HEADER_START', BYTES))
    gf.emit('dividerLine', 'Text', lambda: module_const(world, DP, 'DIVIDER_LINE', STR))
    gf.emit('bufferNames', 'List Text', lambda: buffer_names(world))
    gf.emit('parseDumpData', 'Bytes → List PteEntry → List TraceString → Option (List Text)',
            lambda: translate_fn(world, DP, 'parse_dump_data', [BYTES, TBL, SSF], STRS))
    gf.emit('parseDumpFile', 'List Text → List PteEntry → List TraceString → Option (List Text)',
            lambda: translate_fn(world, DP, 'parse_dump_file', ['linesfile', TBL, SSF], STRS))
    return gf


if __name__ == '__main__':
    import os
    import sys
    g = generate(os.environ.get('VERIF_REPO', '/repo'), os.path.dirname(os.path.dirname(os.path.abspath(__file__))))
    sys.stdout.write(g.render())
