"""C16 — history logs show a full hex dump and exactly the non-zero fields."""
import json
import os
import shutil
import tempfile

import common
import iod
from common import Check, lean_batch, tb

TRUSTED = ['Lean 4.33.0 kernel (+ leanchecker in the thorough tier)',
           'axioms: propext, Classical.choice, Quot.sound only (audited per theorem)',
           'harness/extract.py, harness/c16.py + iod.py (generators, file reading with plain open() + iteration, comparison), Drv.lean protocol parsing',
           'compiled driver peldrv agrees with the kernel reading of the same definitions']
ASSUME = ['the field-table LOADER is modelled (PelModel/Regex.lean: backtracking matcher + HLOG_START_RE/HLOG_FIELD_RE/HLOG_END_RE as ASTs; '
          'Loaders.lean: the in_data_structure line loop) and proved to read back printed tables (hlog_header_roundtrip, '
          "lines_outside_table_ignored, non_matching_lines_skipped); that the ASTs denote the repo's pattern strings and that the matcher has "
          "CPython's semantics is established by correspondence only: Lean loader vs get_hlog_fields(path) on the shipped headers, the synthetic "
          'headers and the adversarial stream; the harness has no reader of its own any more, every table used for decoding is loaded by the model',
          'files are read with open(path) + iteration exactly as the repo does (text mode, universal newlines, locale encoding = UTF-8 here)',
          'CPython f-string formatting {value:0NX} is modelled (fmtHex)']
RULE = ('cases = (field table, history-log bytes): both shipped tables and synthetic ones, every length from 0 past the full record, '
        'values all-zero / all-ones / single byte / random; non-trivial = at least one field fits; distinct by (table, bytes). '
        'Loader cases = header files (shipped, synthetic, adversarial: handcrafted field/start/end line variants, small files with character-level '
        'and file-level mutations, whole shipped headers with every line mutated); non-trivial = both loaders return a non-empty table; '
        'distinct by file content')


def run(tier, seed):
    ck = Check('C16', tier, seed)
    ck.proof = common.build_and_audit('C16', thorough=(tier == 'thorough'))
    if not ck.proof['driver_ok']:
        return ck.finish(RULE, TRUSTED, ASSUME)
    from io_drawer import hlog
    from pel import hexdump as hd
    rng = ck.rng
    thorough = tier == 'thorough'
    tmp = tempfile.mkdtemp(prefix='c16_')
    try:
        reqs, meta = [], []
        tables = []
        loader_files = []
        for name, (hdr, _) in iod.drawer_files().items():
            theirs = [(f.name, f.size) for f in hlog.get_hlog_fields(hdr)]
            loader_files.append(('shipped ' + name, hdr))
            tables.append((name, hdr, theirs))
        names = ['hl_a', 'hl_net_block_crc_failures', 'x', 'field with space', 'F_%d', 'ü']
        for t in range(40 if thorough else 10):
            fields = [(rng.choice(names) + str(i), rng.choice([1, 2])) for i in range(rng.randrange(0, 12))]
            if t % 3 == 1 and fields:
                # the same name declared several times (reserved fields): every declaration is a field of its own
                fields = [(rng.choice(['hl_reserved', 'hl_pad', fields[0][0]]) if rng.random() < 0.6 else nm, sz) for nm, sz in fields]
            path = os.path.join(tmp, 'h%d.h' % t)
            iod.write_hlog_header(path, fields)
            loader_files.append(('synth%d' % t, path))
            tables.append(('synth%d' % t, path, fields))
        # ---- the loader itself: Lean model vs get_hlog_fields(path), field by field
        df = iod.drawer_files()
        loader_files += iod.adversarial_files(rng, 'flds', tmp, 1500 if thorough else 150, 24 if thorough else 4, [df['mex'][0], df['nimitz'][0]])
        ck.count('loader files with a non-empty table', iod.run_loader_stream(ck, 'flds', loader_files))
        # ---- and the patterns themselves, one line at a time: None-ness and groups() of fullmatch
        ck.count('lines matched by a pattern', iod.run_pattern_stream(ck, (3, 4, 5), rng, 6000 if thorough else 600, {3: iod.HLOG_STARTS, 4: iod.HLOG_LINES[:8], 5: iod.HLOG_ENDS}))
        for tid, (name, hdr, fields) in enumerate(tables):
            # the table the model decodes with is the one the LEAN loader reads from the file lines (fields only steers the generators)
            reqs.append('deffldfile ' + iod.tok_lines(iod.file_lines(hdr)))
            meta.append(('def', name))
            total = sum(sz for _, sz in fields)
            lens = list(range(0, total + 4)) if (thorough or total < 30) else sorted(set(rng.sample(range(0, total + 4), 25) + [0, 1, total - 1, total, total + 1, total + 3]))
            for n in lens:
                for mode in (['zero', 'ones', 'single', 'random'] if thorough else [rng.choice(['zero', 'ones', 'single', 'random']), 'random']):
                    if mode == 'zero':
                        data = bytes(n)
                    elif mode == 'ones':
                        data = b'\xff' * n
                    elif mode == 'single':
                        data = bytearray(n)
                        if n:
                            data[rng.randrange(n)] = rng.randrange(1, 256)
                        data = bytes(data)
                    elif rng.random() < 0.25:
                        # bytes that read as text: hex digits, blanks, colons, line ends (a binary log is a binary log whatever its bytes spell)
                        data = bytes(rng.choice(b'0123456789ABCDEFabcdef  :\n<>') for _ in range(n))
                    else:
                        data = bytes(rng.choice([0, 0, rng.randrange(256)]) for _ in range(n))
                    reqs.append('hlog %d %s' % (tid, tb(data)))
                    meta.append((name, hdr, fields, data))
        replies = lean_batch(reqs)
        opt_calls, OPT_N = [], (150 if thorough else 50)
        for m, r in zip(meta, replies):
            if m[0] == 'def':
                if not r.ok:
                    ck.disagree('the model declines to load a field table the decode cases need', {'op': 'load-flds', 'case': m[1], 'reply': r.raw[:60]})
                continue
            name, hdr, fields, data = m
            real = hlog.parse_hlog_data(memoryview(data), hdr)
            if len(opt_calls) < OPT_N and rng.random() < (0.3 if 0 < len(data) < sum(sz for _, sz in fields) else 0.03):
                opt_calls.append(('hlog', data, [hdr], real))
            model, specf = r.lines(), r.lines()
            fits = bool(fields) and len(data) >= fields[0][1]
            ck.case(key=(name, data) if fits else None, sample={'table': name, 'len': len(data), 'data': data.hex()[:40]})
            ck.count('len %s total' % ('<' if len(data) < sum(s for _, s in fields) else '>='))
            rp = {'op': 'hlog', 'table': name, 'fields': fields if 'synth' in name else '(shipped)', 'data_hex': data.hex()}
            # property on the real code: lossless dump, then exactly the spec's field lines
            nd = (len(data) + 15) // 16
            dump = real[2:2 + nd]
            if bytes(hd.parse(dump)) != data:
                ck.fail('history log hex dump does not parse back to the data', rp | {'actual': dump[:3]}, 'dump_lossless')
            if real[2 + nd + 3:] != specf:
                ck.fail('history log field lines contradict the property', rp | {'expected': specf[:5], 'actual': real[2 + nd + 3:][:5]}, 'fields')
            if real != model:
                ck.disagree('parse_hlog_data differs from model', rp | {'impl': real[-4:], 'model': model[-4:]})
        iod.check_optimised(ck, opt_calls, 'history-log samples')
        # ---- through the shipped I/O-drawer parser module (subtype 72 of component 2C00): the "History Log" member is the stand-alone decoding of
        # the same bytes with the drawer's header file -- for ANY bytes, all-zero ones included
        try:
            from udparsers.m2c00 import m2c00
            from io_drawer.drawer_type import DRAWER_TYPES
            for dt in DRAWER_TYPES:
                hp = dt.get_header_file_path()
                for data in [bytes(1), bytes(7), bytes(64), b'\0' * 30 + b'\x01', b'\x01' + bytes(40)] + [bytes(rng.choice([0, 0, 0, rng.randrange(256)]) for _ in range(rng.randrange(1, 80))) for _ in range(12 if thorough else 4)]:
                    want = hlog.parse_hlog_data(memoryview(data), hp)
                    try:
                        got = json.loads(m2c00.parseUDToJson(72, dt.user_data_version, memoryview(data)))
                    except Exception as e:  # noqa
                        got = {'<raises>': type(e).__name__}
                    ck.case(key=('m2c00', dt.name, data))
                    ck.count('history log through udparsers.m2c00')
                    if got != {'History Log': want}:
                        ck.fail('the history log shown by the I/O-drawer parser module is not the decoding of its bytes', {'op': 'm2c00-hlog', 'drawer': dt.name, 'data_hex': data.hex(),
                                'actual': str(got)[:200], 'expected': want[:3]}, 'm2c00_hlog')
        except ImportError as e:
            ck.skip('udparsers.m2c00 unavailable: %r' % e)
        # ---- the same, with the io_drawer package installed as individual symbolic links into a store
        try:
            from io_drawer.drawer_type import DRAWER_TYPES as _DT
            iod.check_linkfarm(ck, [(72, dt.user_data_version, d_) for dt in _DT for d_ in (bytes(range(1, 60)), b'\x01' * 9, bytes(5))], 'history logs')
        except ImportError as e:
            ck.skip('io_drawer.drawer_type unavailable: %r' % e)
        # ---- a header file that is rewritten between two decodes in one process
        synth = [pth for nm, pth in loader_files if nm.startswith('synth') and os.path.exists(pth)]
        hdata = bytes((7 * i + 1) % 256 for i in range(24))
        iod.check_rewritten_table_file(ck, 'flds', synth, lambda pth: hlog.parse_hlog_data(memoryview(hdata), pth), rng, 12 if thorough else 4)
    finally:
        shutil.rmtree(tmp, ignore_errors=True)
    return ck.finish(RULE, TRUSTED, ASSUME)


def replay(path):
    rp = json.load(open(path))
    print(json.dumps(rp, indent=1)[:3000])
    return 0
