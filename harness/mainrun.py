"""
`peltool.main()` itself: argument handling, Config construction and the priority chain of modes.

real_main()   runs the REAL main() in-process with sys.argv patched and every function main() can call replaced by a
              recorder (so nothing is decoded, printed, written or removed): what is observed is exactly WHICH function main
              reaches, with WHICH arguments, and the Config it built.
model_main()  asks the compiled Lean model (PelModel/Main.lean: mkConfig, dispatch, jsonCalls, Action.afterPrint) the same.
check_main()  generator + exhaustive sweep over the subsets of the thirteen mode options; compares; checks the properties
              (C11: removing functions only on request and never next to a higher-priority mode; C07: switches -> Config;
              C12: os.remove in the -f branch only if --clean and printed) directly on the real code.
"""
import io
import itertools
import os
import sys
from contextlib import redirect_stderr, redirect_stdout

import common
from common import lean_batch, tlist, tt

BMC_DIR = '/var/lib/phosphor-logging/extensions/pels/logs/'

# field order of Pel.Args (PelModel/Main.lean) = order of the driver request
FIELDS = ['path', 'skipPlugins', 'file', 'list', 'all', 'count', 'delete', 'deleteAll', 'pelID', 'bmcID', 'plid', 'src',
          'srcExclude', 'hex', 'reverse', 'extension', 'every', 'serviceable', 'nonServiceable', 'hidden', 'term',
          'severities', 'only', 'json', 'outputDir', 'clean']
VALUED = {'path': ['-p', '--path'], 'file': ['-f', '--file'], 'delete': ['-d', '--delete'], 'pelID': ['-i', '--id'],
          'bmcID': ['--bmc-id'], 'plid': ['--plid'], 'src': ['--src'], 'srcExclude': ['--src-exclude'],
          'extension': ['-e', '--extension'], 'outputDir': ['-o', '--output-dir']}
SWITCH = {'skipPlugins': ['-P', '--skip-parser-plugins'], 'list': ['-l', '--list'], 'all': ['-a', '--all-pels'],
          'count': ['-n', '--show-pel-count'], 'deleteAll': ['-D', '--delete-all'], 'hex': ['-x', '--hex'],
          'reverse': ['-r', '--reverse'], 'every': ['-E', '--every-pel'], 'serviceable': ['-s', '--serviceable'],
          'nonServiceable': ['-N', '--non-serviceable'], 'hidden': ['-H', '--hidden'], 'term': ['-t', '--termination'],
          'only': ['-O', '--only'], 'json': ['-j', '--json'], 'clean': ['-c', '--clean']}
# the thirteen mode options, in the priority order of main(), and --clean
MODES = ['file', 'json', 'pelID', 'bmcID', 'plid', 'src', 'srcExclude', 'list', 'count', 'all', 'delete', 'deleteAll']
MODE13 = MODES + ['clean']
HIGHER = MODES[:10]         # everything that outranks -d / -D
SEV_NAMES = ['Informational', 'Recovered', 'Predictive', 'Unrecoverable', 'Critical', 'Diagnostic', 'Symptom']
CONFIG_ATTRS = {'allow_plugins', 'serviceable', 'non_serviceable', 'every_pel', 'critSysTerm', 'hidden', 'hex', 'rev',
                'extension', 'severities', 'only', 'plid', 'src', 'bmcID', 'pelID', 'srcExcludeFile'}
LOOKUP_ATTRS = ['pelID', 'bmcID', 'plid', 'src', 'srcExcludeFile']
CALLEES = ['parseAndPrintPELFile', 'parseAndWriteOutput', 'parsePelFromID', 'parsePelFromBmcID', 'parsePelFromPLID',
           'parsePelFromSRCID', 'listOption', 'printPELCount', 'extractAllPELsData', 'deletePELFromPELId', 'deleteAllPELs']


def blank_args():
    a = {}
    for f in FIELDS:
        a[f] = None if f in VALUED else ([] if f == 'severities' else False)
    return a


def truthy(v):
    return bool(v)


def to_argv(args, rng=None):
    """command line for an Args dictionary (option order and long/short spelling random when rng is given)"""
    groups = []
    pick = (lambda l: rng.choice(l)) if rng else (lambda l: l[0])
    for f in FIELDS:
        v = args[f]
        if f in VALUED:
            if v is not None:
                groups.append([pick(VALUED[f]), v])
        elif f == 'severities':
            if v:
                groups.append([pick(['-S', '--severities'])] + list(v))
        elif v:
            groups.append([pick(SWITCH[f])])
    if rng:
        rng.shuffle(groups)
    return [x for g in groups for x in g]


# ----------------------------------------------------------------------------
# the real main()

class _FakePath:
    def __init__(self, real, rec, isdir, isfile):
        self._real, self._rec, self._isdir, self._isfile = real, rec, set(isdir), set(isfile)

    def isdir(self, p):
        self._rec['queries'].append(('isdir', p))
        if p == BMC_DIR:
            return False        # never inside a BMC
        return p in self._isdir

    def isfile(self, p):
        self._rec['queries'].append(('isfile', p))
        return p in self._isfile

    def __getattr__(self, name):
        return getattr(self._real, name)


class _FakeOs:
    """what `os` looks like from peltool.main(): isdir / isfile / walk / remove are ours, the rest is the real module"""

    def __init__(self, real, rec, isdir, isfile, walk):
        self._real, self._rec, self._walk = real, rec, list(walk)
        self.path = _FakePath(real.path, rec, isdir, isfile)

    def walk(self, top, *a, **kw):
        self._rec['queries'].append(('walk', top))
        yield top, ['archive'], list(self._walk)
        # a second level: main() must stop after the top level
        yield self._real.path.join(top, 'archive'), [], ['BELOW_TOP_LEVEL.pel']

    def remove(self, p, *a, **kw):
        self._rec['calls'].append(('os.remove', (p,), None))

    unlink = remove

    def __getattr__(self, name):
        return getattr(self._real, name)


def real_main(argv, isdir=(), isfile=(), walk=(), printed=True):
    """
    Run the real peltool.main() on `argv`.  Returns a dict:
      calls    [(name, positional args with the Config replaced by '<config>', snapshot of the Config at call time | None)]
      queries  [('isdir'|'isfile'|'walk', path)] in call order
      exited   True iff SystemExit was raised; code = exit status; message = the sys.exit(str) text (or None)
      argparse True iff the argument parser rejected the command line (status 2)
      config   snapshot of the Config object when main() ended (None if none was created)
      stderr   what was written to stderr (the sys.exit message included, as the interpreter would print it)
      raised   repr of any other exception
    """
    from pel.peltool import peltool
    rec = {'calls': [], 'queries': [], 'exited': False, 'code': 0, 'message': None, 'argparse': False, 'config': None,
           'stderr': '', 'raised': None}
    real_config = peltool.Config
    configs = []

    class RecConfig(real_config):
        def __init__(self, *a, **kw):
            super().__init__(*a, **kw)
            configs.append(self)

    def snap(cfg):
        # every public data member the object answers for, wherever it is stored (instance or class)
        names = [k for k in dir(cfg) if not k.startswith('_') and not callable(getattr(cfg, k))]
        return {k: (list(getattr(cfg, k)) if isinstance(getattr(cfg, k), list) else getattr(cfg, k)) for k in names}

    def recorder(name, ret=None):
        def f(*a, **kw):
            cfg = next((x for x in a if isinstance(x, real_config)), None)
            pos = tuple('<config>' if isinstance(x, real_config) else x for x in a) + tuple(sorted(kw.items()))
            rec['calls'].append((name, pos, snap(cfg) if cfg is not None else None))
            return ret
        return f

    saved = {n: getattr(peltool, n) for n in CALLEES + ['os', 'Config']}
    out, err = io.StringIO(), io.StringIO()
    old_argv = sys.argv
    try:
        for n in CALLEES:
            setattr(peltool, n, recorder(n, printed if n == 'parseAndPrintPELFile' else None))
        peltool.os = _FakeOs(os, rec, isdir, isfile, walk)
        peltool.Config = RecConfig
        sys.argv = ['peltool.py'] + list(argv)
        with redirect_stdout(out), redirect_stderr(err):
            try:
                peltool.main()
            except SystemExit as e:
                rec['exited'] = True
                if e.code is None:
                    rec['code'] = 0
                elif isinstance(e.code, int):
                    rec['code'] = e.code
                else:
                    rec['code'] = 1
                    rec['message'] = str(e.code)
                    err.write(str(e.code) + '\n')
            except BaseException as e:  # noqa
                rec['raised'] = repr(e)
    finally:
        sys.argv = old_argv
        for n, v in saved.items():
            setattr(peltool, n, v)
    rec['stderr'] = err.getvalue()
    rec['stdout'] = out.getvalue()
    rec['argparse'] = rec['exited'] and rec['code'] == 2 and rec['message'] is None and not configs
    if configs:
        rec['config'] = snap(configs[-1])
    return rec


# ----------------------------------------------------------------------------
# the model

def _opt(v):
    return '0' if v is None else '1 ' + tt(v)


def model_request(args, isdir, isfile, walk, printed):
    toks = []
    for f in FIELDS:
        v = args[f]
        if f in VALUED:
            toks.append(_opt(v))
        elif f == 'severities':
            toks.append(tlist(v, tt))
        else:
            toks.append('1' if v else '0')
    return 'main %s %s %s %s %d' % (' '.join(toks), tlist(sorted(isdir), tt), tlist(sorted(isfile), tt), tlist(walk, tt), int(printed))


def _ropt(r):
    return r.text() if r.num() else None


def parse_model(r):
    """reply of the `main` op -> dict(action=(constructor, args...), cfg=dict in Config attribute names, exit, stderr, calls, removed)"""
    kind = r.word()
    if kind == 'file':
        action = ('file', r.text(), bool(r.num()))
    elif kind == 'exit':
        site = r.word()
        action = ('exit', site) + (() if site == 'noPath' else (r.text(),))
    elif kind == 'json':
        action = ('json', r.text(), r.text(), bool(r.num()))
    elif kind in ('id', 'bmcid', 'plid', 'src', 'srcex', 'delete'):
        action = (kind, r.text(), r.text())
    elif kind in ('list', 'count', 'all', 'deleteall'):
        action = (kind, r.text())
    elif kind == 'nothing':
        action = ('nothing',)
    else:
        raise RuntimeError('unknown action in model reply: ' + r.raw[:200])
    every, term, sv, ns, hd, only, lookup = [bool(r.num()) for _ in range(7)]
    sevs = [r.num() for _ in range(r.num())]
    allow, hex_, rev = bool(r.num()), bool(r.num()), bool(r.num())
    ext = _ropt(r)
    cfg = {'every_pel': every, 'critSysTerm': term, 'serviceable': sv, 'non_serviceable': ns, 'hidden': hd, 'only': only,
           'severities': sevs, 'allow_plugins': allow, 'hex': hex_, 'rev': rev, 'extension': ext}
    ids = dict.fromkeys(LOOKUP_ATTRS)
    attr = {'id': 'pelID', 'bmcid': 'bmcID', 'plid': 'plid', 'src': 'src', 'srcex': 'srcExcludeFile'}.get(kind)
    if attr:
        ids[attr] = action[2]
    if action[:2] == ('exit', 'noExcludeFile'):
        ids['srcExcludeFile'] = action[2]
    if lookup != any(v is not None for v in ids.values()):
        raise RuntimeError('model look-up flag inconsistent with its action: ' + r.raw[:200])
    cfg.update(ids)
    code = r.num()
    stderr = _ropt(r)
    calls = [(r.text(), r.text(), bool(r.num())) for _ in range(r.num())]
    removed = _ropt(r)
    assert r.done(), r.raw[:200]
    return {'action': action, 'cfg': cfg, 'exit': code, 'stderr': stderr, 'calls': calls, 'removed': removed}


def model_view(m):
    """what of the model's answer is observable on the real main()"""
    a = m['action']
    v = {'cfg': m['cfg'], 'exit': m['exit'], 'message': m['stderr'], 'exited': a[0] != 'nothing',
         'json_calls': m['calls'], 'removed': [m['removed']] if m['removed'] is not None else []}
    if a[0] == 'file':
        v['action'] = ('file', a[1], True)          # parseAndPrintPELFile(path, config, exit_on_error=True)
    elif a[0] == 'exit':
        v['action'] = ('exit',)
    elif a[0] == 'json':
        v['action'] = ('json', a[1])                # directory walked; the rest shows in json_calls
    else:
        v['action'] = a
    return v


NAME2KIND = {'parsePelFromID': 'id', 'parsePelFromBmcID': 'bmcid', 'parsePelFromPLID': 'plid', 'listOption': 'list',
             'printPELCount': 'count', 'extractAllPELsData': 'all', 'deletePELFromPELId': 'delete', 'deleteAllPELs': 'deleteall'}


def real_view(rec):
    """the same view of a real run; None + reason if the run has a shape main() should never produce"""
    calls = [c for c in rec['calls'] if c[0] != 'os.remove']
    removes = [c[1][0] for c in rec['calls'] if c[0] == 'os.remove']
    walks = [q[1] for q in rec['queries'] if q[0] == 'walk']
    v = {'exit': rec['code'], 'message': rec['message'], 'exited': rec['exited'], 'json_calls': [], 'removed': removes}
    cfg_at = rec['config']
    if walks:
        if len(walks) != 1 or any(c[0] != 'parseAndWriteOutput' for c in calls):
            return None, 'os.walk next to another mode'
        v['action'] = ('json', walks[0])
        for c in calls:
            if len(c[1]) != 4 or c[1][2] != '<config>':
                return None, 'unexpected parseAndWriteOutput signature %r' % (c[1],)
            v['json_calls'].append((c[1][0], c[1][1], bool(c[1][3])))
            if c[2] != rec['config']:
                return None, 'Config changed between parseAndWriteOutput calls'
    elif not calls:
        v['action'] = ('exit',) if rec['message'] is not None else ('nothing',)
        if rec['exited'] and rec['message'] is None:
            return None, 'sys.exit(%r) without any call' % rec['code']
    elif len(calls) > 1:
        return None, 'more than one action in one invocation: %s' % [c[0] for c in calls]
    else:
        name, pos, snap = calls[0]
        if snap is not None:
            cfg_at = snap
        if name == 'parseAndPrintPELFile':
            v['action'] = ('file',) + tuple(x for x in pos if x != '<config>')
        elif name == 'parsePelFromSRCID':
            v['action'] = (('src', pos[0], snap['src']) if snap['src'] is not None else ('srcex', pos[0], snap['srcExcludeFile']))
        elif name in ('parsePelFromID', 'parsePelFromBmcID', 'parsePelFromPLID'):
            v['action'] = (NAME2KIND[name], pos[0], snap[{'id': 'pelID', 'bmcid': 'bmcID', 'plid': 'plid'}[NAME2KIND[name]]])
        elif name in NAME2KIND:
            v['action'] = (NAME2KIND[name],) + tuple(x for x in pos if x != '<config>')
        else:
            return None, 'unexpected call ' + name
        if name not in ('deletePELFromPELId', 'deleteAllPELs') and (len(pos) < 2 or pos[1] != '<config>'):
            return None, 'the Config is not the second argument of %s' % name
    v['cfg'] = cfg_at
    return v, None


def property_failures(args, rec):
    """violations of the PROPERTIES by the real main(), judged from the command line alone (no model involved)"""
    out = []
    higher = [m for m in HIGHER if truthy(args[m])]
    for name, pos, _ in rec['calls']:
        if name == 'deletePELFromPELId':
            if not truthy(args['delete']):
                out.append(('main_delete_unrequested', 'deletePELFromPELId reached although no -d <id> was given'))
            elif pos != (args['path'], args['delete']):
                out.append(('main_delete_other_target', 'deletePELFromPELId%r is not (the -p directory, the -d id)' % (pos,)))
            if higher:
                out.append(('main_delete_with_higher_priority', '-d executed although %s was given too' % higher))
        elif name == 'deleteAllPELs':
            if not args['deleteAll']:
                out.append(('main_delete_unrequested', 'deleteAllPELs reached although -D was not given'))
            elif pos != (args['path'],):
                out.append(('main_delete_other_target', 'deleteAllPELs%r is not (the -p directory)' % (pos,)))
            if higher or truthy(args['delete']):
                out.append(('main_delete_with_higher_priority', '-D executed although %s was given too' % (higher + (['delete'] if truthy(args['delete']) else []))))
        elif name == 'os.remove':
            if not args['clean']:
                out.append(('main_remove_unrequested', 'os.remove reached although --clean was not given'))
            elif pos != (args['file'],):
                out.append(('main_remove_other_target', 'os.remove%r is not the -f file' % (pos,)))
        elif name == 'parseAndWriteOutput':
            if len(pos) >= 4 and pos[3] and not args['clean']:
                out.append(('main_remove_unrequested', 'parseAndWriteOutput told to delete its input although --clean was not given'))
    n_del = sum(1 for c in rec['calls'] if c[0] in ('deletePELFromPELId', 'deleteAllPELs'))
    if n_del and len([c for c in rec['calls'] if c[0] != 'os.remove']) > 1:
        out.append(('main_delete_with_higher_priority', 'a delete function ran next to another mode: %s' % [c[0] for c in rec['calls']]))
    return out


def clean_failures(args, rec, printed):
    """C12 on main()'s own os.remove: only after parseAndPrintPELFile said the output was completely printed"""
    out = []
    names = [c[0] for c in rec['calls']]
    if 'os.remove' in names:
        if not printed or 'parseAndPrintPELFile' not in names:
            out.append(('main_clean_unprinted', 'main() removed the -f file although parseAndPrintPELFile did not return True'))
        elif names.index('os.remove') < names.index('parseAndPrintPELFile'):
            out.append(('main_clean_unprinted', 'os.remove before parseAndPrintPELFile'))
    return out


def config_failures(args, rec):
    """C07's 'option to Config mapping' on the real code: the selection members are exactly the switches given"""
    cfg = rec['config']
    if cfg is None or rec['argparse']:
        return []
    from pel.peltool.pel_values import severityGroupValues
    want = {'every_pel': args['every'], 'critSysTerm': args['term'], 'serviceable': args['serviceable'],
            'non_serviceable': args['nonServiceable'], 'hidden': args['hidden'], 'only': args['only'],
            'severities': [severityGroupValues[n] for n in args['severities']]}
    bad = {k: (cfg.get(k), v) for k, v in want.items() if cfg.get(k) != v}
    # a look-up id may only be set by its own option
    for attr, opt in zip(LOOKUP_ATTRS, ['pelID', 'bmcID', 'plid', 'src', 'srcExclude']):
        if cfg.get(attr) is not None and cfg.get(attr) != args[opt]:
            bad[attr] = (cfg.get(attr), args[opt])
    if bad:
        return [('main_config_mapping', 'Config members differ from the command line (actual, expected): %r' % bad)]
    return []


# ----------------------------------------------------------------------------
# generators

DIRS = ['/pels', '/data/logs/', 'rel/dir', '/p q', '/pels/archive', '/']
NONDIRS = ['/nodir', '/pels/one.pel', 'x']
OUTS = ['/out', '/pels', '/tmp/o/', '/noout', 'out rel']
EXFILES = ['/ex.txt', 'ex', '/noex', '/pels']
FILES = ['/pels/one.pel', 'one.pel', '/nofile', '/pels']
IDS = ['50000001', '0x50000002', '5000', 'BD8D', '7', '0', ' ']
EXTS = ['.pel', 'pel', '.txt', '.', '.PEL']
WALKS = [[], ['a.pel'], ['a.pel', 'b.txt', 'c', 'd.pel.bak', '.pel', 'e.PEL', 'f.'], ['x.txt', 'y.pel'], ['noext']]


def gen_case(rng, modes=None, empty_rate=0.12, good_path=False):
    """one Args dictionary + file-system answers.  `modes` = the mode options to give (default: a random subset)."""
    a = blank_args()
    if modes is None:
        k = rng.choice([0, 1, 1, 2, 2, 3, 4, 6])
        modes = rng.sample(MODE13, k)
    val = {'file': FILES, 'pelID': IDS, 'bmcID': IDS, 'plid': IDS, 'src': IDS, 'srcExclude': EXFILES, 'delete': IDS}
    for m in modes:
        a[m] = ('' if rng.random() < empty_rate else rng.choice(val[m])) if m in val else True
    r = rng.random()
    a['path'] = None if r < 0.07 else ('' if r < 0.12 else rng.choice(DIRS + DIRS + NONDIRS))
    if rng.random() < (0.6 if a['json'] else 0.15):
        a['outputDir'] = '' if rng.random() < 0.1 else rng.choice(OUTS)
    for f in ['skipPlugins', 'hex', 'reverse', 'every', 'serviceable', 'nonServiceable', 'hidden', 'term', 'only']:
        a[f] = rng.random() < 0.3
    if rng.random() < 0.5:
        a['severities'] = [rng.choice(SEV_NAMES) for _ in range(rng.randrange(1, 5))]
    if rng.random() < 0.4:
        a['extension'] = '' if rng.random() < 0.2 else rng.choice(EXTS)
    # what the file system answers: the usual directories exist; sometimes the chosen ones do not / something odd does
    isdir = {d for d in DIRS + OUTS[:3] if rng.random() < 0.85}
    isfile = {f for f in EXFILES[:2] + FILES[:2] if rng.random() < 0.8}
    for p in [a['path'], a['outputDir'], a['srcExclude'], a['file']]:
        if p and rng.random() < 0.1:
            (isdir if rng.random() < 0.5 else isfile).symmetric_difference_update({p})
    if good_path:
        a['path'] = rng.choice(DIRS)
        isdir.add(a['path'])
    return {'args': a, 'isdir': sorted(isdir), 'isfile': sorted(isfile), 'walk': rng.choice(WALKS), 'printed': rng.random() < 0.6}


SWEEP_VALUES = {'file': '/pels/one.pel', 'pelID': '50000001', 'bmcID': '7', 'plid': '50000002', 'src': 'BD8D',
                'srcExclude': '/ex.txt', 'delete': '50000003'}


def sweep_case(mask, printed=True):
    a = blank_args()
    a['path'] = '/pels'
    for i, m in enumerate(MODE13):
        if mask >> i & 1:
            a[m] = SWEEP_VALUES.get(m, True)
    return {'args': a, 'isdir': ['/pels'], 'isfile': ['/ex.txt', '/pels/one.pel'], 'walk': ['a.pel', 'b'], 'printed': printed}


def cases_for(rng, tier, part):
    thorough = tier == 'thorough'
    cases = []
    if part in ('all', 'dispatch'):
        # every pair of mode options together (both truthy), in both file-system situations; every single one; none
        for x, y in itertools.combinations(MODE13, 2):
            for _ in range(3 if thorough else 1):
                cases.append(('pair', gen_case(rng, [x, y], empty_rate=0.0, good_path=True)))
            cases.append(('pair-empty', gen_case(rng, [x, y], empty_rate=0.5)))
        for x in MODE13:
            for _ in range(4 if thorough else 2):
                cases.append(('single', gen_case(rng, [x], empty_rate=0.25)))
        for _ in range(3000 if thorough else 500):
            cases.append(('random', gen_case(rng)))
        masks = range(1 << 13) if thorough else sorted(rng.sample(range(1 << 13), 1 << 10))
        for mask in masks:
            cases.append(('sweep', sweep_case(mask, True)))
            if mask & 1:                      # -f given: also with parseAndPrintPELFile returning False
                cases.append(('sweep', sweep_case(mask, False)))
    elif part == 'config':
        for _ in range(1500 if thorough else 300):
            c = gen_case(rng, rng.sample(['list', 'count', 'all', 'json', 'file', 'plid', 'src', 'pelID', 'bmcID', 'srcExclude'], rng.choice([1, 1, 2])),
                         empty_rate=0.1)
            cases.append(('config', c))
        # every subset of the six switches with a two-name -S list, and with none
        for bits in range(64):
            for sevs in ([], [SEV_NAMES[bits % 7], SEV_NAMES[(bits * 3 + 1) % 7]]):
                c = gen_case(rng, ['count'], empty_rate=0.0)
                for i, f in enumerate(['every', 'term', 'serviceable', 'nonServiceable', 'hidden', 'only']):
                    c['args'][f] = bool(bits >> i & 1)
                c['args']['severities'] = list(sevs)
                cases.append(('config-switches', c))
    elif part == 'file':
        for _ in range(400 if thorough else 120):
            extra = rng.sample(MODE13[1:], rng.choice([0, 1, 1, 2, 3]))
            c = gen_case(rng, ['file'] + extra, empty_rate=0.08)
            cases.append(('file', c))
    return cases


# ----------------------------------------------------------------------------
# the check

def compare(case, rec, m, part):
    """differences between the real run and the model (list of strings)"""
    diffs = []
    if rec['raised']:
        return ['the real main() raised %s' % rec['raised']]
    rv, why = real_view(rec)
    if rv is None:
        return ['real main(): ' + why]
    mv = model_view(m)
    keys = ['cfg'] if part == 'config' else ['action', 'cfg', 'exit', 'message', 'exited', 'json_calls', 'removed']
    for k in keys:
        if k == 'cfg':
            real_cfg = rv['cfg'] or {}
            if set(real_cfg) != CONFIG_ATTRS:
                diffs.append('Config attributes changed: %s' % sorted(set(real_cfg) ^ CONFIG_ATTRS))
            for attr in sorted(CONFIG_ATTRS):
                if real_cfg.get(attr) != mv['cfg'].get(attr):
                    diffs.append('config.%s: impl %r model %r' % (attr, real_cfg.get(attr), mv['cfg'].get(attr)))
        elif rv[k] != mv[k]:
            diffs.append('%s: impl %r model %r' % (k, rv[k], mv[k]))
    return diffs


def check_main(ck, tier, part='all'):
    """
    part = 'all'      (C11) action + arguments + Config + exit status/message + the -j call list + main()'s own os.remove
           'config'   (C07) only the Config that main() builds
           'file'     (C12) the -f branch: os.remove iff --clean and printed
    """
    rng = ck.rng
    cases = cases_for(rng, tier, part)
    argvs = [to_argv(c['args'], rng if kind != 'sweep' else None) for kind, c in cases]
    replies = lean_batch([model_request(c['args'], c['isdir'], c['isfile'], c['walk'], c['printed']) for _, c in cases])
    for (kind, c), argv, r in zip(cases, argvs, replies):
        args = c['args']
        rec = real_main(argv, c['isdir'], c['isfile'], c['walk'], c['printed'])
        given = [m for m in MODE13 if args[m] is not None and args[m] is not False]
        rp = {'op': 'main', 'argv': argv, 'args': args, 'isdir': c['isdir'], 'isfile': c['isfile'], 'walk': c['walk'],
              'printed': c['printed'], 'calls': [(n, list(p)) for n, p, _ in rec['calls']], 'exit': rec['code'], 'message': rec['message']}
        if rec['argparse']:
            # outside the model's domain (the model starts from the parsed namespace); our generator never produces one
            ck.skip('main: argparse rejected the command line')
            ck.disagree('main: argparse rejected a generated command line: ' + rec['stderr'][-200:], rp)
            continue
        if not r.ok:
            ck.disagree('main: the driver rejected the request: ' + r.raw[:200], rp)
            continue
        m = parse_model(r)
        nontrivial = len(given) >= 2 or (part == 'config' and (args['severities'] or any(args[f] for f in ['every', 'term', 'serviceable', 'nonServiceable', 'hidden', 'only'])))
        ck.case(key=('main', part, tuple(argv), tuple(c['isdir']), tuple(c['isfile']), c['printed']) if nontrivial else None,
                sample={'argv': argv, 'action': list(m['action'])} if kind in ('pair', 'random', 'config') else None)
        ck.count('main[%s] %s -> %s' % (part, kind, m['action'][0] + (':' + m['action'][1] if m['action'][0] == 'exit' else '')))
        if part != 'config':
            ck.count('main[%s] mode options given: %d' % (part, len(given)))
        fails = []
        if part in ('all', 'dispatch'):
            fails += property_failures(args, rec)
        if part in ('all', 'file'):
            fails += clean_failures(args, rec, c['printed'])
        if part in ('all', 'config'):
            fails += config_failures(args, rec)
        for key, what in fails:
            ck.fail('main(): ' + what, rp, key)
        for d in compare(c, rec, m, part):
            ck.disagree('main() differs from the model: ' + d, rp | {'model': {'action': list(m['action']), 'cfg': m['cfg'], 'exit': m['exit']}})
    ck.notes.append('main(): %d command lines (%s) run on the real peltool.main() with all callees recorded, compared with PelModel/Main.lean'
                    % (len(cases), part))
    return len(cases)


def replay(rp):
    """re-run one recorded command line on the real main() and on the model and print both"""
    rec = real_main(rp['argv'], rp['isdir'], rp['isfile'], rp['walk'], rp['printed'])
    print('real  :', [(n, p) for n, p, _ in rec['calls']], 'exit', rec['code'], repr(rec['message']), 'config', rec['config'])
    r = lean_batch([model_request(rp['args'], rp['isdir'], rp['isfile'], rp['walk'], rp['printed'])])[0]
    if not r.ok:
        print('model : ' + r.raw[:300])
        return 1
    m = parse_model(r)
    print('model :', m)
    bad = property_failures(rp['args'], rec) + clean_failures(rp['args'], rec, rp['printed']) + config_failures(rp['args'], rec)
    for k, w in bad:
        print('PROPERTY VIOLATED:', w)
    diffs = compare(rp, rec, m, 'all')
    for d in diffs:
        print('DIFFERENCE:', d)
    return 1 if bad or diffs else 0
