"""
Run the I/O-drawer decoders in THIS interpreter (started by the checks as `python -O …`: assertions disabled) on the requests read
from stdin, one JSON list per line:  [decoder, data hex, table file path(s)…]  ->  one JSON line per request: the output lines, or
["<raises>", exception class].  The checks compare the answers with what the same calls give in their own (normal) interpreter.
"""
import json
import os
import sys

sys.dont_write_bytecode = True
sys.path.insert(0, os.path.join(os.environ.get('VERIF_REPO', '/repo'), 'modules'))


def main():
    from io_drawer import dump, hlog, ilog, trace
    fns = {'hlog': lambda d, a: hlog.parse_hlog_data(d, a[0]), 'ilog': lambda d, a: ilog.parse_ilog_data(d, a[0]),
           'trace': lambda d, a: trace.parse_trace_data(d, a[0]), 'dump': lambda d, a: dump.parse_dump_data(d, a[0], a[1])}
    for line in sys.stdin:
        line = line.strip()
        if not line:
            continue
        req = json.loads(line)
        try:
            out = fns[req[0]](memoryview(bytes.fromhex(req[1])), req[2:])
        except BaseException as e:  # noqa
            out = ['<raises>', type(e).__name__]
        sys.stdout.write(json.dumps(out) + '\n')
        sys.stdout.flush()


main()
