"""
The WHOLE command: `peltool.py <command line>` on a REAL tree, end to end, against the composed model `Pel.runMain`
(PelModel/Top.lean = dispatch of main() followed by the mode the action names, called with the Config main() built).

A `world` is materialised as real files in a fresh temporary root for every run:

    <root>/pels/            the -p directory: top-level files (PELs, junk) + subdirectories (never to be touched)
    <root>/in/one.pel       the -f file (if the world has one)
    <root>/ex.txt           the --src-exclude file (if the world has one)
    <root>/out/             the -o directory (if the world has one)

The real CLI is run in-process (`clirun.run_main(argv)`, nothing replaced), the whole root is snapshotted before and after,
and stdout, exit status, the sys.exit message, the number of diagnostics and the resulting tree are compared with the driver op
`runmain`.  Independently of the model the command-level properties are checked on the REAL run:

    part 'effects' (C11)  command_readonly / command_delete_exact: a command line without -d/-D/-c/-j leaves the whole tree as it was;
                          -j without -c only adds `<pel file>.<id>.json`; -d removes at most one top-level file whose name contains the
                          id; -D removes exactly the top-level regular files; subdirectories are never touched
    part 'agree'   (C08)  command_count_list_all_agree: the number -n prints = entries of -l = documents of -a, same PELs, -r reverses
                   (C07)  command_default_selection: plain -l = the serviceable customer-viewable PELs, -l -E = all of them
    part 'junk'    (C09)  command_junk_noninterference: undecodable files added to the directory change neither stdout nor the exit status
    part 'lookup'  (C10)  command_lookup_ignores_class: a look-up without selection options answers exactly as with -E
    part 'fileclean' (C12) command_file_clean: after `-f F --clean` F is gone iff its document was printed
"""
import json
import os
import shutil
import tempfile

import apel
import clirun
import common
import jsonio
import mainrun
import pelbuild
from common import lean_batch, tb, tlist, tt

SYMS = ('@P', '@F', '@X', '@O', '@NOP', '@NOF', '@NOX', '@NOO')


# ----------------------------------------------------------------------------
# worlds

def new_world(files, subdirs=None, ffile=None, exclude=None, out=None, path_is_dir=True):
    """files: [(name, bytes)] top-level files of the -p directory; subdirs: make_dir-style dict; ffile: bytes | None;
    exclude: str | None; out: [(name, bytes)] | None"""
    return {'files': list(files), 'subdirs': subdirs or {}, 'ffile': ffile, 'exclude': exclude, 'out': out, 'path_is_dir': path_is_dir, 'links': {}}


def materialise(w):
    root = tempfile.mkdtemp(prefix='peltop_')
    if w['path_is_dir']:
        pels = os.path.join(root, 'pels')
        os.makedirs(pels)
        for n, b in w['files']:
            with open(os.path.join(pels, n), 'wb') as f:
                f.write(b)

        def mk(parent, tree):
            for name, content in tree.items():
                p = os.path.join(parent, name)
                os.makedirs(p)
                if isinstance(content, dict):
                    mk(p, content)
                else:
                    for n, d in content:
                        with open(os.path.join(p, n), 'wb') as f:
                            f.write(d)
        mk(pels, w['subdirs'])
        # top-level entries that are symbolic links (to a file in a subdirectory, or to another top-level file): for every mode they are the
        # file they show; removing one removes the LINK
        for name, target in (w.get('links') or {}).items():
            os.remove(os.path.join(pels, name))
            os.symlink(target, os.path.join(pels, name))
    else:
        with open(os.path.join(root, 'pels'), 'wb') as f:       # the -p name exists, but is a regular file
            f.write(b'not a directory')
    if w['ffile'] is not None:
        os.makedirs(os.path.join(root, 'in'))
        with open(os.path.join(root, 'in', 'one.pel'), 'wb') as f:
            f.write(w['ffile'])
    if w['exclude'] is not None:
        with open(os.path.join(root, 'ex.txt'), 'w', newline='') as f:
            f.write(w['exclude'])
    if w['out'] is not None:
        os.makedirs(os.path.join(root, 'out'))
        for n, b in w['out']:
            with open(os.path.join(root, 'out', n), 'wb') as f:
                f.write(b)
    return root


def sym_paths(root):
    return {'@P': os.path.join(root, 'pels'), '@F': os.path.join(root, 'in', 'one.pel'), '@X': os.path.join(root, 'ex.txt'),
            '@O': os.path.join(root, 'out'), '@NOP': os.path.join(root, 'nodir'), '@NOF': os.path.join(root, 'in', 'nofile.pel'),
            '@NOX': os.path.join(root, 'noex.txt'), '@NOO': os.path.join(root, 'noout')}


def concrete(args, root):
    sp = sym_paths(root)
    return {k: (sp.get(v, v) if isinstance(v, str) else v) for k, v in args.items()}


def args_tokens(args):
    toks = []
    for f in mainrun.FIELDS:
        v = args[f]
        if f in mainrun.VALUED:
            toks.append('0' if v is None else '1 ' + tt(v))
        elif f == 'severities':
            toks.append(tlist(v, tt))
        else:
            toks.append('1' if v else '0')
    return ' '.join(toks)


def _tfiles(files):
    return tlist(files, lambda f: tt(f[0]) + ' ' + tb(f[1]))


def world_tokens(w, args, root):
    """the world AS THE COMMAND LINE `args` SEES IT in the materialised root (walk order read from the real directory)"""
    pels = os.path.join(root, 'pels')
    path = args['path']
    path_is_dir = bool(path) and os.path.isdir(path)
    files, subdirs = [], []
    if path_is_dir:
        byname = dict(w['files'])
        for _, ds, fs in os.walk(path):
            files = [(n, byname[n]) for n in fs]
            subdirs = sorted(ds)
            break
    ffile = None
    if args['file'] and os.path.isfile(args['file']):
        ffile = open(args['file'], 'rb').read()
    ex = None
    if args['srcExclude'] and os.path.isfile(args['srcExclude']):
        ex = open(args['srcExclude'], newline='').read()
    out = None
    o = args['outputDir']
    if o and o != path and os.path.isdir(o):
        out = [(n, open(os.path.join(o, n), 'rb').read()) for n in clirun.walk_files(o)]
    return '%d %s %s %s %s %s' % (int(path_is_dir), _tfiles(files), tlist(subdirs, tt), ('1 ' + tb(ffile)) if ffile is not None else '0',
                                  ('1 ' + tt(ex)) if ex is not None else '0', ('1 ' + _tfiles(out)) if out is not None else '0')


def parse_result(r):
    def ropt(f):
        return f() if r.num() else None

    def rfiles():
        return [(r.text(), r.bytes()) for _ in range(r.num())]
    m = {'stdout': r.text(), 'diagnostics': r.num(), 'message': ropt(r.text), 'exit': r.num()}
    m['path_is_dir'] = bool(r.num())
    m['dir'] = rfiles()
    m['subdirs'] = [r.text() for _ in range(r.num())]
    m['file'] = ropt(r.bytes)
    m['exclude'] = ropt(r.text)
    m['out'] = ropt(rfiles)
    assert r.done(), r.raw[:200]
    return m


def sha(b):
    import hashlib
    return hashlib.sha1(b).hexdigest()


def expected_tree(run, m):
    """the snapshot the model predicts: `before` with the parts a World represents replaced by the model's resulting world"""
    before, args, root = run.before, run.args, run.root
    rel = lambda p: os.path.relpath(p, root)  # noqa
    exp = dict(before)
    path = args['path']
    if run.path_is_dir and path.startswith(root):
        pre = rel(path) + '/'
        for k in [k for k, v in before.items() if k.startswith(pre) and '/' not in k[len(pre):] and v[0] == 'file']:
            del exp[k]
        for n, b in m['dir']:
            exp[pre + n] = ('file', sha(b))
    f = args['file']
    if f and f.startswith(root):
        exp.pop(rel(f), None)
        if m['file'] is not None:
            exp[rel(f)] = ('file', sha(m['file']))
    o = args['outputDir']
    if run.out_is_other_dir and o.startswith(root) and m['out'] is not None:
        pre = rel(o) + '/'
        for k in [k for k, v in before.items() if k.startswith(pre) and '/' not in k[len(pre):] and v[0] == 'file']:
            del exp[k]
        for n, b in m['out']:
            exp[pre + n] = ('file', sha(b))
    return exp


def tree_diff(a, b):
    return {'only_expected': sorted(set(a) - set(b))[:6], 'only_actual': sorted(set(b) - set(a))[:6],
            'changed': sorted(k for k in a if k in b and a[k] != b[k])[:6]}


# ----------------------------------------------------------------------------
# one run

class Run:
    """one command line on one freshly materialised world: the real result + the request for the model"""

    def __init__(self, w, sym_args, rng, tag):
        self.w, self.tag = w, tag
        self.root = materialise(w)
        self.args = concrete(sym_args, self.root)
        self.sym_args = sym_args
        self.argv = mainrun.to_argv(self.args, rng)
        self.request = 'runmain %s %s' % (args_tokens(self.args), world_tokens(w, self.args, self.root))
        self.path_is_dir = bool(self.args['path']) and os.path.isdir(self.args['path'])
        o = self.args['outputDir']
        self.out_is_other_dir = bool(o) and o != self.args['path'] and os.path.isdir(o)
        self.before = clirun.snapshot(self.root)
        self.stdout, self.stderr, self.code = clirun.run_main(self.argv)
        self.after = clirun.snapshot(self.root)
        shutil.rmtree(self.root, ignore_errors=True)

    def rp(self, extra=None):
        show = lambda s: s.replace(self.root, '<root>') if isinstance(s, str) else s  # noqa
        d = {'op': 'runmain', 'argv': [show(x) for x in self.argv], 'case': self.tag,
             'top_level': [n for n, _ in self.w['files']], 'files': [(n, b.hex()) for n, b in self.w['files']] if len(self.w['files']) <= 8 else '(%d files)' % len(self.w['files']),
             'exit': self.code, 'stdout': self.stdout[:300], 'stderr': show(self.stderr[-300:])}
        if extra:
            d.update(extra)
        return d

    # -- what the real run did to the tree
    def removed(self):
        return sorted(set(self.before) - set(self.after))

    def added(self):
        return sorted(set(self.after) - set(self.before))

    def changed(self):
        return sorted(k for k in self.before if k in self.after and self.before[k] != self.after[k])

    def top_files(self):
        return {k for k, v in self.before.items() if k.startswith('pels/') and '/' not in k[5:] and v[0] == 'file'}


def truthy(v):
    return bool(v)


def reached(run):
    """the action main() reaches by the priority order of its `if` chain, judged from the command line and the real tree"""
    args = run.args
    if truthy(args['file']):
        return 'file'
    if not truthy(args['path']) or not run.path_is_dir:
        return 'exit'
    return next((m for m in mainrun.MODES[1:] if truthy(args[m])), 'nothing')


def compare_with_model(ck, run, m, what='the whole command'):
    diffs = []
    if run.code == -999:
        ck.disagree('%s: the real command did not return' % what, run.rp())
        return
    if run.stdout != m['stdout']:
        so, mo = run.stdout, m['stdout']
        k = next((i for i in range(min(len(so), len(mo))) if so[i] != mo[i]), min(len(so), len(mo)))
        diffs.append(('stdout', {'at': k, 'impl': so[max(0, k - 60):k + 60], 'model': mo[max(0, k - 60):k + 60]}))
    if run.code != m['exit']:
        diffs.append(('exit status', {'impl': run.code, 'model': m['exit']}))
    if m['message'] is not None and (m['message'] + '\n') not in run.stderr:
        diffs.append(('sys.exit message', {'impl': run.stderr[-200:], 'model': m['message']}))
    if m['message'] is None and run.code == 0 and m['exit'] == 0 and clirun.diag_lines(run.stderr) != m['diagnostics']:
        diffs.append(('number of diagnostics', {'impl': clirun.diag_lines(run.stderr), 'model': m['diagnostics'], 'stderr': run.stderr[-300:]}))
    exp = expected_tree(run, m)
    if exp != run.after:
        diffs.append(('resulting tree', tree_diff(exp, run.after)))
    for k, d in diffs:
        ck.disagree('%s differs from runMain: %s' % (what, k), run.rp({'difference': d}))


# ----------------------------------------------------------------------------
# generators

SEL_SWITCHES = ['every', 'serviceable', 'nonServiceable', 'hidden', 'term', 'only']


def gen_selection(rng, a, p_every=0.35):
    r = rng.random()
    if r < 0.25:
        return
    a['every'] = rng.random() < p_every
    for f in SEL_SWITCHES[1:]:
        a[f] = rng.random() < 0.25
    if rng.random() < 0.4:
        a['severities'] = [rng.choice(mainrun.SEV_NAMES) for _ in range(rng.randrange(1, 4))]


def gen_presentation(rng, a):
    a['reverse'] = rng.random() < 0.35
    a['hex'] = rng.random() < 0.15
    a['skipPlugins'] = rng.random() < 0.15
    if rng.random() < 0.4:
        a['extension'] = rng.choice(['.pel', '.txt', '', '.', '.PEL', '.bak'])


def ascii_ref(p):
    for sec in p['sections']:
        if sec['kind'] == 'src' and sec['primary']:
            return sec['src']['ascii'].decode('latin1').strip()
    return None


def spell(rng, v):
    return rng.choice(['%08X' % v, '%08x' % v, '0x%08X' % v, '0X%08x' % v])


def junk_files(rng, sample):
    j = [('junk_empty', b''), ('junk_rand', bytes(rng.randrange(256) for _ in range(120))), ('junk_XX', b'XX' + bytes(13)),
         ('junk_PHonly', sample[:8]), ('junk_cut47', sample[:47]), ('junk_cut60', sample[:60]), ('junk_uhid', sample[:48] + b'ZZ' + sample[50:]),
         ('junk_mid.pel', sample[:max(1, len(sample) // 2)]), ('0junk_first', sample[:len(sample) - 1]), ('zz_junk.txt', b'{"not": "a pel"}\n')]
    rng.shuffle(j)
    return j[:rng.randrange(1, len(j) + 1)]


def gen_world(rng, env, n=None, with_junk=None, thorough=False, with_copy=True):
    """a world around a directory of decodable PELs; returns (world, [(name, abstract pel)])"""
    n = rng.choice([0, 1, 2, 4, 7, 10 if thorough else 6]) if n is None else n
    d = clirun.keep_decodable(env, clirun.gen_wf_dir(rng, n))
    for _, p in d:
        p['ph']['obmc'] = rng.choice([0, 1, 7, 42, 4294967295, rng.randrange(1000)])
        if rng.random() < 0.5:
            p['ph']['plid'] = rng.choice([0x50000001, 0x1234, 0, 0xFFFFFFFF])
    d = clirun.keep_decodable(env, d)
    files = [(nm, apel.enc_pel(p)) for nm, p in d]
    sample = files[0][1] if files else pelbuild.pel([pelbuild.UH()])
    if with_junk is None:
        with_junk = rng.random() < 0.5
    if with_junk:
        files += junk_files(rng, sample)
    eid = d[0][1]['ph']['eid'] if d else 0x1234
    if files and with_copy and rng.random() < 0.3:
        files.append(('copy_%08X_again' % eid, sample))
    rng.shuffle(files)
    sub = {}
    if rng.random() < 0.8:
        sub = {'archive': [('arch_%08X' % eid, sample), ('other', b'data')], 'nested': {'deeper': [('%08X.pel' % eid, b'zz')]}}
        if rng.random() < 0.5:
            sub['logs'] = [('in_logs_%08X' % eid, sample)]       # (what a copied BMC tree looks like: never the directory that was asked for)
    links = {}
    if sub and files and with_copy and rng.random() < 0.35:
        # links into the archive: one whose name carries the archived log's id, one under a name with another id (targets in a subdirectory: what
        # the tool does to a link whose target it has just removed itself is outside the model)
        files.append(('link_%08X' % eid, sample))
        links['link_%08X' % eid] = os.path.join('archive', 'arch_%08X' % eid)
        files.append(('alias_0BADF00D', b'data'))
        links['alias_0BADF00D'] = os.path.join('archive', 'other')
    kind = rng.random()
    selected = pelbuild.pel([pelbuild.UH(), pelbuild.SRC()], eid=0x0F0F0001)
    hidden = pelbuild.pel([pelbuild.UH(af=0x6000), pelbuild.SRC()], eid=0x0F0F0002)
    ffile = (selected if kind < 0.35 else hidden if kind < 0.5 else sample if kind < 0.65 else sample[:40] if kind < 0.75 else
             b'XX' + sample[2:] if kind < 0.85 else b'' if kind < 0.9 else None)
    codes = [c for c in (ascii_ref(p) for _, p in d) if c]
    exclude = None if rng.random() < 0.25 else '\n'.join(rng.sample(codes, min(len(codes), 2)) + ['BD00FFFF']) + '\n'
    out = None if rng.random() < 0.2 else ([] if rng.random() < 0.6 else [('old.json', b'{}'), ('keep.txt', b'kept')])
    if out is not None and d and rng.random() < 0.4:
        # an earlier run left an output under exactly the name --json uses for the first PEL: it is replaced in place
        out = out + [('%s.%s.json' % (d[0][0], h_), b'{"stale": true}') for h_ in ('%08X' % d[0][1]['ph']['eid'], '0x%08X' % d[0][1]['ph']['eid'], '0x%02X' % d[0][1]['ph']['eid'])]
    w = new_world(files, sub, ffile, exclude, out)
    w['links'] = links
    return w, d


def gen_value(rng, m, d):
    """a value for the valued mode option `m` that relates to the directory `d`"""
    if m == 'file':
        return rng.choice(['@F', '@F', '@F', '@NOF'])
    if m == 'srcExclude':
        return rng.choice(['@X', '@X', '@X', '@NOX', '@P'])
    pels = [p for _, p in d]
    if m in ('pelID', 'delete'):
        pool = [spell(rng, p['ph']['eid']) for p in pels[:4]] + ['DEADBEEF', '123', '0x1234567', 'junk_emp', '????????', '*' * 8, '[0-9A-F]', '0x??????']
        return rng.choice(pool)
    if m == 'plid':
        return rng.choice([spell(rng, p['ph']['plid']) for p in pels[:4]] + ['50000001', '1234', '0x123456789'])
    if m == 'bmcID':
        return rng.choice([str(p['ph']['obmc']) for p in pels[:4]] + ['99999', '1', 'x'])
    if m == 'src':
        codes = [c for c in (ascii_ref(p) for p in pels) if c]
        pool = ['BD', 'B', 'ZZZZQQ', 'B' * 33]
        for c in codes[:3]:
            i = rng.randrange(len(c))
            pool.append(c[i:rng.randrange(i + 1, len(c) + 1)])
        return rng.choice(pool)
    raise KeyError(m)


def gen_args(rng, d, modes=None, empty_rate=0.06):
    a = mainrun.blank_args()
    if modes is None:
        modes = rng.sample(mainrun.MODE13, rng.choice([0, 1, 1, 1, 2, 2, 3, 4]))
    for m in modes:
        if m in mainrun.VALUED:
            a[m] = '' if rng.random() < empty_rate else gen_value(rng, m, d)
        else:
            a[m] = True
    r = rng.random()
    a['path'] = None if r < 0.04 else '' if r < 0.07 else '@NOP' if r < 0.11 else '@X' if r < 0.14 else '@P'
    if rng.random() < (0.7 if a['json'] else 0.1):
        a['outputDir'] = rng.choice(['@O', '@O', '@O', '@P', '@NOO', ''])
    gen_selection(rng, a)
    gen_presentation(rng, a)
    return a


# ----------------------------------------------------------------------------
# property oracles on the REAL runs

def p8(arg):
    u = arg.upper()
    u = u[2:] if u.startswith('0X') else u
    return u if len(u) == 8 else None


def json_name_ok(name, tops):
    """<pel file>.<entry id>.json for one of the top-level file names"""
    for t in tops:
        if name.startswith(t + '.') and name.endswith('.json'):
            mid = name[len(t) + 1:-5]
            if mid and all(c in '0123456789ABCDEFabcdefx' for c in mid):
                return True
    return False


def effects_failures(run):
    """C11 at the level of the whole command line: what may change in the tree, judged from the command line alone"""
    a, out = run.args, []
    removed, added, changed = run.removed(), run.added(), run.changed()
    tops = {k[5:] for k in run.top_files()}
    # nothing below a subdirectory of the -p directory is ever touched, whatever the command line
    deep = [k for k in removed + added + changed if k.startswith('pels/') and '/' in k[5:]]
    if deep:
        out.append(('command_subdirs', 'something inside a subdirectory of the -p directory changed: %s' % deep[:3]))
    if not truthy(a['delete']) and not a['deleteAll'] and not a['clean'] and not a['json']:
        if removed or added or changed:
            out.append(('command_readonly', 'a command line without -d / -D / --clean / --json changed the tree'))
        return out
    act = reached(run)
    if a['json'] and not a['clean'] and not truthy(a['delete']) and not a['deleteAll']:
        if removed:
            out.append(('command_json_removed', '--json without --clean removed files'))
        bad = [k for k in added + changed if not json_name_ok(os.path.basename(k), tops)]
        if bad:
            out.append(('command_json_names', '--json without --clean created / changed files not named <pel file>.<entry id>.json: %s' % bad[:3]))
        where = 'out/' if (truthy(a['outputDir']) and a['outputDir'] != a['path']) else 'pels/'
        if any(not k.startswith(where) for k in added + changed):
            out.append(('command_json_outside', '--json wrote outside its output directory'))
    if act == 'delete':
        pid = p8(a['delete'])
        cands = sorted('pels/' + t for t in tops if pid and pid in t)
        if added or changed or len(removed) > 1 or (removed and removed[0] not in cands) or (cands and not removed):
            out.append(('command_delete_exact', '-d did not remove exactly one top-level file whose name contains the id (candidates %s, removed %s)' % (cands[:3], removed[:3])))
        if pid and not cands and run.stdout != 'PEL not found\n':
            out.append(('command_delete_notfound', '-d without a candidate did not report "PEL not found"'))
    elif act == 'deleteAll':
        if added or changed or set(removed) != run.top_files():
            out.append(('command_delete_all', '-D did not remove exactly the top-level regular files'))
    elif act == 'json':
        if a['clean']:
            if any(k not in run.top_files() for k in removed):
                out.append(('command_json_removed', '--json --clean removed something other than top-level files of the -p directory'))
            bad = [k for k in added + changed if not json_name_ok(os.path.basename(k), tops)]
            if bad:
                out.append(('command_json_names', '--json --clean created / changed files not named <pel file>.<entry id>.json: %s' % bad[:3]))
            if len(removed) > len(added) + len(changed):
                out.append(('command_json_removed', '--json --clean removed more inputs than it wrote outputs'))
    elif act != 'file':
        # a higher-priority mode (or an early exit) was reached: the delete / clean options given next to it do nothing
        if removed or added or changed:
            out.append(('command_lower_priority', 'the tree changed although the command line reaches %s' % act))
    elif act == 'file':
        f_rel = os.path.relpath(a['file'], run.root) if a['file'].startswith(run.root) else None
        if added or changed or [k for k in removed if k != f_rel]:
            out.append(('command_file_only', '-f touched something other than its own file'))
        if removed and not a['clean']:
            out.append(('command_file_clean', '-f without --clean removed its file'))
    return out


def fileclean_failures(run):
    """C12 at the level of the whole command line: -f F --clean removes F iff a document was printed"""
    a, out = run.args, []
    if not truthy(a['file']) or not a['file'].startswith(run.root):
        return out
    f_rel = os.path.relpath(a['file'], run.root)
    if f_rel not in run.before:
        return out
    gone = f_rel not in run.after
    printed = bool(run.stdout)
    if gone and not a['clean']:
        out.append(('command_file_clean', '-f without --clean removed its file'))
    if a['clean'] and gone != printed:
        out.append(('command_file_clean', '-f F --clean: F %s although %s' % ('is gone' if gone else 'is still there', 'something was printed' if printed else 'nothing was printed')))
    if printed and not a['hex']:
        try:
            json.loads(run.stdout)
        except Exception:  # noqa
            out.append(('command_file_clean', '-f printed something that is not one JSON document'))
    return out


def spec_default(p):
    sev, af = p['uh']['sev'], p['uh']['af']
    hidden = af & 0x4000 != 0
    serviceable = (af & 0x2000 != 0 and not hidden) if sev != 0 else af & 0x8000 != 0
    return serviceable and not hidden


# ----------------------------------------------------------------------------
# the check

def check_top(ck, tier, part):
    rng = ck.rng
    thorough = tier == 'thorough'
    env = apel.PluginEnv(allow=True).install()
    runs = []           # (Run, group info)
    try:
        if part == 'effects':
            for _ in range(60 if thorough else 24):
                w, d = gen_world(rng, env, thorough=thorough)
                pid = ('%08X' % d[0][1]['ph']['eid']) if d else '00001234'
                fixed = [['list', 'deleteAll'], ['all', 'delete'], ['count', 'deleteAll'], ['delete'], ['deleteAll'], ['json'], ['json', 'clean'],
                         ['json', 'deleteAll'], ['pelID', 'deleteAll'], ['file', 'clean', 'deleteAll'], ['file'], ['delete', 'deleteAll'], []]
                for modes in rng.sample(fixed, 13 if thorough else 5):
                    a = gen_args(rng, d, modes, empty_rate=0.0)
                    a['path'] = '@P'
                    if 'delete' in modes and rng.random() < 0.7:
                        a['delete'] = rng.choice([pid, '0x' + pid.lower()])
                    if rng.random() < 0.6:
                        a['every'] = True
                    runs.append((Run(w, a, rng, 'effects:' + '+'.join(modes)), None))
                for _ in range(16 if thorough else 9):
                    a = gen_args(rng, d)
                    runs.append((Run(w, a, rng, 'effects:random'), None))
                if d:
                    # an output directory that already holds files under the names --json is going to use (a second run over the same logs): they are
                    # written again in place, nothing else appears
                    w3 = dict(w)
                    w3['out'] = [('keep.txt', b'kept')] + [('%s.0x%08X.json' % (n_, p_['ph']['eid']), b'{"stale": 1}') for n_, p_ in d[:3]] + \
                                [('%s.%08X.json' % (n_, p_['ph']['eid']), b'{"stale": 2}') for n_, p_ in d[:3]]
                    a = mainrun.blank_args()
                    a['path'], a['json'], a['outputDir'], a['every'] = '@P', True, '@O', True
                    runs.append((Run(w3, a, rng, 'effects:json-over-existing-outputs'), None))
                if d:
                    # two top-level files (and one in a subdirectory) whose names contain the id: -d removes ONE of them
                    w2 = dict(w)
                    w2['files'] = w['files'] + [(n, b'second candidate') for n in ('dup_%s.pel' % pid, '%s' % pid) if n not in dict(w['files'])]
                    w2['subdirs'] = dict(w['subdirs'], ghost=[('only_in_subdir_%s' % pid, b'sub')])
                    a = mainrun.blank_args()
                    a['path'] = '@P'
                    a['delete'] = rng.choice([pid, '0x' + pid.lower(), '0X' + pid])
                    a['deleteAll'] = rng.random() < 0.5
                    runs.append((Run(w2, a, rng, 'effects:delete-two-candidates'), None))
        elif part == 'agree':
            for _ in range(40 if thorough else 18):
                w, d = gen_world(rng, env, n=rng.choice([0, 1, 2, 5, 8]), with_junk=False, thorough=thorough, with_copy=False)    # distinct entry ids
                for _ in range(3):
                    base = mainrun.blank_args()
                    base['path'] = '@P'
                    gen_selection(rng, base)
                    gen_presentation(rng, base)
                    base['hex'] = False
                    base['reverse'] = False
                    # lower-priority options next to the mode change nothing
                    if rng.random() < 0.2:
                        base['deleteAll'] = True
                    group = {}
                    for mode in ('count', 'list', 'all'):
                        for rev in (False, True):
                            a = dict(base)
                            a[mode] = True
                            a['reverse'] = rev
                            group[(mode, rev)] = Run(w, a, rng, 'agree:%s%s' % (mode, ':rev' if rev else ''))
                    for k, r_ in group.items():
                        runs.append((r_, ('agree', k, group, d, base)))
        elif part == 'junk':
            import c09
            for _ in range(50 if thorough else 20):
                w, d = gen_world(rng, env, n=rng.choice([0, 1, 3, 6]), with_junk=False, thorough=thorough)
                pels = list(w['files'])
                sample = pels[0][1] if pels else pelbuild.pel([pelbuild.UH()])
                junk = junk_files(rng, sample)
                verdict = c09.model_undecodable(env, junk)      # the MODEL says which files a mode cannot decode
                plid = '%08X' % (d[0][1]['ph']['plid'] if d else 0x1234)
                for mode, val, kind in [('list', True, 'summary'), ('all', True, 'full'), ('count', True, 'headers'),
                                        ('plid', plid, 'summary'), ('src', rng.choice(['B', 'BD', '1']), 'summary'), ('srcExclude', '@X', 'summary')]:
                    jk = [(n, b) for n, b in junk if verdict[(kind, b)]]
                    a = mainrun.blank_args()
                    a['path'] = '@P'
                    a[mode] = val
                    if rng.random() < 0.6:
                        a['every'] = True
                    gen_presentation(rng, a)
                    a['extension'] = None
                    if mode == 'srcExclude' and w['exclude'] is None:
                        continue
                    wj = dict(w)
                    wj['files'] = pels + jk
                    rng.shuffle(wj['files'])
                    clean_run = Run(w, a, rng, 'junk:%s:clean' % mode)
                    dirty_run = Run(wj, a, rng, 'junk:%s:junk' % mode)
                    runs.append((clean_run, None))
                    runs.append((dirty_run, ('junk', mode, clean_run, jk, pels)))
        elif part == 'lookup':
            for _ in range(40 if thorough else 16):
                w, d = gen_world(rng, env, n=rng.choice([1, 3, 6, 9]), with_junk=rng.random() < 0.3, thorough=thorough)
                if not d:
                    continue
                if w['exclude'] is None:
                    w['exclude'] = 'BD00FFFF\n'
                for mode in ('pelID', 'bmcID', 'plid', 'src', 'srcExclude'):
                    for _ in range(2):
                        a = mainrun.blank_args()
                        a['path'] = '@P'
                        # aim at a PEL the default selection would leave out, when there is one
                        hid = [p for _, p in d if not spec_default(p)]
                        dd = [(n, p) for n, p in d if not spec_default(p)] if hid and rng.random() < 0.7 else d
                        a[mode] = '@X' if mode == 'srcExclude' else gen_value(rng, mode, dd)
                        gen_presentation(rng, a)
                        b = dict(a)
                        b['every'] = True
                        plain = Run(w, a, rng, 'lookup:%s' % mode)
                        every = Run(w, b, rng, 'lookup:%s:-E' % mode)
                        runs.append((plain, ('lookup', mode, every, d)))
                        runs.append((every, None))
        elif part == 'fileclean':
            for _ in range(80 if thorough else 40):
                w, d = gen_world(rng, env, n=rng.choice([0, 1, 2]), thorough=thorough)
                for _ in range(3):
                    extra = rng.sample(mainrun.MODE13[1:], rng.choice([0, 1, 1, 2]))
                    a = gen_args(rng, d, ['file'] + extra, empty_rate=0.0)
                    if rng.random() < 0.6:
                        a['clean'] = True
                    runs.append((Run(w, a, rng, 'fileclean'), None))
        else:
            raise ValueError(part)
        replies = lean_batch([env.tokens()] + [r_.request for r_, _ in runs])[1:]
    finally:
        env.uninstall()
    n_cmp = 0
    for (run, info), r in zip(runs, replies):
        if not r.ok:
            ck.disagree('runmain: the driver rejected the request: ' + r.raw[:200], run.rp())
            continue
        m = parse_result(r)
        nontrivial = len(run.w['files']) >= 2 and (run.stdout or run.removed() or run.added())
        ck.case(key=('top', part, run.tag, tuple(run.argv[i] for i in range(len(run.argv)) if not run.argv[i].startswith(run.root)),
                     tuple(run.w['files'])) if nontrivial else None,
                sample={'top': run.tag, 'argv': [x.replace(run.root, '<root>') for x in run.argv][:12], 'exit': run.code} if rng.random() < 0.05 else None)
        ck.count('top[%s] %s -> exit %d' % (part, run.tag, run.code))
        ck.count('top[%s] reaches %s%s%s' % (part, reached(run), ', files removed' if run.removed() else '', ', files created' if run.added() else ''))
        compare_with_model(ck, run, m)
        n_cmp += 1
        fails = []
        if part == 'effects':
            fails += effects_failures(run) + fileclean_failures(run)
        if part == 'fileclean':
            fails += fileclean_failures(run) + effects_failures(run)
        if part in ('agree', 'junk', 'lookup'):
            # these command lines have no -d / -D / -c / -j at all (or only next to a higher-priority mode): read-only
            fails += effects_failures(run)
        if info and info[0] == 'agree':
            fails += agree_failures(run, info)
        if info and info[0] == 'junk':
            _, mode, clean_run, jk, pels = info
            if jk:
                ck.count('top[junk] pairs with junk')
            if run.code != clean_run.code:
                fails.append(('command_junk_exit', 'undecodable files changed the exit status of the command (%d -> %d)' % (clean_run.code, run.code)))
            if run.stdout != clean_run.stdout:
                fails.append(('command_junk_stdout', 'undecodable files changed what the command prints for the other PELs'))
        if info and info[0] == 'lookup':
            _, mode, every, d = info
            if (run.stdout, run.code) != (every.stdout, every.code):
                fails.append(('command_lookup_class', 'a look-up without selection options answers differently from the same look-up with -E '
                              '(hidden / non-serviceable PELs are not considered)'))
            elif run.stdout not in ('', 'PEL not found\n', '{}\n'):
                ck.count('top[lookup] hit')
        for key, what in fails:
            ck.fail('whole command: ' + what, run.rp({'removed': run.removed()[:5], 'added': run.added()[:5], 'changed': run.changed()[:5]}), key)
    ck.notes.append('whole command: %d command lines (%s) run end to end on real trees with the real peltool.main(), compared with Pel.runMain (PelModel/Top.lean)'
                    % (n_cmp, part))
    return n_cmp


def agree_failures(run, info):
    """evaluated once per group (on the plain -n run): count = |list| = |all|, same PELs, -r reverses; default / -E selection"""
    _, key, group, d, base = info
    if key != ('count', False):
        return []
    out = []
    try:
        cnt = {rev: json.loads(group[('count', rev)].stdout)['Number of PELs found'] for rev in (False, True)}
        lst = {rev: [k for k, _ in json.loads(group[('list', rev)].stdout, object_pairs_hook=jsonio.pairs_hook)] for rev in (False, True)}
        alld = {rev: [dict(dict(doc)['Private Header'])['Entry Id'] for doc in json.loads(group[('all', rev)].stdout, object_pairs_hook=jsonio.pairs_hook)]
                for rev in (False, True)}
    except Exception as e:  # noqa
        return [('command_agree_json', '-n / -l / -a did not print JSON documents: %r' % e)]
    if not (cnt[False] == cnt[True] == len(lst[False]) == len(lst[True]) == len(alld[False]) == len(alld[True])):
        out.append(('command_agree_number', '-n, -l and -a disagree on the number of PELs: %r %r %r' % (cnt, {k: len(v) for k, v in lst.items()}, {k: len(v) for k, v in alld.items()})))
    if lst[False] != alld[False] or lst[True] != alld[True]:
        out.append(('command_agree_set', '-l and -a refer to different PELs / order'))
    if lst[True] != lst[False][::-1] or alld[True] != alld[False][::-1]:
        out.append(('command_agree_reverse', '-r does not give the reverse sequence'))
    if any(group[k].code != 0 for k in group):
        out.append(('command_agree_exit', 'exit status is not 0'))
    # C07: which PELs a plain command line / -E selects (file names in ascending order, extension filter applied)
    ext = base['extension']
    names = sorted(n for n, _ in d if not ext or os.path.splitext(n)[1] == ext)
    pels = dict(d)
    plain = not any(base[f] for f in SEL_SWITCHES) and not base['severities']
    if plain or base['every']:
        want = ['0x%02X' % pels[n]['ph']['eid'] for n in names if base['every'] or spec_default(pels[n])]
        if lst[False] != want:
            out.append(('command_default_selection', '%s does not list exactly the %s PELs: %r, expected %r'
                        % ('-l -E' if base['every'] else 'plain -l', 'decodable' if base['every'] else 'serviceable customer-viewable', lst[False][:6], want[:6])))
    return out
