"""C13 — hex dumps are lossless."""
import io
import json
import math
import os
import shutil
import subprocess
import sys
import tempfile
from contextlib import redirect_stdout

import common
from common import Check, lean_batch, tb, tt, tlist

TRUSTED = ['Lean 4.33.0 kernel (+ leanchecker in the thorough tier)',
           'axioms: propext, Classical.choice, Quot.sound only (audited per theorem)',
           'harness/extract.py (pins), harness/c13.py (generators, comparison), Drv.lean protocol parsing',
           'compiled driver peldrv agrees with the kernel reading of the same definitions']
ASSUME = ['CPython str/bytes formatting (%02X, %08X, ljust, bytes.fromhex, re) is modelled, not verified',
          'offsets >= 2^32 are outside the theorems (lines are then longer than the template) and not exercised',
          'reference writers for the two I/O-drawer formats are part of the spec (no writer exists in the repo)']
RULE = ('cases = (bytes_per_line, bytes_per_chunk, data) for hexdump/parse, (format, padded?, data, noise) for '
        'the I/O-drawer formats, raw text lines for parse; non-trivial = non-empty data; distinct by '
        '(layout, length, content hash)')


def gen_bytes(rng, n):
    mode = rng.randrange(5)
    if mode == 0:
        return bytes(rng.choice([0x1f, 0x20, 0x7e, 0x7f, 0, 255, 0x41, 0x0a, 0x30, 0x66]) for _ in range(n))
    if mode == 1:
        return bytes([rng.randrange(256)] * n)
    return bytes(rng.randrange(256) for _ in range(n))


def run(tier, seed):
    ck = Check('C13', tier, seed)
    ck.proof = common.build_and_audit('C13', thorough=(tier == 'thorough'))
    if not ck.proof['driver_ok']:
        ck.notes.append('driver unavailable; correspondence not run')
        return ck.finish(RULE, TRUSTED, ASSUME)
    from pel import hexdump as hd
    try:
        from io_drawer import dump as iod
        fmts = [hd.DEFAULT_LINE_FORMAT] + list(iod.HEX_DUMP_LINE_FORMATS)
    except Exception as e:  # renamed/moved: correspondence on the formats we know
        ck.notes.append('live formats unavailable: %r' % e)
        fmts = [hd.DEFAULT_LINE_FORMAT]
    rng = ck.rng
    thorough = tier == 'thorough'

    # ---- 1. hexdump layouts: real vs model, property on real
    cases = []
    layouts = [(16, 4), (8, 2), (1, 1), (256, 256), (256, 1), (1, 256), (3, 2), (5, 7), (16, 16), (17, 4)]
    if thorough:
        layouts += [(l, c) for l in range(1, 257) for c in range(1, 257) if (l * 257 + c) % 7 == seed % 7 or l < 20 and c < 20]
    else:
        layouts += [(rng.randrange(1, 257), rng.randrange(1, 257)) for _ in range(300)]
        layouts += [(l, c) for l in range(1, 18) for c in range(1, 6)]
    for (l, c) in layouts:
        lens = {0, 1, l - 1, l, l + 1, 2 * l + 3}
        if not thorough:
            lens = set(rng.sample(sorted(lens), 3)) | {l + 1}
        for n in lens:
            if n < 0:
                continue
            cases.append((l, c, gen_bytes(rng, n)))
    for _ in range(4000 if thorough else 600):
        cases.append((rng.choice([16, 16, 8, 32, rng.randrange(1, 257)]), rng.choice([4, 4, 2, rng.randrange(1, 257)]),
                      gen_bytes(rng, rng.choice([0, 1, 15, 16, 17, 31, 32, 33, rng.randrange(0, 600)]))))
    replies = lean_batch(['hexdump %d %d %s' % (l, c, tb(b)) for (l, c, b) in cases])
    for (l, c, b), r in zip(cases, replies):
        rp = {'op': 'hexdump', 'bytes_per_line': l, 'bytes_per_chunk': c, 'data_hex': b.hex()}
        try:
            real = hd.hexdump(memoryview(b), l, c)
        except Exception as e:  # noqa  -- every setting generated here (1..256 each) is a permitted one
            ck.case(key=(l, c, len(b), hash(b)))
            ck.fail('hexdump raises for a permitted bytes-per-line / bytes-per-chunk setting', rp | {'actual': '%s: %s' % (type(e).__name__, str(e)[:100])}, 'hexdump_raises')
            continue
        ck.case(key=(l, c, len(b), hash(b)) if b else None, sample={'op': 'hexdump', 'l': l, 'c': c, 'data': b.hex()[:64]})
        ck.count('hexdump len=%s' % ('0' if not b else '<l' if len(b) < l else '=l' if len(b) == l else '>l'))
        # property on the real code
        if len(real) != math.ceil(len(b) / l):
            ck.fail('hexdump line count', rp | {'actual_lines': len(real)}, 'line_count')
        if len(set(len(x) for x in real)) > 1:
            ck.fail('hexdump lines not equally wide', rp | {'actual': real}, 'equal_width')
        for i, x in enumerate(real):
            if not x.startswith('%08X' % (i * l)):
                ck.fail('hexdump line does not begin with its offset', rp | {'line': x}, 'offset')
                break
        if (l, c) == (16, 4):
            back = bytes(hd.parse(real))
            if back != b:
                ck.fail('parse(hexdump(b)) != b', rp | {'actual_hex': back.hex()}, 'parse_hexdump')
        # correspondence
        if not r.ok:
            ck.disagree('model refused hexdump request: ' + r.raw[:80], rp)
        else:
            m = r.lines()
            # the ASCII column is constrained by the property only in its width (parse skips `C` cells):
            # compare it as "l characters, no newline"
            canon = lambda ls: [(x[:-l], len(x[-l:]), '\n' in x[-l:]) for x in ls]
            if canon(m) != canon(real):
                ck.disagree('hexdump output differs from model', rp | {'model': m[:3], 'impl': real[:3]})

    # ---- 2. parse: default dumps with noise / newlines; I/O-drawer renderings; garbage lines
    reqs, meta = [], []
    for _ in range(3000 if thorough else 500):
        b = gen_bytes(rng, rng.choice([1, 2, 15, 16, 17, 31, 32, 33, 48, rng.randrange(1, 400)]))
        k = rng.randrange(1, 3)
        pad = rng.random() < 0.5
        reqs.append('render %d %d %s' % (k, int(pad), tb(b)))
        meta.append((k, pad, b))
    # dumps longer than 64 KiB: the four-digit address column of the BMC format has wrapped around by then
    for k, pad in ((1, True), (1, False), (2, True)) if thorough else ((1, rng.random() < 0.5),):
        b = bytes(65536 + rng.randrange(1, 700)) if rng.random() < 0.3 else gen_bytes(rng, 65536 + rng.randrange(1, 700))
        reqs.append('render %d %d %s' % (k, int(pad), tb(b)))
        meta.append((k, pad, b))
    rendered = lean_batch(reqs)
    noise_pool = ['', '# comment', 'ILOG dump follows', '\n', '   ', 'xyz', '-----', 'Zeta 00', ': 0000', '\t00', 'taken 20240131: 09:15:22', 'g0000000: 09 15', 'note: a dump of drawer 2', '+1 errors', ' 7 of 9']
    reqs2, meta2 = [], []
    for (k, pad, b), r in zip(meta, rendered):
        lines = r.lines()
        text = []
        for ln in lines:
            while rng.random() < 0.2:
                text.append(rng.choice(noise_pool))
            text.append(ln + ('\n' if rng.random() < 0.5 else ''))
        while rng.random() < 0.3:
            text.append(rng.choice(noise_pool))
        reqs2.append('hexparse %d %s' % (k, tlist(text, tt)))
        meta2.append((k, pad, b, text))
    # default-format dumps produced by the REAL hexdump, with noise
    for _ in range(1500 if thorough else 300):
        b = gen_bytes(rng, rng.choice([1, 15, 16, 17, 33, rng.randrange(1, 300)]))
        text = []
        for ln in hd.hexdump(memoryview(b)):
            while rng.random() < 0.15:
                text.append(rng.choice(noise_pool))
            text.append(ln + ('\n' if rng.random() < 0.5 else ''))
        reqs2.append('hexparse 0 %s' % tlist(text, tt))
        meta2.append((0, True, b, text))
    # garbage / near-miss lines: correspondence of the scanner only
    alphabet = '0123456789abcdefABCDEFgG :<>|.\n\tZ'
    for _ in range(3000 if thorough else 500):
        k = rng.randrange(3)
        text = []
        for _ in range(rng.randrange(1, 4)):
            base = list(fmts[k % len(fmts)]) if rng.random() < 0.7 else []
            ln = ''.join(rng.choice('0123456789ABCDEFabcdef') if ch in 'AD' else (rng.choice('.xy ') if ch == 'C' else ch) for ch in base)
            ln = list(ln)
            for _ in range(rng.randrange(0, 4)):
                if ln and rng.random() < 0.7:
                    ln[rng.randrange(len(ln))] = rng.choice(alphabet)
                else:
                    ln.insert(rng.randrange(len(ln) + 1), rng.choice(alphabet))
            if rng.random() < 0.3:
                ln = ln[:rng.randrange(len(ln) + 1)]
            text.append(''.join(ln))
        reqs2.append('hexparse %d %s' % (k, tlist(text, tt)))
        meta2.append((k, None, None, text))
    rep2 = lean_batch(reqs2)
    for (k, pad, b, text), r in zip(meta2, rep2):
        if k >= len(fmts):
            ck.skip('format %d not present in live code' % k)
            continue
        try:
            real = bytes(hd.parse(text, fmts[k]))
            err = None
        except Exception as e:  # noqa
            real, err = None, type(e).__name__
        rp = {'op': 'parse', 'format': k, 'lines': text, 'expected_hex': b.hex() if b is not None else None}
        ck.case(key=('parse', k, pad, hash(tuple(text))) if (b or real) else None,
                sample={'op': 'parse', 'format': k, 'lines': text[:2]})
        ck.count('parse fmt=%d kind=%s' % (k, 'garbage' if b is None else ('padded' if pad else 'truncated')))
        if b is not None and real != b:
            ck.fail('parse of a rendered dump does not return the original bytes', rp | {'actual': real.hex() if real is not None else err},
                    'parse_format_%d' % k)
        m = r.bytes() if r.ok else None
        if m != real:
            ck.disagree('parse output differs from model', rp | {'model': m.hex() if m is not None else r.raw[:60],
                                                                'impl': real.hex() if real is not None else err})

    # ---- 2b. the same renderings as FILES: the bytes that io_drawer.dump.parse_dump_file recovers from a dump file in either I/O-drawer
    # format (comment / blank lines anywhere, also on top; short last line) and hands to the decoder are the original bytes
    try:
        from io_drawer import dump as iodump
        seam = getattr(iodump, 'parse_dump_data', None)
        cands = [(k, pad, b, text) for (k, pad, b, text) in meta2 if b and k in (1, 2) and k - 1 < len(getattr(iodump, 'HEX_DUMP_LINE_FORMATS', []))]
        rng.shuffle(cands)
        cands.sort(key=lambda c: len(c[2]) <= 65536)      # the dumps longer than 64 KiB first
        tmpd = tempfile.mkdtemp(prefix='c13files_')
        try:
            for k, pad, b, text in cands[:600 if thorough else 150]:
                if seam is None:
                    ck.skip('io_drawer.dump.parse_dump_data not there: the bytes recovered from a file cannot be observed')
                    break
                got = []
                iodump.parse_dump_data = lambda data, *a, **kw: (got.append(bytes(data)), [])[1]
                path = os.path.join(tmpd, 'dump.txt')
                eol = rng.choice(['\n', '\n', '\r\n'])      # dump files written on either kind of system
                with open(path, 'w', newline='') as f:
                    f.write(''.join((t[:-1] if t.endswith('\n') else t) + eol for t in text))
                try:
                    with common.deadline(common.call_limit()):
                        iodump.parse_dump_file(path, os.path.join(tmpd, 'no_header.H'), os.path.join(tmpd, 'no_strings'))
                    err = None
                except Exception as e:  # noqa
                    err = type(e).__name__
                finally:
                    iodump.parse_dump_data = seam
                ck.case(key=('file', k, pad, hash(tuple(text))), sample=None)
                ck.count('dump file fmt=%d first line is %s' % (k, 'data' if text and text[0].strip() and text[0][:1] in '0123456789abcdefABCDEF' else 'noise'))
                rp = {'op': 'parse_dump_file', 'format': k, 'lines': text, 'expected_hex': b.hex()}
                if err is not None or got != [b]:
                    ck.fail('decoding a dump FILE does not start from the original bytes', rp | {'actual': err or [g.hex() for g in got]}, 'parse_file_%d' % k)
        finally:
            shutil.rmtree(tmpd, ignore_errors=True)
    except ImportError as e:
        ck.skip('io_drawer.dump unavailable: %r' % e)

    # ---- 3. peltool -x display (in-process + CLI)
    try:
        from pel.peltool import peltool
        samples = [gen_bytes(rng, n) for n in [1, 16, 17, 100, 333]]
        rep3 = lean_batch(['pelhex ' + tb(b) for b in samples])
        for b, r in zip(samples, rep3):
            buf = io.StringIO()
            with redirect_stdout(buf):
                peltool.printPELInHexFormat(b)
            out = buf.getvalue().split('\n')
            if out and out[-1] == '':
                out.pop()
            ck.case(key=('pelhex', len(b), hash(b)), sample={'op': 'pelhex', 'n': len(b)})
            rp = {'op': 'printPELInHexFormat', 'data_hex': b.hex()}
            if len(out) < 2 or bytes(hd.parse(out[1:-1])) != b or 'Begin' not in out[0] or 'End' not in out[-1]:
                ck.fail('--hex display does not reproduce the bytes between its markers', rp | {'actual': out[:4]}, 'hex_display')
            if r.lines() != out:
                ck.disagree('--hex display differs from model', rp)
    except Exception as e:  # noqa
        ck.disagree('peltool.printPELInHexFormat unavailable: %r' % e, {})
    hex_display_cli(ck, rng, hd, thorough)
    return ck.finish(RULE, TRUSTED, ASSUME)


def hex_display_cli(ck, rng, hd, thorough):
    """`--hex` through the command line: whatever mode displays a PEL file in hex reproduces the FILE's bytes exactly between the
    begin/end markers - also when the file carries bytes after its last section (fill bytes, a trailer)"""
    import shutil
    import clirun
    import pelbuild
    paths = []
    try:
        for rnd in range(6 if thorough else 2):
            files = []
            for i in range(3):
                secs = [pelbuild.UH(), pelbuild.SRC(), pelbuild.UD(bytes(rng.randrange(256) for _ in range(rng.randrange(1, 60))), sub=2)]
                pel = pelbuild.pel(secs, eid=0x50001000 + 16 * rnd + i, obmc=700 + 16 * rnd + i)
                tail = rng.choice([b'', b'', b'\0' * rng.randrange(1, 9), bytes(rng.randrange(256) for _ in range(rng.randrange(1, 80)))])
                files.append(('pel_%d_%d_%08X' % (rnd, i, 0x50001000 + 16 * rnd + i), pel + tail))
            # a log of more than 4 / 16 KiB (one large section behind the SRC)
            bigpel = pelbuild.pel([pelbuild.UH(), pelbuild.SRC(), pelbuild.UD(bytes(rng.randrange(256) for _ in range(rng.choice([5000, 20000]))), sub=2)], eid=0x50001F00 + rnd, obmc=790 + rnd)
            files.append(('pel_%d_9_%08X' % (rnd, 0x50001F00 + rnd), bigpel))
            d = clirun.make_dir(files)
            paths.append(d)
            runs = [(['-p', d, '-a', '-x', '-E'], [b for _, b in sorted(files)]), (['-p', d, '-l', '-x', '-E'], [b for _, b in sorted(files)])]
            for n, b in files:
                runs.append((['-f', os.path.join(d, n), '-x', '-E'], [b]))
            n0, b0 = files[0]
            runs.append((['-p', d, '-i', n0[-8:], '-x'], [b0]))
            runs.append((['-p', d, '--bmc-id', str(700 + 16 * rnd), '-x'], [b0]))
            runs.append((['-p', d, '--plid', '50000001', '-x'], [b for _, b in sorted(files)]))
            runs.append((['-p', d, '--src', 'BD8D', '-x'], [b for _, b in sorted(files)]))
            for argv, want in runs:
                so, se, sx = clirun.run_main(argv)
                blocks, cur = [], None
                for ln in so.split('\n'):
                    if 'Begin' in ln:
                        cur = []
                    elif 'End' in ln:
                        if cur is not None:
                            blocks.append(cur)
                        cur = None
                    elif cur is not None:
                        cur.append(ln)
                try:
                    got = [bytes(hd.parse(bl)) for bl in blocks]
                except Exception:
                    got = None
                ck.case(key=('hexcli', tuple(argv[2:]), tuple(want)), sample={'cli': ' '.join(a for a in argv if a.startswith('-')), 'files': len(want)} if rnd == 0 else None)
                ck.count('--hex through ' + ' '.join(a for a in argv if a.startswith('-') and a not in ('-p', '-E', '-x')))
                if got != want:
                    ck.fail('the --hex display of a PEL file does not reproduce the file\'s bytes between its markers',
                            {'op': 'cli-hex', 'argv': [a for a in argv if not a.startswith('/')], 'files': [(n, b.hex()) for n, b in files],
                             'shown_lengths': [len(g) for g in got] if got is not None else None, 'file_lengths': [len(w) for w in want]}, 'hex_display_cli')
    finally:
        for p in paths:
            shutil.rmtree(p, ignore_errors=True)


def replay(path):
    rp = json.load(open(path))
    from pel import hexdump as hd
    print(json.dumps(rp, indent=1)[:2000])
    if rp.get('op') == 'hexdump':
        b = bytes.fromhex(rp['data_hex'])
        real = hd.hexdump(memoryview(b), rp['bytes_per_line'], rp['bytes_per_chunk'])
        print('\n'.join(real))
        ok = len(real) == math.ceil(len(b) / rp['bytes_per_line']) and len(set(map(len, real))) <= 1
        if (rp['bytes_per_line'], rp['bytes_per_chunk']) == (16, 4):
            ok = ok and bytes(hd.parse(real)) == b
        print('property holds on this input now' if ok else 'STILL FAILING')
        return 0 if ok else 1
    if rp.get('op') == 'parse' and rp.get('expected_hex') is not None:
        from io_drawer import dump as iod
        fmts = [hd.DEFAULT_LINE_FORMAT] + list(iod.HEX_DUMP_LINE_FORMATS)
        real = bytes(hd.parse(rp['lines'], fmts[rp['format']]))
        ok = real.hex() == rp['expected_hex']
        print('property holds on this input now' if ok else 'STILL FAILING: got ' + real.hex())
        return 0 if ok else 1
    print('nothing to re-execute for this replay kind')
    return 0
