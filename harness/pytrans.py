"""
Source-to-Lean translation support (the second tie between model and code, next to the behavioural correspondence).

A translator module `harness/trans_<name>.py` reads the CURRENT Python source of /repo with `ast`, recognises the
statement/expression shapes it knows and writes `lean/PelGen/Gen<Name>.lean` with one definition per translated function:

    def Pel.Gen.<fn>? : Option (<type>) := some (<term>)      -- or `none` when the source left the translatable subset

`lean/PelProps/Tie<Cxx>.lean` then proves `∀ g, Pel.Gen.<fn>? = some g → g = <hand-written model function>`, so the
property theorems about the model are theorems about what the source says NOW; the proof is re-checked on every run.
`none` is not a failure (TRANSLATION-UNAVAILABLE: the correspondence run is then the only tie for that function); a
definition that is generated but no longer provably equal to the model is a broken proof obligation.

Translators never import the code under test; they only parse it.
"""
import ast
import os
import re
import subprocess


class Untranslatable(Exception):
    """the source is outside the subset this translator recognises"""


def load_module_ast(repo, relpath):
    p = os.path.join(repo, 'modules', relpath)
    with open(p, encoding='utf-8') as f:
        return ast.parse(f.read(), filename=p)


def find_def(tree, qualname):
    """FunctionDef `f` or `Class.f` of a parsed module"""
    parts = qualname.split('.')
    body = tree.body
    node = None
    for i, part in enumerate(parts):
        node = None
        for n in body:
            if isinstance(n, (ast.FunctionDef, ast.ClassDef)) and n.name == part:
                node = n
        if node is None:
            raise Untranslatable('no definition %s' % qualname)
        body = node.body
    if not isinstance(node, ast.FunctionDef):
        raise Untranslatable('%s is not a function' % qualname)
    return node


def strip_docstring(body):
    """statements of a function body without a leading docstring and without bare string/Ellipsis expression statements"""
    out = []
    for st in body:
        if isinstance(st, ast.Expr) and isinstance(st.value, ast.Constant) and isinstance(st.value.value, (str, type(Ellipsis))):
            continue
        if isinstance(st, ast.Pass):
            continue
        out.append(st)
    return out


def lean_text(sv):
    """a Python str as a Lean `List Nat` of code points"""
    return '[' + ', '.join(str(ord(c)) for c in sv) + ']'


def dotted(node):
    """`a.b.c` of an attribute chain rooted in a Name, else None"""
    parts = []
    while isinstance(node, ast.Attribute):
        parts.append(node.attr)
        node = node.value
    if isinstance(node, ast.Name):
        parts.append(node.id)
        return '.'.join(reversed(parts))
    return None


def const_str(node):
    if isinstance(node, ast.Constant) and isinstance(node.value, str):
        return node.value
    raise Untranslatable('string literal expected at line %d' % getattr(node, 'lineno', 0))


def const_int(node):
    if isinstance(node, ast.Constant) and isinstance(node.value, int) and not isinstance(node.value, bool):
        return node.value
    raise Untranslatable('integer literal expected at line %d' % getattr(node, 'lineno', 0))


def fstring_parts(node):
    """JoinedStr -> list of ('lit', text) | ('expr', ast, conversion, format_spec-text-or-None)"""
    if isinstance(node, ast.Constant) and isinstance(node.value, str):
        return [('lit', node.value)]
    if not isinstance(node, ast.JoinedStr):
        raise Untranslatable('f-string expected')
    out = []
    for v in node.values:
        if isinstance(v, ast.Constant):
            out.append(('lit', v.value))
        elif isinstance(v, ast.FormattedValue):
            spec = None
            if v.format_spec is not None:
                sp = fstring_parts(v.format_spec)
                if any(k != 'lit' for k, *_ in sp):
                    raise Untranslatable('nested format spec')
                spec = ''.join(t for _, t in sp)
            out.append(('expr', v.value, v.conversion, spec))
        else:
            raise Untranslatable('f-string part')
    return out


class GenFile:
    """collects the definitions of one generated Lean file"""

    def __init__(self, verif, name, imports, source_note):
        self.verif = verif
        self.name = name                      # e.g. 'GenSections'  -> lean/PelGen/GenSections.lean
        self.imports = imports
        self.note = source_note
        self.defs = []                        # (lean name, type, term or None, reason)
        self.unavailable = []

    def emit(self, lean_name, lean_type, thunk):
        if os.environ.get('VERIF_TRANS_FORCE_NONE') == '1':
            # self-test (tools/tienone.sh): every definition unavailable -- all Tie modules must still build
            self.defs.append([lean_name, lean_type, None, 'forced by VERIF_TRANS_FORCE_NONE'])
            return
        try:
            term = thunk()
            self.defs.append([lean_name, lean_type, term, None])
        except Untranslatable as e:
            self.defs.append([lean_name, lean_type, None, str(e)])
        except Exception as e:  # a translator bug must never take the checks down: same as "not translatable"
            self.defs.append([lean_name, lean_type, None, 'translator error %s: %s' % (type(e).__name__, e)])

    def render(self):
        lines = ['/- GENERATED by harness/trans_*.py from the current SOURCE TEXT of the repository under test (%s).' % self.note,
                 '   Do not edit: rewritten on every check run. `none` = the source left the translatable subset. -/']
        lines += ['import ' + i for i in self.imports]
        lines += ['set_option linter.unusedVariables false', 'namespace Pel.Gen']
        for nm, ty, term, why in self.defs:
            if term is None:
                lines.append('/-- not translated: %s -/' % (why or '').replace('-/', '- /'))
                lines.append('def %s? : Option (%s) := none' % (nm, ty))
            else:
                lines.append('def %s? : Option (%s) := some (\n%s)' % (nm, ty, term))
        lines.append('end Pel.Gen')
        return '\n'.join(lines) + '\n'

    def path(self):
        return os.path.join(self.verif, 'lean', 'PelGen', self.name + '.lean')

    def _write(self):
        body = self.render()
        p = self.path()
        old = open(p).read() if os.path.exists(p) else None
        if old != body:
            with open(p, 'w') as f:
                f.write(body)
            return True
        return False

    def _build(self):
        r = subprocess.run(['lake', 'build', 'PelGen.' + self.name], cwd=os.path.join(self.verif, 'lean'),
                           stdout=subprocess.PIPE, stderr=subprocess.STDOUT, text=True)
        return r.returncode == 0, r.stdout

    def write(self, build=True):
        """write the file; a generated definition that does not elaborate is withdrawn (`none`), never left to break the build"""
        changed = self._write()
        olean = os.path.join(self.verif, 'lean', '.lake', 'build', 'lib', 'lean', 'PelGen', self.name + '.olean')
        if build and not changed and os.path.exists(olean) and os.path.getmtime(olean) >= os.path.getmtime(self.path()):
            build = False       # the same text as last time, and that text was built: nothing to test-build again
        if build:
            ok, out = self._build()
            if not ok:
                # withdraw the definitions the error positions fall into; if that does not help, all of them
                text = self.render().split('\n')
                starts = [(i + 1, l.split()[1][:-1]) for i, l in enumerate(text) if l.startswith('def ')]
                bad = set()
                for m in re.finditer(r'%s\.lean:(\d+):\d+' % self.name, out):
                    ln = int(m.group(1))
                    owner = None
                    for st, nm in starts:
                        if st <= ln:
                            owner = nm
                    if owner:
                        bad.add(owner)
                for d in self.defs:
                    if d[0] in bad and d[2] is not None:
                        d[2], d[3] = None, 'the generated definition does not elaborate'
                self._write()
                ok, out2 = self._build()
                if not ok:
                    for d in self.defs:
                        if d[2] is not None:
                            d[2], d[3] = None, 'the generated file does not elaborate'
                    self._write()
                    self._build()
        for nm, ty, term, why in self.defs:
            if term is None:
                self.unavailable.append('%s (%s)' % (nm, why))
        return self.unavailable
