"""
Source-to-Lean translator for the decision logic of peltool.py (stream `peltool`, properties C01, C07, C10, C11).

Reads the CURRENT text of
    modules/pel/peltool/peltool.py       parseHeader, getSectionName, considerPELIfSeverityMatches, considerPEL, processId, main
    modules/pel/peltool/user_header.py   UserHeader.isHidden, UserHeader.isServiceable   (+ toJSON, for the two attribute names)
    modules/pel/peltool/config.py        Config.__init__
with `ast` and writes lean/PelGen/GenPeltool.lean.  PelProps/TieC01|C07|C10|C11.lean prove the hand-written model equal to
what is generated here.  Everything that decides behaviour comes from the AST: widths, masks, shift amounts, operators, the order
of statements and of `if` branches, which test guards which return, message texts, default values, which callee is called with
which arguments in which branch, where `sys.exit` stands.  A statement or expression that is not listed below makes the function
`none` (TRANSLATION-UNAVAILABLE); nothing is skipped silently except docstrings / bare string statements / `pass`.

=====================================================================================================================
TRUSTED TABLE: name maps and idioms (the only knowledge about the code that is hard-wired here)
=====================================================================================================================
Python values and types
    int literal >= 0 -> Nat      str literal -> List Nat (code points)      True/False -> Bool      locals -> fresh v<i>
    truth value of e (in `if`, `and`, `or`, `not`): Bool -> e | int -> e != 0 | str/list -> !e.isEmpty | None-or-str -> truthy e
    `if X:` / `if not X:` on a None-or-str value X    -> `match tv X with | some v => … | none => …`; inside the `some` branch
                                                         X denotes v (a non-empty string)
    &  >>  <<  |  //  %  + (ints)                      -> &&&  >>>  <<<  |||  /  %  +          + on strings -> ++
    == != < <= > >= (ints) / == != (strings)            -> ==  !=  decide (· < ·) …
    chr(e & m), m <= 0x10FFFF                          -> [e &&& m]
    len(x)  x.upper()  x.startswith(lit)  x[k:]        -> x.length  x.map toUpperAscii  lit.isPrefixOf x  x.drop k
    f"…{e}…", "…%s…" % e, "…{}…".format(e), a + b      -> concatenation (e must be a string)
    TABLE.get(k, default)                              -> (lookupT <table> k).getD default
    early returns: `if T: <returns>` followed by REST  -> if T then … else REST   (source order)
    `if T: x = e` (only local assignments, no else)    -> let x' := if T then e else x
    `for x in L: <body with returns>` followed by REST -> L.foldr (fun x rest => body[fall through := rest]) REST
    `return e` / `sys.exit(<str>)` in a function whose model is `Option`-valued (processId)   -> some e / none
    `x = stream.get_int(k)` (reader functions)         -> getInt k >>= fun x => …
    `return a, b, c, d, e` of parseHeader               -> pure (SecHdr.mk a b c d e)     (tuple position = field position)
Names of the code -> names of the model
    stream.get_int -> getInt                 sectionNames (pel_values) -> T.sectionNames (parameter; pinned by C01.pin_section_names)
    ActionFlagsValues.hiddenActionFlag.value / reportFlag / serviceActionFlag -> hiddenFlag / reportFlag / serviceActionFlag
    SeverityValues.infoSeverity.value / critSysTermSeverity.value             -> infoSeverity / critSysTermSeverity   (pinned by C07.pin_*)
    UserHeader: the attribute assigned from the 3rd `self.stream.get_int` of `toJSON` -> sev, from the 8th -> af
        (`decodeUH` hands exactly these two reads on as `UHInfo.severity` / `.actionFlags`); `self` / `uh` = the pair (sev, af)
    uh.isHidden() / self.isHidden() -> isHidden af (truth value only)      uh.isServiceable() -> isServiceable sev af
    considerPELIfSeverityMatches(uh, config) -> sevMatches sev c.severities
    Config members (config.py) -> MainCfg / SelCfg fields:  allow_plugins->allowPlugins  serviceable->sel.serviceable
        non_serviceable->sel.nonServiceable  every_pel->sel.every  critSysTerm->sel.term  hidden->sel.hidden  only->sel.only
        severities->sel.severities  hex->hex  rev->rev  extension->ext;   plid src srcExcludeFile bmcID pelID -> LookupIds members
        (the model's sel.lookup is proved to be their disjunction; `config.<id member> = <non-empty string>` -> MainCfg.withLookup)
    Config() -> ({} : MainCfg)   (Gen.configInit? = the translated `Config.__init__`, proved equal to `{}`)
    severityGroupValues -> the table parameter of mkConfig (severityGroupTable in dispatch; pinned by C07.pin_main_severity_table)
    L.extend(TABLE[x] for x in XS) -> L ++ XS.filterMap (sevLookup TABLE)     (argparse `choices` makes every x a key)
    args.<dest> -> Args field:  path skip_plugins->skipPlugins file list all show_pel_count->count IDToDelete->delete deleteAll pelID
        bmcID plID->plid src src_exclude_file->srcExclude hex reverse extension every_pel->every serviceable
        non_serviceable->nonServiceable hidden critSysTerm->term severities only json output_dir->outputDir clean
        (the kind of every dest used — store_true / valued / nargs='+' — is read from the add_argument calls and must agree)
    os.path.isdir(x) / os.path.isfile(x) -> fs.isDir x / fs.isFile x     os.path.join(a, b) -> pathJoin a b
    os.path.splitext(x)[1] -> splitext x
    main(): `inBMC = os.path.isdir(<const>)`; `if not inBMC: A else: B` -> A   (the model covers inBMC = False only; B is not translated)
    main(): sys.exit(<str>) -> PyOutcome.exit <text>;  <callee>(…); sys.exit(0) -> PyOutcome.call <Action>;  end of main -> Action.nothing
    callee -> Action constructor (arguments in the order of the model):
        parseAndPrintPELFile(P, config, True) + `if <C and printed>: os.remove(P)`  -> fileMode P C      (+ Gen.fileAfterPrint?)
        os.walk idiom (below)                                    -> jsonMode D X Y                       (+ Gen.jsonCalls?)
        parsePelFromID(P, config)      -> idMode P config.pelID          parsePelFromBmcID(P, config) -> bmcIdMode P config.bmcID
        parsePelFromPLID(P, config)    -> plidMode P config.plid
        parsePelFromSRCID(P, config)   -> srcMode P config.src  (only `src` set) | srcExcludeMode P config.srcExcludeFile (only that set)
        listOption(P, config) -> listMode P     printPELCount(P, config) -> countMode P     extractAllPELsData(P, config) -> allMode P
        deletePELFromPELId(P, E) -> deleteMode P E           deleteAllPELs(P) -> deleteAllMode P
        (a look-up callee must find exactly its own id member set in the Config, the others none)
    `for R, _, FS in os.walk(D): for F in FS: [if C: continue]* parseAndWriteOutput(os.path.join(R, F), X, config, Y); break`
        -> Action.jsonMode D X Y, and Gen.jsonCalls? = fun c files dir out clean => (files.filter (¬C…)).map (pathJoin dir ·, out, clean)
        (R = the directory itself because of the `break` after the first `os.walk` item)
Module-level names the maps above rely on (sys, os, SeverityValues, ActionFlagsValues, sectionNames, severityGroupValues, Config, the
seventeen functions of peltool.py that are translated or named as callees, UserHeader.isHidden/isServiceable/toJSON, Config.__init__)
must each be bound exactly once, by the expected import / def (no star import, no rebinding, no `global`); the two UserHeader
attributes must be stored nowhere else; a local of the same name as `os`/`sys`/`config`/`args` un-maps the name.
The statements of main() before `args = parser.parse_args()` build the argument parser; they are not translated (the model starts
from the parsed namespace) but are checked to be of that kind only (constant assignments, parser construction, add_argument).
"""
import ast
import string

from pytrans import GenFile, Untranslatable, load_module_ast, find_def, strip_docstring, lean_text, dotted

NAT, BOOL, TEXT, TEXT1, OPT, TEXTS, NATS, TRUTH = 'nat', 'bool', 'text', 'text1', 'opt', 'texts', 'nats', 'truth'

CONSTS = {
    'ActionFlagsValues.hiddenActionFlag.value': 'hiddenFlag',
    'ActionFlagsValues.reportFlag.value': 'reportFlag',
    'ActionFlagsValues.serviceActionFlag.value': 'serviceActionFlag',
    'SeverityValues.infoSeverity.value': 'infoSeverity',
    'SeverityValues.critSysTermSeverity.value': 'critSysTermSeverity',
}
# Config member -> (SelCfg field, type) as seen by considerPEL (parameter `c : SelCfg`, `ids : LookupIds`)
SEL_FIELDS = {'every_pel': ('c.every', BOOL), 'critSysTerm': ('c.term', BOOL), 'serviceable': ('c.serviceable', BOOL),
              'non_serviceable': ('c.nonServiceable', BOOL), 'hidden': ('c.hidden', BOOL), 'only': ('c.only', BOOL),
              'severities': ('c.severities', NATS)}
LOOKUP_FIELDS = ['plid', 'src', 'srcExcludeFile', 'bmcID', 'pelID']
# Config member -> (path in MainCfg, type)
CFG_FIELDS = {'allow_plugins': (('allowPlugins',), BOOL), 'serviceable': (('sel', 'serviceable'), BOOL),
              'non_serviceable': (('sel', 'nonServiceable'), BOOL), 'every_pel': (('sel', 'every'), BOOL),
              'critSysTerm': (('sel', 'term'), BOOL), 'hidden': (('sel', 'hidden'), BOOL), 'only': (('sel', 'only'), BOOL),
              'severities': (('sel', 'severities'), NATS), 'hex': (('hex',), BOOL), 'rev': (('rev',), BOOL), 'extension': (('ext',), OPT)}
ARGS = {'path': ('path', OPT), 'skip_plugins': ('skipPlugins', BOOL), 'file': ('file', OPT), 'list': ('list', BOOL), 'all': ('all', BOOL),
        'show_pel_count': ('count', BOOL), 'IDToDelete': ('delete', OPT), 'deleteAll': ('deleteAll', BOOL), 'pelID': ('pelID', OPT),
        'bmcID': ('bmcID', OPT), 'plID': ('plid', OPT), 'src': ('src', OPT), 'src_exclude_file': ('srcExclude', OPT), 'hex': ('hex', BOOL),
        'reverse': ('reverse', BOOL), 'extension': ('extension', OPT), 'every_pel': ('every', BOOL), 'serviceable': ('serviceable', BOOL),
        'non_serviceable': ('nonServiceable', BOOL), 'hidden': ('hidden', BOOL), 'critSysTerm': ('term', BOOL),
        'severities': ('severities', TEXTS), 'only': ('only', BOOL), 'json': ('json', BOOL), 'output_dir': ('outputDir', OPT),
        'clean': ('clean', BOOL)}
# callee -> (Action constructor, the Config id member it reads or None, takes config?)
CALLEES = {'parsePelFromID': ('idMode', 'pelID'), 'parsePelFromBmcID': ('bmcIdMode', 'bmcID'), 'parsePelFromPLID': ('plidMode', 'plid'),
           'listOption': ('listMode', None), 'printPELCount': ('countMode', None), 'extractAllPELsData': ('allMode', None)}
MAXTERM = 400000


def U(msg, node=None):
    ln = getattr(node, 'lineno', None)
    return Untranslatable(msg + (' (line %d)' % ln if ln else ''))


def ind(text, n=2):
    pad = ' ' * n
    return '\n'.join(pad + l for l in text.split('\n'))


def only_positional(fn, names_count):
    a = fn.args
    if a.vararg or a.kwarg or a.kwonlyargs or a.posonlyargs or a.defaults or a.kw_defaults or len(a.args) != names_count:
        raise U('unexpected parameter list of %s' % fn.name, fn)
    if fn.decorator_list:
        raise U('decorated function %s' % fn.name, fn)
    return [x.arg for x in a.args]


class Ctx:
    """translation state of one control-flow path"""

    def __init__(self, tr):
        self.tr = tr
        self.locals = {}        # python name -> (lean term, type)
        self.objs = {}          # python name -> object kind
        self.refined = {}       # lean term of a None-or-str value -> lean variable holding its (non-empty) string
        # main() only
        self.cfg = None         # lean term of the Config built so far
        self.lookups = {}       # id member -> lean term (non-empty string) assigned on this path
        self.called = None      # Action term of the callee reached on this path
        self.in_block = False   # still inside the initial `if args.x: config.y = …` block

    def copy(self):
        c = Ctx(self.tr)
        c.locals = dict(self.locals)
        c.objs = dict(self.objs)
        c.refined = dict(self.refined)
        c.cfg = self.cfg
        c.lookups = dict(self.lookups)
        c.called = self.called
        c.in_block = self.in_block
        return c


class Translator:
    """expressions and statements common to all targets; subclasses say what names mean and what `return` / `sys.exit` produce"""

    def __init__(self):
        self.n = 0

    def fresh(self):
        self.n += 1
        return 'v%d' % self.n

    # ---- hooks
    def attribute(self, node, ctx):
        raise U('attribute %s' % (dotted(node) or '?'), node)

    def call(self, node, ctx):
        raise U('call of %s' % (dotted(node.func) or '?'), node)

    def ret(self, node, ctx):
        raise U('return', node)

    def exit_(self, node, ctx):
        raise U('sys.exit', node)

    def end(self, ctx):
        raise Untranslatable('a path reaches the end of the function without `return`')

    def stmt_hook(self, st, rest, ctx, tail):
        return None

    # ---- expressions
    def expr(self, node, ctx):
        t, ty = self.expr0(node, ctx)
        if ty == OPT and t in ctx.refined:
            return ctx.refined[t], TEXT1
        return t, ty

    def expr0(self, node, ctx):
        if isinstance(node, ast.Constant):
            v = node.value
            if isinstance(v, bool):
                return ('true' if v else 'false'), BOOL
            if isinstance(v, int):
                if v < 0:
                    raise U('negative literal', node)
                return str(v), NAT
            if isinstance(v, str):
                return lean_text(v), (TEXT1 if v else TEXT)
            raise U('literal %r' % (v,), node)
        if isinstance(node, ast.Name):
            if node.id in ctx.locals:
                return ctx.locals[node.id]
            raise U('unknown name %s' % node.id, node)
        if isinstance(node, ast.Attribute):
            d = dotted(node)
            if d in CONSTS and not self.shadowed(d, ctx):
                return CONSTS[d], NAT
            return self.attribute(node, ctx)
        if isinstance(node, ast.JoinedStr):
            return self.fstring(node, ctx)
        if isinstance(node, ast.UnaryOp) and isinstance(node.op, ast.Not):
            return '(!%s)' % self.truth(node.operand, ctx), BOOL
        if isinstance(node, ast.BoolOp):
            raise U('`and`/`or` outside a truth context', node)
        if isinstance(node, ast.BinOp):
            return self.binop(node, ctx)
        if isinstance(node, ast.Compare):
            return self.compare(node, ctx)
        if isinstance(node, ast.Subscript):
            return self.subscript(node, ctx)
        if isinstance(node, ast.Call):
            return self.call_common(node, ctx)
        raise U('expression %s' % type(node).__name__, node)

    def truth(self, node, ctx):
        if isinstance(node, ast.BoolOp):
            op = '&&' if isinstance(node.op, ast.And) else '||'
            vals = [self.truth(v, ctx) for v in node.values]
            t = vals[0]
            for v in vals[1:]:
                t = '(%s %s %s)' % (t, op, v)
            return t
        if isinstance(node, ast.UnaryOp) and isinstance(node.op, ast.Not):
            return '(!%s)' % self.truth(node.operand, ctx)
        t, ty = self.expr(node, ctx)
        return self.truth_of(t, ty, node)

    def truth_of(self, t, ty, node=None):
        if ty in (BOOL, TRUTH):
            return t
        if ty == NAT:
            return '(%s != 0)' % t
        if ty in (TEXT, TEXTS, NATS):
            return '(!%s.isEmpty)' % atom(t)
        if ty == TEXT1:
            return 'true'
        if ty == OPT:
            return '(truthy %s)' % atom(t)
        raise U('truth value of a %s' % ty, node)

    def is_text(self, ty):
        return ty in (TEXT, TEXT1)

    def binop(self, node, ctx):
        if isinstance(node.op, ast.Mod) and isinstance(node.left, ast.Constant) and isinstance(node.left.value, str):
            return self.percent(node, ctx)
        a, ta = self.expr(node.left, ctx)
        b, tb = self.expr(node.right, ctx)
        ops = {ast.BitAnd: '&&&', ast.RShift: '>>>', ast.LShift: '<<<', ast.BitOr: '|||', ast.Add: '+'}
        if ta == NAT and tb == NAT:
            for k, o in ops.items():
                if isinstance(node.op, k):
                    return '(%s %s %s)' % (a, o, b), NAT
            if isinstance(node.op, (ast.FloorDiv, ast.Mod)):
                if not (isinstance(node.right, ast.Constant) and isinstance(node.right.value, int) and node.right.value > 0):
                    raise U('division by a non-literal', node)
                return '(%s %s %s)' % (a, '/' if isinstance(node.op, ast.FloorDiv) else '%', b), NAT
            raise U('integer operator %s' % type(node.op).__name__, node)
        if self.is_text(ta) and self.is_text(tb) and isinstance(node.op, ast.Add):
            return '(%s ++ %s)' % (a, b), (TEXT1 if TEXT1 in (ta, tb) else TEXT)
        raise U('operator %s on %s, %s' % (type(node.op).__name__, ta, tb), node)

    def compare(self, node, ctx):
        if len(node.ops) != 1:
            raise U('chained comparison', node)
        op = node.ops[0]
        a, ta = self.expr(node.left, ctx)
        b, tb = self.expr(node.comparators[0], ctx)
        if ta == NAT and tb == NAT:
            if isinstance(op, ast.Eq):
                return '(%s == %s)' % (a, b), BOOL
            if isinstance(op, ast.NotEq):
                return '(%s != %s)' % (a, b), BOOL
            for k, o in ((ast.Lt, '<'), (ast.LtE, '≤'), (ast.Gt, '>'), (ast.GtE, '≥')):
                if isinstance(op, k):
                    return '(decide (%s %s %s))' % (a, o, b), BOOL
        if self.is_text(ta) and self.is_text(tb) or (ta == OPT and tb == OPT):
            if isinstance(op, ast.Eq):
                return '(%s == %s)' % (a, b), BOOL
            if isinstance(op, ast.NotEq):
                return '(%s != %s)' % (a, b), BOOL
        if ta == OPT and self.is_text(tb) or self.is_text(ta) and tb == OPT:
            x, y = (a, 'some %s' % atom(b)) if ta == OPT else ('some %s' % atom(a), b)
            if isinstance(op, ast.Eq):
                return '(%s == %s)' % (x, y), BOOL
            if isinstance(op, ast.NotEq):
                return '(%s != %s)' % (x, y), BOOL
        raise U('comparison %s on %s, %s' % (type(op).__name__, ta, tb), node)

    def subscript(self, node, ctx):
        sl = node.slice
        # os.path.splitext(x)[1]
        if isinstance(node.value, ast.Call) and dotted(node.value.func) == 'os.path.splitext':
            if not (isinstance(sl, ast.Constant) and sl.value == 1 and type(sl.value) is int):
                raise U('only element 1 of os.path.splitext is known', node)
            (x, tx), = [self.expr(a, ctx) for a in self.plain_args(node.value, 1)]
            if not self.is_text(tx):
                raise U('os.path.splitext of a %s' % tx, node)
            return '(splitext %s)' % atom(x), TEXT
        if isinstance(sl, ast.Slice) and sl.upper is None and sl.step is None and sl.lower is not None:
            v, tv_ = self.expr(node.value, ctx)
            if not self.is_text(tv_):
                raise U('slice of a %s' % tv_, node)
            if not (isinstance(sl.lower, ast.Constant) and type(sl.lower.value) is int and sl.lower.value >= 0):
                raise U('slice bound', node)
            return '(%s.drop %d)' % (atom(v), sl.lower.value), TEXT
        raise U('subscript', node)

    def plain_args(self, node, n):
        if node.keywords or len(node.args) != n or any(isinstance(a, ast.Starred) for a in node.args):
            raise U('argument list of %s' % (dotted(node.func) or '?'), node)
        return node.args

    def shadowed(self, d, ctx):
        """the root name of a dotted name is a local of the function (so it is not the module-level object)"""
        return d is not None and d.split('.')[0] in ctx.locals

    def call_common(self, node, ctx):
        f = node.func
        d = dotted(f)
        if self.shadowed(d, ctx) and d.split('.')[0] in ('os', 'sys', 'len', 'chr'):
            raise U('%s is a local name here' % d.split('.')[0], node)
        if d == 'len':
            (x, tx), = [self.expr(a, ctx) for a in self.plain_args(node, 1)]
            if tx not in (TEXT, TEXT1, TEXTS, NATS):
                raise U('len of a %s' % tx, node)
            return '%s.length' % atom(x), NAT
        if d == 'chr':
            a, = self.plain_args(node, 1)
            if not (isinstance(a, ast.BinOp) and isinstance(a.op, ast.BitAnd) and
                    any(isinstance(z, ast.Constant) and type(z.value) is int and 0 <= z.value <= 0x10FFFF for z in (a.left, a.right))):
                raise U('chr of something other than `e & <mask>`', node)
            x, tx = self.expr(a, ctx)
            if tx != NAT:
                raise U('chr of a %s' % tx, node)
            return '[%s]' % x, TEXT1
        if d in ('os.path.isdir', 'os.path.isfile'):
            (x, tx), = [self.expr(a, ctx) for a in self.plain_args(node, 1)]
            if not self.is_text(tx):
                raise U('%s of a value that may be None' % d, node)
            return '(fs.%s %s)' % ('isDir' if d.endswith('isdir') else 'isFile', atom(x)), BOOL
        if d == 'os.path.join':
            (x, tx), (y, ty) = [self.expr(a, ctx) for a in self.plain_args(node, 2)]
            if not (self.is_text(tx) and self.is_text(ty)):
                raise U('os.path.join of %s, %s' % (tx, ty), node)
            return '(pathJoin %s %s)' % (atom(x), atom(y)), TEXT
        if isinstance(f, ast.Attribute):
            # methods of strings
            if f.attr == 'upper':
                self.plain_args(node, 0)
                x, tx = self.expr(f.value, ctx)
                if not self.is_text(tx):
                    raise U('upper of a %s' % tx, node)
                return '(%s.map toUpperAscii)' % atom(x), TEXT
            if f.attr == 'startswith':
                (p, tp), = [self.expr(a, ctx) for a in self.plain_args(node, 1)]
                x, tx = self.expr(f.value, ctx)
                if not (self.is_text(tx) and self.is_text(tp)):
                    raise U('startswith on %s, %s' % (tx, tp), node)
                return '(%s.isPrefixOf %s)' % (atom(p), atom(x)), BOOL
            if f.attr == 'format' and isinstance(f.value, ast.Constant) and isinstance(f.value.value, str):
                return self.dotformat(node, ctx)
        return self.call(node, ctx)

    # ---- string building
    def concat(self, parts):
        """parts: list of (term, type) -> left-nested ++"""
        parts = [(t, ty) for t, ty in parts if t != '[]']
        if not parts:
            return '[]', TEXT
        t = parts[0][0]
        for p, _ in parts[1:]:
            t = '(%s ++ %s)' % (t, p)
        return t, (TEXT1 if any(ty == TEXT1 for _, ty in parts) else TEXT)

    def text_value(self, node, ctx):
        t, ty = self.expr(node, ctx)
        if not self.is_text(ty):
            raise U('a %s inside a message (only strings are formatted)' % ty, node)
        return t, ty

    def fstring(self, node, ctx):
        parts = []
        for v in node.values:
            if isinstance(v, ast.Constant) and isinstance(v.value, str):
                parts.append((lean_text(v.value), TEXT1 if v.value else TEXT))
            elif isinstance(v, ast.FormattedValue):
                if v.conversion != -1 or v.format_spec is not None:
                    raise U('f-string conversion / format spec', node)
                parts.append(self.text_value(v.value, ctx))
            else:
                raise U('f-string part', node)
        return self.concat(parts)

    def percent(self, node, ctx):
        fmt = node.left.value
        vals = list(node.right.elts) if isinstance(node.right, ast.Tuple) else [node.right]
        parts, i, lit = [], 0, ''
        k = 0
        while k < len(fmt):
            ch = fmt[k]
            if ch == '%':
                nxt = fmt[k + 1:k + 2]
                if nxt == '%':
                    lit += '%'
                elif nxt == 's':
                    if i >= len(vals):
                        raise U('too few values for %', node)
                    parts.append((lean_text(lit), TEXT1 if lit else TEXT))
                    lit = ''
                    parts.append(self.text_value(vals[i], ctx))
                    i += 1
                else:
                    raise U('% conversion other than %s', node)
                k += 2
            else:
                lit += ch
                k += 1
        if i != len(vals):
            raise U('too many values for %', node)
        parts.append((lean_text(lit), TEXT1 if lit else TEXT))
        return self.concat(parts)

    def dotformat(self, node, ctx):
        if node.keywords:
            raise U('format with keywords', node)
        fmt = node.func.value.value
        parts, auto = [], 0
        try:
            parsed = list(string.Formatter().parse(fmt))
        except ValueError:
            raise U('format string', node)
        numbering = None
        for lit, field, spec, conv in parsed:
            parts.append((lean_text(lit), TEXT1 if lit else TEXT))
            if field is None:
                continue
            if spec or conv:
                raise U('format spec / conversion', node)
            if field == '':
                if numbering == 'manual':
                    raise U('mixed field numbering', node)
                numbering, idx = 'auto', auto
                auto += 1
            elif field.isdigit():
                if numbering == 'auto':
                    raise U('mixed field numbering', node)
                numbering, idx = 'manual', int(field)
            else:
                raise U('format field %r' % field, node)
            if idx >= len(node.args):
                raise U('format index', node)
            parts.append(self.text_value(node.args[idx], ctx))
        return self.concat(parts)

    # ---- statements (continuation passing: `tail(ctx)` is the term of whatever follows)
    def seq(self, stmts, ctx, tail):
        if not stmts:
            return tail(ctx)
        st, rest = stmts[0], stmts[1:]
        if isinstance(st, ast.Pass) or (isinstance(st, ast.Expr) and isinstance(st.value, ast.Constant) and
                                        isinstance(st.value.value, (str, type(Ellipsis)))):
            return self.seq(rest, ctx, tail)
        h = self.stmt_hook(st, rest, ctx, tail)
        if h is not None:
            return h
        cont = lambda c: self.seq(rest, c, tail)   # noqa: E731
        if isinstance(st, ast.Return):
            if rest:
                raise U('statements after return', rest[0])
            return self.ret(st, ctx)
        if isinstance(st, ast.Expr) and isinstance(st.value, ast.Call) and dotted(st.value.func) == 'sys.exit':
            if rest:
                raise U('statements after sys.exit', rest[0])
            return self.exit_(st.value, ctx)
        if isinstance(st, (ast.Assign, ast.AnnAssign)):
            tgt, val = self.simple_assign(st)
            t, ty = self.expr(val, ctx)
            c2 = ctx.copy()
            if all(ch.isalnum() or ch in '._' for ch in t) and not t[0].isdigit():
                c2.locals[tgt] = (t, ty)          # another name for a variable / member: no `let`
                return cont(c2)
            v = self.fresh()
            c2.locals[tgt] = (v, ty)
            return 'let %s := %s;\n%s' % (v, t, cont(c2))
        if isinstance(st, ast.If):
            return self.if_(st, ctx, cont)
        if isinstance(st, ast.For):
            return self.for_(st, ctx, cont)
        raise U('statement %s' % type(st).__name__, st)

    def simple_assign(self, st):
        if isinstance(st, ast.AnnAssign):
            if st.value is None or not isinstance(st.target, ast.Name) or not st.simple:
                raise U('annotated assignment', st)
            return st.target.id, st.value
        if len(st.targets) != 1 or not isinstance(st.targets[0], ast.Name):
            raise U('assignment target', st)
        return st.targets[0].id, st.value

    def always_leaves(self, stmts):
        """syntactically: every path through `stmts` ends in return / sys.exit"""
        for st in stmts:
            if isinstance(st, ast.Return):
                return True
            if isinstance(st, ast.Expr) and isinstance(st.value, ast.Call) and dotted(st.value.func) == 'sys.exit':
                return True
            if isinstance(st, ast.If) and st.orelse and self.always_leaves(st.body) and self.always_leaves(st.orelse):
                return True
        return False

    def if_(self, st, ctx, cont):
        body, orelse = strip_docstring(st.body), strip_docstring(st.orelse)
        # `if T: x = e …` (existing locals only): a conditional value, no duplication of what follows
        if not orelse and body and all(isinstance(b, (ast.Assign, ast.AnnAssign)) for b in body):
            try:
                pairs = [self.simple_assign(b) for b in body]
            except Untranslatable:
                pairs = None
            if pairs and len(pairs) == 1 and pairs[0][0] in ctx.locals and not self.opt_test(st.test, ctx):
                cond = self.truth(st.test, ctx)
                n, val = pairs[0]
                t, ty = self.expr(val, ctx)
                old, oty = ctx.locals[n]
                if {ty, oty} <= {TEXT, TEXT1}:
                    rty = TEXT1 if ty == oty == TEXT1 else TEXT
                elif ty == oty:
                    rty = ty
                else:
                    raise U('a local changes its type', st)
                v = self.fresh()
                c2 = ctx.copy()
                c2.locals[n] = (v, rty)
                return 'let %s := (if %s then %s else %s);\n%s' % (v, cond, t, old, cont(c2))
        ot = self.opt_test(st.test, ctx)
        if ot is not None:
            neg, term = ot
            v = self.fresh()
            cs = ctx.copy()
            cs.refined[term] = v
            cn = ctx.copy()
            yes, no = (body, orelse) if not neg else (orelse, body)
            some = self.seq(yes, cs, cont)
            none = self.seq(no, cn, cont)
            alts = [('some %s' % v, some), ('none', none)]
            if neg:
                alts.reverse()
            out = '(match tv %s with\n' % atom(term) + '\n'.join('| %s =>\n%s' % (p, ind(b)) for p, b in alts) + ')'
        else:
            cond = self.truth(st.test, ctx)
            a = self.seq(body, ctx.copy(), cont)
            b = self.seq(orelse, ctx.copy(), cont)
            out = '(if %s then\n%s\nelse\n%s)' % (cond, ind(a), ind(b))
        if len(out) > MAXTERM:
            raise U('the translation grows too large (an `if` that does not leave the function is followed by a long rest)', st)
        return out

    def opt_test(self, test, ctx):
        """`X` / `not X` with X a None-or-str value that is not yet known to be a string -> (negated, lean term)"""
        neg = False
        node = test
        if isinstance(node, ast.UnaryOp) and isinstance(node.op, ast.Not):
            neg, node = True, node.operand
        if isinstance(node, (ast.BoolOp, ast.UnaryOp, ast.Compare)):
            return None
        try:
            t, ty = self.expr0(node, ctx)
        except Untranslatable:
            return None
        if ty == OPT and t not in ctx.refined:
            return neg, t
        return None

    def for_(self, st, ctx, cont):
        if st.orelse or not isinstance(st.target, ast.Name):
            raise U('for loop shape', st)
        it, ty = self.expr(st.iter, ctx)
        if ty not in (NATS, TEXTS):
            raise U('loop over a %s' % ty, st)
        for n in ast.walk(st):
            if isinstance(n, (ast.Break, ast.Continue)):
                raise U('break / continue', n)
            if isinstance(n, (ast.Assign, ast.AnnAssign, ast.AugAssign)) and n is not st:
                raise U('assignment inside a loop', n)
        x = self.fresh()
        c2 = ctx.copy()
        c2.locals[st.target.id] = (x, NAT if ty == NATS else TEXT)
        body = self.seq(strip_docstring(st.body), c2, lambda c: 'rest')
        after = cont(ctx.copy())
        return '(%s.foldr (fun %s rest =>\n%s) (\n%s))' % (atom(it), x, ind(body), ind(after))


def atom(t):
    """parenthesise a term that is not obviously atomic"""
    if t and (t[0] in '([' and matching(t)) or all(ch.isalnum() or ch in '._' for ch in t):
        return t
    return '(%s)' % t


def matching(t):
    """t starts with a bracket that closes at its very end"""
    depth = 0
    for i, ch in enumerate(t):
        if ch in '([':
            depth += 1
        elif ch in ')]':
            depth -= 1
            if depth == 0:
                return i == len(t) - 1
    return False


# ------------------------------------------------------------------------------------------------------------------
# what the names of the name map are bound to at module level

def module_bindings(tree):
    """name -> list of descriptions of every module-level statement (also inside module-level if/try/with/for) that binds it"""
    out = {}

    def bind(name, what):
        out.setdefault(name, []).append(what)

    def targets(t):
        if isinstance(t, ast.Name):
            yield t.id
        elif isinstance(t, (ast.Tuple, ast.List)):
            for e in t.elts:
                yield from targets(e)
        elif isinstance(t, ast.Starred):
            yield from targets(t.value)

    def walk(stmts):
        for st in stmts:
            if isinstance(st, ast.Import):
                for a in st.names:
                    bind((a.asname or a.name).split('.')[0], 'import ' + a.name if not a.asname else 'import-as')
            elif isinstance(st, ast.ImportFrom):
                for a in st.names:
                    bind(a.asname or a.name, 'from %s import %s' % (st.module, a.name) if a.name != '*' else 'star')
                    if a.name == '*':
                        bind('*', 'from %s import *' % st.module)
            elif isinstance(st, (ast.FunctionDef, ast.AsyncFunctionDef)):
                bind(st.name, 'def' if isinstance(st, ast.FunctionDef) and not st.decorator_list else 'decorated def')
            elif isinstance(st, ast.ClassDef):
                bind(st.name, 'class')
            elif isinstance(st, ast.Assign):
                for t in st.targets:
                    for n in targets(t):
                        bind(n, 'assignment')
            elif isinstance(st, (ast.AnnAssign, ast.AugAssign)):
                for n in targets(st.target):
                    bind(n, 'assignment')
            elif isinstance(st, (ast.For, ast.AsyncFor)):
                for n in targets(st.target):
                    bind(n, 'assignment')
                walk(st.body); walk(st.orelse)
            elif isinstance(st, (ast.If, ast.While)):
                walk(st.body); walk(st.orelse)
            elif isinstance(st, (ast.With, ast.AsyncWith)):
                for it in st.items:
                    if it.optional_vars is not None:
                        for n in targets(it.optional_vars):
                            bind(n, 'assignment')
                walk(st.body)
            elif isinstance(st, ast.Try):
                walk(st.body); walk(st.orelse); walk(st.finalbody)
                for h in st.handlers:
                    if h.name:
                        bind(h.name, 'assignment')
                    walk(h.body)
            elif isinstance(st, ast.Delete):
                for t in st.targets:
                    for n in targets(t):
                        bind(n, 'del')
            elif isinstance(st, (ast.Global, ast.Nonlocal)):
                for n in st.names:
                    bind(n, 'global')
    walk(tree.body)
    return out


def require_bindings(tree, where, expected):
    """every name of `expected` is bound exactly once at module level, in the expected way (and no `import *` can rebind it)"""
    b = module_bindings(tree)
    if '*' in b:
        raise Untranslatable('%s has a star import' % where)
    for name, how in expected.items():
        got = b.get(name, [])
        if got != [how]:
            raise Untranslatable('%s: the name %s is bound by %s (expected: %s)' % (where, name, got or 'nothing', how))
    # a function of this module may rebind a module-level name with `global`
    for n in ast.walk(tree):
        if isinstance(n, ast.Global) and any(x in expected for x in n.names):
            raise Untranslatable('%s: a `global` statement names %s' % (where, ', '.join(n.names)))


PELTOOL_NAMES = dict({'sys': 'import sys', 'os': 'import os',
                      'SeverityValues': 'from pel.peltool.pel_types import SeverityValues',
                      'sectionNames': 'from pel.peltool.pel_values import sectionNames',
                      'severityGroupValues': 'from pel.peltool.pel_values import severityGroupValues',
                      'Config': 'from pel.peltool.config import Config'},
                     **{f: 'def' for f in ['parseHeader', 'getSectionName', 'considerPELIfSeverityMatches', 'considerPEL', 'processId', 'main',
                                           'parseAndPrintPELFile', 'parseAndWriteOutput', 'parsePelFromID', 'parsePelFromBmcID',
                                           'parsePelFromPLID', 'parsePelFromSRCID', 'listOption', 'printPELCount', 'extractAllPELsData',
                                           'deletePELFromPELId', 'deleteAllPELs']})
USER_HEADER_NAMES = {'SeverityValues': 'from pel.peltool.pel_types import SeverityValues',
                     'ActionFlagsValues': 'from pel.peltool.pel_types import ActionFlagsValues', 'UserHeader': 'class'}
CONFIG_NAMES = {'Config': 'class'}


def require_single_methods(tree, cls, methods):
    for n in tree.body:
        if isinstance(n, ast.ClassDef) and n.name == cls:
            if n.decorator_list or n.keywords:
                raise Untranslatable('class %s is decorated / has a metaclass' % cls)
            b = module_bindings(ast.Module(body=n.body, type_ignores=[]))
            for m in methods:
                if b.get(m) != ['def']:
                    raise Untranslatable('%s.%s is bound by %s' % (cls, m, b.get(m) or 'nothing'))
            return
    raise Untranslatable('no class %s' % cls)


# ------------------------------------------------------------------------------------------------------------------
# peltool.py: parseHeader, getSectionName

class ReaderFn(Translator):
    """parseHeader(stream)"""

    def __init__(self, stream):
        super().__init__()
        self.stream = stream

    def stmt_hook(self, st, rest, ctx, tail):
        if isinstance(st, (ast.Assign, ast.AnnAssign)):
            tgt, val = self.simple_assign(st)
            if isinstance(val, ast.Call) and dotted(val.func) == self.stream + '.get_int':
                a, = self.plain_args(val, 1)
                if not (isinstance(a, ast.Constant) and type(a.value) is int and a.value >= 0):
                    raise U('get_int width', val)
                v = self.fresh()
                c2 = ctx.copy()
                c2.locals[tgt] = (v, NAT)
                return '(getInt %d >>= fun %s =>\n%s)' % (a.value, v, self.seq(rest, c2, tail))
        return None

    def ret(self, st, ctx):
        if not isinstance(st.value, ast.Tuple) or len(st.value.elts) != 5:
            raise U('parseHeader must return five values', st)
        parts = [self.expr(e, ctx) for e in st.value.elts]
        if any(ty != NAT for _, ty in parts):
            raise U('parseHeader returns a non-integer', st)
        return 'pure (SecHdr.mk %s)' % ' '.join(atom(t) for t, _ in parts)


def gen_parse_header(tree):
    fn = find_def(tree, 'parseHeader')
    stream, = only_positional(fn, 1)
    tr = ReaderFn(stream)
    ctx = Ctx(tr)
    return tr.seq(strip_docstring(fn.body), ctx, tr.end)


class PureFn(Translator):
    def __init__(self, ret_type, tables=None):
        super().__init__()
        self.ret_type = ret_type
        self.tables = tables or {}

    def ret(self, st, ctx):
        if st.value is None:
            raise U('return without a value', st)
        t, ty = self.expr(st.value, ctx)
        if self.ret_type == TEXT and self.is_text(ty):
            return t
        if ty != self.ret_type:
            raise U('return of a %s where a %s is expected' % (ty, self.ret_type), st)
        return t

    def call(self, node, ctx):
        f = node.func
        # TABLE.get(key, default)
        if isinstance(f, ast.Attribute) and f.attr == 'get' and isinstance(f.value, ast.Name) and f.value.id in self.tables \
                and f.value.id not in ctx.locals:
            (k, tk), (dflt, td) = [self.expr(a, ctx) for a in self.plain_args(node, 2)]
            if not (self.is_text(tk) and self.is_text(td)):
                raise U('table look-up with %s key / %s default' % (tk, td), node)
            return '((lookupT %s %s).getD %s)' % (self.tables[f.value.id], atom(k), atom(dflt)), TEXT
        return super().call(node, ctx)


def gen_section_name(tree):
    fn = find_def(tree, 'getSectionName')
    p, = only_positional(fn, 1)
    tr = PureFn(TEXT, {'sectionNames': 'T.sectionNames'})
    ctx = Ctx(tr)
    v = tr.fresh()
    ctx.locals[p] = (v, NAT)
    return 'fun T %s =>\n%s' % (v, tr.seq(strip_docstring(fn.body), ctx, tr.end))


# ------------------------------------------------------------------------------------------------------------------
# user_header.py: isHidden, isServiceable;  peltool.py: considerPELIfSeverityMatches, considerPEL

def user_header_attrs(uh_tree):
    """names of the attributes `UserHeader.toJSON` assigns from its 3rd and 8th `self.stream.get_int` (severity, action flags)"""
    fn = find_def(uh_tree, 'UserHeader.toJSON')
    me, = only_positional(fn, 1)
    reads = []
    for st in strip_docstring(fn.body):
        if isinstance(st, ast.Assign) and len(st.targets) == 1 and isinstance(st.targets[0], ast.Attribute) and \
                isinstance(st.targets[0].value, ast.Name) and st.targets[0].value.id == me and isinstance(st.value, ast.Call) and \
                dotted(st.value.func) == me + '.stream.get_int':
            reads.append(st.targets[0].attr)
        else:
            break
    if len(reads) < 8 or len(set(reads)) != len(reads):
        raise Untranslatable('UserHeader.toJSON does not start with eight distinct attribute reads')
    sev, af = reads[2], reads[7]
    # nothing else stores into these two attributes (or replaces the two methods) except the constant initialisation in __init__
    cls = [n for n in uh_tree.body if isinstance(n, ast.ClassDef) and n.name == 'UserHeader'][0]
    if cls.bases:
        raise Untranslatable('UserHeader has base classes')
    for member in cls.body:
        for n in ast.walk(member):
            if isinstance(n, ast.Attribute) and isinstance(n.ctx, (ast.Store, ast.Del)):
                if n.attr in ('isHidden', 'isServiceable'):
                    raise U('UserHeader.%s is assigned' % n.attr, n)
                if n.attr in (sev, af) and not (isinstance(member, ast.FunctionDef) and member.name in ('__init__', 'toJSON')):
                    raise U('UserHeader.%s is stored outside __init__ / toJSON' % n.attr, n)
        if isinstance(member, ast.FunctionDef) and member.name in ('__getattr__', '__getattribute__', '__setattr__'):
            raise U('UserHeader defines %s' % member.name, member)
    stores = [n for n in ast.walk(fn) if isinstance(n, ast.Attribute) and isinstance(n.ctx, ast.Store) and n.attr in (sev, af)]
    if len(stores) != 2:
        raise Untranslatable('UserHeader.toJSON stores the severity / action flags more than once')
    return sev, af


def no_foreign_stores(tree, names, where):
    for n in ast.walk(tree):
        if isinstance(n, ast.Attribute) and isinstance(n.ctx, (ast.Store, ast.Del)) and n.attr in names:
            raise U('%s stores into the attribute %s' % (where, n.attr), n)


class SelFn(Translator):
    """functions over (self|uh = (sev, af)) and optionally config = (c : SelCfg, ids : LookupIds)"""

    def __init__(self, ret_type, uh_name, cfg_name, sev_attr, af_attr, fn_params=None):
        super().__init__()
        self.ret_type = ret_type
        self.uh, self.cfgname = uh_name, cfg_name
        self.sev_attr, self.af_attr = sev_attr, af_attr
        self.fn_params = fn_params

    def ret(self, st, ctx):
        if st.value is None:
            raise U('return without a value', st)
        t, ty = self.expr(st.value, ctx)
        if ty != self.ret_type:
            raise U('return of a %s where a %s is expected' % (ty, self.ret_type), st)
        return t

    def attribute(self, node, ctx):
        if isinstance(node.value, ast.Name) and node.value.id not in ctx.locals:
            if node.value.id == self.uh:
                if node.attr == self.sev_attr:
                    return 'sev', NAT
                if node.attr == self.af_attr:
                    return 'af', NAT
            if self.cfgname is not None and node.value.id == self.cfgname:
                if node.attr in SEL_FIELDS:
                    return SEL_FIELDS[node.attr]
                if node.attr in LOOKUP_FIELDS:
                    return 'ids.%s' % node.attr, OPT
        return super().attribute(node, ctx)

    def call(self, node, ctx):
        f = node.func
        if isinstance(f, ast.Attribute) and isinstance(f.value, ast.Name) and f.value.id == self.uh and f.value.id not in ctx.locals:
            if f.attr == 'isHidden':
                self.plain_args(node, 0)
                return '(isHidden af)', TRUTH
            if f.attr == 'isServiceable':
                self.plain_args(node, 0)
                return '(isServiceable sev af)', BOOL
        if isinstance(f, ast.Name) and f.id == 'considerPELIfSeverityMatches' and self.cfgname is not None and f.id not in ctx.locals:
            a, b = self.plain_args(node, 2)
            if not (isinstance(a, ast.Name) and a.id == self.uh and isinstance(b, ast.Name) and b.id == self.cfgname
                    and a.id not in ctx.locals and b.id not in ctx.locals):
                raise U('considerPELIfSeverityMatches is called with other arguments than (uh, config)', node)
            return '(sevMatches sev c.severities)', BOOL
        return super().call(node, ctx)


def gen_method(uh_tree, name, ret_type):
    sev_attr, af_attr = user_header_attrs(uh_tree)
    fn = find_def(uh_tree, 'UserHeader.' + name)
    me, = only_positional(fn, 1)
    tr = SelFn(ret_type, me, None, sev_attr, af_attr)
    return 'fun sev af =>\n' + tr.seq(strip_docstring(fn.body), Ctx(tr), tr.end)


def gen_consider(tree, uh_tree, name):
    sev_attr, af_attr = user_header_attrs(uh_tree)
    no_foreign_stores(tree, (sev_attr, af_attr, 'isHidden', 'isServiceable'), 'peltool.py')
    fn = find_def(tree, name)
    uh, cfg = only_positional(fn, 2)
    tr = SelFn(BOOL, uh, cfg, sev_attr, af_attr)
    return 'fun sev af c ids =>\n' + tr.seq(strip_docstring(fn.body), Ctx(tr), tr.end)


# ------------------------------------------------------------------------------------------------------------------
# peltool.py: processId

class ExitFn(PureFn):
    """a string-valued function that may leave through sys.exit(<str>): Option-valued"""

    def ret(self, st, ctx):
        return 'some %s' % atom(super().ret(st, ctx))

    def exit_(self, node, ctx):
        a, = self.plain_args(node, 1)
        t, ty = self.expr(a, ctx)
        if not self.is_text(ty):
            raise U('sys.exit with a %s (only a message, i.e. status 1, is modelled)' % ty, node)
        return 'none'


def gen_process_id(tree):
    fn = find_def(tree, 'processId')
    p, = only_positional(fn, 1)
    tr = ExitFn(TEXT)
    ctx = Ctx(tr)
    v = 'v0'
    ctx.locals[p] = (v, TEXT)
    return 'fun %s =>\n%s' % (v, tr.seq(strip_docstring(fn.body), ctx, tr.end))


# ------------------------------------------------------------------------------------------------------------------
# config.py: Config.__init__

def gen_config_init(cfg_tree):
    cls = [n for n in cfg_tree.body if isinstance(n, ast.ClassDef) and n.name == 'Config'][0]
    if cls.bases:
        raise Untranslatable('Config has base classes')
    for member in cls.body:
        if isinstance(member, ast.Expr) and isinstance(member.value, ast.Constant) and isinstance(member.value.value, str):
            continue
        if isinstance(member, ast.FunctionDef) and not member.decorator_list and \
                (member.name in ('__init__', '__repr__', '__str__') or not member.name.startswith('__')):
            if member.name != '__init__' and any(isinstance(n, ast.Attribute) and isinstance(n.ctx, (ast.Store, ast.Del)) for n in ast.walk(member)):
                raise U('Config.%s stores into attributes' % member.name, member)
            continue
        raise U('member of class Config other than plain methods', member)
    fn = find_def(cfg_tree, 'Config.__init__')
    me, = only_positional(fn, 1)
    vals = {}
    for st in strip_docstring(fn.body):
        if not (isinstance(st, ast.Assign) and len(st.targets) == 1 and isinstance(st.targets[0], ast.Attribute) and
                isinstance(st.targets[0].value, ast.Name) and st.targets[0].value.id == me):
            raise U('statement in Config.__init__', st)
        nm = st.targets[0].attr
        if nm in vals:
            raise U('Config.%s is assigned twice' % nm, st)
        v = st.value
        if nm in CFG_FIELDS:
            ty = CFG_FIELDS[nm][1]
            if ty == BOOL and isinstance(v, ast.Constant) and isinstance(v.value, bool):
                vals[nm] = 'true' if v.value else 'false'
            elif ty == NATS and isinstance(v, ast.List) and not v.elts:
                vals[nm] = '[]'
            elif ty == OPT and isinstance(v, ast.Constant) and (v.value is None or isinstance(v.value, str)):
                vals[nm] = 'none' if v.value is None else 'some %s' % lean_text(v.value)
            else:
                raise U('initial value of Config.%s' % nm, st)
        elif nm in LOOKUP_FIELDS:
            if isinstance(v, ast.Constant) and (v.value is None or isinstance(v.value, str)):
                vals[nm] = 'none' if v.value is None else 'some %s' % lean_text(v.value)
            else:
                raise U('initial value of Config.%s' % nm, st)
        else:
            raise U('unknown Config member %s' % nm, st)
    missing = [n for n in list(CFG_FIELDS) + LOOKUP_FIELDS if n not in vals]
    if missing:
        raise Untranslatable('Config.__init__ does not set %s' % ', '.join(missing))
    sel = ', '.join('%s := %s' % (CFG_FIELDS[n][0][1], vals[n]) for n in CFG_FIELDS if CFG_FIELDS[n][0][0] == 'sel')
    top = ', '.join('%s := %s' % (CFG_FIELDS[n][0][0], vals[n]) for n in CFG_FIELDS if CFG_FIELDS[n][0][0] != 'sel')
    ids = ', '.join('%s := %s' % (n, vals[n]) for n in LOOKUP_FIELDS)
    return ('let ids : LookupIds := { %s };\n({ sel := { %s, lookup := ids.any }, %s }, ids)' % (ids, sel, top))


# ------------------------------------------------------------------------------------------------------------------
# peltool.py: main()

def parser_dests(prefix, inbmc):
    """dest -> kind of every add_argument call in the statements before parse_args (outside-BMC branch of `if [not] inBMC`)"""
    dests = {}

    def add(call):
        opts = []
        for a in call.args:
            if not (isinstance(a, ast.Constant) and isinstance(a.value, str)):
                raise U('add_argument option string', call)
            opts.append(a.value)
        kw = {k.arg: k.value for k in call.keywords}
        if None in kw:
            raise U('add_argument **kwargs', call)
        for k in kw:
            if k not in ('dest', 'metavar', 'help', 'action', 'nargs', 'choices'):
                raise U('add_argument keyword %s' % k, call)
        if 'dest' in kw:
            if not (isinstance(kw['dest'], ast.Constant) and isinstance(kw['dest'].value, str)):
                raise U('add_argument dest', call)
            dest = kw['dest'].value
        else:
            longs = [o for o in opts if o.startswith('--')]
            if longs:
                dest = longs[0][2:].replace('-', '_')
            elif opts and opts[0].startswith('-'):
                dest = opts[0][1:]
            else:
                raise U('positional argument', call)
        kind = OPT
        if 'action' in kw:
            if not (isinstance(kw['action'], ast.Constant) and kw['action'].value == 'store_true') or 'nargs' in kw:
                raise U('add_argument action', call)
            kind = BOOL
        elif 'nargs' in kw:
            if not (isinstance(kw['nargs'], ast.Constant) and kw['nargs'].value == '+'):
                raise U('add_argument nargs', call)
            kind = TEXTS
        if dest in dests:
            raise U('dest %s is declared twice' % dest, call)
        dests[dest] = kind

    def walk(stmts):
        for st in stmts:
            if isinstance(st, ast.If):
                pick = inbmc_branch(st, inbmc)
                walk(pick)
                continue
            call = None
            if isinstance(st, ast.Expr) and isinstance(st.value, ast.Call):
                call = st.value
            elif isinstance(st, ast.Assign) and isinstance(st.value, ast.Call):
                call = st.value
            if call is not None and isinstance(call.func, ast.Attribute) and call.func.attr == 'add_argument':
                add(call)
    walk(prefix)
    return dests


def inbmc_branch(st, inbmc):
    """statements of the branch of `if not inBMC: A else: B` / `if inBMC: B else: A` that runs outside a BMC"""
    t = st.test
    if isinstance(t, ast.UnaryOp) and isinstance(t.op, ast.Not) and isinstance(t.operand, ast.Name) and t.operand.id == inbmc:
        return st.body
    if isinstance(t, ast.Name) and t.id == inbmc:
        return st.orelse
    raise U('an `if` that does not test inBMC', st)


def check_prefix(prefix):
    """the statements before `args = parser.parse_args()`: only constants, the inBMC test and the construction of the parser.
       Returns (name of inBMC, {name: str constant})"""
    consts, inbmc, assigned = {}, None, {}

    def harmless_value(v):
        """an expression that cannot change anything main() looks at later"""
        for n in ast.walk(v):
            if isinstance(n, (ast.Lambda, ast.Yield, ast.YieldFrom, ast.Await, ast.NamedExpr)):
                return False
            if isinstance(n, ast.Call):
                d = dotted(n.func) or ''
                ok = d in ('os.path.isdir', 'os.path.basename', 'argparse.ArgumentParser', 'list') or \
                    (isinstance(n.func, ast.Attribute) and n.func.attr in ('format', 'add_argument', 'add_argument_group', 'keys'))
                if not ok:
                    return False
        return True

    def walk(stmts, top):
        nonlocal inbmc
        for st in stmts:
            if isinstance(st, ast.Expr) and isinstance(st.value, ast.Constant):
                continue
            if isinstance(st, ast.Assign) and len(st.targets) == 1 and isinstance(st.targets[0], ast.Name) and harmless_value(st.value):
                nm = st.targets[0].id
                assigned[nm] = assigned.get(nm, 0) + 1
                if top and isinstance(st.value, ast.Constant) and isinstance(st.value.value, str):
                    consts[nm] = st.value.value
                else:
                    consts.pop(nm, None)
                if isinstance(st.value, ast.Call) and dotted(st.value.func) == 'os.path.isdir' and top:
                    a = st.value.args
                    if len(a) == 1 and isinstance(a[0], ast.Name) and a[0].id in consts and inbmc is None:
                        inbmc = nm
                        continue
                continue
            if isinstance(st, ast.Expr) and isinstance(st.value, ast.Call) and harmless_value(st.value) and \
                    isinstance(st.value.func, ast.Attribute) and st.value.func.attr == 'add_argument':
                continue
            if isinstance(st, ast.If) and inbmc is not None:
                inbmc_branch(st, inbmc)
                walk(st.body, False)
                walk(st.orelse, False)
                continue
            raise U('statement before parse_args that is not part of building the parser', st)
    walk(prefix, True)
    if inbmc is None:
        raise Untranslatable('no `inBMC = os.path.isdir(<constant path>)` before parse_args')
    if assigned.get(inbmc) != 1:
        raise Untranslatable('inBMC is assigned more than once')
    consts = {k: v for k, v in consts.items() if assigned.get(k) == 1}
    return inbmc, consts


class MainFn(Translator):
    def __init__(self, args_name, inbmc, dests, sev_table):
        super().__init__()
        self.args, self.inbmc, self.dests, self.sev_table = args_name, inbmc, dests, sev_table
        self.block = None           # the term of the initial Config block (for Gen.mkConfig?)
        self.after_print = None     # Gen.fileAfterPrint?
        self.json_calls = None      # Gen.jsonCalls?
        self.json_loop_node = self.after_print_node = None
        self.config = None

    # ---- names
    def attribute(self, node, ctx):
        if isinstance(node.value, ast.Name) and node.value.id not in ctx.locals:
            if node.value.id == self.args:
                return self.arg(node.attr, node)
            if node.value.id == self.config and self.config is not None:
                if node.attr in LOOKUP_FIELDS:
                    if node.attr in ctx.lookups:
                        return ctx.lookups[node.attr], TEXT1
                    raise U('Config.%s is read where it has not been set' % node.attr, node)
                if node.attr in CFG_FIELDS:
                    path, ty = CFG_FIELDS[node.attr]
                    return '%s.%s' % (atom(ctx.cfg), '.'.join(path)), ty
        return super().attribute(node, ctx)

    def arg(self, dest, node):
        if dest not in ARGS:
            raise U('unknown option member args.%s' % dest, node)
        field, ty = ARGS[dest]
        if self.dests.get(dest) != ty:
            raise U('args.%s: the parser declares it as %s, the model as %s' % (dest, self.dests.get(dest), ty), node)
        return 'a.%s' % field, ty

    def cfg_term(self, ctx):
        return '%s.withLookup' % atom(ctx.cfg) if ctx.lookups else ctx.cfg

    # ---- results
    def exit_(self, node, ctx):
        a, = self.plain_args(node, 1)
        self.leave_block(ctx)
        if isinstance(a, ast.Constant) and type(a.value) is int:
            if a.value != 0:
                raise U('sys.exit(%d): only status 0 and messages are modelled' % a.value, node)
            act = ctx.called or 'Action.nothing'
            return '(PyOutcome.call %s, %s)' % (atom(act), self.cfg_term(ctx))
        if ctx.called:
            raise U('sys.exit(<message>) after a callee has run', node)
        t, ty = self.expr(a, ctx)
        if not self.is_text(ty):
            raise U('sys.exit of a %s' % ty, node)
        return '(PyOutcome.exit %s, %s)' % (atom(t), self.cfg_term(ctx))

    def end(self, ctx):
        self.leave_block(ctx)
        act = ctx.called or 'Action.nothing'
        return '(PyOutcome.call %s, %s)' % (atom(act), self.cfg_term(ctx))

    def ret(self, st, ctx):
        raise U('return inside main', st)

    def leave_block(self, ctx):
        if ctx.in_block:
            raise U('main ends inside the Config block')

    # ---- statements
    def stmt_hook(self, st, rest, ctx, tail):
        # config = Config()
        if isinstance(st, ast.Assign) and len(st.targets) == 1 and isinstance(st.targets[0], ast.Name) and \
                isinstance(st.value, ast.Call) and dotted(st.value.func) == 'Config':
            self.plain_args(st.value, 0)
            if self.config is not None:
                raise U('a second Config()', st)
            self.config = st.targets[0].id
            c2 = ctx.copy()
            c2.cfg = '({} : MainCfg)'
            c2.in_block = True
            return self.seq(rest, c2, tail)
        if self.config is None:
            raise U('statement before `config = Config()`', st)
        upd = self.config_update(st, ctx)
        if upd is not None:
            c2 = ctx.copy()
            if upd[0] == 'when':
                c2.cfg = '(%s\n  ).when %s (fun c => %s)' % (ctx.cfg, upd[1], upd[2])
            elif upd[0] == 'set':
                c2.cfg = upd[1]
            else:
                c2.lookups[upd[1]] = upd[2]
            return self.seq(rest, c2, tail)
        if ctx.in_block:
            # the first statement that is not part of the Config block: name the block
            if self.block is not None:
                raise U('two Config blocks', st)
            self.block = ctx.cfg
            c2 = ctx.copy()
            c2.in_block = False
            c2.cfg = 'c'
            return 'let c := %s;\n%s' % (ctx.cfg.replace('SEVTABLE', self.sev_table), self.seq([st] + rest, c2, tail))
        if ctx.called is not None and not self.is_exit0(st):
            raise U('a statement other than sys.exit(0) after a callee has run', st)
        # if not inBMC: A else: B
        if isinstance(st, ast.If) and self.mentions_inbmc(st.test):
            pick = inbmc_branch(st, self.inbmc)
            return self.seq(strip_docstring(pick) + rest, ctx, tail)
        # printed = parseAndPrintPELFile(P, config, True); if <C and printed>: os.remove(P)
        if isinstance(st, ast.Assign) and isinstance(st.value, ast.Call) and dotted(st.value.func) == 'parseAndPrintPELFile':
            return self.file_mode(st, rest, ctx, tail)
        if isinstance(st, ast.For):
            return self.json_loop(st, rest, ctx, tail)
        if isinstance(st, ast.Expr) and isinstance(st.value, ast.Call) and dotted(st.value.func) != 'sys.exit':
            c2 = ctx.copy()
            c2.called = self.callee(st.value, ctx)
            return self.seq(rest, c2, tail)
        return None

    def is_exit0(self, st):
        return isinstance(st, ast.Expr) and isinstance(st.value, ast.Call) and dotted(st.value.func) == 'sys.exit' and \
            len(st.value.args) == 1 and isinstance(st.value.args[0], ast.Constant) and st.value.args[0].value == 0 and \
            type(st.value.args[0].value) is int

    def mentions_inbmc(self, test):
        return any(isinstance(n, ast.Name) and n.id == self.inbmc for n in ast.walk(test))

    def config_target(self, tgt, ctx):
        if isinstance(tgt, ast.Attribute) and isinstance(tgt.value, ast.Name) and tgt.value.id == self.config and \
                tgt.value.id not in ctx.locals:
            return tgt.attr
        return None

    def update_term(self, base, path, value):
        if len(path) == 1:
            return '{ %s with %s := %s }' % (base, path[0], value)
        return '{ %s with %s := { %s.%s with %s := %s } }' % (base, path[0], base, path[0], path[1], value)

    def one_assign(self, st, ctx, base):
        """`config.X = V` or `config.L.extend(T[x] for x in XS)` as an update of the lean term `base`; None if `st` is something else"""
        if isinstance(st, ast.Assign) and len(st.targets) == 1:
            nm = self.config_target(st.targets[0], ctx)
            if nm is None:
                return None
            if nm in LOOKUP_FIELDS:
                return ('lookup', nm, st.value)
            if nm not in CFG_FIELDS:
                raise U('unknown Config member %s' % nm, st)
            path, ty = CFG_FIELDS[nm]
            if any(isinstance(n, ast.Name) and n.id == self.config for n in ast.walk(st.value)):
                raise U('a Config member is computed from the Config', st)
            t, vty = self.expr0(st.value, ctx)        # not refined: an option value is stored as it is
            if ty == OPT and vty in (TEXT, TEXT1):
                t, vty = 'some %s' % atom(t), OPT
            if vty != ty:
                raise U('Config.%s receives a %s' % (nm, vty), st)
            return ('field', self.update_term(base, path, t))
        if isinstance(st, ast.Expr) and isinstance(st.value, ast.Call) and isinstance(st.value.func, ast.Attribute) and \
                st.value.func.attr == 'extend':
            nm = self.config_target(st.value.func.value, ctx)
            if nm is None:
                return None
            if nm != 'severities':
                raise U('extend of Config.%s' % nm, st)
            g, = self.plain_args(st.value, 1)
            if not (isinstance(g, (ast.GeneratorExp, ast.ListComp)) and len(g.generators) == 1 and not g.generators[0].ifs and
                    not g.generators[0].is_async and isinstance(g.generators[0].target, ast.Name)):
                raise U('argument of extend', st)
            x = g.generators[0].target.id
            e = g.elt
            if not (isinstance(e, ast.Subscript) and isinstance(e.value, ast.Name) and e.value.id == 'severityGroupValues' and
                    e.value.id not in ctx.locals and isinstance(e.slice, ast.Name) and e.slice.id == x):
                raise U('element of the extend generator is not severityGroupValues[<loop variable>]', st)
            xs, ty = self.expr(g.generators[0].iter, ctx)
            if ty != TEXTS:
                raise U('extend over a %s' % ty, st)
            path = CFG_FIELDS['severities'][0]
            return ('field', self.update_term(base, path, '%s.%s ++ %s.filterMap (sevLookup SEVTABLE)' % (base, '.'.join(path), atom(xs))))
        return None

    def config_update(self, st, ctx):
        """a statement that only changes the Config: ('when', test, update of `c`) | ('set', new term) | ('lookup', member, term) | None"""
        if isinstance(st, ast.If) and not st.orelse:
            body = strip_docstring(st.body)
            if body and all(self.one_assign(b, ctx, 'c') is not None for b in body):
                upd = 'c'
                for b in body:
                    r = self.one_assign(b, ctx, upd if upd == 'c' else '(%s)' % upd)
                    if r[0] != 'field':
                        raise U('an id member of the Config is set conditionally without leaving main', b)
                    upd = r[1]
                return ('when', atom(self.truth(st.test, ctx)), upd)
            return None
        r = self.one_assign(st, ctx, atom(ctx.cfg) if ctx.cfg else 'c')
        if r is None:
            return None
        if r[0] == 'field':
            return ('set', r[1])
        t, ty = self.expr(r[2], ctx)
        if ty != TEXT1:
            raise U('Config.%s receives a value that is not known to be a non-empty string' % r[1], st)
        if ctx.in_block:
            raise U('an id member is set inside the Config block', st)
        return ('lookup', r[1], t)

    def path_arg(self, node, ctx):
        t, ty = self.expr(node, ctx)
        if not self.is_text(ty):
            raise U('a %s where a path is expected' % ty, node)
        return t

    def callee(self, call, ctx):
        d = dotted(call.func)
        if d is None or d in ctx.locals:
            raise U('call', call)

        def is_config(n):
            return isinstance(n, ast.Name) and n.id == self.config and n.id not in ctx.locals

        if d in CALLEES:
            ctor, member = CALLEES[d]
            p, c = self.plain_args(call, 2)
            if not is_config(c):
                raise U('%s is not handed the Config' % d, call)
            if set(ctx.lookups) != ({member} if member else set()):
                raise U('%s runs with the id members %s set' % (d, sorted(ctx.lookups)), call)
            t = self.path_arg(p, ctx)
            if member:
                return 'Action.%s %s %s' % (ctor, atom(t), atom(ctx.lookups[member]))
            return 'Action.%s %s' % (ctor, atom(t))
        if d == 'parsePelFromSRCID':
            p, c = self.plain_args(call, 2)
            if not is_config(c):
                raise U('%s is not handed the Config' % d, call)
            t = self.path_arg(p, ctx)
            if set(ctx.lookups) == {'src'}:
                return 'Action.srcMode %s %s' % (atom(t), atom(ctx.lookups['src']))
            if set(ctx.lookups) == {'srcExcludeFile'}:
                return 'Action.srcExcludeMode %s %s' % (atom(t), atom(ctx.lookups['srcExcludeFile']))
            raise U('parsePelFromSRCID runs with the id members %s set' % sorted(ctx.lookups), call)
        if d == 'deletePELFromPELId':
            p, e = self.plain_args(call, 2)
            if ctx.lookups:
                raise U('%s runs with id members set' % d, call)
            return 'Action.deleteMode %s %s' % (atom(self.path_arg(p, ctx)), atom(self.path_arg(e, ctx)))
        if d == 'deleteAllPELs':
            p, = self.plain_args(call, 1)
            if ctx.lookups:
                raise U('%s runs with id members set' % d, call)
            return 'Action.deleteAllMode %s' % atom(self.path_arg(p, ctx))
        raise U('unknown callee %s' % d, call)

    def file_mode(self, st, rest, ctx, tail):
        tgt, val = self.simple_assign(st)
        p, c, flag = self.plain_args(val, 3)
        if not (isinstance(c, ast.Name) and c.id == self.config and c.id not in ctx.locals):
            raise U('parseAndPrintPELFile is not handed the Config', st)
        if not (isinstance(flag, ast.Constant) and flag.value is True):
            raise U('parseAndPrintPELFile(…, exit_on_error) is not the literal True', st)
        if ctx.lookups:
            raise U('parseAndPrintPELFile runs with id members set', st)
        path = self.path_arg(p, ctx)
        if not rest or not isinstance(rest[0], ast.If) or rest[0].orelse:
            raise U('parseAndPrintPELFile is not followed by `if <…>: os.remove(<file>)`', st)
        iff = rest[0]
        body = strip_docstring(iff.body)
        if len(body) != 1 or not (isinstance(body[0], ast.Expr) and isinstance(body[0].value, ast.Call) and
                                  dotted(body[0].value.func) == 'os.remove'):
            raise U('the statement guarded after parseAndPrintPELFile is not a single os.remove', iff)
        q, = self.plain_args(body[0].value, 1)
        removed = self.path_arg(q, ctx)
        # the test: a conjunction in which the result of the call occurs exactly once, un-negated
        conj = iff.test.values if isinstance(iff.test, ast.BoolOp) and isinstance(iff.test.op, ast.And) else [iff.test]
        is_res = [isinstance(x, ast.Name) and x.id == tgt for x in conj]
        if sum(is_res) != 1 or any(isinstance(n, ast.Name) and n.id == tgt for x, r in zip(conj, is_res) if not r for n in ast.walk(x)):
            raise U('the os.remove after parseAndPrintPELFile is not guarded by `<flags> and <its result>`', iff)
        c2 = ctx.copy()
        c2.locals[tgt] = ('printed', BOOL)
        test = self.truth(iff.test, c2)
        others = [self.truth(x, ctx) for x, r in zip(conj, is_res) if not r]
        clean = 'true'
        if others:
            clean = others[0]
            for o in others[1:]:
                clean = '(%s && %s)' % (clean, o)
        if self.after_print_node is not None and self.after_print_node is not st:
            raise U('parseAndPrintPELFile is called twice', st)
        self.after_print_node = st
        # Gen.fileAfterPrint?: the path handed to os.remove, as a function of the namespace, the (non-empty) value the
        # branch was entered with, and what parseAndPrintPELFile returned
        keys = [k for k, v in ctx.refined.items()]
        if len(keys) != 1 or ctx.refined[keys[0]] != path or removed != path:
            raise U('the file printed / removed is not the option value the branch was entered for', st)
        ap = 'fun a %s printed =>\n(if %s then\n  some %s\nelse\n  none)' % (path, test, atom(removed))
        if self.after_print is not None and self.after_print != ap:
            raise U('parseAndPrintPELFile is reached on two different paths', st)
        self.after_print = ap
        c3 = ctx.copy()
        c3.called = 'Action.fileMode %s %s' % (atom(path), atom(clean))
        return self.seq(rest[1:], c3, tail)

    def json_loop(self, st, rest, ctx, tail):
        """for R, _, FS in os.walk(D): for F in FS: [if C: continue]* parseAndWriteOutput(os.path.join(R, F), X, config, Y); break"""
        if st.orelse or not (isinstance(st.iter, ast.Call) and dotted(st.iter.func) == 'os.walk'):
            raise U('a loop in main that is not over os.walk', st)
        d, = self.plain_args(st.iter, 1)
        dterm = self.path_arg(d, ctx)
        tg = st.target
        if not (isinstance(tg, ast.Tuple) and len(tg.elts) == 3 and all(isinstance(e, ast.Name) for e in tg.elts)):
            raise U('os.walk target', st)
        root, dirs, files = [e.id for e in tg.elts]
        body = strip_docstring(st.body)
        if len(body) != 2 or not isinstance(body[1], ast.Break) or not isinstance(body[0], ast.For):
            raise U('the os.walk loop is not `for F in FS: …` followed by `break`', st)
        inner = body[0]
        if inner.orelse or not isinstance(inner.target, ast.Name) or not (isinstance(inner.iter, ast.Name) and inner.iter.id == files):
            raise U('inner loop of os.walk', inner)
        fname = inner.target.id
        if len({root, dirs, files, fname}) != 4:
            raise U('loop variables of the os.walk idiom coincide', st)
        ib = strip_docstring(inner.body)
        if not ib:
            raise U('empty loop body', inner)
        # the context of one iteration: c = the Config, dir = D (first os.walk item), f = the file name
        lc = Ctx(self)
        lc.objs = {}
        lc.cfg = 'c'
        lc.locals = {root: ('dir', TEXT), fname: ('f', TEXT)}
        conds = []
        for b in ib[:-1]:
            if not (isinstance(b, ast.If) and not b.orelse and len(strip_docstring(b.body)) == 1 and
                    isinstance(strip_docstring(b.body)[0], ast.Continue)):
                raise U('a statement of the -j loop other than `if C: continue` before the call', b)
            conds.append(self.truth(b.test, lc))
        last = ib[-1]
        if not (isinstance(last, ast.Expr) and isinstance(last.value, ast.Call) and dotted(last.value.func) == 'parseAndWriteOutput'):
            raise U('the -j loop does not end with a parseAndWriteOutput call', last)
        fa, xa, ca, ya = self.plain_args(last.value, 4)
        if not (isinstance(ca, ast.Name) and ca.id == self.config):
            raise U('parseAndWriteOutput is not handed the Config', last)
        fterm, fty = self.expr(fa, lc)
        if not self.is_text(fty):
            raise U('file argument of parseAndWriteOutput', last)
        for n in (xa, ya):
            if any(isinstance(z, ast.Name) and z.id in (root, dirs, files, fname) for z in ast.walk(n)):
                raise U('output directory / clean flag depend on the loop variables', last)
        xterm = self.path_arg(xa, ctx)
        yterm, yty = self.expr(ya, ctx)
        if yty != BOOL:
            raise U('delete_after_parsing is a %s' % yty, last)
        if ctx.lookups:
            raise U('the -j loop runs with id members set', st)
        keep = 'true'
        if conds:
            keep = '(!%s)' % conds[0]
            for cnd in conds[1:]:
                keep = '(%s && (!%s))' % (keep, cnd)
        jc = ('fun c files dir out clean =>\n((files.filter (fun f => %s)).map (fun f => (%s, out, clean)))' % (keep, fterm))
        if self.json_calls is not None and (self.json_calls != jc or self.json_loop_node is not st):
            raise U('two os.walk loops', st)     # (the same loop may be visited on several paths)
        self.json_calls, self.json_loop_node = jc, st
        c2 = ctx.copy()
        c2.called = 'Action.jsonMode %s %s %s' % (atom(dterm), atom(xterm), atom(yterm))
        return self.seq(rest, c2, tail)


class MainResult:
    def __init__(self):
        self.err = None
        self.dispatch = self.block = self.after_print = self.json_calls = None


def translate_main(tree):
    """everything that comes out of main(), computed once"""
    res = MainResult()
    tr = None
    try:
        fn = find_def(tree, 'main')
        only_positional(fn, 0)
        body = strip_docstring(fn.body)
        cut = None
        for i, st in enumerate(body):
            if isinstance(st, ast.Assign) and isinstance(st.value, ast.Call) and isinstance(st.value.func, ast.Attribute) and \
                    st.value.func.attr == 'parse_args':
                cut = i
                break
        if cut is None:
            raise Untranslatable('no `args = <parser>.parse_args()` in main')
        st = body[cut]
        if len(st.targets) != 1 or not isinstance(st.targets[0], ast.Name) or st.value.args or st.value.keywords:
            raise U('parse_args call', st)
        inbmc, consts = check_prefix(body[:cut])
        dests = parser_dests(body[:cut], inbmc)
        tr = MainFn(st.targets[0].id, inbmc, dests, 'severityGroupTable')
        ctx = Ctx(tr)
        for k, v in consts.items():
            ctx.locals[k] = (lean_text(v), TEXT1 if v else TEXT)
        term = tr.seq(body[cut + 1:], ctx, tr.end)
        res.dispatch = 'fun fs a =>\n' + term
        res.block = tr.block
        res.after_print = tr.after_print
        res.json_calls = tr.json_calls
    except Untranslatable as e:
        res.err = str(e)
    except RecursionError:
        res.err = 'main is nested too deeply'
    if res.err and tr is not None and tr.block is not None:
        res.block = tr.block          # the Config block was complete before the chain left the subset
    return res


# ------------------------------------------------------------------------------------------------------------------

def generate(repo, verif):
    gf = GenFile(verif, 'GenPeltool',
                 ['PelModel.Sections', 'PelModel.Select', 'PelModel.Cli', 'PelModel.Main', 'PelModel.TransPeltool'],
                 'modules/pel/peltool/peltool.py, user_header.py, config.py')
    trees = {}

    P, UH, CF = 'pel/peltool/peltool.py', 'pel/peltool/user_header.py', 'pel/peltool/config.py'

    def tree(rel):
        if rel not in trees:
            try:
                t = load_module_ast(repo, rel)
            except (OSError, SyntaxError) as e:
                raise Untranslatable('cannot parse %s: %s' % (rel, e))
            try:
                if rel == P:
                    require_bindings(t, 'peltool.py', PELTOOL_NAMES)
                elif rel == UH:
                    require_bindings(t, 'user_header.py', USER_HEADER_NAMES)
                    require_single_methods(t, 'UserHeader', ['isHidden', 'isServiceable', 'toJSON'])
                else:
                    require_bindings(t, 'config.py', CONFIG_NAMES)
                    require_single_methods(t, 'Config', ['__init__'])
            except Untranslatable as e:
                trees[rel] = e
                raise
            trees[rel] = t
        if isinstance(trees[rel], Untranslatable):
            raise trees[rel]
        return trees[rel]

    emit0 = gf.emit
    gf.emit = lambda nm, ty, th: emit0(nm, ty, lambda: ind(th()))
    gf.emit('parseHeader', 'Rd SecHdr', lambda: gen_parse_header(tree(P)))
    gf.emit('getSectionName', 'Tables → Nat → Text', lambda: gen_section_name(tree(P)))
    gf.emit('isHidden', 'Nat → Nat → Nat', lambda: gen_method(tree(UH), 'isHidden', NAT))
    gf.emit('isServiceable', 'Nat → Nat → Bool', lambda: gen_method(tree(UH), 'isServiceable', BOOL))
    gf.emit('considerPELIfSeverityMatches', 'Nat → Nat → SelCfg → LookupIds → Bool',
            lambda: gen_consider(tree(P), tree(UH), 'considerPELIfSeverityMatches'))
    gf.emit('considerPEL', 'Nat → Nat → SelCfg → LookupIds → Bool', lambda: gen_consider(tree(P), tree(UH), 'considerPEL'))
    gf.emit('processId', 'Text → Option Text', lambda: gen_process_id(tree(P)))
    gf.emit('configInit', 'MainCfg × LookupIds', lambda: gen_config_init(tree(CF)))
    cache = {}

    def main_part(attr, what, wrap=lambda t: t):
        def thunk():
            if 'm' not in cache:
                cache['m'] = translate_main(tree(P))
            m = cache['m']
            if m.err and not (attr == 'block' and m.block is not None):
                raise Untranslatable(m.err)
            v = getattr(m, attr)
            if v is None:
                raise Untranslatable('main has no %s' % what)
            return wrap(v)
        return thunk

    gf.emit('mkConfig', 'List (Text × Nat) → Args → MainCfg',
            main_part('block', 'Config block', lambda t: 'fun sevTable a =>\n' + t.replace('SEVTABLE', 'sevTable')))
    gf.emit('dispatch', 'FsView → Args → PyOutcome × MainCfg', main_part('dispatch', 'dispatch chain'))
    gf.emit('fileAfterPrint', 'Args → Text → Bool → Option Text', main_part('after_print', '-f branch'))
    gf.emit('jsonCalls', 'MainCfg → List Text → Text → Text → Bool → List (Text × Text × Bool)', main_part('json_calls', '-j loop'))
    return gf


if __name__ == '__main__':
    import os
    import sys
    g = generate(os.environ.get('VERIF_REPO', '/repo'), os.path.dirname(os.path.dirname(os.path.abspath(__file__))))
    sys.stdout.write(g.render())
