"""C05 — malformed PELs are rejected cleanly: never a hang, crash or fabricated decode."""
import json
import os
import shutil
import subprocess
import tempfile
import time

import apel
import common
from c01 import compare, first_diff
from common import Check, lean_batch, tb

TRUSTED = ['Lean 4.33.0 kernel (+ leanchecker in the thorough tier)',
           'axioms: propext, Classical.choice, Quot.sound only (audited per theorem)',
           'harness/c05.py + apel.py (generators, subprocess runs, comparison), Drv.lean protocol parsing',
           'compiled driver peldrv agrees with the kernel reading of the same definitions']
ASSUME = ['"promptly" is a wall-clock notion: the model is total (structural / fuelled recursion), the real code is timed per input',
          'CPython resource errors (MemoryError, RecursionError on deeply nested user JSON) are outside the model',
          'the interpreter behaviour under -O is observed through real subprocess runs, not modelled']
RULE = ('cases = every prefix and single-byte corruptions (three replacement values per offset, sampled) of generated well-formed PELs, '
        'random byte strings; every input decoded in-process and again in one `python -O` interpreter (outcomes must be equal); CLI runs `peltool.py -f` under python and python -O; non-trivial = the input passes the Private '
        'Header check (first two bytes PH); distinct by bytes')


def cli(path, opt):
    cmd = [common.PY] + (['-O'] if opt else []) + ['-W', 'ignore', os.path.join(common.MODULES, 'pel', 'peltool', 'peltool.py'), '-f', path, '-E']
    t0 = time.time()
    try:
        p = subprocess.run(cmd, stdout=subprocess.PIPE, stderr=subprocess.PIPE, env=common.child_env(), timeout=60)
    except subprocess.TimeoutExpired as e:
        return -999, (e.stdout or b'').decode(errors='replace'), (e.stderr or b'').decode(errors='replace'), time.time() - t0
    return p.returncode, p.stdout.decode(errors='replace'), p.stderr.decode(errors='replace'), time.time() - t0


def run(tier, seed):
    ck = Check('C05', tier, seed)
    ck.proof = common.build_and_audit('C05', thorough=(tier == 'thorough'))
    if not ck.proof['driver_ok']:
        return ck.finish(RULE, TRUSTED, ASSUME)
    rng = ck.rng
    thorough = tier == 'thorough'
    env = apel.PluginEnv(allow=True).install()
    tmp = tempfile.mkdtemp(prefix='c05_')
    try:
        bases = []
        # designed bases: every kind of section once as the LAST section of a PEL (its trailing fields are where a truncation is
        # only noticed by the very last bounds check), LP with odd and even target counts, SRC with and without callouts
        for want in ['src+callouts', 'src', 'eh', 'mt', 'lp-odd', 'lp-even', 'ud', 'ed', 'other']:
            for _ in range(200):
                sec = apel.gen_section(rng)
                k = sec['kind']
                if (want == k or (want == 'src+callouts' and k == 'src' and sec['src']['callouts'] and sec['src']['callouts']['callouts']) or
                        (want == 'lp-odd' and k == 'lp' and len(sec['targets']) % 2 == 1 and len(sec['targets']) < 9) or
                        (want == 'lp-even' and k == 'lp' and len(sec['targets']) % 2 == 0 and len(sec['targets']) < 9 and len(sec['targets']) > 0)):
                    if want == 'src' and sec['src']['callouts']:
                        continue
                    break
            p = apel.gen_pel(rng, max_sections=rng.choice([0, 1, 2]))
            if k == 'lp':
                sec['name'] = sec['name'][:8]
            p['sections'] = p['sections'][:2] + [sec]
            apel.fix_real_plugins(p)
            for s2 in p['sections']:
                if 'payload' in s2 and len(s2['payload']) > 120:
                    s2['payload'] = s2['payload'][:rng.randrange(1, 120)]
            bases.append(p)
        ndesigned = len(bases)
        for _ in range(40 if thorough else 8):
            p = apel.gen_pel(rng, max_sections=rng.choice([3, 6]))
            for sec in p['sections']:
                if 'payload' in sec and len(sec['payload']) > 300:
                    sec['payload'] = sec['payload'][:rng.randrange(1, 300)]
            bases.append(p)
        rep = lean_batch([env.tokens()] + ['pelspec %s %s x' % (apel.tok_cfg(), apel.tok_pel(p)) for p in bases])[1:]
        inputs = []   # (kind, bytes, base index)
        for bi, (p, r) in enumerate(zip(bases, rep)):
            data = r.bytes()
            model = apel.dec_outcome(r)
            spec = apel.dec_spec(r)
            wf_ok = spec[0] == 'doc'
            ks = range(len(data)) if (thorough or len(data) < 400) else sorted(set(rng.sample(range(len(data)), 300) + list(range(0, 90))))
            for k in ks:
                inputs.append(('prefix' if wf_ok else 'prefix-nowf', data[:k], bi))
            offs = range(len(data)) if (thorough or len(data) < 700) else rng.sample(range(len(data)), min(len(data), 300))
            for o in offs:
                for v in (data[o] ^ 0x01, data[o] ^ 0x80, rng.randrange(256)):
                    if v != data[o]:
                        inputs.append(('corrupt', data[:o] + bytes([v]) + data[o + 1:], bi))
        for _ in range(2000 if thorough else 300):
            n = rng.choice([0, 1, 7, 8, 47, 48, 72, rng.randrange(0, 2048)])
            b = bytes(rng.randrange(256) for _ in range(n))
            if rng.random() < 0.5 and n >= 2:
                b = b'PH' + b[2:]
            inputs.append(('random', b, None))
        # ---- I/O-drawer trace buffers inside a PEL (creator M, component 2C00, sub-type 84) whose header describes a WRAPPED buffer: every wrap count,
        # "next free" offset on an entry boundary / inside an entry / at the ends, buffer completely present or cut -- the walk over the entries must end
        try:
            import struct as _st
            import pelbuild
            from c15 import enc_entry
            from io_drawer.drawer_type import DRAWER_TYPES as _DT
            for dt_ in _DT:
                for _ in range(40 if thorough else 12):
                    es_ = [enc_entry((rng.randrange(65536), i_, 0x4654, rng.randrange(2 ** 32), i_, bytes(rng.randrange(256) for _ in range(rng.choice([0, 4, 5, 8, 12, 20]))), b''))
                           for i_ in range(rng.choice([1, 2, 3, 5, 9]))]
                    body_ = b''.join(es_)
                    size_ = 32 + len(body_)
                    bounds_ = [32 + sum(len(e_) for e_ in es_[:k_]) for k_ in range(len(es_) + 1)]
                    nf_ = rng.choice([rng.choice(bounds_), rng.choice(bounds_) + rng.choice([1, 2, 4, 6, 10]), 33, size_ - 1, size_, size_ + 4, 0, 31, 32, rng.randrange(32, size_ + 1)])
                    hdr_ = bytes([2, 32, 1, 0x42]) + b'INFO'.ljust(12, b'\0') + bytes(4) + _st.pack('>III', rng.choice([size_, size_, size_ + 8, size_ - 4]), rng.choice([0, 1, 1, 2, 2 ** 32 - 1]), nf_)
                    tr_ = hdr_ + body_
                    if rng.random() < 0.2:
                        tr_ = tr_[:rng.randrange(32, len(tr_))]
                    inputs.append(('drawer-trace', pelbuild.pel([pelbuild.UH(), pelbuild.UD(tr_, sub=84, ver=dt_.user_data_version, comp=0x2C00)], creator=b'M', eid=0x0C050000 + len(inputs)), None))
                # designed: the "next free" offset points INTO the data of the last entry, where the bytes read as an entry that ends behind the declared
                # buffer size (in bytes that follow the buffer): a walk that starts there and wraps to the front never meets its starting point again
                for o_, b_, c_ in ((0, 4, 8), (8, 0, 4), (4, 12, 0)):
                    xhdr_ = _st.pack('>HHHHII', 1, 2, b_ + 4 + c_, 0x4654, 12345, 7)
                    e1_ = enc_entry((1, 1, 0x4654, 12345, 1, b'abcd', b''))
                    e2_ = enc_entry((1, 2, 0x4654, 54321, 2, bytes(o_) + xhdr_ + bytes(b_), b''))
                    size_ = 32 + len(e1_) + len(e2_)
                    nf_ = 32 + len(e1_) + 16 + o_
                    hdr_ = bytes([2, 32, 1, 0x42]) + b'INFO'.ljust(12, b'\0') + bytes(4) + _st.pack('>III', size_, 1, nf_)
                    tr_ = hdr_ + e1_ + e2_ + bytes(c_) + _st.pack('>I', 16 + b_ + 4 + c_ + 4)
                    inputs.append(('drawer-trace', pelbuild.pel([pelbuild.UH(), pelbuild.UD(tr_, sub=84, ver=dt_.user_data_version, comp=0x2C00)], creator=b'M', eid=0x0C050000 + len(inputs)), None))
        except ImportError as e:
            ck.skip('io_drawer.drawer_type unavailable: %r' % e)
        replies = lean_batch([env.tokens()] + ['pelraw %s %s' % (apel.tok_cfg(), tb(b)) for _, b, _ in inputs])[1:]
        slow = 0
        reals = []
        for (kind, b, bi), r in zip(inputs, replies):
            t0 = time.time()
            real = apel.real_decode(b)
            reals.append(real)
            dt = time.time() - t0
            model = apel.dec_outcome(r)
            ck.case(key=b if b[:2] == b'PH' else None, sample={'kind': kind, 'len': len(b)} if len(ck.samples) < 3 or kind == 'corrupt' else None)
            ck.count('%s -> %s' % (kind, real[0]))
            rp = {'op': 'parsePEL', 'kind': kind, 'data_hex': b.hex()}
            if real[:2] == ('error', 'Hang'):
                ck.fail('decoding hangs: no result within the %.0f s watchdog limit' % common.REAL_CALL_LIMIT, rp, 'hang')
            elif dt > 2.0:
                ck.fail('decoding did not terminate promptly (%.1fs)' % dt, rp, 'slow')
            if kind == 'prefix' and real[0] == 'doc':
                ck.fail('a proper prefix of a well-formed PEL was decoded instead of rejected', rp | {'actual': str(real[2])[:300]}, 'prefix_decoded')
            if real[:2] == ('error', 'SystemExit'):
                ck.fail('the decoder left through sys.exit() instead of failing with an ordinary error', rp | {'message': real[2]}, 'system_exit')
            elif real[0] == 'error' and real[1] not in ('Hang', 'AssertionError', 'UnicodeDecodeError', 'IndexError', 'AttributeError', 'KeyError', 'ValueError', 'JSONDecodeError', 'RecursionError', 'TypeError'):
                ck.fail('unexpected exception class ' + real[1], rp | {'message': real[2]}, 'exception_class')
            outtxt = real[2] if real[0] == 'nodoc' else real[3]
            if real[0] == 'invalid-json':
                ck.fail('decoding yields text that is not a JSON document: ' + real[2], rp, 'invalid_json')
            if real[0] != 'error' and outtxt:
                ck.fail('decoder wrote to stdout while decoding', rp | {'stdout': outtxt[:200]}, 'stdout_noise')
            compare(ck, None, b, real, model, None)
        # ---- the same inputs in ONE `python -O` interpreter: the outcome of every input must be what it is with assertions enabled
        # (inputs on which the decoder already hung are reported above; they are not fed to the batch interpreter, which would sit on the first of them)
        keep_ = [i_ for i_, r_ in enumerate(reals) if r_[:2] != ('error', 'Hang')]
        if len(keep_) != len(inputs):
            ck.count('inputs left out of the python -O batch after a hang', len(inputs) - len(keep_))
            inputs = [inputs[i_] for i_ in keep_]
            reals = [reals[i_] for i_ in keep_]
        hexes = [b.hex() for _, b, _ in inputs]
        normal = []
        for (kind, b, bi) in inputs:
            pass
        try:
            po = subprocess.run([common.PY, '-O', '-W', 'ignore', '-B', os.path.join(os.path.dirname(os.path.abspath(__file__)), 'optrun.py')],
                                input=('\n'.join(hexes) + '\n').encode(), stdout=subprocess.PIPE, stderr=subprocess.PIPE, env=common.child_env(), timeout=1200)
            olines = po.stdout.decode().split('\n')[:-1]
            orc = po.returncode
        except subprocess.TimeoutExpired:
            olines, orc = [], -999
        if orc != 0 or len(olines) != len(inputs):
            ck.fail('decoding the inputs in one `python -O` interpreter did not finish (exit %s, %d of %d answers)' % (orc, len(olines), len(inputs)),
                    {'op': 'optimised-batch', 'exit': orc, 'answers': len(olines), 'next_input_hex': hexes[len(olines)] if len(olines) < len(hexes) else None}, 'opt_batch')
        else:
            import hashlib
            for (kind, b, bi), ol, nreal in zip(inputs, olines, reals):
                o = json.loads(ol)
                n = ['doc', nreal[1], hashlib.sha1(nreal[4].encode()).hexdigest()] if nreal[0] == 'doc' else ['nodoc'] if nreal[0] == 'nodoc' else ['error', nreal[1]]
                ck.count('python -O batch: %s' % o[0])
                if o != n and not (o[0] == 'error' and n[0] == 'error'):
                    rp = {'op': 'parsePEL', 'optimise': True, 'kind': kind, 'data_hex': b.hex(), 'normal': n[:2], 'under_O': o[:2]}
                    if kind == 'prefix' and o[0] == 'doc':
                        ck.fail('under python -O a proper prefix of a well-formed PEL was decoded instead of rejected', rp, 'prefix_decoded_O')
                    else:
                        ck.fail('decoding gives a different outcome when assertions are disabled (python -O)', rp, 'differs_O')
        # ---- CLI under python and python -O: exit status, no traceback, stdout empty or one JSON document
        cli_inputs = []
        for bi in range(min(len(bases), 3 if not thorough else 8)):
            data = rep[bi].raw and None
        sample_bases = [i for i in range(len(bases))][: (8 if thorough else 2)]
        per = {}
        for (kind, b, bi) in inputs:
            if bi in sample_bases and kind.startswith('prefix'):
                per.setdefault(bi, []).append((kind, b))
        for bi, lst in per.items():
            step = 1 if thorough else max(1, len(lst) // 25)
            for kind, b in lst[::step] + lst[-3:]:
                cli_inputs.append((kind, b))
        cli_inputs += [(k, b) for (k, b, _) in rng.sample([x for x in inputs if x[0] == 'corrupt'], 40 if thorough else 10)]
        cli_inputs += [(k, b) for (k, b, _) in rng.sample([x for x in inputs if x[0] == 'random'], 20 if thorough else 6)]
        for kind, b in cli_inputs:
            path = os.path.join(tmp, 'in.pel')
            with open(path, 'wb') as f:
                f.write(b)
            for opt in (False, True):
                rc, out, err, dt = cli(path, opt)
                ck.case(key=('cli', opt, b), sample={'cli': 'python %s peltool.py -f <%s, %d bytes> -E' % ('-O' if opt else '', kind, len(b))} if opt and len(ck.samples) < 6 else None)
                ck.count('cli%s %s rc=%d' % (' -O' if opt else '', kind, rc))
                rp = {'op': 'cli', 'optimise': opt, 'kind': kind, 'data_hex': b.hex(), 'rc': rc, 'stderr': err[-300:], 'stdout': out[:200]}
                if rc == -999:
                    ck.fail('the command line did not terminate within 60 s', rp, 'cli_hang')
                elif rc not in (0, 1):
                    ck.fail('exit status other than 0/1', rp, 'cli_exit')
                if 'Traceback' in err:
                    ck.fail('traceback on stderr', rp, 'cli_traceback')
                if out.strip():
                    try:
                        json.loads(out)
                    except Exception:
                        ck.fail('stdout is neither empty nor a JSON document', rp, 'cli_stdout')
                    if kind == 'prefix':
                        ck.fail('a proper prefix of a well-formed PEL was decoded by the CLI%s' % (' under -O' if opt else ''), rp, 'cli_prefix_decoded')
                if dt > 20:
                    ck.fail('CLI did not terminate promptly', rp, 'cli_slow')
        # ---- the same through every DIRECTORY mode: a directory that holds many malformed files at once (prefixes cut inside every section,
        # corrupted and random files, a PEL without any SRC, one whose primary SRC id is damaged, an empty file) ends every mode with
        # status 0 or 1, without a traceback, under python and python -O
        import clirun
        import pelbuild
        for rnd in range(3 if thorough else 1):
            dfiles = [('hdrs_only', pelbuild.pel([pelbuild.UH()], eid=0x0C050001)), ('ud_only', pelbuild.pel([pelbuild.UH(), pelbuild.UD(b'text')], eid=0x0C050002)),
                      ('ps_damaged', pelbuild.pel([pelbuild.UH(), pelbuild.SRC()], eid=0x0C050003).replace(b'PS', b'PX', 1)),
                      ('good', pelbuild.pel([pelbuild.UH(), pelbuild.SRC()], eid=0x0C050004)), ('empty', b'')]
            pool = [x for x in inputs if x[0].startswith('prefix') and len(x[1]) > 72] + [x for x in inputs if x[0] in ('corrupt', 'random')]
            for i, (k, b, _) in enumerate(rng.sample(pool, min(len(pool), 14))):
                dfiles.append(('%02d_%s' % (i, k.replace(' ', '_')[:12]), b))
            d = clirun.make_dir(dfiles, base=tmp)
            od = clirun.make_dir([], base=tmp)
            ex = os.path.join(tmp, 'exclude_%d.txt' % rnd)
            open(ex, 'w').write('BD8D0000\n')
            # -a shows as many documents as there are files that -f decodes on their own (nothing is shown twice, nothing is made up)
            singles = 0
            for n_, b_ in dfiles:
                so1, _, _ = clirun.run_main(['-f', os.path.join(d, n_), '-E'])
                singles += bool(so1.strip())
            soa, _, _ = clirun.run_main(['-p', d, '-a', '-E'])
            try:
                ndocs = len(json.loads(soa))
            except Exception:
                ndocs = -1
            ck.case(key=('cli-dir-count', rnd))
            ck.count('cli directory: documents of -a vs files decodable alone')
            if ndocs != singles:
                ck.fail('-a over a directory of malformed files shows %d documents although %d of the files decode on their own' % (ndocs, singles),
                        {'op': 'cli-dir', 'argv': ['-a'], 'files': [(n, b.hex()) for n, b in dfiles], 'stdout': soa[:300]}, 'cli_dir_fabricated')
            for argv in (['-a'], ['-l'], ['-n'], ['-a', '-x'], ['-j', '-o', od], ['--plid', '0x50000001'], ['--src', 'B'], ['--src-exclude', ex],
                         ['--bmc-id', '1'], ['-i', '0x0C050004'], ['-l', '-H', '-O'], ['-n', '-S', 'Critical']):
                for opt in (False, True):
                    so, se, rc = clirun.run_sub(['-p', d, '-E'] + argv if argv[0] not in ('-l', '-n') or len(argv) == 1 else ['-p', d] + argv, optimise=opt)
                    ck.case(key=('cli-dir', rnd, tuple(argv[:1]), opt))
                    ck.count('cli directory mode %s%s rc=%d' % (argv[0], ' -O' if opt else '', rc))
                    rp = {'op': 'cli-dir', 'optimise': opt, 'argv': argv[:1] + (['<...>'] if len(argv) > 1 else []), 'files': [(n, b.hex()) for n, b in dfiles], 'rc': rc, 'stderr': se[-300:], 'stdout': so[:200]}
                    if rc == -999:
                        ck.fail('a directory mode did not terminate on a directory of malformed files', rp, 'cli_dir_hang')
                    elif rc not in (0, 1):
                        ck.fail('a directory of malformed files ends a directory mode with an exit status other than 0/1', rp, 'cli_dir_exit')
                    if 'Traceback' in se:
                        ck.fail('a directory of malformed files ends a directory mode with a traceback', rp, 'cli_dir_traceback')
    finally:
        env.uninstall()
        shutil.rmtree(tmp, ignore_errors=True)
    return ck.finish(RULE, TRUSTED, ASSUME)


def replay(path):
    rp = json.load(open(path))
    print(json.dumps(rp, indent=1)[:3000])
    if rp.get('data_hex') is not None:
        env = apel.PluginEnv(allow=True).install()
        try:
            real = apel.real_decode(bytes.fromhex(rp['data_hex']))
            print('real decoder now:', real[0], str(real[1:3])[:300])
        finally:
            env.uninstall()
    return 0
