"""
Source-to-Lean translator for the directory modes of peltool.py that only READ (stream `dirmodes`, properties C08, C09, C10).

Reads the CURRENT text of
    modules/pel/peltool/peltool.py   parsePELSummary, getFileList, printPELInHexFormat, extractAndSummarizePEL, listOption, extractAllPELsData, printPELCount,
                                     parseAndPrintPELFile, parsePelFromID, parsePelFromBmcID, parsePelFromPLID, parsePelFromSRCID
                                     (+ the last statement of parsePEL and the signature of prettyPrint, for the width parsePEL aligns to)
    modules/pel/hexdump.py           the default `bytes_per_line` / `bytes_per_chunk` of hexdump
    modules/pel/peltool/pel_types.py the VALUES of the SectionID enumeration
with `ast` (nothing is imported or run) and writes lean/PelGen/GenDirModes.lean.  PelProps/TieC08.lean, TieC09.lean and TieC10.lean prove the
hand-written modes of PelModel/Cli.lean equal to what is generated here.

HOW.  A function body is translated statement by statement, in source order, into a term of the output monad `OutM σ (Ctl ρ)` of
PelModel/TransDirModes.lean (stdout text, number of stderr diagnostics, the function's mutable locals σ; value | exception | SystemExit;
`Ctl` = falls through | continue | break | return).  An `if` duplicates what follows it into both branches; `for` and `try` are combinators
followed by the rest (`seqC`); a `with open(…)` is its body.  Functions of the same file that are called (`printPELInHexFormat`,
`extractAndSummarizePEL`, `parseAndPrintPELFile`) are INLINED at the call with the arguments bound to the parameters BY POSITION, so parameter
and local names never reach the output (locals become v1, v2, …).  The MUTABLE locals of a function (σ) are the names stored inside a `for` /
`try` that also occur outside it; each must be initialised by a plain top-level assignment of `False`/`True`, an int, `{}` or `[]`.
Everything that is not listed below raises `Untranslatable` (the definition becomes `none`); docstrings / bare string statements / `pass` are
the only statements that are skipped.

=====================================================================================================================================
TRUSTED TABLE: name maps and idioms (the only knowledge about the code that is hard-wired here)
=====================================================================================================================================
Python semantics
    int literal >= 0 -> Nat;  str literal -> Text (code points);  True/False -> Bool
    truth value: bool -> b;  int -> n != 0;  str -> !s.isEmpty;  None-or-str (a Config member) -> `match tv x with | some v => … | none => …`
        (inside `some` the member denotes the non-empty string v; a Config member is never assigned by these functions, so a later test of the
        same member on the same path is decided statically; likewise a test of `config.hex` / `config.rev` / a bool parameter, once taken on a
        path, decides later tests of the same value on that path)
    `not c` -> the branches change places;  `a and b` / `a or b` -> short circuit, left to right
    x == "" / x != "" / len(x) == 0 / len(x) != 0 / len(x) > 0   -> x.isEmpty / !x.isEmpty      (the same test as `not x` / `x`)
    == != on str -> == !=;  str == None-or-str -> some a == b;  < <= > >= == != on ints -> decide (· < ·) …;  a + b on str -> a ++ b
    a in b: str in str -> isInfix a b;  str in <file name of a listing> -> isInfix a f.name;  str in <summary value> -> pyStrIn;  `not in` -> negation
    str(n) -> natDec n;  len(s) -> s.length;  "%0wX" % n -> fmtHex w n;  int(x, 16) -> pyIntHex (exact on [0x]hex digits, see the vocabulary)
    `print(x)` / `print(x, end=<str>)` / `print()` -> OutM.print / printEnd;  `print(<f-string | % | + of names>, file=sys.stderr)` -> OutM.diag
        (ONE diagnostic; the text is not modelled, but every name in it must be bound: a name bound nowhere is a NameError -> OutM.raise)
    `sys.exit(<str>)` -> OutM.sysExitMsg (message on stderr, status 1);  `sys.exit(<int>)` -> OutM.sysExit n;  `sys.stdout.flush()` -> nothing
    try/except: exactly one handler, `except Exception [as e]` -> OutM.tryExcept (SystemExit is not caught)
    `x = {}` / `x[k] = v` / `json.dumps(x, indent=4)` on a mutable local -> [] / objSet x k v / dumps (.obj x)   (insertion order, a key set again keeps its place)
    `n += k` -> n + k;  `l = []`, `l.append(f)`, `l.sort(reverse=r)` on a list of file names -> [], l ++ [f], pySortNames r l
        (`pySortNames`: the model's `sortByName`, reversed iff r — exact for distinct names, which is what one directory yields)
    `x.attr` on a value that may be None (what `generatePH` returned when the flag was not tested) -> pyDeref (AttributeError)
The directory
    `for R, _, FS in os.walk(P): <one for loop over FS>; break`  with P the path parameter -> the loop runs once with FS = d : Dir (the top-level
        regular files in os.walk order; subdirectories are not represented in the model), R = the directory
    a name F taken from FS (or from the list `getFileList` returned) is the model's FileEntry: `os.path.join(R, F)` -> that file;
        `with open(<that file>, 'rb') as fd: … fd.read()` -> F.data;  F used as text (`x in F`, `os.path.splitext(F)[1]`) -> F.name
    `with open(config.srcExcludeFile, 'r') as fd: … fd.read()` -> the parameter `excl` (the text of that file)
    os.path.splitext(x)[1] -> splitext x
Names of the code -> names of the model
    parameters BY POSITION: getFileList(path, extension, rev) ; <mode>(path, config) ; extractAndSummarizePEL(file, config) ;
        parseAndPrintPELFile(file_path, config, exit_on_error) ; printPELInHexFormat(data);  path -> d : Dir, config -> c : DirCfg
    config.hex / .rev / .extension -> c.hex / c.rev / c.ext;   config.plid / .src / .srcExcludeFile / .bmcID / .pelID -> c.ids.<same>
    getFileList(P, E[, R]) -> Pel.getFileList d E R   (R defaults to the default in getFileList's signature; tied by Tie.getFileList)
    processId(x) -> pyProcessId x   (Pel.processId, tied by TieC10.processId;  `None` as x -> pyOptStr raises)
    DataStream(data, byte_order='big', is_signed=False) -> a stream object whose unread bytes are `data`
    OrderedDict() passed as `out` to generatePH / generateUH and never read -> nothing
    parsePELSummary(stream, config) on a fresh stream -> pyParsePELSummary env c data        (model: parseSummary)
    parsePEL(stream, config, B) on a fresh stream -> pyParsePEL env c W data B               (model: parsePEL; W = the default `desiredSpace` of
        prettyPrint, given that parsePEL ends in `return <eid>, prettyPrint(json.dumps(<out>, indent=4))`)
    ret, ph = generatePH(stream, out) -> pyGeneratePH env <unread bytes>  (model: parseHeader + id test + decodePH); the stream moves on;
        `if not ret` / `if ret is False` / `if ret` on that flag -> match on the optional header;  generateUH(stream, creator, out) likewise
    ph.creatorID -> PHInfo.creator;  ph.obmcLogID -> PHInfo.obmcLogID
    considerPEL(uh, config) on a user header that is known to be present -> Pel.considerPEL uh.severity uh.actionFlags c.selCfg   (TieC07.considerPEL)
    json.dumps(x, indent=4) -> dumps x;  prettyPrint(t[, desiredSpace=]n) -> prettyPrint n t   (default from prettyPrint's signature)
    hexdump(x) -> hexdump L C x with L, C the defaults in pel/hexdump.py;  memoryview(x) -> x
    summary[k] on what parsePELSummary returned -> pyGetItem (KeyError / TypeError -> raise)
parsePELSummary(stream, config) ITSELF (Gen.parsePELSummary?; the modes above still call the primitive, and Tie.parsePELSummary_is_primitive
proves the primitive to be this translation):
    the stream parameter is read inside a loop, so it is one of the mutable locals (first component of σ); every reader call on it is
        pyRdL <reader> <get> <set> (the value; the stream moves on; the reader's exception is raised)
    ret, ph = generatePH(stream, out) -> pyRdL (generatePHRdJ env): optional (document, PHInfo); in the branch where the flag is known to be set
        `out` is objSet out (sectionName env.T sidPH) <document> (generatePH stores under getSectionName(<the id it read>)); generateUH likewise
        (sidUH); where the flag has not been tested `out` cannot be read
    a, b, c, d, e = parseHeader(stream) -> pyRdL parseHeader; tuple position = field position (id len ver sub comp; Tie.parseHeader)
    sectionFun(stream, <fresh OrderedDict D>, a, b, c, d, e, creator, config) -> pyRdL (namedBy env.T H (Prod.fst <$> decodeSection env creator H))
        with H = SecHdr.mk a b c d e; afterwards D is the one-member dictionary [(name, document)]   (Tie.sectionFun of stream `dispatch`)
    SectionID.<member>.value -> the int assigned to <member> in class SectionID of pel_types.py (read from its AST)
    ph.lEID / ph.pLID -> ox (fmtHex 2 ph.eid) / ox (fmtHex 2 ph.plid) (Tie.phIdText of stream `sections`);  ph.commitTime, ph.sectionCount
    D[k] on a dictionary -> pyGetItem (J.obj D) k;  k in x -> pyStrIn (the model's jItem / jIn);  OrderedDict() -> [];  range(a, b) -> List.range' a (b - a)
    the literal keys "Private Header" / "User Header" / "Primary SRC" are compared with sectionName env.T <id>: the tie carries the hypothesis
        NamesOk env.T (the live table, pinned by C01.pin_section_names)
Module-level names the maps above rely on (sys, os, json, OrderedDict, DataStream, hexdump and the functions named above) must each be bound
exactly once at module level, by the expected import / def; a local of the same name un-maps the name.
"""
import ast
import os

import pytrans
from pytrans import Untranslatable, lean_text, dotted

PELTOOL = 'pel/peltool/peltool.py'
PELTYPES = 'pel/peltool/pel_types.py'
HEXDUMP = 'pel/hexdump.py'

# ---- symbolic types
BOOL, NAT, TEXT, OPT, BYTES, JV, DICT, FILE, FPATH, FILES, ROOT, DIR, CONFIG, STREAM, FD, PHOPT, UHOPT, PH, UH, FLAG, LINES, OUTDICT, EXC, NONE, SUMPAIR = (
    'bool', 'nat', 'text', 'opt', 'bytes', 'j', 'dict', 'file', 'fpath', 'files', 'root', 'dir', 'config', 'stream', 'fd', 'phopt', 'uhopt',
    'ph', 'uh', 'flag', 'lines', 'outdict', 'exc', 'none', 'sumpair')
STREAMP, STREAMM, PHJOPT, UHJOPT, HDR5, NATS = 'streamp', 'streamm', 'phjopt', 'uhjopt', 'hdr5', 'nats'

LEAN_TY = {BOOL: 'Bool', NAT: 'Nat', TEXT: 'Text', DICT: 'List (Text × J)', FILES: 'List FileEntry', JV: 'J', BYTES: 'Bytes'}
MUT_INIT = {BOOL: 'false', NAT: '0', DICT: '[]', FILES: '[]'}

CFG_ATTR = {'hex': ('c.hex', BOOL), 'rev': ('c.rev', BOOL), 'extension': ('c.ext', OPT), 'plid': ('c.ids.plid', OPT), 'src': ('c.ids.src', OPT),
            'srcExcludeFile': ('c.ids.srcExcludeFile', OPT), 'bmcID': ('c.ids.bmcID', OPT), 'pelID': ('c.ids.pelID', OPT)}
PH_ATTR = {'creatorID': ('%s.creator', TEXT), 'obmcLogID': ('%s.obmcLogID', NAT), 'sectionCount': ('%s.sectionCount', NAT),
           'commitTime': ('%s.commitTime', TEXT), 'pLID': ('(ox (fmtHex 2 %s.plid))', TEXT), 'lEID': ('(ox (fmtHex 2 %s.eid))', TEXT)}

# function -> (parameter kinds by position, return kind)
SIGS = {
    'getFileList': ([DIR, OPT, BOOL], 'rootfiles'),
    'printPELInHexFormat': ([BYTES], 'unit'),
    'extractAndSummarizePEL': ([FPATH, CONFIG], 'textj'),
    'parseAndPrintPELFile': ([FPATH, CONFIG, BOOL], 'bool'),
    'listOption': ([DIR, CONFIG], 'unit'),
    'extractAllPELsData': ([DIR, CONFIG], 'unit'),
    'printPELCount': ([DIR, CONFIG], 'unit'),
    'parsePelFromID': ([DIR, CONFIG], 'unit'),
    'parsePelFromBmcID': ([DIR, CONFIG], 'unit'),
    'parsePelFromPLID': ([DIR, CONFIG], 'unit'),
    'parsePelFromSRCID': ([DIR, CONFIG], 'unit'),
    'parsePELSummary': ([STREAMP, CONFIG], 'textj'),
}
RET_LEAN = {'unit': 'Unit', 'textj': 'Text × J', 'bool': 'Bool', 'rootfiles': 'List FileEntry'}
INLINED = ('printPELInHexFormat', 'extractAndSummarizePEL', 'parseAndPrintPELFile')
EXPECTED_IMPORTS = {'sys': ('import', 'sys'), 'os': ('import', 'os'), 'json': ('import', 'json'),
                    'OrderedDict': ('from', 'collections', 'OrderedDict'), 'DataStream': ('from', 'pel.datastream', 'DataStream'),
                    'hexdump': ('from', 'pel.hexdump', 'hexdump'), 'SectionID': ('from', 'pel.peltool.pel_types', 'SectionID')}
EXPECTED_DEFS = ['getFileList', 'printPELInHexFormat', 'extractAndSummarizePEL', 'parseAndPrintPELFile', 'processId', 'parsePELSummary', 'parsePEL',
                 'generatePH', 'generateUH', 'considerPEL', 'prettyPrint']
BUILTINS_USED = {'print', 'str', 'len', 'int', 'open', 'memoryview', 'Exception', 'True', 'False', 'None'}
MAXTERM = 300000


def U(msg, node=None):
    ln = getattr(node, 'lineno', None)
    return Untranslatable(msg + (' (line %d)' % ln if ln else ''))


def ind(text, n=2):
    pad = ' ' * n
    return '\n'.join(pad + l for l in text.split('\n'))


def atom(t):
    """t as an argument: parenthesised unless it is an identifier / projection, or one bracketed group"""
    t = t.strip()
    if all(ch.isalnum() or ch in "._'" for ch in t):
        return t
    if t[0] in '([' and t[-1] in ')]':
        depth = 0
        for i, ch in enumerate(t):
            if ch in '([':
                depth += 1
            elif ch in ')]':
                depth -= 1
                if depth == 0 and i != len(t) - 1:
                    break
        else:
            return t
    return '(' + t + ')'


class Val:
    __slots__ = ('term', 'ty', 'x')

    def __init__(self, term, ty, x=None):
        self.term, self.ty, self.x = term, ty, x


class Module:
    """facts about peltool.py / hexdump.py that several targets share"""

    def __init__(self, repo):
        self.tree = pytrans.load_module_ast(repo, PELTOOL)
        self.bound = {}
        for n in self.tree.body:
            for nm, how in self.bindings(n):
                self.bound.setdefault(nm, []).append(how)
        for n in ast.walk(self.tree):
            if isinstance(n, (ast.Global, ast.Nonlocal)):
                raise U('global / nonlocal statement', n)
        self.hex_defaults = self.read_hexdump_defaults(repo)
        self.repo = repo
        self._sids = None

    @staticmethod
    def bindings(n):
        if isinstance(n, ast.Import):
            for a in n.names:
                yield (a.asname or a.name.split('.')[0]), ('import', a.name) if not a.asname else ('import-as', a.name)
        elif isinstance(n, ast.ImportFrom):
            for a in n.names:
                if a.name == '*':
                    yield '*', ('star',)
                else:
                    yield (a.asname or a.name), ('from', n.module, a.name)
        elif isinstance(n, (ast.FunctionDef, ast.AsyncFunctionDef)):
            yield n.name, ('def',)
        elif isinstance(n, ast.ClassDef):
            yield n.name, ('class',)
        elif isinstance(n, (ast.Assign, ast.AugAssign, ast.AnnAssign)):
            tg = n.targets if isinstance(n, ast.Assign) else [n.target]
            for t in tg:
                for m in ast.walk(t):
                    if isinstance(m, ast.Name):
                        yield m.id, ('assign',)
        elif isinstance(n, (ast.If, ast.Try, ast.For, ast.While, ast.With)):
            for m in ast.walk(n):
                if isinstance(m, ast.Name) and isinstance(m.ctx, ast.Store):
                    yield m.id, ('assign',)
                if isinstance(m, (ast.Import, ast.ImportFrom, ast.FunctionDef, ast.ClassDef)) and m is not n:
                    for b in Module.bindings(m):
                        yield b

    def need_import(self, name):
        if '*' in self.bound:
            raise Untranslatable('star import in peltool.py')
        if self.bound.get(name) != [EXPECTED_IMPORTS[name]]:
            raise Untranslatable('module-level name %s is not bound exactly once by the expected import' % name)

    def need_def(self, name):
        if '*' in self.bound:
            raise Untranslatable('star import in peltool.py')
        if self.bound.get(name) != [('def',)]:
            raise Untranslatable('module-level name %s is not bound exactly once by a def' % name)
        return pytrans.find_def(self.tree, name)

    def fn(self, name):
        f = self.need_def(name)
        if f.decorator_list:
            raise U('decorated function %s' % name, f)
        return f

    def params(self, name, n):
        f = self.fn(name)
        a = f.args
        if a.vararg or a.kwarg or a.kwonlyargs or a.posonlyargs or a.kw_defaults or len(a.args) != n:
            raise U('unexpected parameter list of %s' % name, f)
        return [x.arg for x in a.args], a.defaults

    def read_hexdump_defaults(self, repo):
        try:
            tree = pytrans.load_module_ast(repo, HEXDUMP)
            f = pytrans.find_def(tree, 'hexdump')
            a = f.args
            if a.vararg or a.kwarg or a.kwonlyargs or a.posonlyargs or len(a.args) != 3 or len(a.defaults) != 2:
                return None
            return (pytrans.const_int(a.defaults[0]), pytrans.const_int(a.defaults[1]), [x.arg for x in a.args])
        except (Untranslatable, OSError):
            return None

    def section_id(self, member):
        """the int assigned to `member` in class SectionID(Enum) of pel_types.py"""
        self.need_import('SectionID')
        if self._sids is None:
            tree = pytrans.load_module_ast(self.repo, PELTYPES)
            cls = [n for n in tree.body if isinstance(n, ast.ClassDef) and n.name == 'SectionID']
            if len(cls) != 1:
                raise Untranslatable('class SectionID of pel_types.py')
            vals = {}
            for n in cls[0].body:
                if isinstance(n, ast.Assign) and len(n.targets) == 1 and isinstance(n.targets[0], ast.Name):
                    if n.targets[0].id in vals:
                        raise U('SectionID member assigned twice', n)
                    vals[n.targets[0].id] = pytrans.const_int(n.value)
                elif not (isinstance(n, ast.Expr) and isinstance(n.value, ast.Constant)) and not isinstance(n, ast.Pass):
                    raise U('statement in class SectionID', n)
            self._sids = vals
        if member not in self._sids:
            raise Untranslatable('SectionID.%s' % member)
        return self._sids[member]

    def pretty_default(self):
        names, defaults = self.params('prettyPrint', 2)
        if len(defaults) != 1:
            raise Untranslatable('prettyPrint: exactly the second parameter must have a default')
        return pytrans.const_int(defaults[0]), names

    def parsepel_width(self):
        """parsePEL(stream, config, exit_on_error) must end in `return <name>, prettyPrint(json.dumps(<name>, indent=4))`"""
        names, defaults = self.params('parsePEL', 3)
        if defaults:
            raise Untranslatable('parsePEL has default arguments')
        f = self.fn('parsePEL')
        last = f.body[-1]
        ok = (isinstance(last, ast.Return) and isinstance(last.value, ast.Tuple) and len(last.value.elts) == 2
              and isinstance(last.value.elts[0], ast.Name))
        if ok:
            c = last.value.elts[1]
            ok = (isinstance(c, ast.Call) and isinstance(c.func, ast.Name) and c.func.id == 'prettyPrint' and len(c.args) == 1 and not c.keywords)
            if ok:
                d = c.args[0]
                ok = (isinstance(d, ast.Call) and dotted(d.func) == 'json.dumps' and len(d.args) == 1 and isinstance(d.args[0], ast.Name)
                      and len(d.keywords) == 1 and d.keywords[0].arg == 'indent' and isinstance(d.keywords[0].value, ast.Constant)
                      and d.keywords[0].value.value == 4 and type(d.keywords[0].value.value) is int)
        if not ok:
            raise U('parsePEL does not end in `return eid, prettyPrint(json.dumps(out, indent=4))`', last)
        self.need_import('json')
        return self.pretty_default()[0]


def stores_in(nodes):
    """names stored (assigned, augmented, subscript-stored, mutated by .append/.sort, loop / with / except targets) inside the statements"""
    out = set()
    for st in nodes:
        for n in ast.walk(st):
            if isinstance(n, ast.Name) and isinstance(n.ctx, (ast.Store, ast.Del)):
                out.add(n.id)
            elif isinstance(n, ast.Subscript) and isinstance(n.ctx, (ast.Store, ast.Del)) and isinstance(n.value, ast.Name):
                out.add(n.value.id)
            elif isinstance(n, ast.Call) and isinstance(n.func, ast.Attribute) and isinstance(n.func.value, ast.Name) \
                    and n.func.attr in ('append', 'sort', 'extend', 'insert', 'pop', 'remove', 'clear', 'update', 'reverse', 'setdefault', 'popitem'):
                out.add(n.func.value.id)
            elif isinstance(n, ast.ExceptHandler) and n.name:
                out.add(n.name)
    return out


def is_walk_idiom(st):
    return (isinstance(st, ast.For) and isinstance(st.iter, ast.Call) and dotted(st.iter.func) == 'os.walk')


class FnInfo:
    """static facts about one function: its mutable locals (σ) and all its local names"""

    def __init__(self, fdef):
        self.fdef = fdef
        self.locals = stores_in(fdef.body) | {a.arg for a in fdef.args.args}
        for n in ast.walk(fdef):
            if isinstance(n, (ast.FunctionDef, ast.Lambda, ast.AsyncFunctionDef, ast.ClassDef, ast.ListComp, ast.GeneratorExp, ast.DictComp, ast.SetComp,
                              ast.While, ast.Yield, ast.YieldFrom, ast.Await, ast.NamedExpr, ast.Delete, ast.Raise, ast.Assert, ast.Starred, ast.Match)) \
                    and n is not fdef:
                raise U('%s in %s' % (type(n).__name__, fdef.name), n)
        mut = set()
        # names that cannot carry a value across a loop / try boundary: never read at all (`_`), or `with … as fd` names all of whose reads
        # lie inside a `with` that binds them
        loads = {}
        for n in ast.walk(fdef):
            if isinstance(n, ast.Name) and isinstance(n.ctx, ast.Load):
                loads.setdefault(n.id, []).append(n)
        harmless = {nm for nm in self.locals if nm not in loads}
        covered = {}
        for w in ast.walk(fdef):
            if isinstance(w, ast.With):
                for it in w.items:
                    if isinstance(it.optional_vars, ast.Name):
                        covered.setdefault(it.optional_vars.id, set()).update(id(n) for b in w.body for n in ast.walk(b))
        for nm, ids in covered.items():
            if all(id(n) in ids for n in loads.get(nm, [])):
                only_with = all(not (isinstance(n, ast.Name) and n.id == nm and isinstance(n.ctx, ast.Store)) or
                                any(isinstance(w, ast.With) and any(it.optional_vars is n for it in w.items) for w in ast.walk(fdef))
                                for n in ast.walk(fdef))
                if only_with:
                    harmless.add(nm)
        for c in ast.walk(fdef):
            if isinstance(c, ast.Try) or (isinstance(c, ast.For) and not is_walk_idiom(c)):
                inner = [c] if isinstance(c, ast.For) else (c.body + c.handlers + c.orelse + c.finalbody)
                if isinstance(c, ast.For):
                    st = stores_in(c.body + c.orelse)
                    own = {n.id for n in ast.walk(c.target) if isinstance(n, ast.Name)}
                else:
                    st = stores_in(inner)
                    own = set()
                inside = {id(n) for x in ([c]) for n in ast.walk(x)}
                outside = {n.id for n in ast.walk(fdef) if isinstance(n, ast.Name) and id(n) not in inside}
                mut |= ((st & outside) - harmless)
                if own & outside:
                    raise U('loop variable %s is used outside its loop' % sorted(own & outside)[0], c)
        # order and type: the first store must be a plain top-level assignment of a recognised initial value
        order = []
        self.mut_ty = {}
        for st in fdef.body:
            if isinstance(st, ast.Assign) and len(st.targets) == 1 and isinstance(st.targets[0], ast.Name) and st.targets[0].id in mut \
                    and st.targets[0].id not in self.mut_ty:
                v = st.value
                if isinstance(v, ast.Constant) and isinstance(v.value, bool):
                    ty = BOOL
                elif isinstance(v, ast.Constant) and type(v.value) is int and v.value >= 0:
                    ty = NAT
                elif (isinstance(v, ast.Dict) and not v.keys) or (isinstance(v, ast.Call) and isinstance(v.func, ast.Name) and v.func.id == 'OrderedDict'
                                                                   and not v.args and not v.keywords):
                    ty = DICT
                elif isinstance(v, ast.List) and not v.elts:
                    ty = FILES
                else:
                    raise U('initial value of the mutable local %s' % st.targets[0].id, st)
                self.mut_ty[st.targets[0].id] = ty
                order.append(st.targets[0].id)
                self_line = st.lineno
                for n in ast.walk(fdef):
                    if isinstance(n, ast.Name) and n.id == st.targets[0].id and (n.lineno, n.col_offset) < (st.targets[0].lineno, st.targets[0].col_offset):
                        raise U('mutable local %s occurs before its initialisation' % n.id, n)
        missing = mut - set(order)
        if missing:
            raise U('mutable local %s has no top-level initialisation' % sorted(missing)[0], fdef)
        self.mut = order
        self.init_term = {}

    def add_stream(self, name, term):
        """the stream parameter is kept in the mutable locals (first component): it is read inside a loop"""
        if name in self.mut:
            raise U('the stream parameter is assigned', self.fdef)
        self.mut.insert(0, name)
        self.mut_ty[name] = BYTES
        self.init_term[name] = term

    def sigma(self):
        if not self.mut:
            return 'Unit'
        return ' × '.join(atom(LEAN_TY[self.mut_ty[m]]) for m in self.mut)

    def init(self):
        if not self.mut:
            return '()'
        return '(' + ', '.join(self.init_term[m] if m in self.init_term else '(%s : %s)' % (MUT_INIT[self.mut_ty[m]], LEAN_TY[self.mut_ty[m]])
                               for m in self.mut) + ')'

    def proj(self, name, l):
        i, n = self.mut.index(name), len(self.mut)
        if n == 1:
            return l
        return l + '.2' * i + ('.1' if i < n - 1 else '')

    def update(self, name, l, new):
        n = len(self.mut)
        if n == 1:
            return new
        return '(' + ', '.join(new if m == name else self.proj(m, l) for m in self.mut) + ')'


class Ctx:
    def __init__(self, info, ret):
        self.info = info          # FnInfo of the function this activation belongs to
        self.ret = ret            # return kind of that function
        self.locals = {}          # python name -> Val
        self.known = {}           # lean term of a None-or-str Config member -> Val of its non-empty string, or None (= falsy)

    def copy(self):
        c = Ctx(self.info, self.ret)
        c.locals = dict(self.locals)
        c.known = dict(self.known)
        return c


class Machine:
    def __init__(self, mod):
        self.mod = mod
        self.n = 0
        self.depth = 0
        self.uses_excl = False
        self.flag_effects = {}    # option term of generatePH / generateUH -> (name of `out`, its term before the call, section id constant)

    def fresh(self):
        self.n += 1
        return 'v%d' % self.n

    def lens(self, ctx, sv):
        """`get` / `set` of the stream kept in the mutable locals"""
        info = ctx.info
        l = self.fresh()
        b = self.fresh()
        return '(fun %s => %s) (fun %s %s => %s)' % (l, info.proj(sv.term, l), l, b, info.update(sv.term, l, b))

    def bindm(self, m, k):
        v = self.fresh()
        return '(%s >>= fun %s =>\n%s)' % (m, v, k(v))

    # ------------------------------------------------------------------ names
    def lookup(self, node, ctx, k):
        nm = node.id
        if nm in ctx.info.mut:
            if nm in ctx.locals:
                raise U('mutable local %s shadowed' % nm, node)
            ty = ctx.info.mut_ty[nm]
            if nm in ctx.info.init_term:
                return k(Val(nm, STREAMM))
            return self.bindm('OutM.getL', lambda l: k(Val(ctx.info.proj(nm, l), ty)))
        if nm in ctx.locals:
            v = ctx.locals[nm]
            if v.ty == OPT and v.term in ctx.known:
                kn = ctx.known[v.term]
                return k(kn if kn is not None else Val(v.term, OPT, 'falsy'))
            if v.ty == BOOL and v.term in ctx.known:
                return k(Val('true' if ctx.known[v.term] else 'false', BOOL))
            return k(v)
        if nm in ctx.info.locals:
            raise U('local %s may be unbound here (assigned on another path or inside a loop / try)' % nm, node)
        if nm in self.mod.bound or nm in BUILTINS_USED or nm in dir(__builtins__) or (isinstance(__builtins__, dict) and nm in __builtins__):
            raise U('name %s used as a value' % nm, node)
        # bound nowhere: evaluating it is a NameError
        return 'OutM.raise'

    def is_module_name(self, nm, ctx):
        return nm not in ctx.info.locals

    # ------------------------------------------------------------------ expressions (k receives a Val; the result is an OutM term)
    def ev(self, node, ctx, k):
        if isinstance(node, ast.Constant):
            v = node.value
            if isinstance(v, bool):
                return k(Val('true' if v else 'false', BOOL))
            if type(v) is int:
                if v < 0:
                    raise U('negative literal', node)
                return k(Val(str(v), NAT))
            if isinstance(v, str):
                return k(Val('(%s : Text)' % lean_text(v), TEXT, ('lit', v)))
            if v is None:
                return k(Val('none', NONE))
            raise U('literal %r' % (v,), node)
        if isinstance(node, ast.Name):
            return self.lookup(node, ctx, k)
        if isinstance(node, ast.Attribute):
            return self.attribute(node, ctx, k)
        if isinstance(node, ast.Call):
            return self.call(node, ctx, k)
        if isinstance(node, ast.Subscript):
            return self.subscript(node, ctx, k)
        if isinstance(node, ast.BinOp):
            return self.binop(node, ctx, k)
        if isinstance(node, ast.Compare):
            return self.compare(node, ctx, k)
        if isinstance(node, ast.JoinedStr):
            return self.fstring(node, ctx, k)
        if isinstance(node, (ast.BoolOp, ast.UnaryOp)):
            raise U('`and` / `or` / `not` outside a test', node)
        raise U('expression %s' % type(node).__name__, node)

    def ev_list(self, nodes, ctx, k, acc=None):
        acc = acc or []
        if not nodes:
            return k(acc)
        return self.ev(nodes[0], ctx, lambda v: self.ev_list(nodes[1:], ctx, k, acc + [v]))

    def attribute(self, node, ctx, k):
        if isinstance(node.value, ast.Name) and node.value.id in ctx.locals:
            base = ctx.locals[node.value.id]
            if base.ty == CONFIG:
                if node.attr not in CFG_ATTR:
                    raise U('Config member %s' % node.attr, node)
                t, ty = CFG_ATTR[node.attr]
                if ty == OPT and t in ctx.known:
                    kn = ctx.known[t]
                    return k(kn if kn is not None else Val(t, OPT, 'falsy'))
                if ty == BOOL and t in ctx.known:
                    return k(Val('true' if ctx.known[t] else 'false', BOOL))
                return k(Val(t, ty))
            if base.ty in (PH, PHOPT):
                if node.attr not in PH_ATTR:
                    raise U('PrivateHeader attribute %s' % node.attr, node)
                f, ty = PH_ATTR[node.attr]
                if base.ty == PH:
                    return k(Val(f % base.term, ty))
                return self.bindm('pyDeref %s' % atom(base.term), lambda p: k(Val(f % p, ty)))
        d = dotted(node)
        if d and d.startswith('SectionID.') and d.endswith('.value') and d.count('.') == 2 and 'SectionID' not in ctx.info.locals:
            return k(Val(str(self.mod.section_id(d.split('.')[1])), NAT))
        raise U('attribute %s' % (dotted(node) or node.attr), node)

    def as_text(self, v, node):
        """a value used as a str"""
        if v.ty == TEXT:
            return v.term
        if v.ty == FILE:
            return '%s.name' % atom(v.term)
        raise U('a %s used as a string' % v.ty, node)

    def plain_args(self, node, n, kw=()):
        if len(node.args) != n or any(isinstance(a, ast.Starred) for a in node.args) or sorted(x.arg or '' for x in node.keywords) != sorted(kw):
            raise U('argument list of %s' % (dotted(node.func) or '?'), node)
        return node.args

    def kwarg(self, node, name):
        for x in node.keywords:
            if x.arg == name:
                return x.value
        return None

    def callee_name(self, node, ctx):
        """dotted name of the function called, provided its root is a module-level name (not shadowed by a local)"""
        d = dotted(node.func)
        if d is None:
            return None
        root = d.split('.')[0]
        if root in ctx.info.locals:
            return None
        return d

    def call(self, node, ctx, k):
        d = self.callee_name(node, ctx)
        # method calls on local objects
        if d is None and isinstance(node.func, ast.Attribute) and isinstance(node.func.value, ast.Name):
            obj = ctx.locals.get(node.func.value.id)
            if obj is not None and obj.ty == FD and node.func.attr == 'read':
                self.plain_args(node, 0)
                if obj.x == 'excl':
                    self.uses_excl = True
                    return k(Val('excl', TEXT))
                return k(Val('%s.data' % atom(obj.x), BYTES))
            raise U('method call %s.%s' % (node.func.value.id, node.func.attr), node)
        if d is None:
            raise U('call of a computed function', node)
        if d == 'str':
            a, = self.plain_args(node, 1)
            return self.ev(a, ctx, lambda v: k(self.py_str(v, node)))
        if d == 'len':
            a, = self.plain_args(node, 1)

            def after(v):
                if v.ty == TEXT:
                    return k(Val('%s.length' % atom(v.term), NAT, ('len', v.term)))
                if v.ty == OPT:
                    return self.bindm('pyOptStr %s' % atom(v.term), lambda t: k(Val('%s.length' % t, NAT, ('len', t))))
                raise U('len of a %s' % v.ty, node)
            return self.ev(a, ctx, after)
        if d == 'int':
            a, b = self.plain_args(node, 2)
            if not (isinstance(b, ast.Constant) and b.value == 16 and type(b.value) is int):
                raise U('int(x, base) with a base other than 16', node)

            def after(v):
                if v.ty == TEXT:
                    return self.bindm('pyIntHex %s' % atom(v.term), lambda n: k(Val(n, NAT)))
                if v.ty == JV:
                    return self.bindm('pyAsStr %s' % atom(v.term),
                                      lambda t: self.bindm('pyIntHex %s' % t, lambda n: k(Val(n, NAT))))
                raise U('int(x, 16) of a %s' % v.ty, node)
            return self.ev(a, ctx, after)
        if d == 'memoryview':
            a, = self.plain_args(node, 1)

            def after(v):
                if v.ty != BYTES:
                    raise U('memoryview of a %s' % v.ty, node)
                return k(v)
            return self.ev(a, ctx, after)
        if d == 'hexdump':
            self.mod.need_import('hexdump')
            if self.mod.hex_defaults is None:
                raise U('signature of pel.hexdump.hexdump', node)
            L, C, names = self.mod.hex_defaults
            if len(node.args) < 1 or len(node.args) > 3 or any(isinstance(a, ast.Starred) for a in node.args):
                raise U('argument list of hexdump', node)
            vals = {}
            for i, a in enumerate(node.args[1:]):
                vals[names[i + 1]] = a
            for kw in node.keywords:
                if kw.arg not in names[1:] or kw.arg in vals:
                    raise U('keyword of hexdump', node)
                vals[kw.arg] = kw.value
            L = pytrans.const_int(vals[names[1]]) if names[1] in vals else L
            C = pytrans.const_int(vals[names[2]]) if names[2] in vals else C

            def after(v):
                if v.ty != BYTES:
                    raise U('hexdump of a %s' % v.ty, node)
                return k(Val('hexdump %d %d %s' % (L, C, atom(v.term)), LINES))
            return self.ev(node.args[0], ctx, after)
        if d == 'json.dumps':
            self.mod.need_import('json')
            a, = self.plain_args(node, 1, ('indent',))
            iv = self.kwarg(node, 'indent')
            if not (isinstance(iv, ast.Constant) and iv.value == 4 and type(iv.value) is int):
                raise U('json.dumps with an indent other than 4', node)

            def after(v):
                if v.ty == DICT:
                    return k(Val('dumps (J.obj %s)' % atom(v.term), TEXT))
                if v.ty == JV:
                    return k(Val('dumps %s' % atom(v.term), TEXT))
                raise U('json.dumps of a %s' % v.ty, node)
            return self.ev(a, ctx, after)
        if d == 'prettyPrint':
            dflt, names = self.mod.pretty_default()
            if len(node.args) not in (1, 2) or any(isinstance(a, ast.Starred) for a in node.args):
                raise U('argument list of prettyPrint', node)
            w = None
            if len(node.args) == 2:
                w = node.args[1]
            for kw in node.keywords:
                if kw.arg != names[1] or w is not None:
                    raise U('keyword of prettyPrint', node)
                w = kw.value
            width = pytrans.const_int(w) if w is not None else dflt
            if width < 0:
                raise U('negative width', node)

            def after(v):
                if v.ty != TEXT:
                    raise U('prettyPrint of a %s' % v.ty, node)
                return k(Val('prettyPrint %d %s' % (width, atom(v.term)), TEXT))
            return self.ev(node.args[0], ctx, after)
        if d == 'processId':
            self.mod.need_def('processId')
            a, = self.plain_args(node, 1)

            def after(v):
                if v.ty == TEXT:
                    return self.bindm('pyProcessId %s' % atom(v.term), lambda p: k(Val(p, TEXT)))
                if v.ty == OPT:
                    return self.bindm('pyOptStr %s' % atom(v.term),
                                      lambda t: self.bindm('pyProcessId %s' % t, lambda p: k(Val(p, TEXT))))
                raise U('processId of a %s' % v.ty, node)
            return self.ev(a, ctx, after)
        if d == 'os.path.join':
            self.mod.need_import('os')
            a, b = self.plain_args(node, 2)
            return self.ev_list([a, b], ctx, lambda vs: self.path_join(vs, node, k))
        if d == 'DataStream':
            self.mod.need_import('DataStream')
            a, = self.plain_args(node, 1, ('byte_order', 'is_signed'))
            bo, sg = self.kwarg(node, 'byte_order'), self.kwarg(node, 'is_signed')
            if not (isinstance(bo, ast.Constant) and bo.value == 'big' and isinstance(sg, ast.Constant) and sg.value is False):
                raise U("DataStream(…) other than byte_order='big', is_signed=False", node)

            def after(v):
                if v.ty != BYTES:
                    raise U('DataStream over a %s' % v.ty, node)
                return k(Val(v.term, STREAM, 'fresh'))
            return self.ev(a, ctx, after)
        if d == 'OrderedDict':
            self.mod.need_import('OrderedDict')
            self.plain_args(node, 0)
            return k(Val('([] : List (Text × J))', DICT, 'fresh'))
        if d == 'considerPEL':
            self.mod.need_def('considerPEL')
            a, b = self.plain_args(node, 2)

            def after(vs):
                if vs[0].ty != UH or vs[1].ty != CONFIG:
                    raise U('considerPEL(%s, %s)' % (vs[0].ty, vs[1].ty), node)
                u = atom(vs[0].term)
                return k(Val('Pel.considerPEL %s.severity %s.actionFlags c.selCfg' % (u, u), BOOL))
            return self.ev_list([a, b], ctx, after)
        if d == 'parsePELSummary':
            self.mod.need_def('parsePELSummary')
            a, b = self.plain_args(node, 2)

            def after(vs):
                if vs[0].ty != STREAM or vs[0].x != 'fresh' or vs[1].ty != CONFIG:
                    raise U('parsePELSummary(%s, %s)' % (vs[0].ty, vs[1].ty), node)
                self.consume(a, ctx)
                return self.bindm('pyParsePELSummary env c %s' % atom(vs[0].term), lambda p: k(Val(p, SUMPAIR, (TEXT, JV))))
            return self.ev_list([a, b], ctx, after)
        if d == 'parsePEL':
            w = self.mod.parsepel_width()
            a, b, e = self.plain_args(node, 3)

            def after(vs):
                if vs[0].ty != STREAM or vs[0].x != 'fresh' or vs[1].ty != CONFIG or vs[2].ty != BOOL:
                    raise U('parsePEL(%s, %s, %s)' % (vs[0].ty, vs[1].ty, vs[2].ty), node)
                self.consume(a, ctx)
                return self.bindm('pyParsePEL env c %d %s %s' % (w, atom(vs[0].term), atom(vs[2].term)), lambda p: k(Val(p, SUMPAIR, (TEXT, TEXT))))
            return self.ev_list([a, b, e], ctx, after)
        if d == 'generatePH':
            self.mod.need_def('generatePH')
            a, b = self.plain_args(node, 2)

            def after(vs):
                if vs[0].ty == STREAMM and vs[1].ty == DICT and isinstance(b, ast.Name) and b.id in ctx.locals:
                    def contm(p):
                        self.flag_effects[p] = (b.id, vs[1].term, 'sidPH')
                        ctx.locals[b.id] = Val('()', OUTDICT)      # readable again only where the flag has been tested
                        return k(Val(p, SUMPAIR, (FLAG, PHJOPT)))
                    return self.bindm('pyRdL (generatePHRdJ env) %s' % self.lens(ctx, vs[0]), contm)
                if vs[0].ty != STREAM or vs[1].ty != DICT or not (isinstance(b, ast.Name) and b.id in ctx.locals):
                    raise U('generatePH(%s, %s)' % (vs[0].ty, vs[1].ty), node)
                ctx.locals[b.id] = Val('()', OUTDICT)              # what generatePH stores there is not tracked on this path: never read

                def cont(p):
                    self.advance(a, ctx, '%s.2' % p)
                    return k(Val('%s.1' % p, SUMPAIR, (FLAG, PHOPT)))
                return self.bindm('pyGeneratePH env %s' % atom(vs[0].term), cont)
            return self.ev_list([a, b], ctx, after)
        if d == 'generateUH':
            self.mod.need_def('generateUH')
            a, cr, b = self.plain_args(node, 3)

            def after(vs):
                if vs[0].ty == STREAMM and vs[1].ty == TEXT and vs[2].ty == DICT and isinstance(b, ast.Name) and b.id in ctx.locals:
                    def contm(p):
                        self.flag_effects[p] = (b.id, vs[2].term, 'sidUH')
                        ctx.locals[b.id] = Val('()', OUTDICT)
                        return k(Val(p, SUMPAIR, (FLAG, UHJOPT)))
                    return self.bindm('pyRdL (generateUHRdJ env %s) %s' % (atom(vs[1].term), self.lens(ctx, vs[0])), contm)
                if vs[0].ty != STREAM or vs[1].ty != TEXT or vs[2].ty not in (DICT, OUTDICT) or not (isinstance(b, ast.Name) and b.id in ctx.locals):
                    raise U('generateUH(%s, %s, %s)' % (vs[0].ty, vs[1].ty, vs[2].ty), node)
                ctx.locals[b.id] = Val('()', OUTDICT)

                def cont(p):
                    self.advance(a, ctx, '%s.2' % p)
                    return k(Val('%s.1' % p, SUMPAIR, (FLAG, UHOPT)))
                return self.bindm('pyGenerateUH env %s %s' % (atom(vs[1].term), atom(vs[0].term)), cont)
            return self.ev_list([a, cr, b], ctx, after)
        if d == 'parseHeader':
            self.mod.need_def('parseHeader')
            a, = self.plain_args(node, 1)

            def after(v):
                if v.ty != STREAMM:
                    raise U('parseHeader(%s)' % v.ty, node)
                return self.bindm('pyRdL parseHeader %s' % self.lens(ctx, v), lambda h: k(Val(h, HDR5)))
            return self.ev(a, ctx, after)
        if d == 'sectionFun':
            self.mod.need_def('sectionFun')
            args = self.plain_args(node, 9)

            def after(vs):
                tys = [v.ty for v in vs]
                if tys != [STREAMM, DICT, NAT, NAT, NAT, NAT, NAT, TEXT, CONFIG] or vs[1].x != 'fresh' \
                        or not (isinstance(args[1], ast.Name) and args[1].id in ctx.locals):
                    raise U('sectionFun(%s)' % ', '.join(tys), node)
                hdr = '(SecHdr.mk %s)' % ' '.join(atom(v.term) for v in vs[2:7])

                def cont(p):
                    ctx.locals[args[1].id] = Val('[(%s.1, %s.2)]' % (p, p), DICT)
                    return k(Val('()', NONE))
                return self.bindm('pyRdL (namedBy env.T %s (Prod.fst <$> decodeSection env %s %s)) %s' % (hdr, atom(vs[7].term), hdr, self.lens(ctx, vs[0])), cont)
            return self.ev_list(list(args), ctx, after)
        if d == 'range' and 'range' not in self.mod.bound:
            a, b = self.plain_args(node, 2)

            def after(vs):
                if vs[0].ty != NAT or vs[1].ty != NAT:
                    raise U('range(%s, %s)' % (vs[0].ty, vs[1].ty), node)
                return k(Val("List.range' %s (%s - %s)" % (atom(vs[0].term), atom(vs[1].term), atom(vs[0].term)), NATS))
            return self.ev_list([a, b], ctx, after)
        if d == 'getFileList':
            names, defaults = self.mod.params('getFileList', 3)
            if len(node.args) not in (2, 3) or node.keywords or any(isinstance(a, ast.Starred) for a in node.args):
                raise U('argument list of getFileList', node)
            args = list(node.args)
            if len(args) == 2:
                if len(defaults) != 1:
                    raise U('getFileList called with two arguments but the third parameter has no default', node)
                args.append(defaults[0])

            def after(vs):
                if vs[0].ty != DIR or vs[1].ty != OPT or vs[2].ty != BOOL:
                    raise U('getFileList(%s, %s, %s)' % (vs[0].ty, vs[1].ty, vs[2].ty), node)
                return k(Val('Pel.getFileList d %s %s' % (atom(vs[1].term), atom(vs[2].term)), SUMPAIR, (ROOT, FILES)))
            return self.ev_list(args, ctx, after)
        if d in INLINED:
            return self.inline(d, node, ctx, k)
        raise U('call of %s' % d, node)

    def consume(self, arg, ctx):
        if isinstance(arg, ast.Name) and arg.id in ctx.locals:
            ctx.locals[arg.id] = Val(ctx.locals[arg.id].term, STREAM, 'used')

    def advance(self, arg, ctx, rest):
        if not (isinstance(arg, ast.Name) and arg.id in ctx.locals):
            raise U('the stream argument must be a local name', arg)
        ctx.locals[arg.id] = Val(rest, STREAM, 'moved')

    def py_str(self, v, node):
        if v.ty == NAT:
            return Val('natDec %s' % atom(v.term), TEXT)
        if v.ty in (TEXT, EXC):
            return v
        raise U('str of a %s' % v.ty, node)

    def path_join(self, vs, node, k):
        if vs[0].ty == ROOT and vs[1].ty == FILE and vs[1].x == vs[0].x:
            return k(Val(vs[1].term, FPATH))
        raise U('os.path.join(%s, %s): only <the walked directory>, <a name from its listing>' % (vs[0].ty, vs[1].ty), node)

    def subscript(self, node, ctx, k):
        sl = node.slice
        if isinstance(node.value, ast.Call) and self.callee_name(node.value, ctx) == 'os.path.splitext':
            self.mod.need_import('os')
            if not (isinstance(sl, ast.Constant) and sl.value == 1 and type(sl.value) is int):
                raise U('only element 1 of os.path.splitext is known', node)
            a, = self.plain_args(node.value, 1)
            return self.ev(a, ctx, lambda v: k(Val('splitext %s' % atom(self.as_text(v, node)), TEXT)))
        if isinstance(sl, ast.Slice) or isinstance(sl, ast.Tuple):
            raise U('slice', node)

        def after(vs):
            if vs[0].ty == JV and vs[1].ty == TEXT:
                return self.bindm('pyGetItem %s %s' % (atom(vs[0].term), atom(vs[1].term)), lambda j: k(Val(j, JV)))
            if vs[0].ty == DICT and vs[1].ty == TEXT:
                return self.bindm('pyGetItem (J.obj %s) %s' % (atom(vs[0].term), atom(vs[1].term)), lambda j: k(Val(j, JV)))
            raise U('subscript of a %s with a %s' % (vs[0].ty, vs[1].ty), node)
        return self.ev_list([node.value, sl], ctx, after)

    def binop(self, node, ctx, k):
        if isinstance(node.op, ast.Mod) and isinstance(node.left, ast.Constant) and isinstance(node.left.value, str):
            return self.percent(node, ctx, k)

        def after(vs):
            a, b = vs
            if isinstance(node.op, ast.Add):
                if a.ty == TEXT and b.ty == TEXT:
                    return k(Val('(%s ++ %s)' % (a.term, b.term), TEXT))
                if a.ty == NAT and b.ty == NAT:
                    return k(Val('(%s + %s)' % (a.term, b.term), NAT))
            raise U('operator %s on %s, %s' % (type(node.op).__name__, a.ty, b.ty), node)
        return self.ev_list([node.left, node.right], ctx, after)

    def percent(self, node, ctx, k):
        """`"…%0wX…" % x` with exactly one conversion"""
        import re
        fmt = node.left.value
        parts = re.split(r'(%(?:0\d+)?[Xxsd%])', fmt)
        convs = [p for p in parts[1::2]]
        if '%' in ''.join(parts[0::2]) or len(convs) != 1 or convs[0] == '%%':
            raise U('format string %r' % fmt, node)
        conv = convs[0]
        if isinstance(node.right, ast.Tuple):
            if len(node.right.elts) != 1:
                raise U('format arguments', node)
            arg = node.right.elts[0]
        else:
            arg = node.right

        def after(v):
            c = conv[-1]
            w = int(conv[2:-1]) if len(conv) > 2 else 0
            if c in 'Xx' and v.ty == NAT:
                body = '%s %d %s' % ('fmtHex' if c == 'X' else 'fmtHexL', w, atom(v.term))
            elif c == 'd' and v.ty == NAT and w == 0:
                body = 'natDec %s' % atom(v.term)
            elif c == 's' and v.ty == TEXT and w == 0:
                body = v.term
            else:
                raise U('conversion %s of a %s' % (conv, v.ty), node)
            t = body
            if parts[0]:
                t = '(%s : Text) ++ %s' % (lean_text(parts[0]), atom(t))
            if parts[2]:
                t = '%s ++ (%s : Text)' % (atom(t), lean_text(parts[2]))
            return k(Val(t, TEXT))
        return self.ev(arg, ctx, after)

    def fstring(self, node, ctx, k):
        """an f-string is only accepted as a MESSAGE (its text is not modelled): all its names must evaluate"""
        exprs = []
        for kind, *rest in pytrans.fstring_parts(node):
            if kind == 'expr':
                if rest[2] is not None and rest[2] != '':
                    raise U('format spec in a message', node)
                exprs.append(rest[0])

        def after(vs):
            for v in vs:
                if v.ty not in (TEXT, FILE, FPATH, EXC, NAT, OPT, BOOL):
                    raise U('a %s inside a message' % v.ty, node)
            return k(Val('([] : Text)', TEXT, 'message'))
        return self.ev_list(exprs, ctx, after)

    def message(self, node, ctx, k):
        """the first argument of print(…, file=sys.stderr): evaluated for its effects (NameError) only"""
        if isinstance(node, ast.JoinedStr):
            return self.fstring(node, ctx, k)
        if isinstance(node, ast.Constant) and isinstance(node.value, str):
            return k(Val('([] : Text)', TEXT, 'message'))
        if isinstance(node, ast.BinOp) and isinstance(node.op, ast.Mod) and isinstance(node.left, ast.Constant) and isinstance(node.left.value, str):
            args = node.right.elts if isinstance(node.right, ast.Tuple) else [node.right]
            return self.message_parts(args, node, ctx, k)
        if isinstance(node, ast.BinOp) and isinstance(node.op, ast.Add):
            return self.message(node.left, ctx, lambda _: self.message(node.right, ctx, k))
        if isinstance(node, ast.Call) and isinstance(node.func, ast.Attribute) and node.func.attr == 'format' \
                and isinstance(node.func.value, ast.Constant) and isinstance(node.func.value.value, str) and not node.keywords:
            return self.message_parts(node.args, node, ctx, k)
        if isinstance(node, ast.Call) and self.callee_name(node, ctx) == 'str' and len(node.args) == 1 and not node.keywords:
            return self.message_parts(node.args, node, ctx, k)
        if isinstance(node, ast.Name):
            return self.message_parts([node], node, ctx, k)
        raise U('message expression %s' % type(node).__name__, node)

    def message_parts(self, args, node, ctx, k):
        for a in args:
            if not isinstance(a, (ast.Name, ast.Constant)) and not (isinstance(a, ast.Call) and self.callee_name(a, ctx) == 'str'
                                                                  and len(a.args) == 1 and isinstance(a.args[0], ast.Name) and not a.keywords):
                raise U('message argument %s' % type(a).__name__, node)
        names = [a if isinstance(a, ast.Name) else a.args[0] for a in args if not isinstance(a, ast.Constant)]

        def after(vs):
            for v in vs:
                if v.ty not in (TEXT, FILE, FPATH, EXC, NAT, OPT, BOOL):
                    raise U('a %s inside a message' % v.ty, node)
            return k(Val('([] : Text)', TEXT, 'message'))
        return self.ev_list(names, ctx, after)

    def compare(self, node, ctx, k):
        if len(node.ops) != 1:
            raise U('chained comparison', node)
        op = node.ops[0]

        def after(vs):
            a, b = vs
            neg = isinstance(op, (ast.NotEq, ast.NotIn))
            wrap = (lambda t: '(!%s)' % t) if neg else (lambda t: t)
            if isinstance(op, (ast.Eq, ast.NotEq)):
                # emptiness tests: the same Lean term as the truth value
                for x, y in ((a, b), (b, a)):
                    if x.ty == TEXT and y.ty == TEXT and y.x == ('lit', ''):
                        return k(Val('%s.isEmpty' % atom(x.term) if not neg else '(!%s.isEmpty)' % atom(x.term), BOOL))
                    if x.ty == NAT and isinstance(x.x, tuple) and x.x[0] == 'len' and y.ty == NAT and y.term == '0':
                        return k(Val('%s.isEmpty' % atom(x.x[1]) if not neg else '(!%s.isEmpty)' % atom(x.x[1]), BOOL))
                if a.ty == TEXT and b.ty == TEXT or a.ty == NAT and b.ty == NAT or a.ty == BOOL and b.ty == BOOL:
                    return k(Val(wrap('(%s == %s)' % (a.term, b.term)), BOOL))
                if a.ty == TEXT and b.ty == OPT:
                    return k(Val(wrap('(some %s == %s)' % (atom(a.term), b.term)), BOOL))
                if a.ty == OPT and b.ty == TEXT:
                    return k(Val(wrap('(%s == some %s)' % (a.term, atom(b.term))), BOOL))
            if a.ty == NAT and b.ty == NAT:
                if isinstance(op, ast.Gt) and isinstance(a.x, tuple) and a.x[0] == 'len' and b.term == '0':
                    return k(Val('(!%s.isEmpty)' % atom(a.x[1]), BOOL))
                if isinstance(op, ast.Lt) and isinstance(b.x, tuple) and b.x[0] == 'len' and a.term == '0':
                    return k(Val('(!%s.isEmpty)' % atom(b.x[1]), BOOL))
                for kk, o in ((ast.Lt, '<'), (ast.LtE, '≤'), (ast.Gt, '>'), (ast.GtE, '≥')):
                    if isinstance(op, kk):
                        return k(Val('(decide (%s %s %s))' % (a.term, o, b.term), BOOL))
            if isinstance(op, (ast.In, ast.NotIn)):
                if a.ty == TEXT and b.ty in (TEXT, FILE):
                    return k(Val(wrap('(isInfix %s %s)' % (atom(a.term), atom(self.as_text(b, node)))), BOOL))
                if a.ty == TEXT and b.ty == JV:
                    return self.bindm('pyStrIn %s %s' % (atom(a.term), atom(b.term)), lambda r: k(Val(wrap(r), BOOL)))
                if a.ty == JV and b.ty == TEXT:
                    return self.bindm('pyAsStr %s' % atom(a.term), lambda t: k(Val(wrap('(isInfix %s %s)' % (t, atom(b.term))), BOOL)))
            raise U('comparison %s on %s, %s' % (type(op).__name__, a.ty, b.ty), node)
        return self.ev_list([node.left, node.comparators[0]], ctx, after)

    # ------------------------------------------------------------------ tests
    def cond(self, node, ctx, kt, kf):
        """`if node:` — kt / kf build the two continuations, each on its own copy of the context"""
        if isinstance(node, ast.BoolOp):
            first, rest = node.values[0], node.values[1:]
            rest_node = rest[0] if len(rest) == 1 else ast.BoolOp(op=node.op, values=rest)
            if isinstance(node.op, ast.And):
                return self.cond(first, ctx, lambda c: self.cond(rest_node, c, kt, kf), kf)
            return self.cond(first, ctx, kt, lambda c: self.cond(rest_node, c, kt, kf))
        if isinstance(node, ast.UnaryOp) and isinstance(node.op, ast.Not):
            return self.cond(node.operand, ctx, kf, kt)
        if isinstance(node, ast.Compare) and len(node.ops) == 1 and isinstance(node.comparators[0], ast.Constant) \
                and isinstance(node.comparators[0].value, bool) and isinstance(node.ops[0], (ast.Is, ast.IsNot, ast.Eq, ast.NotEq)):
            want = node.comparators[0].value
            if isinstance(node.ops[0], (ast.IsNot, ast.NotEq)):
                want = not want

            def after(v):
                if v.ty not in (BOOL, FLAG):
                    raise U('comparison of a %s with True / False' % v.ty, node)
                return self.branch(v, ctx, kt, kf, node) if want else self.branch(v, ctx, kf, kt, node)
            return self.ev(node.left, ctx, after)
        return self.ev(node, ctx, lambda v: self.branch(v, ctx, kt, kf, node))

    def ite(self, t, a, b):
        return '(if %s then\n%s\nelse\n%s)' % (t, ind(a), ind(b))

    def branch(self, v, ctx, kt, kf, node):
        if v.ty == BOOL:
            if v.term == 'true':
                return kt(ctx.copy())
            if v.term == 'false':
                return kf(ctx.copy())
            ct, cf = ctx.copy(), ctx.copy()
            if v.term in ('c.hex', 'c.rev', 'rev', 'x'):     # a Config member / Bool parameter: never assigned, so a later test of it is decided
                ct.known[v.term] = True
                cf.known[v.term] = False
            return self.ite(v.term, kt(ct), kf(cf))
        if v.ty == NAT:
            return self.ite('(%s != 0)' % v.term, kt(ctx.copy()), kf(ctx.copy()))
        if v.ty == TEXT:
            if v.x == 'nonempty':
                return kt(ctx.copy())
            return self.ite('(!%s.isEmpty)' % atom(v.term), kt(ctx.copy()), kf(ctx.copy()))
        if v.ty == OPT:
            if v.x == 'falsy':
                return kf(ctx.copy())
            w = self.fresh()
            ct, cf = ctx.copy(), ctx.copy()
            ct.known[v.term] = Val(w, TEXT, 'nonempty')
            cf.known[v.term] = None
            return '(match tv %s with\n| some %s =>\n%s\n| none =>\n%s)' % (atom(v.term), w, ind(kt(ct)), ind(kf(cf)))
        if v.ty == FLAG:
            w = self.fresh()
            ct, cf = ctx.copy(), ctx.copy()
            if v.term in self.flag_effects:
                outname, outterm, sid = self.flag_effects[v.term]
                if outname in ctx.locals and ctx.locals[outname].ty == OUTDICT:
                    ct.locals[outname] = Val('(objSet %s (sectionName env.T %s) %s.1)' % (atom(outterm), sid, w), DICT)
                    cf.locals[outname] = Val(outterm, DICT)
            for nm, lv in list(ctx.locals.items()):
                if lv.term == v.term and lv.ty in (PHJOPT, UHJOPT):
                    ct.locals[nm] = Val('%s.2' % w, PH if lv.ty == PHJOPT else UH)
                elif lv.term == v.term and lv.ty in (PHOPT, UHOPT):
                    ct.locals[nm] = Val(w, PH if lv.ty == PHOPT else UH)
                elif lv.term == v.term and lv.ty == FLAG:
                    ct.locals[nm] = Val('true', BOOL)
                    cf.locals[nm] = Val('false', BOOL)
            return '(match %s with\n| some %s =>\n%s\n| none =>\n%s)' % (v.term, w, ind(kt(ct)), ind(kf(cf)))
        raise U('truth value of a %s' % v.ty, node)

    # ------------------------------------------------------------------ statements
    @staticmethod
    def strip(stmts):
        return pytrans.strip_docstring(stmts)

    def end(self, ctx, top):
        if not top:
            return 'pure Ctl.next'
        if ctx.ret == 'unit':
            return 'pure (Ctl.ret ())'
        raise Untranslatable('a path of %s reaches the end without `return`' % ctx.info.fdef.name)

    def let(self, v, k):
        """name a pure term (sharing; the name never comes from the source)"""
        if all(ch.isalnum() or ch in "._'" for ch in v.term) or v.ty in (STREAM, FD, ROOT, FILE, FPATH, CONFIG, DIR, OUTDICT, EXC, NONE, FLAG, PHOPT, UHOPT, PH, UH, SUMPAIR, STREAMM, PHJOPT, UHJOPT, HDR5):
            return k(v)
        n = self.fresh()
        return 'let %s := %s\n%s' % (n, v.term, k(Val(n, v.ty, v.x)))

    def drop_streams(self, ctx):
        for nm, lv in list(ctx.locals.items()):
            if lv.ty == STREAM:
                ctx.locals[nm] = Val(lv.term, STREAM, 'used')

    def blk(self, stmts, ctx, top):
        stmts = self.strip(stmts)
        if not stmts:
            return self.end(ctx, top)
        st, rest = stmts[0], stmts[1:]
        R = lambda c: self.blk(rest, c, top)
        info = ctx.info
        if isinstance(st, ast.AnnAssign) and st.value is not None and st.simple and isinstance(st.target, ast.Name):
            st = ast.copy_location(ast.Assign(targets=[st.target], value=st.value), st)
        if isinstance(st, ast.Assign):
            if len(st.targets) != 1:
                raise U('chained assignment', st)
            tg = st.targets[0]
            if isinstance(tg, ast.Name):
                if tg.id in info.mut:
                    return self.ev_init(st.value, ctx, lambda v: self.store_mut(tg.id, v, ctx, st, R))
                return self.ev(st.value, ctx, lambda v: self.bind_local(tg.id, v, ctx, st, R))
            if isinstance(tg, ast.Tuple) and all(isinstance(e, ast.Name) for e in tg.elts):
                names = [e.id for e in tg.elts]
                if any(n in info.mut for n in names) or len(set(n for n in names if n != '_')) != len([n for n in names if n != '_']):
                    raise U('tuple assignment to a mutable local / repeated name', st)
                return self.ev(st.value, ctx, lambda v: self.bind_tuple(names, v, ctx, st, R))
            if isinstance(tg, ast.Subscript) and isinstance(tg.value, ast.Name) and tg.value.id in info.mut and info.mut_ty[tg.value.id] == DICT \
                    and not isinstance(tg.slice, (ast.Slice, ast.Tuple)):
                def after(vs):
                    kx, vx = vs
                    if kx.ty != TEXT:
                        raise U('dictionary key of type %s' % kx.ty, st)
                    if vx.ty == JV:
                        jv = vx.term
                    elif vx.ty == TEXT:
                        jv = '(J.str %s)' % atom(vx.term)
                    else:
                        raise U('dictionary value of type %s' % vx.ty, st)
                    l = self.fresh()
                    upd = info.update(tg.value.id, l, 'objSet %s %s %s' % (atom(info.proj(tg.value.id, l)), atom(kx.term), atom(jv)))
                    return '(OutM.modL (fun %s => %s) >>= fun _ =>\n%s)' % (l, upd, R(ctx))
                return self.ev_list([tg.slice, st.value], ctx, after)
            raise U('assignment target', st)
        if isinstance(st, ast.AugAssign):
            if not (isinstance(st.target, ast.Name) and st.target.id in info.mut and info.mut_ty[st.target.id] == NAT and isinstance(st.op, ast.Add)):
                raise U('augmented assignment', st)

            def after(v):
                if v.ty != NAT:
                    raise U('+= of a %s' % v.ty, st)
                l = self.fresh()
                upd = info.update(st.target.id, l, '%s + %s' % (atom(info.proj(st.target.id, l)), atom(v.term)))
                return '(OutM.modL (fun %s => %s) >>= fun _ =>\n%s)' % (l, upd, R(ctx))
            return self.ev(st.value, ctx, after)
        if isinstance(st, ast.Expr):
            return self.expr_stmt(st, ctx, R)
        if isinstance(st, ast.If):
            return self.cond(st.test, ctx, lambda c: self.blk(list(st.body) + rest, c, top), lambda c: self.blk(list(st.orelse) + rest, c, top))
        if isinstance(st, ast.For):
            return self.for_stmt(st, rest, ctx, top)
        if isinstance(st, ast.Try):
            if len(st.handlers) != 1 or st.orelse or st.finalbody:
                raise U('try with else / finally / several handlers', st)
            h = st.handlers[0]
            if not (isinstance(h.type, ast.Name) and h.type.id == 'Exception' and 'Exception' not in info.locals and 'Exception' not in self.mod.bound):
                raise U('handler other than `except Exception`', h)
            cb = ctx.copy()
            body = self.blk(st.body, cb, False)
            ch = ctx.copy()
            self.drop_streams(ch)
            if h.name:
                ch.locals[h.name] = Val('()', EXC)
            handler = self.blk(h.body, ch, False)
            cr = ctx.copy()
            self.drop_streams(cr)
            if h.name:
                cr.locals.pop(h.name, None)
            return 'seqC (OutM.tryExcept (\n%s) (\n%s)) (\n%s)' % (ind(body), ind(handler), ind(R(cr)))
        if isinstance(st, ast.With):
            if len(st.items) != 1 or not isinstance(st.items[0].optional_vars, ast.Name):
                raise U('with statement', st)
            it = st.items[0]
            fdname = it.optional_vars.id
            if fdname in info.mut:
                raise U('with target is a mutable local', st)
            c = it.context_expr
            if not (isinstance(c, ast.Call) and self.callee_name(c, ctx) == 'open' and 'open' not in self.mod.bound):
                raise U('with <something other than open(…)>', st)
            a, m = self.plain_args(c, 2)
            mode = pytrans.const_str(m)
            if mode == 'r' and isinstance(a, ast.Attribute) and isinstance(a.value, ast.Name) and a.value.id in ctx.locals \
                    and ctx.locals[a.value.id].ty == CONFIG and a.attr == 'srcExcludeFile':
                kn = ctx.known.get('c.ids.srcExcludeFile')
                if kn is None:
                    raise U('open(config.srcExcludeFile) where the member is not known to be a non-empty string', st)
                ctx.locals[fdname] = Val('()', FD, 'excl')
                return self.blk(list(st.body) + rest, ctx, top)

            def after(v):
                if v.ty != FPATH or mode != 'rb':
                    raise U("open(%s, %r): only open(<a file of the listing>, 'rb')" % (v.ty, mode), st)
                ctx.locals[fdname] = Val('()', FD, v.term)
                return self.blk(list(st.body) + rest, ctx, top)
            return self.ev(a, ctx, after)
        if isinstance(st, ast.Return):
            return self.ret_stmt(st, ctx)
        if isinstance(st, ast.Continue):
            if top:
                raise U('continue outside a loop', st)
            return 'pure Ctl.cont'
        if isinstance(st, ast.Break):
            if top:
                raise U('break outside a loop', st)
            return 'pure Ctl.brk'
        raise U('statement %s' % type(st).__name__, st)

    def ev_init(self, node, ctx, k):
        if isinstance(node, ast.Dict) and not node.keys:
            return k(Val('[]', DICT))
        if isinstance(node, ast.List) and not node.elts:
            return k(Val('[]', FILES))
        if isinstance(node, ast.Call) and self.callee_name(node, ctx) == 'OrderedDict' and not node.args and not node.keywords:
            self.mod.need_import('OrderedDict')
            return k(Val('[]', DICT))
        return self.ev(node, ctx, k)

    def store_mut(self, name, v, ctx, st, R):
        info = ctx.info
        if v.ty != info.mut_ty[name]:
            raise U('a %s assigned to the mutable local %s : %s' % (v.ty, name, info.mut_ty[name]), st)
        l = self.fresh()
        term = '(%s : %s)' % (v.term, LEAN_TY[v.ty]) if v.term == '[]' else v.term
        return '(OutM.modL (fun %s => %s) >>= fun _ =>\n%s)' % (l, info.update(name, l, term), R(ctx))

    def bind_local(self, name, v, ctx, st, R):
        if v.ty == STREAM and v.x != 'fresh':
            raise U('alias of a stream', st)
        if v.ty in (SUMPAIR, FLAG, HDR5):
            raise U('a tuple bound to one name', st)
        if v.ty == STREAMM:
            raise U('alias of the stream', st)

        def k(w):
            ctx.locals[name] = w
            return R(ctx)
        return self.let(v, k)

    def bind_tuple(self, names, v, ctx, st, R):
        if v.ty == HDR5 and len(names) == 5:
            for nm, f in zip(names, ('id', 'len', 'ver', 'sub', 'comp')):       # tuple position = field position (Tie.parseHeader)
                ctx.locals[nm] = Val('%s.%s' % (v.term, f), NAT)
            return R(ctx)
        if v.ty != SUMPAIR or len(names) != 2:
            raise U('tuple assignment from a %s' % v.ty, st)
        t1, t2 = v.x
        if (t1, t2) == (ROOT, FILES):
            ident = self.fresh()      # identity of this listing (never printed)
            n = self.fresh()
            ctx.locals[names[0]] = Val('()', ROOT, ident)
            ctx.locals[names[1]] = Val(n, FILES, ident)
            return 'let %s := %s\n%s' % (n, v.term, R(ctx))
        if t1 == FLAG:
            ctx.locals[names[0]] = Val(v.term, FLAG)
            ctx.locals[names[1]] = Val(v.term, t2)
            return R(ctx)
        ctx.locals[names[0]] = Val('%s.1' % v.term, t1)
        ctx.locals[names[1]] = Val('%s.2' % v.term, t2)
        return R(ctx)

    def expr_stmt(self, st, ctx, R):
        node = st.value
        info = ctx.info
        if not isinstance(node, ast.Call):
            raise U('expression statement', st)
        d = self.callee_name(node, ctx)
        if d == 'print' and 'print' not in self.mod.bound:
            kws = {x.arg: x.value for x in node.keywords}
            if None in kws or any(isinstance(a, ast.Starred) for a in node.args) or len(kws) != len(node.keywords):
                raise U('print(**…)', st)
            if 'file' in kws:
                self.mod.need_import('sys')
                if dotted(kws['file']) != 'sys.stderr' or 'sys' in info.locals or set(kws) != {'file'} or len(node.args) != 1:
                    raise U('print(…, file=<other than sys.stderr>)', st)
                return self.message(node.args[0], ctx, lambda _: '(OutM.diag >>= fun _ =>\n%s)' % R(ctx))
            if set(kws) - {'end'} or len(node.args) > 1:
                raise U('print with these arguments', st)
            end = None
            if 'end' in kws:
                end = pytrans.const_str(kws['end'])
            if not node.args:
                t = 'OutM.print []' if end is None else 'OutM.printEnd [] (%s : Text)' % lean_text(end)
                return '(%s >>= fun _ =>\n%s)' % (t, R(ctx))

            def after(v):
                if v.ty != TEXT or v.x == 'message':
                    raise U('print of a %s' % v.ty, st)
                t = 'OutM.print %s' % atom(v.term) if end is None else 'OutM.printEnd %s (%s : Text)' % (atom(v.term), lean_text(end))
                return '(%s >>= fun _ =>\n%s)' % (t, R(ctx))
            return self.ev(node.args[0], ctx, after)
        if d == 'sys.exit':
            self.mod.need_import('sys')
            a, = self.plain_args(node, 1)
            if isinstance(a, ast.Constant) and isinstance(a.value, str):
                return 'OutM.sysExitMsg'
            if isinstance(a, ast.Constant) and type(a.value) is int and a.value >= 0:
                return 'OutM.sysExit %d' % a.value
            raise U('sys.exit(<not a literal>)', st)
        if d == 'sys.stdout.flush':
            self.mod.need_import('sys')
            self.plain_args(node, 0)
            return R(ctx)
        if d is None and isinstance(node.func, ast.Attribute) and isinstance(node.func.value, ast.Name) and node.func.value.id in info.mut \
                and info.mut_ty[node.func.value.id] == FILES:
            name = node.func.value.id
            if node.func.attr == 'append':
                a, = self.plain_args(node, 1)

                def after(v):
                    if v.ty != FILE:
                        raise U('append of a %s' % v.ty, st)
                    l = self.fresh()
                    return '(OutM.modL (fun %s => %s) >>= fun _ =>\n%s)' % (l, info.update(name, l, '%s ++ [%s]' % (atom(info.proj(name, l)), v.term)), R(ctx))
                return self.ev(a, ctx, after)
            if node.func.attr == 'sort':
                self.plain_args(node, 0, [x.arg for x in node.keywords])
                if [x.arg for x in node.keywords] not in ([], ['reverse']):
                    raise U('sort(key=…)', st)

                def after(v):
                    if v.ty != BOOL:
                        raise U('sort(reverse=<%s>)' % v.ty, st)
                    l = self.fresh()
                    return '(OutM.modL (fun %s => %s) >>= fun _ =>\n%s)' % (l, info.update(name, l, 'pySortNames %s %s' % (atom(v.term), atom(info.proj(name, l)))), R(ctx))
                if node.keywords:
                    return self.ev(node.keywords[0].value, ctx, after)
                return after(Val('false', BOOL))
        if d in INLINED or d == 'sectionFun':
            return self.call(node, ctx, lambda v: R(ctx))
        raise U('call statement %s' % (d or dotted(node.func) or '?'), st)

    def ret_stmt(self, st, ctx):
        kind = ctx.ret
        if kind == 'unit':
            if st.value is None or (isinstance(st.value, ast.Constant) and st.value.value is None):
                return 'pure (Ctl.ret ())'
            raise U('return of a value from a function that returns nothing', st)
        if st.value is None:
            raise U('bare return', st)
        if kind == 'bool':
            def after(v):
                if v.ty != BOOL:
                    raise U('return of a %s' % v.ty, st)
                return 'pure (Ctl.ret %s)' % atom(v.term)
            return self.ev(st.value, ctx, after)
        if not (isinstance(st.value, ast.Tuple) and len(st.value.elts) == 2):
            raise U('return value', st)

        def after(vs):
            a, b = vs
            if kind == 'rootfiles':
                if a.ty != ROOT or b.ty != FILES or b.x is not None:
                    raise U('getFileList must return <the walked directory>, <its list>', st)
                return 'pure (Ctl.ret %s)' % atom(b.term)
            if a.ty != TEXT or b.ty not in (TEXT, JV, DICT):
                raise U('return (%s, %s)' % (a.ty, b.ty), st)
            bj = b.term if b.ty == JV else '(J.obj %s)' % atom(b.term) if b.ty == DICT else '(J.str %s)' % atom(b.term)
            return 'pure (Ctl.ret (%s, %s))' % (a.term, bj)
        return self.ev_list(list(st.value.elts), ctx, after)

    def for_stmt(self, st, rest, ctx, top):
        if st.orelse:
            raise U('for … else', st)
        info = ctx.info
        if is_walk_idiom(st):
            self.mod.need_import('os')
            if 'os' in info.locals:
                raise U('local named os', st)
            body = self.strip(st.body)
            if not (len(body) == 2 and isinstance(body[0], ast.For) and not is_walk_idiom(body[0]) and isinstance(body[1], ast.Break)):
                raise U('the body of `for … in os.walk(…)` must be one loop over the files followed by `break`', st)
            tg = st.target
            if not (isinstance(tg, ast.Tuple) and len(tg.elts) == 3 and all(isinstance(e, ast.Name) for e in tg.elts)):
                raise U('os.walk target', st)
            names = [e.id for e in tg.elts]
            if len(set(names)) != 3 or any(n in info.mut for n in names):
                raise U('os.walk target names', st)
            p, = self.plain_args(st.iter, 1)

            def after(v):
                if v.ty != DIR:
                    raise U('os.walk(<%s>): only the path parameter' % v.ty, st)
                ident = self.fresh()
                ctx.locals[names[0]] = Val('()', ROOT, ident)
                ctx.locals[names[1]] = Val('()', NONE)
                ctx.locals[names[2]] = Val('d', FILES, ident)
                return self.blk([body[0]] + rest, ctx, top)
            return self.ev(p, ctx, after)
        if not isinstance(st.target, ast.Name) or st.target.id in info.mut:
            raise U('loop target', st)

        def after(v):
            if v.ty == FILES:
                ety, ex = FILE, v.x
            elif v.ty == LINES:
                ety, ex = TEXT, None
            elif v.ty == NATS:
                ety, ex = NAT, None
            else:
                raise U('loop over a %s' % v.ty, st)
            x = self.fresh()
            cb = ctx.copy()
            self.drop_streams(cb)
            cb.locals[st.target.id] = Val(x, ety, ex)
            body = self.blk(st.body, cb, False)
            cr = ctx.copy()
            self.drop_streams(cr)
            cr.locals.pop(st.target.id, None)
            return 'seqC (forEach %s (fun %s =>\n%s)) (\n%s)' % (atom(v.term), x, ind(body), ind(self.blk(rest, cr, top)))
        return self.ev(st.iter, ctx, after)

    # ------------------------------------------------------------------ functions
    def activation(self, name, args):
        """the body of function `name` with its parameters bound BY POSITION to `args` (Vals) -> (sigma, init, term)"""
        kinds, ret = SIGS[name]
        pnames, defaults = self.mod.params(name, len(kinds))
        if name != 'getFileList' and defaults:
            raise Untranslatable('%s has default arguments' % name)
        fdef = self.mod.fn(name)
        info = FnInfo(fdef)
        ctx = Ctx(info, ret)
        for pn, kd, a in zip(pnames, kinds, args):
            if pn in info.mut:
                raise U('parameter %s is mutated inside a loop / try' % pn, fdef)
            if kd == STREAMP:
                info.add_stream(pn, a.term)
                continue
            if a.ty != kd:
                raise U('argument of type %s for a %s parameter of %s' % (a.ty, kd, name), fdef)
            ctx.locals[pn] = a
        if len(set(pnames)) != len(pnames):
            raise U('repeated parameter', fdef)
        self.depth += 1
        if self.depth > 3:
            raise Untranslatable('inlining too deep')
        try:
            term = self.blk(fdef.body, ctx, True)
        finally:
            self.depth -= 1
        return info.sigma(), info.init(), term

    def inline(self, name, node, ctx, k):
        kinds, ret = SIGS[name]
        self.mod.need_def(name)
        args = self.plain_args(node, len(kinds))

        def after(vs):
            for v, kd in zip(vs, kinds):
                if v.ty != kd:
                    raise U('%s called with a %s where a %s is expected' % (name, v.ty, kd), node)
            sigma, init, term = self.activation(name, vs)
            r = self.fresh()
            rv = {'unit': Val('()', NONE), 'bool': Val(r, BOOL), 'textj': Val(r, SUMPAIR, (TEXT, JV))}[ret]
            return '((OutM.call (σ\' := %s) (ρ := %s) %s (\n%s)) >>= fun %s =>\n%s)' % (sigma, RET_LEAN[ret], init, ind(term), r, k(rv))
        return self.ev_list(args, ctx, after)


# ---------------------------------------------------------------------------------------------------------------------
# targets

def check_size(t):
    if len(t) > MAXTERM:
        raise Untranslatable('generated term too large')
    return t


def mode(mod, name, with_excl=False):
    m = Machine(mod)
    sigma, init, term = m.activation(name, [Val('d', DIR), Val('c', CONFIG)])
    if m.uses_excl != with_excl:
        raise Untranslatable('%s reads the exclude file' % name if m.uses_excl else '%s does not read the exclude file' % name)
    head = 'fun env c excl d' if with_excl else 'fun env c d'
    return check_size('%s => OutM.run (σ := %s) %s (\n%s)' % (head, sigma, init, ind(term)))


def t_getFileList(mod):
    m = Machine(mod)
    sigma, init, term = m.activation('getFileList', [Val('d', DIR), Val('ext', OPT), Val('rev', BOOL)])
    return check_size('fun d ext rev => OutM.value (σ := %s) %s (\n%s)' % (sigma, init, ind(term)))


def t_printHex(mod):
    m = Machine(mod)
    sigma, init, term = m.activation('printPELInHexFormat', [Val('data', BYTES)])
    if sigma != 'Unit':
        raise Untranslatable('printPELInHexFormat has mutable locals')
    return check_size('fun data =>\n%s' % ind(term))


def t_extract(mod):
    m = Machine(mod)
    sigma, init, term = m.activation('extractAndSummarizePEL', [Val('f', FPATH), Val('c', CONFIG)])
    if sigma != 'Unit':
        raise Untranslatable('extractAndSummarizePEL has mutable locals')
    return check_size('fun env c f =>\n%s' % ind(term))


def t_printFile(mod):
    m = Machine(mod)
    sigma, init, term = m.activation('parseAndPrintPELFile', [Val('f', FPATH), Val('c', CONFIG), Val('x', BOOL)])
    if sigma != 'Unit':
        raise Untranslatable('parseAndPrintPELFile has mutable locals')
    return check_size('fun env c f x =>\n%s' % ind(term))


def t_parsePELSummary(mod):
    m = Machine(mod)
    sigma, init, term = m.activation('parsePELSummary', [Val('b', STREAMP), Val('c', CONFIG)])
    return check_size('fun env c b => OutM.result (σ := %s) %s (\n%s)' % (sigma, init, ind(term)))


MODE_TY = 'Env → DirCfg → Dir → CliOut'
TARGETS = [
    ('getFileList', 'Dir → Option Text → Bool → List FileEntry', t_getFileList),
    ('parsePELSummary', 'Env → DirCfg → Bytes → PyRes (Text × J) × Text × Nat', t_parsePELSummary),
    ('printPELInHexFormat', 'Bytes → OutM Unit (Ctl Unit)', t_printHex),
    ('extractAndSummarizePEL', 'Env → DirCfg → FileEntry → OutM Unit (Ctl (Text × J))', t_extract),
    ('dirParseAndPrintPELFile', 'Env → DirCfg → FileEntry → Bool → OutM Unit (Ctl Bool)', t_printFile),
    ('listOption', MODE_TY, lambda mod: mode(mod, 'listOption')),
    ('extractAllPELsData', MODE_TY, lambda mod: mode(mod, 'extractAllPELsData')),
    ('printPELCount', MODE_TY, lambda mod: mode(mod, 'printPELCount')),
    ('parsePelFromID', MODE_TY, lambda mod: mode(mod, 'parsePelFromID')),
    ('parsePelFromBmcID', MODE_TY, lambda mod: mode(mod, 'parsePelFromBmcID')),
    ('parsePelFromPLID', MODE_TY, lambda mod: mode(mod, 'parsePelFromPLID')),
    ('parsePelFromSRCID', 'Env → DirCfg → Text → Dir → CliOut', lambda mod: mode(mod, 'parsePelFromSRCID', with_excl=True)),
]


def generate(repo, verif):
    gen = pytrans.GenFile(verif, 'GenDirModes', ['PelModel.TransDirModes'], 'modules/pel/peltool/peltool.py, modules/pel/hexdump.py')
    try:
        mod = Module(repo)
        err = None
    except (Untranslatable, SyntaxError, OSError) as e:
        mod, err = None, e

    forced = [x for x in os.environ.get('VERIF_DIRMODES_NONE', '').split(',') if x]   # self-test: these definitions become `none`

    def thunk(fn, name=None):
        def run():
            if name in forced:
                raise Untranslatable('withdrawn by the self-test (VERIF_DIRMODES_NONE)')
            if mod is None:
                raise Untranslatable('peltool.py: %s' % err)
            return fn(mod)
        return run
    for name, ty, fn in TARGETS:
        gen.emit(name, ty, thunk(fn, name))
    return gen


if __name__ == '__main__':
    import sys
    g = generate(os.environ.get('VERIF_REPO', '/repo'), os.path.dirname(os.path.dirname(os.path.abspath(__file__))))
    sys.stdout.write(g.render())
