"""C18 — parser modules are chosen by creator/component, fed the right data, contained."""
import importlib.abc
import json
import sys

import apel
import common
import iod
import jsonio
from c01 import compare
from common import Check, lean_batch, tb

TRUSTED = ['Lean 4.33.0 kernel (+ leanchecker in the thorough tier)',
           'axioms: propext, Classical.choice, Quot.sound only (audited per theorem)',
           'harness/c18.py + apel.py (fixture modules, import hook, comparison), Drv.lean protocol parsing',
           'compiled driver peldrv agrees with the kernel reading of the same definitions']
ASSUME = ['importlib / sys.modules are modelled as an environment: module name -> behaviour; a meta-path finder logs every import attempt on the real side',
          'fixture modules realise the behaviours echo / raise / return None / return fixed text; the shipped modules m2c00, oe500, osrc, ocallouts are exercised end to end',
          'the three I/O-drawer tables of m2c00 are loaded by the loaders of the model (C14/C15/C16) from the shipped file lines']
RULE = ('cases = PELs with UD / ED / SRC sections over creators x components x subtypes x versions, fixture parser modules of every behaviour, '
        'plugins on and off; m2c00 requests over subtypes 72/73/84/other x versions 1/2/other x payloads; non-trivial = a parser module '
        'is consulted; distinct by (environment, bytes)')
UD_FIX = {'\x801111': ('echo',), '\xff2222': ('raises', 'boom'), 'x5a5a': ('raises', ''), 'x7e7e': ('text', '{"n\u00e9": ["caf\u00e9 \U0001F600", "\u20ac"]}'), 'x6b6b': ('release_raises', 'done with the view'), 'x6c6c': ('release_none',), 'x1111': ('echo',), 'x2222': ('raises', 'boom'), 'x3333': ('none',), 'x8888': ('import_raises', 'load failure'), 'x0100': ('echo',), 'o0a00': ('echo',), 'y0a00': ('none',), 'y0001': ('echo',), 'o1234': ('echo',)}
SRC_FIX = {'xsrc': ('echo',), 'ysrc': ('raises',), 'zsrc': ('text', 'null'), 'wsrc': ('text', ''), 'o8d00': ('echo',), 'oab00': ('raises_import',), 'bsrc': ('echo',), 'vsrc': ('raises_import',)}
CO_FIX = {'x': ('table', {'PROC0001': ['line one', 'line "two"'], 'PROC0002': []}), 'y': ('raises',)}


class ImportLog(importlib.abc.MetaPathFinder):
    def __init__(self):
        self.names = []

    def find_spec(self, name, path, target=None):
        if name.split('.')[0] in ('udparsers', 'srcparsers', 'calloutparsers'):
            self.names.append(name)
        return None


def run(tier, seed):
    ck = Check('C18', tier, seed)
    ck.proof = common.build_and_audit('C18', thorough=(tier == 'thorough'))
    if not ck.proof['driver_ok']:
        return ck.finish(RULE, TRUSTED, ASSUME)
    rng = ck.rng
    thorough = tier == 'thorough'
    log = ImportLog()
    sys.meta_path.insert(0, log)
    try:
        for allow in (True, False):
            env = apel.PluginEnv(allow=allow, ud=UD_FIX, src=SRC_FIX, callout=CO_FIX).install()
            try:
                pels = []
                for _ in range(600 if thorough else 150):
                    p = apel.gen_pel(rng, max_sections=0)
                    cr = rng.choice('xxyzwOOB')
                    p['ph']['creator'] = ord(cr)
                    secs = []
                    for _ in range(rng.choice([1, 2, 4])):
                        k = rng.choice(['ud', 'ed', 'src', 'src'])
                        if k == 'src':
                            sec = {'kind': 'src', 'hdr': apel.gen_hdr(rng), 'primary': rng.random() < 0.5, 'src': apel.gen_src(rng)}
                            code = rng.choice([b'8D', b'8d', b'AB', b'ab', b'77'])
                            ty = rng.choice([b'BD', b'BC', b'11'])
                            sec['src']['ascii'] = (ty + b'12' + code + b'34').ljust(32, b' ')
                            sec['src']['wordCount'] = rng.choice([2, 5, 9, 9])
                            if sec['src']['callouts']:
                                for c in sec['src']['callouts']['callouts']:
                                    if c['fru']['flags'] & 0x0A and rng.random() < 0.7:
                                        c['fru']['pn'] = rng.choice([b'PROC0001', b'PROC0002', b'PROC0003', b'BMC0001\0'])
                        else:
                            sec = {'kind': k, 'hdr': apel.gen_hdr(rng), 'payload': apel.gen_payload(rng)[:300]}
                            sec['hdr']['comp'] = rng.choice([0x1111, 0x2222, 0x3333, 0x0001, 0x1234, 0x2000, 0x4444, 0x8888, 0x0100, 0x0A00, 0x5A5A, 0x6B6B, 0x6C6C, 0x7E7E])
                            if k == 'ed':
                                sec.update(creator=rng.choice([ord(c_) for c_ in 'xyOZ'] + [0x80, 0xFF]), resv1=0, resv2=0)
                                if sec['creator'] >= 0x80:
                                    sec['hdr']['comp'] = 0x1111 if sec['creator'] == 0x80 else 0x2222
                        secs.append(sec)
                    p['sections'] = secs
                    apel.fix_real_plugins(p)
                    pels.append(p)
                # designed: one log with a parser that answers in non-ASCII text, one that raises, one that returns nothing, and a well-behaved one after them
                p = apel.gen_pel(rng, max_sections=0)
                p['ph']['creator'] = ord('x')
                p['sections'] = [{'kind': 'ud', 'hdr': dict(apel.gen_hdr(rng), comp=c_), 'payload': b'payload'} for c_ in (0x7E7E, 0x2222, 0x3333, 0x1111)]
                pels.insert(0, p)
                # designed: parsers that raise WITHOUT arguments, that have released their view before failing / before answering nothing, that cannot be
                # imported -- each in a UD and in an ED section, a well-behaved one last
                p = apel.gen_pel(rng, max_sections=0)
                p['ph']['creator'] = ord('x')
                p['sections'] = [{'kind': 'ud', 'hdr': dict(apel.gen_hdr(rng), comp=c_), 'payload': b'payload'} for c_ in (0x5A5A, 0x6B6B, 0x6C6C, 0x8888)] + \
                                [{'kind': 'ed', 'hdr': dict(apel.gen_hdr(rng), comp=c_), 'payload': b'ed payload', 'creator': ord('x'), 'resv1': 0, 'resv2': 0} for c_ in (0x5A5A, 0x6B6B, 0x1111)]
                pels.insert(1, p)
                replies = lean_batch([env.tokens()] + ['pelspec %s %s x' % (apel.tok_cfg(), apel.tok_pel(p)) for p in pels])[1:]
                for p, r in zip(pels, replies):
                    data = r.bytes()
                    model = apel.dec_outcome(r)
                    spec = apel.dec_spec(r)
                    apel.reset_caches()
                    for k in [k for k in sys.modules if k.split('.')[0] in ('udparsers', 'srcparsers', 'calloutparsers') and k.count('.') >= 1 and 'ocallouts' not in k and 'osrc' not in k and 'm2c00' not in k and 'oe500' not in k]:
                        del sys.modules[k]
                    log.names.clear()
                    real = apel.real_decode(data, allow_plugins=allow)
                    attempted = set(log.names)
                    ck.case(key=(allow, data), sample={'plugins': allow, 'creator': chr(p['ph']['creator']), 'imports': sorted(attempted)[:4]})
                    ck.count('plugins=%s imports=%s' % (allow, 'some' if attempted else 'none'))
                    rp = {'op': 'parsePEL', 'plugins': allow, 'data_hex': data.hex(), 'imports': sorted(attempted)}
                    # --- which modules may be consulted
                    cr = chr(p['ph']['creator']).lower()
                    allowed = set()
                    for sec in p['sections']:
                        if sec['kind'] in ('ud', 'ed'):
                            c2 = chr(sec['creator']).lower() if sec['kind'] == 'ed' else cr
                            builtin = c2 == 'o' and sec['hdr']['comp'] == 0x2000
                            if not builtin:
                                n = c2 + '%04x' % sec['hdr']['comp']
                                allowed |= {'udparsers.' + n, 'udparsers.%s.%s' % (n, n)}
                        if sec['kind'] == 'src':
                            n = cr + 'src'
                            allowed |= {'srcparsers.' + n, 'srcparsers.%s.%s' % (n, n)}
                            if cr == 'o':
                                asc = sec['src']['ascii'].decode('latin1')
                                m = 'bsrc' if asc[:2] == 'BC' else 'o' + asc[4:6].lower() + '00'
                                allowed |= {'srcparsers.' + m, 'srcparsers.%s.%s' % (m, m)}
                            n = cr + 'callouts'
                            allowed |= {'calloutparsers.' + n, 'calloutparsers.%s.%s' % (n, n)}
                    if not allow and attempted:
                        ck.fail('a parser module was imported although plugins are disabled', rp, 'skip_plugins')
                    if allow and not attempted <= allowed:
                        ck.fail('a parser module other than the one named by creator/component was consulted', rp | {'unexpected': sorted(attempted - allowed)}, 'dispatch')
                    nonascii = allow and chr(p['ph']['creator']) == 'x' and any(s_['kind'] == 'ud' and s_['hdr']['comp'] == 0x7E7E for s_ in p['sections']) and ck.dist.get('forced: parser answering in non-ASCII text', 0) < 3
                    if nonascii:
                        ck.count('forced: parser answering in non-ASCII text')
                    compare(ck, p, data, real, model, spec, label='plugins', allow_plugins=allow, extra={'force_routes': nonascii},
                            env_kwargs=dict(allow=allow, ud=UD_FIX, src=SRC_FIX, callout=CO_FIX))
            finally:
                env.uninstall()
        # ---- the shipped I/O-drawer plugin
        m2 = __import__('udparsers.m2c00.m2c00', fromlist=['x'])
        from io_drawer import ilog as il, trace as tr, hlog
        reqs, drawers = [], []
        for i, (name, (hdr, sf)) in enumerate(iod.drawer_files().items()):
            # the three tables are loaded by the MODEL's loaders from the file lines
            reqs += ['deftblfile ' + iod.tok_lines(iod.file_lines(hdr)), 'defstrfile ' + iod.tok_lines(iod.file_lines(sf)),
                     'deffldfile ' + iod.tok_lines(iod.file_lines(hdr))]
            drawers.append((1 if name == 'mex' else 2, i, i, i))
        dtok = common.tlist(drawers, lambda d: '%d %d %d %d' % d)
        cases = []
        for _ in range(400 if thorough else 100):
            sub = rng.choice([72, 73, 84, 72, 73, 84, 0, 1, 255])
            ver = rng.choice([1, 2, 1, 2, 0, 3, 255])
            n = rng.choice([1, 8, 16, 31, 32, 64, 100])
            data = bytes(rng.choice([0, 0, rng.randrange(256)]) for _ in range(n))
            cases.append((sub, ver, data))
            reqs.append('m2c00 %s %d %d %s' % (dtok, sub, ver, tb(data)))
        rep = lean_batch(reqs)[len(reqs) - len(cases):]
        for (sub, ver, data), r in zip(cases, rep):
            try:
                real = jsonio.canon(json.loads(m2.parseUDToJson(sub, ver, memoryview(data)), object_pairs_hook=jsonio.pairs_hook))
            except Exception as e:  # noqa  -- "always returns a JSON object": whatever else happens is an outcome
                real = '<%s: %s>' % (type(e).__name__, str(e)[:100])
            ck.case(key=('m2c00', sub, ver, data), sample={'m2c00': [sub, ver, len(data)]})
            ck.count('m2c00 subtype %s version %s' % (sub if sub in (72, 73, 84) else 'other', ver if ver in (1, 2) else 'other'))
            rp = {'op': 'm2c00', 'subtype': sub, 'version': ver, 'data_hex': data.hex()}
            if not (isinstance(real, tuple) and real[0] == 'obj'):
                ck.fail('the I/O-drawer plugin did not return a JSON object', rp, 'm2c00_object')
            else:
                keys = [k for k, _ in real[1]]
                want = {72: 'History Log', 73: 'ILOG', 84: 'Trace'}.get(sub)
                if ver in (1, 2) and want and keys != [want]:
                    ck.fail('sub-type %d was not routed to the %s decoder' % (sub, want), rp | {'keys': keys}, 'm2c00_routing')
                if want is None and keys != ['Data']:
                    ck.fail('an unsupported sub-type was not hex-dumped', rp | {'keys': keys}, 'm2c00_unsupported')
                if want and ver not in (1, 2) and keys != ['Error', 'Data']:
                    ck.fail('an unknown drawer version was not reported with error + dump', rp | {'keys': keys}, 'm2c00_version')
            if not r.ok:
                ck.skip(r.raw[:30])
                continue
            model = jsonio.canon(jsonio.dec_j(r, pairs=True))
            if real != model:
                ck.disagree('udparsers.m2c00 differs from the model', rp | {'impl': str(real)[:300], 'model': str(model)[:300]})
    finally:
        sys.meta_path.remove(log)
    return ck.finish(RULE, TRUSTED, ASSUME)


def replay(path):
    rp = json.load(open(path))
    print(json.dumps(rp, indent=1)[:3000])
    return 0
