"""C09 — unreadable files in a PEL directory never disturb the output for the others."""
import json
import os
import shutil

import apel
import clirun
import toprun
import common
import pelbuild
from common import Check, lean_batch

TRUSTED = ['harness/toprun.py (worlds materialised as real trees, the real peltool.main() run end to end in-process with nothing replaced, recursive snapshots, comparison with the driver op runmain = Pel.runMain of PelModel/Top.lean)',
           'Lean 4.33.0 kernel (+ leanchecker in the thorough tier)',
           'axioms: propext, Classical.choice, Quot.sound only (audited per theorem)',
           'harness/c09.py + clirun.py + apel.py (directory generator, in-process CLI runs, comparison), Drv.lean protocol parsing',
           'compiled driver peldrv agrees with the kernel reading of the same definitions']
ASSUME = ['whole-command model: -o names the -p directory iff absent/empty or the same string; the -f file is not a top-level file of the -p directory; --json is composed in batch form (an output name equal to another input file name is outside the composition)',
          'unreadable in the sense of undecodable CONTENT; permission errors / dangling symlinks are not exercised (the sandbox runs as root)',
          'os.walk and sorting are modelled; the CLI is run in-process with a subprocess sample']
RULE = ('cases = (directory D of decodable PELs, junk set J: empty file, every kind of truncation, random bytes, bad section ids, the PCE-size '
        'witness, subdirectories containing valid PELs; mode in -l -a -n --plid --src -j, with and without --hex); each mode is run on D and '
        'on D+J; non-trivial = D and J both non-empty; distinct by (directory bytes, mode)')


def junk_files(rng, sample_pel):
    j = [('junk_empty', b''), ('junk_rand', bytes(rng.randrange(256) for _ in range(300))), ('junk_XX', b'XX' + bytes(13)),
         ('junk_PHonly', sample_pel[:8]), ('junk_cut47', sample_pel[:47]), ('junk_cut60', sample_pel[:60]),
         ('junk_uhid', sample_pel[:48] + b'ZZ' + sample_pel[50:])]
    for k in sorted(rng.sample(range(1, max(2, len(sample_pel))), min(6, max(1, len(sample_pel) - 1)))):
        j.append(('junk_prefix%d' % k, sample_pel[:k]))
    # cut exactly at a section boundary, and a few bytes past one (nothing of the next section's header is complete)
    off, bounds = 0, []
    while off + 4 <= len(sample_pel):
        ln = int.from_bytes(sample_pel[off + 2:off + 4], 'big')
        if ln < 8 or off + ln > len(sample_pel):
            break
        off += ln
        bounds.append(off)
    for b_ in bounds[1:-1][:4]:
        j.append(('junk_boundary%d' % b_, sample_pel[:b_]))
        j.append(('junk_boundary%d_plus' % b_, sample_pel[:b_ + rng.randrange(1, 8)]))
    # PCE identity whose size byte is below 24 (its diagnostic used to go to stdout)
    pce = b'PE' + bytes([20, 0]) + b'9105-22A' + b'SN0000000001'
    co = pelbuild.callout(subs=pelbuild.fru() + pce, loc=b'U78DA.ND1\0\0\0')
    j.append(('junk_pce', pelbuild.pel([pelbuild.UH(), pelbuild.SRC(callouts=co)], eid=0x0BADC0DE)))
    # JSON user data that is not UTF-8
    j.append(('junk_notutf8', pelbuild.pel([pelbuild.UH(), pelbuild.SRC(), pelbuild.UD(b'{"a": "\xff\xfe"}', sub=1)], eid=0x0BADC0E0)))
    rng.shuffle(j)
    return j[:rng.randrange(max(1, (2 * len(j)) // 3), len(j) + 1)]      # (most of the kinds in every directory)


def model_undecodable(env, junk):
    """{(kind, bytes): the model's mode of that kind produces a diagnostic for a directory holding just this file}"""
    modes = {'summary': 'list', 'full': 'all', 'headers': 'count'}
    reqs, keys = [env.tokens()], []
    for kind, mode in modes.items():
        reqs.append(clirun.model_req(mode, [], {'every': 1}))          # what the mode prints for a directory without files
        keys.append((kind, None))
    for _, b in junk:
        for kind, mode in modes.items():
            reqs.append(clirun.model_req(mode, [('f', b)], {'every': 1}))
            keys.append((kind, b))
    out, empty = {}, {}
    for k, r in zip(keys, lean_batch(reqs)[1:]):
        text = r.text()
        if k[1] is None:
            empty[k[0]] = text
        else:
            # undecodable for the mode = the model shows nothing for it (a diagnostic line, or only the "Failed to parse …" note of a header)
            out[k] = r.num() >= 1 or text == empty[k[0]]
    return out


def undecodable(kind, data):
    """is `data` a file that this kind of mode cannot decode? (summary modes stop at the primary SRC, count reads two headers)"""
    import io
    from contextlib import redirect_stderr, redirect_stdout
    from pel.peltool import peltool
    from pel.peltool.config import Config
    from pel.datastream import DataStream
    from collections import OrderedDict
    c = Config()
    c.every_pel = True
    st = DataStream(data, byte_order='big', is_signed=False)
    try:
        with redirect_stderr(io.StringIO()), redirect_stdout(io.StringIO()), common.deadline(common.call_limit()):
            if kind == 'summary':
                eid, _ = peltool.parsePELSummary(st, c)
                return not eid
            if kind == 'full':
                _, txt = peltool.parsePEL(st, c, False)
                return not txt
            out = OrderedDict()
            ok, ph = peltool.generatePH(st, out)
            if not ok:
                return True
            ok, _ = peltool.generateUH(st, ph.creatorID, out)
            return not ok
    except common.Hang:
        return True     # a file on which decoding never returns is certainly one "the mode cannot decode"
    except Exception:
        return True


DEEP = pelbuild.pel([pelbuild.UH(), pelbuild.SRC(), pelbuild.UD(b'[' * 1200 + b']' * 1200, sub=1)], eid=0x0BADC0DF)
KIND = {'list': 'summary', 'plid': 'summary', 'src': 'summary', 'listhex': 'summary', 'all': 'full', 'allhex': 'full', 'count': 'headers', 'json': 'full'}


def run(tier, seed):
    ck = Check('C09', tier, seed)
    ck.proof = common.build_and_audit('C09', thorough=(tier == 'thorough'))
    if not ck.proof['driver_ok']:
        return ck.finish(RULE, TRUSTED, ASSUME)
    rng = ck.rng
    thorough = tier == 'thorough'
    # fixture parser modules that raise / return nothing / fail while being imported: PELs that use them are decodable (error
    # note + dump) and sit in BOTH directories; whatever such a module does must not leak into the output for the others
    env = apel.PluginEnv(allow=True, ud={'x2222': ('raises', 'boom'), 'x3333': ('none',), 'x8888': ('import_raises', 'load failure'), 'x1111': ('echo',)}).install()
    paths = []
    try:
        reqs, meta = [env.tokens()], []
        for _ in range(60 if thorough else 14):
            d = clirun.keep_decodable(env, clirun.gen_wf_dir(rng, rng.choice([0, 1, 3, 6])))
            files = [(n, apel.enc_pel(p)) for n, p in d]
            # sorts first / in the middle: sections owned by fixture modules that raise, return nothing or cannot be imported
            trouble = pelbuild.pel([pelbuild.UH(), pelbuild.SRC(), pelbuild.UD(b'abc', sub=5, comp=0x2222), pelbuild.UD(b'abcd', sub=1, comp=0x3333),
                                    pelbuild.UD(b'z', sub=1, comp=0x8888), pelbuild.UD(b'\x01\x02', sub=5, comp=0x1111)],
                                   creator=b'x', eid=0x0A0A0000 + len(meta))
            if rng.random() < 0.7:
                files.append((rng.choice(['!first_trouble', 'mmm_trouble', '0000_trouble']), trouble))
            sample = files[0][1] if files else pelbuild.pel([pelbuild.UH()])
            junk = junk_files(rng, sample)
            clean = clirun.make_dir(files)
            dirty = clirun.make_dir(files + junk, subdirs={'archive': [('valid_in_subdir', sample)], 'sub2': {'deep': [('x', b'PH')]}})
            # "files that the mode cannot decode": the summary modes stop at the primary SRC, the count mode reads two headers
            dirs = {}
            verdict = model_undecodable(env, junk)
            for kind in ('summary', 'full', 'headers'):
                # which of the junk files this kind of mode cannot decode is the MODEL's verdict (the code under test is what is being judged)
                jk = [(n, b) for n, b in junk if verdict[(kind, b)]]
                dirs[kind] = (clirun.make_dir(files + jk, subdirs={'archive': [('valid_in_subdir', sample)], 'sub2': {'deep': [('x', b'PH')]}}), jk)
                paths.append(dirs[kind][0])
            paths += [clean, dirty]
            plid = '%08X' % (d[0][1]['ph']['plid'] if d else 0x1234)
            for mode, argv, mreq in [('list', ['-l'], ('list', {})), ('all', ['-a'], ('all', {})), ('count', ['-n'], ('count', {})),
                                     ('plid', ['--plid', plid], ('plid', {'arg': plid})), ('src', ['--src', 'B'], ('src', {'arg': 'B'})),
                                     ('listhex', ['-l', '-x'], ('list', {'hex_': True})), ('allhex', ['-a', '-x'], ('all', {'hex_': True}))]:
                cfg = {'every': 1} if rng.random() < 0.7 else {}
                dd, jj = dirs[KIND[mode]]
                order = clirun.walk_files(dd)
                byname = dict(files + jj)
                reqs.append(clirun.model_req(mreq[0], [(n, byname[n]) for n in order], cfg, **mreq[1]))
                meta.append((mode, argv, cfg, clean, dd, files, jj))
        replies = lean_batch(reqs)[1:]
        for (mode, argv, cfg, clean, dirty, files, junk), r in zip(meta, replies):
            a = clirun.run_main(['-p', clean] + clirun.cfg_argv(cfg) + argv)
            b = clirun.run_main(['-p', dirty] + clirun.cfg_argv(cfg) + argv)
            ck.case(key=(mode, tuple(files), tuple(junk)) if files and junk else None,
                    sample={'mode': mode, 'pels': len(files), 'junk': [n for n, _ in junk][:5]})
            ck.count('mode ' + mode)
            rp = {'op': 'cli', 'argv': clirun.cfg_argv(cfg) + argv, 'files': [(n, x.hex()) for n, x in files], 'junk': [(n, x.hex()) for n, x in junk]}
            if b[2] != 0:
                ck.fail('exit status is not 0 with junk files present', rp | {'exit': b[2], 'stderr': b[1][-300:]}, 'exit')
            if a[0] != b[0]:
                k = next((i for i in range(min(len(a[0]), len(b[0]))) if a[0][i] != b[0][i]), min(len(a[0]), len(b[0])))
                ck.fail('junk files changed what is printed for the other PELs', rp | {'at': k, 'clean': a[0][max(0, k - 80):k + 80], 'with_junk': b[0][max(0, k - 80):k + 80]}, 'interference')
            if mode in ('all', 'list', 'src') and files and rng.random() < 0.5:
                # a file whose decoding fails with an error of an unusual class: JSON user data nested deeper than the interpreter's recursion
                # limit (RecursionError).  The model has no recursion limit, so this pair is judged on the real runs alone.
                deep = clirun.make_dir(files + junk + [(rng.choice(['junk_deep', '0_junk_deep', 'zzz_junk_deep']), DEEP)], subdirs={'archive': [('valid_in_subdir', DEEP)]})
                paths.append(deep)
                if undecodable(KIND[mode], DEEP):
                    c = clirun.run_main(['-p', deep] + clirun.cfg_argv(cfg) + argv)
                    ck.count('mode %s with a file that raises RecursionError' % mode)
                    if c[2] != 0 or c[0] != a[0]:
                        ck.fail('a file whose decoding fails with a RecursionError changed the exit status or what is printed for the other PELs',
                                rp | {'exit': c[2], 'stdout': c[0][:200], 'stderr': c[1][-300:]}, 'interference_recursion')
            if 'hex' not in mode:
                try:
                    json.loads(b[0])
                except Exception as e:  # noqa
                    ck.fail('stdout is not one JSON document', rp | {'stdout': b[0][:300], 'error': repr(e)}, 'stdout_json')
            mo, me, mx = r.text(), r.num(), r.num()
            if mo != b[0] or mx != b[2]:
                ck.disagree('%s mode output differs from the model' % mode, rp | {'impl': b[0][:200], 'model': mo[:200]})
            elif clirun.diag_lines(b[1]) != me:
                ck.disagree('number of diagnostics on stderr differs from the model', rp | {'impl': clirun.diag_lines(b[1]), 'model': me, 'stderr': b[1][-400:]})
        # a truncated BMC log whose reference code goes to another bundled SRC parser of the SAME component, listed before / after a
        # good one (judged on the real runs alone: the bundled SRC parsers are outside the model)
        w_ = [0x00000055, 0x00000010, 0, 0, 0x20DA0002, 0x00010000, 0x12340001, 0]
        good_bd = pelbuild.pel([pelbuild.UH(comp=0xE500), pelbuild.SRC(asc=b'BD10E510', words=w_, comp=0xE500, sub=1), pelbuild.UD(bytes(range(32)), sub=0x99, comp=0xE500)], creator=b'O', eid=0x0C090001)
        other_bc = pelbuild.pel([pelbuild.UH(comp=0xE500), pelbuild.SRC(asc=b'BC10E510', words=w_, comp=0xE500, sub=1), pelbuild.UD(bytes(range(32)), sub=0x99, comp=0xE500)], creator=b'O', eid=0x0C090002)[:-9]
        alone = clirun.make_dir([('good_bd', good_bd)])
        paths.append(alone)
        for order_ in ([('good_bd', good_bd), ('trunc_bc', other_bc)], [('trunc_bc', other_bc), ('good_bd', good_bd)], [('0_trunc_bc', other_bc), ('good_bd', good_bd), ('z_trunc_bc', other_bc)]):
            both = clirun.make_dir(order_)
            paths.append(both)
            for argv in (['-a', '-E'], ['-a', '-x', '-E']):   # (the summary modes stop at the primary SRC: for them this file is decodable)
                apel.reset_caches()
                a = clirun.run_main(['-p', alone] + argv)
                apel.reset_caches()
                b = clirun.run_main(['-p', both] + argv)
                ck.case(key=('bundled-src', tuple(n for n, _ in order_), tuple(argv)))
                ck.count('truncated log of another bundled SRC parser next to a good one')
                if b[2] != 0 or a[0] != b[0]:
                    ck.fail('a truncated log changed what is printed for a good log that uses a bundled SRC parser of the same component',
                            {'op': 'cli', 'argv': argv, 'files': [('good_bd', good_bd.hex())], 'junk': [(n, x.hex()) for n, x in order_ if n != 'good_bd'], 'exit': b[2],
                             'clean': a[0][:400], 'with_junk': b[0][:400]}, 'interference_bundled')
        # the same pairs in interpreters that run with assertions disabled (`python -O`): truncated files must stay undecodable there
        for (mode, argv, cfg, clean, dirty, files, junk) in [m for m in meta if m[5] and m[6]][::(3 if thorough else 6)]:
            # (also: an undecodable file whose NAME is not valid UTF-8 -- what the diagnostic says about it must not end the run)
            try:
                with open(os.path.join(os.fsencode(dirty), b'junk_\xff\xfe_name'), 'wb') as f_:
                    f_.write(b'PHjunk with an odd name')
            except OSError:
                pass
            a = clirun.run_sub(['-p', clean] + clirun.cfg_argv(cfg) + argv, optimise=True)
            b = clirun.run_sub(['-p', dirty] + clirun.cfg_argv(cfg) + argv, optimise=True)
            ck.case(key=('-O', mode, tuple(files), tuple(junk)))
            ck.count('mode %s under python -O' % mode)
            rp = {'op': 'cli', 'optimise': True, 'argv': clirun.cfg_argv(cfg) + argv, 'files': [(n, x.hex()) for n, x in files], 'junk': [(n, x.hex()) for n, x in junk]}
            if b[2] != 0:
                ck.fail('under python -O the exit status is not 0 with junk files present', rp | {'exit': b[2], 'stderr': b[1][-300:]}, 'exit_O')
            if a[0] != b[0]:
                k = next((i for i in range(min(len(a[0]), len(b[0]))) if a[0][i] != b[0][i]), min(len(a[0]), len(b[0])))
                ck.fail('under python -O junk files changed what is printed for the other PELs', rp | {'at': k, 'clean': a[0][max(0, k - 80):k + 80], 'with_junk': b[0][max(0, k - 80):k + 80]}, 'interference_O')
        # -j: stdout stays empty, the same output files are created for the decodable PELs
        for (mode, argv, cfg, clean, dirty, files, junk) in meta[::7]:
            outs = []
            for src in (clean, dirs_full(meta, clean)):
                od = clirun.make_dir([])
                paths.append(od)
                res = clirun.run_main(['-p', src, '-j', '-o', od, '-E'])
                outs.append((res, clirun.snapshot(od)))
            ck.case(key=('json', tuple(files), tuple(junk)))
            ck.count('mode json')
            rp = {'op': 'cli', 'argv': ['-j', '-o', '<out>', '-E'], 'files': [(n, x.hex()) for n, x in files], 'junk': [(n, x.hex()) for n, x in junk]}
            if outs[0][1] != outs[1][1] or outs[1][0][0] != outs[0][0][0] or outs[1][0][2] != 0:
                ck.fail('junk files changed the result of --json', rp | {'clean': sorted(outs[0][1]), 'with_junk': sorted(outs[1][1]), 'stdout': outs[1][0][0][:200]}, 'json_interference')
    finally:
        env.uninstall()
        for p in paths:
            shutil.rmtree(p, ignore_errors=True)
    # the WHOLE command end to end on real trees vs Pel.runMain (PelModel/Top.lean), and the command-level properties on the real runs
    toprun.check_top(ck, tier, 'junk')
    return ck.finish(RULE, TRUSTED, ASSUME)


def dirs_full(meta, clean):
    for (mode, argv, cfg, c, dd, files, jj) in meta:
        if c == clean and mode == 'all':
            return dd
    return clean


def replay(path):
    rp = json.load(open(path))
    print(json.dumps(rp, indent=1)[:3000])
    return 0
