"""
Source-to-Lean translator for the functions of peltool.py that CHANGE files or whose result decides a removal
(stream `effects`, properties C11, C12).

Reads the CURRENT text of modules/pel/peltool/peltool.py
    deletePELFromPELId, deleteAllPELs, parseAndPrintPELFile, parseAndWriteOutput
with `ast` and writes lean/PelGen/GenEffects.lean: one computation of the effect monad `Eff.M` (PelModel/TransEffects.lean)
per function.  PelProps/TieC11.lean proves: without faults the regenerated functions are `deleteMode`, `deleteAllMode` and one
step of `jsonMode` (and, with the `-j` loop of `main()` that stream `peltool` regenerates, the whole `jsonMode`);
PelProps/TieC12.lean proves: under EVERY fault plan the I/O steps they perform are the event traces `cleanJsonTrace` /
`cleanFileTrace` of PelModel/Clean.lean, `parseAndPrintPELFile` is `printOne` + `printedOf`, and the `-f` branch is `fileBranch`.

Everything that decides behaviour comes from the AST: the ORDER of the statements (hence of the I/O steps), which statement is
inside which `with` / `try` / loop / `if` branch, the tests and their operators, where `continue` / `break` / `return` stand, which
exception class is caught and what the handler does, file modes, message texts, which value is handed to which callee.
A statement or expression that is not listed below makes the function `none` (TRANSLATION-UNAVAILABLE); nothing is skipped
silently except docstrings / bare string statements / `pass`.

=====================================================================================================================
TRUSTED TABLE: name maps and idioms (the only knowledge about the code that is hard-wired here)
=====================================================================================================================
Python values and types (the expression layer is `Translator` of harness/trans_peltool.py, see its table: literals, + on
strings, f-strings / % / format, == !=, len, `not`, `and` / `or`, os.path.join -> pathJoin, truth value of a str = non-empty);
added here:
    a in b / a not in b  (strings)                   -> isInfix a b / !(isInfix a b)
    os.path.basename(x)                              -> Eff.basename x           os.path.isfile(x) -> y.isFile x
    the function's parameters: str -> Text, bool -> Bool, `config` -> c : CliOpts with config.hex -> c.hex (any other use of
        `config` except as the 2nd argument of parsePEL is refused)
    locals -> fresh v<i> (`let v<i> : <type> := …`), loop variables, handles and exceptions -> fresh names: names never matter
Statements -> the monad (`y : Eff.Sys` = what the function can ask of the world: isFile, read, walk, the decoder environment)
    x = <pure expression>                            -> let
    print(t)                                         -> Eff.printOut t        (step `print`; stdout gets t and a newline)
    print(t, file=sys.stderr)                        -> Eff.diag t            (a diagnostic line; not a faultable step)
    sys.stdout.flush()                               -> Eff.flushStdout       (step `flushStdout`)
    os.remove(p)                                     -> Eff.osRemove p none   (step `removeIn`)
    os.remove(os.path.join(R, F)), R / F the root and the loop variable of the walk idiom below (also through a local that was
        assigned exactly that join)                  -> Eff.osRemove (pathJoin R F.name) (some F)    (the entry itself is gone)
    with open(p, 'rb') as fd: BODY                   -> Eff.withOpenR y p (fun fd => BODY)     x = fd.read() -> Eff.fdRead fd
    with open(p, "w") as out: BODY                   -> Eff.withOpenW p BODY  (steps `openOut` … `closeOut`; the file is closed
                                                        also when BODY raises)   out.writelines(<str>) -> Eff.writelinesStr
                                                        (one `write` step per character: a str is iterated by characters)
    try: BODY except Exception [as e]: HANDLER       -> Eff.tryExcept BODY Eff.Exc.isException (fun e => HANDLER); {e} in a message
                                                        -> y.excStr e.  A local that exists before the `try` must not be rebound in BODY
    x = DataStream(d, byte_order='big', is_signed=False), d = fd.read()   -> the bytes d (the model's reader is big-endian, unsigned)
    a, b = parsePEL(<that stream>, config, E)        -> Eff.pyParsePEL y c.cfg d E : (eid, json_string) | ("", "") | sys.exit(1) | raises
    x = processId(t)                                 -> Eff.pyProcessId t     (TieC10 ties `processId`; `sys.exit(<str>)` otherwise)
    printPELInHexFormat(d)                           -> Eff.printHex d        (the hex display, ONE `print` step; a failure inside it
                                                        reaches the caller as an exception)
    if T: A else: B, followed by REST                -> if T then A;REST else B;REST      (source order; REST is not repeated after a
                                                        branch that ends in return / continue / break)
    for R, _, FS in os.walk(D): BODY; break          -> BODY once, with R = D and FS = y.walk D (the non-directory entries of D in
                                                        os.walk order); D is an existing directory (`main` tests `os.path.isdir`);
                                                        BODY has no `continue` / `break` of this loop besides the final `break`
    for F in FS: BODY                                -> Eff.forEachS FS <state> (fun F s => BODY): `continue` / end of BODY ->
                                                        Eff.Loop.next, `break` -> Eff.Loop.brk; <state> = the locals BODY rebinds;
                                                        F used as a string is the entry's NAME (F.name)
    return e / end of the function                   -> Eff.Flow.ret e / the default: `()` for `-> None`, `false` for the bool
                                                        function (`None` is falsy; main() uses the result only as a truth value)
Names that must mean what the table says: `os`, `sys`, `DataStream` (from pel.datastream), `parsePEL`, `processId`,
`printPELInHexFormat` and the four targets are bound exactly once at module level by the expected import / def; `open`, `print`,
`len`, `Exception` are bound nowhere in the module; none of these is a parameter or local of the function.
"""
import ast

from pytrans import GenFile, Untranslatable, load_module_ast, find_def, strip_docstring, dotted
from trans_peltool import (Translator, Ctx, U, ind, atom, only_positional, module_bindings, require_bindings,
                           NAT, BOOL, TEXT, TEXT1)

ENTRIES, BYTES, STREAM, EXC, CFG, PAIR = 'entries', 'bytes', 'stream', 'exc', 'cfg', 'pair'
LEAN_TYPE = {NAT: 'Nat', BOOL: 'Bool', TEXT: 'Text', TEXT1: 'Text', BYTES: 'Bytes'}

MODULE_NAMES = dict({'sys': 'import sys', 'os': 'import os', 'DataStream': 'from pel.datastream import DataStream'},
                    **{f: 'def' for f in ['parsePEL', 'processId', 'printPELInHexFormat', 'deletePELFromPELId', 'deleteAllPELs',
                                          'parseAndPrintPELFile', 'parseAndWriteOutput']})
BUILTINS = ['open', 'print', 'len', 'Exception']
RESERVED = set(MODULE_NAMES) | set(BUILTINS)
MAXTERM = 200000


class ECtx(Ctx):
    def __init__(self, tr):
        super().__init__(tr)
        self.entries = {}      # python name -> (lean variable of the FileEntry, lean term of the walk root)
        self.rfds = {}         # python name of a file opened for reading -> lean variable (its content)
        self.wfd = None        # python name of THE file open for writing
        self.excs = {}         # python name -> lean variable of a caught exception
        self.joined = {}       # python name of a local that holds os.path.join(R, F) of the walk idiom -> lean variable of the entry F

    def copy(self):
        c = ECtx(self.tr)
        c.locals = dict(self.locals)
        c.objs = dict(self.objs)
        c.refined = dict(self.refined)
        c.entries = dict(self.entries)
        c.rfds = dict(self.rfds)
        c.wfd = self.wfd
        c.excs = dict(self.excs)
        c.joined = dict(self.joined)
        return c

    def unbind(self, name):
        """`name` is (re)bound to a plain value: whatever else it meant is forgotten"""
        self.joined.pop(name, None)
        self.entries.pop(name, None)
        self.rfds.pop(name, None)
        self.excs.pop(name, None)
        if self.wfd == name:
            self.wfd = None


class K:
    """how the statement list being translated ends"""

    def __init__(self, kind, names):
        self.kind = kind            # 'block' (function body, `with` body, `try` body, handler) | 'loop'
        self.names = names          # the locals handed on at the end (exports of a block / state of a loop)

    def state(self, ctx, node=None):
        vals = []
        for n in self.names:
            if n not in ctx.locals:
                raise U('the local %s is not defined at the end of the block' % n, node)
            vals.append(ctx.locals[n])
        return tuple_term([t for t, _ in vals]), [ty for _, ty in vals]

    def end(self, ctx, node=None):
        t, tys = self.state(ctx, node)
        self.check_types(tys, node)
        if self.kind == 'loop':
            return 'pure (Eff.Loop.next %s)' % atom(t)
        return 'pure (Eff.Flow.next %s)' % atom(t)

    def check_types(self, tys, node):
        tys = [TEXT if t == TEXT1 else t for t in tys]
        if getattr(self, 'types', None) is None:
            self.types = tys
        elif self.types != tys:
            raise U('a local changes its type inside a block', node)


def tuple_term(ts):
    if not ts:
        return '()'
    if len(ts) == 1:
        return ts[0]
    if len(ts) == 2:
        return '(%s, %s)' % (ts[0], ts[1])
    raise Untranslatable('more than two locals are rebound inside one block')


def assigned_names(stmts):
    """names bound anywhere inside `stmts`, in order of first binding (constructs that bind in other ways are refused)"""
    out = []

    def add(t):
        if isinstance(t, ast.Name):
            if t.id not in out:
                out.append(t.id)
        elif isinstance(t, (ast.Tuple, ast.List)):
            for e in t.elts:
                add(e)
        else:
            raise U('assignment target', t)

    def walk(sts):
        for st in sts:
            for n in ast.walk(st):
                if isinstance(n, (ast.FunctionDef, ast.AsyncFunctionDef, ast.ClassDef, ast.Lambda, ast.ListComp, ast.SetComp, ast.DictComp,
                                  ast.GeneratorExp, ast.Global, ast.Nonlocal, ast.Delete, ast.NamedExpr, ast.Import, ast.ImportFrom,
                                  ast.Yield, ast.YieldFrom, ast.Await, ast.While, ast.AugAssign)):
                    raise U('%s inside a translated function' % type(n).__name__, n)
            if isinstance(st, ast.Assign):
                for t in st.targets:
                    add(t)
            elif isinstance(st, ast.AnnAssign):
                add(st.target)
            elif isinstance(st, ast.For):
                add(st.target)
                walk(st.body)
                walk(st.orelse)
            elif isinstance(st, ast.If):
                walk(st.body)
                walk(st.orelse)
            elif isinstance(st, ast.With):
                for it in st.items:
                    if it.optional_vars is not None:
                        add(it.optional_vars)
                walk(st.body)
            elif isinstance(st, ast.Try):
                walk(st.body)
                for h in st.handlers:
                    if h.name and h.name not in out:
                        out.append(h.name)
                    walk(h.body)
                walk(st.orelse)
                walk(st.finalbody)
    walk(stmts)
    return out


def leaves(stmts):
    """syntactically: the statement list cannot be left through its end"""
    stmts = strip_docstring(stmts)
    if not stmts:
        return False
    last = stmts[-1]
    if isinstance(last, (ast.Return, ast.Continue, ast.Break)):
        return True
    if isinstance(last, ast.If) and last.orelse:
        return leaves(last.body) and leaves(last.orelse)
    return False


def loop_jumps(stmts):
    """`continue` / `break` statements that belong to the loop whose body is `stmts` (not to a loop nested in it)"""
    out = []
    for st in stmts:
        if isinstance(st, (ast.Continue, ast.Break)):
            out.append(st)
        elif isinstance(st, ast.If):
            out += loop_jumps(st.body) + loop_jumps(st.orelse)
        elif isinstance(st, ast.With):
            out += loop_jumps(st.body)
        elif isinstance(st, ast.Try):
            out += loop_jumps(st.body) + loop_jumps(st.orelse) + loop_jumps(st.finalbody)
            for h in st.handlers:
                out += loop_jumps(h.body)
    return out


class EffFn(Translator):
    def __init__(self, ret_type, cfg_name):
        super().__init__()
        self.ret_type = ret_type        # BOOL or None
        self.cfg_name = cfg_name
        self.nfd = 0
        self.ns = 0
        self.ne = 0

    def fresh_s(self):
        self.ns += 1
        return 's%d' % self.ns

    # ------------------------------------------------------------------ expressions
    def expr0(self, node, ctx):
        if isinstance(node, ast.Name):
            if node.id in ctx.excs:
                return ctx.excs[node.id], EXC
            if node.id in ctx.rfds or node.id == ctx.wfd:
                raise U('a file object used as a value', node)
            if node.id == self.cfg_name and node.id not in ctx.locals:
                raise U('`%s` used as a value' % node.id, node)
        return super().expr0(node, ctx)

    def attribute(self, node, ctx):
        if isinstance(node.value, ast.Name) and node.value.id == self.cfg_name and node.value.id not in ctx.locals:
            if node.attr == 'hex':
                return 'c.hex', BOOL
            raise U('Config member %s' % node.attr, node)
        return super().attribute(node, ctx)

    def text_value(self, node, ctx):
        t, ty = self.expr(node, ctx)
        if ty == EXC:
            return '(y.excStr %s)' % t, TEXT
        if not self.is_text(ty):
            raise U('a %s inside a message (only strings and caught exceptions are formatted)' % ty, node)
        return t, ty

    def compare(self, node, ctx):
        if len(node.ops) == 1 and isinstance(node.ops[0], (ast.In, ast.NotIn)):
            a, ta = self.expr(node.left, ctx)
            b, tb = self.expr(node.comparators[0], ctx)
            if not (self.is_text(ta) and self.is_text(tb)):
                raise U('`in` on %s, %s' % (ta, tb), node)
            t = '(isInfix %s %s)' % (atom(a), atom(b))
            return (t if isinstance(node.ops[0], ast.In) else '(!%s)' % t), BOOL
        return super().compare(node, ctx)

    def call_common(self, node, ctx):
        d = dotted(node.func)
        if d is not None and d.split('.')[0] in ('os', 'sys') and self.shadowed(d, ctx):
            raise U('%s is a local name here' % d.split('.')[0], node)
        if d == 'os.path.isfile':
            (x, tx), = [self.expr(a, ctx) for a in self.plain_args(node, 1)]
            if not self.is_text(tx):
                raise U('os.path.isfile of a %s' % tx, node)
            return '(y.isFile %s)' % atom(x), BOOL
        if d == 'os.path.isdir':
            raise U('os.path.isdir', node)
        if d == 'os.path.basename':
            (x, tx), = [self.expr(a, ctx) for a in self.plain_args(node, 1)]
            if not self.is_text(tx):
                raise U('os.path.basename of a %s' % tx, node)
            return '(Eff.basename %s)' % atom(x), TEXT
        return super().call_common(node, ctx)

    # ------------------------------------------------------------------ effectful calls
    def effect_stmt(self, call, ctx):
        """an expression statement that is an I/O operation -> term of type Eff.M Unit, or None"""
        f = call.func
        d = dotted(f)
        if d == 'print' and 'print' not in ctx.locals:
            kw = {k.arg: k.value for k in call.keywords}
            if len(call.args) != 1 or any(isinstance(a, ast.Starred) for a in call.args) or None in kw or set(kw) - {'file'}:
                raise U('print with other arguments than one value and `file=`', call)
            t, _ = self.text_value(call.args[0], ctx)
            if 'file' in kw:
                if dotted(kw['file']) == 'sys.stderr' and 'sys' not in ctx.locals:
                    return 'Eff.diag %s' % atom(t)
                if dotted(kw['file']) == 'sys.stdout' and 'sys' not in ctx.locals:
                    return 'Eff.printOut %s' % atom(t)
                raise U('print to a file other than sys.stderr / sys.stdout', call)
            return 'Eff.printOut %s' % atom(t)
        if d == 'sys.stdout.flush' and 'sys' not in ctx.locals:
            self.plain_args(call, 0)
            return 'Eff.flushStdout'
        if d == 'os.remove' and 'os' not in ctx.locals:
            a, = self.plain_args(call, 1)
            x, tx = self.expr(a, ctx)
            if not self.is_text(tx):
                raise U('os.remove of a %s' % tx, call)
            v = self.joined_entry(a, ctx)
            entry = 'none' if v is None else '(some %s)' % v
            return 'Eff.osRemove %s %s' % (atom(x), entry)
        if d == 'printPELInHexFormat' and d not in ctx.locals:
            a, = self.plain_args(call, 1)
            x, tx = self.expr(a, ctx)
            if tx != BYTES:
                raise U('printPELInHexFormat of a %s (expected: the bytes read from the file)' % tx, call)
            return 'Eff.printHex %s' % atom(x)
        if isinstance(f, ast.Attribute) and isinstance(f.value, ast.Name) and f.attr == 'writelines':
            if ctx.wfd is None or f.value.id != ctx.wfd:
                raise U('writelines on something that is not the file opened for writing by the enclosing `with`', call)
            a, = self.plain_args(call, 1)
            x, tx = self.expr(a, ctx)
            if not self.is_text(tx):
                raise U('writelines of a %s (only a str, written character by character, is known)' % tx, call)
            return 'Eff.writelinesStr %s' % atom(x)
        return None

    def joined_entry(self, a, ctx):
        """`os.path.join(R, F)` with R the root and F the loop variable of the walk idiom (or a local that holds it) -> lean variable of F"""
        if isinstance(a, ast.Name) and a.id in ctx.joined:
            return ctx.joined[a.id]
        if isinstance(a, ast.Call) and dotted(a.func) == 'os.path.join' and 'os' not in ctx.locals and not a.keywords and \
                len(a.args) == 2 and isinstance(a.args[1], ast.Name) and a.args[1].id in ctx.entries:
            v, root = ctx.entries[a.args[1].id]
            r, tr_ = self.expr(a.args[0], ctx)
            if self.is_text(tr_) and r == root:
                return v
        return None

    def effect_value(self, val, ctx):
        """right-hand side that is an effectful call -> (term : Eff.M τ, type of the value) or None"""
        if not isinstance(val, ast.Call):
            return None
        f = val.func
        d = dotted(f)
        if d == 'processId' and d not in ctx.locals:
            a, = self.plain_args(val, 1)
            x, tx = self.expr(a, ctx)
            if not self.is_text(tx):
                raise U('processId of a %s' % tx, val)
            return 'Eff.pyProcessId %s' % atom(x), TEXT
        if d == 'parsePEL' and d not in ctx.locals:
            s_, c_, e_ = self.plain_args(val, 3)
            x = self.data_stream(s_, ctx)
            if x is None:
                x, tx = self.expr(s_, ctx)
                if tx != STREAM:
                    raise U("parsePEL on something that is not DataStream(<file content>, byte_order='big', is_signed=False)", val)
            if not (isinstance(c_, ast.Name) and c_.id == self.cfg_name and c_.id not in ctx.locals):
                raise U('parsePEL is called with something other than the `config` parameter', val)
            e, te = self.expr(e_, ctx)
            if te != BOOL:
                raise U('exit_on_error argument of type %s' % te, val)
            return 'Eff.pyParsePEL y c.cfg %s %s' % (atom(x), atom(e)), PAIR
        if isinstance(f, ast.Attribute) and isinstance(f.value, ast.Name) and f.attr == 'read' and f.value.id in ctx.rfds:
            self.plain_args(val, 0)
            return 'Eff.fdRead %s' % ctx.rfds[f.value.id], BYTES
        return None

    def data_stream(self, val, ctx):
        """DataStream(d, byte_order='big', is_signed=False) -> term of d"""
        if not (isinstance(val, ast.Call) and dotted(val.func) == 'DataStream' and 'DataStream' not in ctx.locals):
            return None
        kw = {k.arg: k.value for k in val.keywords}
        if len(val.args) != 1 or isinstance(val.args[0], ast.Starred) or set(kw) != {'byte_order', 'is_signed'}:
            raise U('DataStream arguments', val)
        bo, sg = kw['byte_order'], kw['is_signed']
        if not (isinstance(bo, ast.Constant) and bo.value == 'big' and isinstance(sg, ast.Constant) and sg.value is False):
            raise U("DataStream is not constructed with byte_order='big', is_signed=False", val)
        x, tx = self.expr(val.args[0], ctx)
        if tx != BYTES:
            raise U('DataStream over a %s (expected: the bytes read from the file)' % tx, val)
        return x

    # ------------------------------------------------------------------ statements
    def bind_plain(self, ctx, name, term, ty):
        ctx.unbind(name)
        ctx.locals[name] = (term, ty)

    def block(self, stmts, ctx, k):
        stmts = strip_docstring(stmts)
        if not stmts:
            return k.end(ctx)
        st, rest = stmts[0], stmts[1:]
        out = self.stmt(st, rest, ctx, k)
        if len(out) > MAXTERM:
            raise U('the translation grows too large', st)
        return out

    def stmt(self, st, rest, ctx, k):
        if isinstance(st, ast.Return):
            if rest:
                raise U('statements after return', rest[0])
            if k.kind != 'block':
                raise U('return inside a loop', st)
            if st.value is None or (isinstance(st.value, ast.Constant) and st.value.value is None):
                if self.ret_type is not None:
                    raise U('return without a value', st)
                return 'pure (Eff.Flow.ret ())'
            if self.ret_type is None:
                raise U('return of a value from a function that returns None', st)
            t, ty = self.expr(st.value, ctx)
            if ty != self.ret_type:
                raise U('return of a %s where a %s is expected' % (ty, self.ret_type), st)
            return 'pure (Eff.Flow.ret %s)' % atom(t)
        if isinstance(st, (ast.Continue, ast.Break)):
            if rest:
                raise U('statements after continue / break', rest[0])
            if k.kind != 'loop':
                raise U('continue / break outside the body of a translated loop (or inside a `with` / `try` in it)', st)
            t, tys = k.state(ctx, st)
            k.check_types(tys, st)
            return 'pure (Eff.Loop.%s %s)' % ('next' if isinstance(st, ast.Continue) else 'brk', atom(t))
        if isinstance(st, ast.Expr) and isinstance(st.value, ast.Call):
            eff = self.effect_stmt(st.value, ctx)
            if eff is None:
                raise U('call of %s as a statement' % (dotted(st.value.func) or '?'), st)
            return '(%s >>= fun _ =>\n%s)' % (eff, self.block(rest, ctx, k))
        if isinstance(st, (ast.Assign, ast.AnnAssign)):
            return self.assign(st, rest, ctx, k)
        if isinstance(st, ast.If):
            cond = self.truth(st.test, ctx)
            a = self.block(list(st.body) + ([] if leaves(st.body) else list(rest)), ctx.copy(), k)
            b = self.block(list(st.orelse) + ([] if leaves(st.orelse) else list(rest)), ctx.copy(), k)
            if leaves(st.body) and leaves(st.orelse) and rest:
                raise U('statements after an `if` that always leaves', rest[0])
            return '(if %s then\n%s\nelse\n%s)' % (cond, ind(a), ind(b))
        if isinstance(st, ast.For):
            return self.for_stmt(st, rest, ctx, k)
        if isinstance(st, ast.With):
            return self.with_stmt(st, rest, ctx, k)
        if isinstance(st, ast.Try):
            return self.try_stmt(st, rest, ctx, k)
        raise U('statement %s' % type(st).__name__, st)

    def assign(self, st, rest, ctx, k):
        if isinstance(st, ast.AnnAssign):
            if st.value is None or not st.simple:
                raise U('annotated assignment', st)
            targets, val = [st.target], st.value
        else:
            targets, val = st.targets, st.value
        if len(targets) != 1:
            raise U('chained assignment', st)
        tgt = targets[0]
        c2 = ctx.copy()
        eff = self.effect_value(val, ctx)
        if isinstance(tgt, ast.Tuple):
            if eff is None or eff[1] != PAIR or len(tgt.elts) != 2 or not all(isinstance(e, ast.Name) for e in tgt.elts):
                raise U('tuple assignment other than `a, b = parsePEL(…)`', st)
            v = self.fresh()
            a, b = tgt.elts
            self.bind_plain(c2, a.id, '%s.1' % v, TEXT)
            self.bind_plain(c2, b.id, '%s.2' % v, TEXT)       # (same name twice: the second wins, as in Python)
            return '(%s >>= fun %s =>\n%s)' % (eff[0], v, self.block(rest, c2, k))
        if not isinstance(tgt, ast.Name):
            raise U('assignment target', st)
        if tgt.id in RESERVED or tgt.id == self.cfg_name:
            raise U('the name %s is rebound' % tgt.id, st)
        if eff is not None:
            if eff[1] == PAIR:
                raise U('the result of parsePEL must be unpacked into two names', st)
            v = self.fresh()
            self.bind_plain(c2, tgt.id, v, eff[1])
            return '(%s >>= fun %s =>\n%s)' % (eff[0], v, self.block(rest, c2, k))
        ds = self.data_stream(val, ctx)
        if ds is not None:
            self.bind_plain(c2, tgt.id, ds, STREAM)
            return self.block(rest, c2, k)
        t, ty = self.expr(val, ctx)
        if ty not in LEAN_TYPE:
            raise U('assignment of a %s' % ty, st)
        je = self.joined_entry(val, ctx)
        if all(ch.isalnum() or ch in '._' for ch in t) and not t[0].isdigit():
            self.bind_plain(c2, tgt.id, t, ty)            # another name for a variable / a constant: no `let`
            if je is not None:
                c2.joined[tgt.id] = je
            return self.block(rest, c2, k)
        v = self.fresh()
        self.bind_plain(c2, tgt.id, v, ty)
        if je is not None:
            c2.joined[tgt.id] = je
        return 'let %s : %s := %s;\n%s' % (v, LEAN_TYPE[ty], t, self.block(rest, c2, k))

    def exports(self, stmts, ctx, extra_bound=()):
        """locals that exist before the block and are rebound inside it"""
        names = [n for n in assigned_names(stmts) if n in ctx.locals and n not in extra_bound]
        for n in names:
            if ctx.locals[n][1] not in LEAN_TYPE:
                raise U('the local %s (a %s) is rebound inside a block' % (n, ctx.locals[n][1]))
        return names

    def after_block(self, names, ctx, k_inner, rest, k):
        """`fun s => REST` where the exported names denote the components of s"""
        c2 = ctx.copy()
        if not names:
            return '(fun (_ : Unit) =>\n%s)' % self.block(rest, c2, k)
        s = self.fresh_s()
        tys = k_inner.types or [TEXT if ctx.locals[n][1] == TEXT1 else ctx.locals[n][1] for n in names]
        comps = [s] if len(names) == 1 else ['%s.1' % s, '%s.2' % s]
        for n, cterm, ty in zip(names, comps, tys):
            self.bind_plain(c2, n, cterm, ty)
        sty = ' × '.join(LEAN_TYPE[ty] for ty in tys)
        return '(fun (%s : %s) =>\n%s)' % (s, sty, self.block(rest, c2, k))

    def for_stmt(self, st, rest, ctx, k):
        if st.orelse:
            raise U('for … else', st)
        body = strip_docstring(st.body)
        # --- the walk idiom
        if isinstance(st.iter, ast.Call) and dotted(st.iter.func) == 'os.walk':
            if 'os' in ctx.locals:
                raise U('os is a local name here', st)
            a, = self.plain_args(st.iter, 1)
            d, td = self.expr(a, ctx)
            if not self.is_text(td):
                raise U('os.walk of a %s' % td, st)
            tg = st.target
            if not (isinstance(tg, ast.Tuple) and len(tg.elts) == 3 and all(isinstance(e, ast.Name) for e in tg.elts)
                    and len({e.id for e in tg.elts}) == 3):
                raise U('os.walk loop target other than three distinct names', st)
            if not body or not isinstance(body[-1], ast.Break):
                raise U('an os.walk loop that does not end with `break` (only the top level of a directory is modelled)', st)
            if loop_jumps(body[:-1]):
                raise U('continue / break of the os.walk loop other than the final break', st)
            r, ds_, fs = [e.id for e in tg.elts]
            for n in (r, ds_, fs):
                if n in RESERVED or n == self.cfg_name:
                    raise U('the name %s is rebound' % n, st)
            c2 = ctx.copy()
            self.bind_plain(c2, ds_, '(unused)', 'dirs')
            self.bind_plain(c2, r, d, TEXT)
            self.bind_plain(c2, fs, '(y.walk %s)' % atom(d), ENTRIES)
            c2.objs[fs] = d                     # the root term of these entries
            return self.block(body[:-1] + list(rest), c2, k)
        # --- a loop over the entries of a walk
        if not (isinstance(st.iter, ast.Name) and st.iter.id in ctx.locals and ctx.locals[st.iter.id][1] == ENTRIES):
            raise U('a loop over something other than the file list of os.walk', st)
        if not isinstance(st.target, ast.Name):
            raise U('loop target', st)
        if st.target.id in RESERVED or st.target.id == self.cfg_name:
            raise U('the name %s is rebound' % st.target.id, st)
        it = ctx.locals[st.iter.id][0]
        root = ctx.objs[st.iter.id]
        if any(isinstance(n, ast.Return) for s_ in body for n in ast.walk(s_)):
            raise U('return inside a loop', st)
        names = self.exports(body, ctx, extra_bound=(st.target.id,))
        if st.iter.id in names or st.target.id in assigned_names(body):
            raise U('the loop rebinds its own list / variable', st)
        v = self.fresh()
        s = self.fresh_s()
        c2 = ctx.copy()
        self.bind_plain(c2, st.target.id, '%s.name' % v, TEXT)
        c2.entries[st.target.id] = (v, root)
        comps = [] if not names else ([s] if len(names) == 1 else ['%s.1' % s, '%s.2' % s])
        tys0 = [ctx.locals[n][1] for n in names]
        for n, cterm, ty in zip(names, comps, tys0):
            self.bind_plain(c2, n, cterm, TEXT if ty == TEXT1 else ty)
        kl = K('loop', names)
        kl.types = [TEXT if t == TEXT1 else t for t in tys0]
        b = self.block(body, c2, kl)
        init = tuple_term([ctx.locals[n][0] for n in names])
        sbind = s if names else '(%s : Unit)' % s
        cont = self.after_block(names, ctx, kl, rest, k)
        assert cont.startswith('(fun') and cont.endswith(')')
        return '(Eff.forEachS %s %s (fun %s %s =>\n%s) >>= %s)' % (atom(it), atom(init), v, sbind, ind(b), cont[1:-1])

    def with_stmt(self, st, rest, ctx, k):
        if len(st.items) != 1:
            raise U('`with` with several items', st)
        item = st.items[0]
        call = item.context_expr
        if not (isinstance(call, ast.Call) and dotted(call.func) == 'open' and 'open' not in ctx.locals):
            raise U('`with` on something other than open(…)', st)
        if not isinstance(item.optional_vars, ast.Name):
            raise U('`with open(…)` without `as <name>`', st)
        name = item.optional_vars.id
        if name in RESERVED or name == self.cfg_name:
            raise U('the name %s is rebound' % name, st)
        p_, m_ = self.plain_args(call, 2)
        if not (isinstance(m_, ast.Constant) and isinstance(m_.value, str)):
            raise U('open mode', st)
        p, tp = self.expr(p_, ctx)
        if not self.is_text(tp):
            raise U('open of a %s' % tp, st)
        body = strip_docstring(st.body)
        if loop_jumps(body):
            raise U('continue / break inside a `with`', st)
        names = self.exports(body, ctx, extra_bound=(name,))
        if name in assigned_names(body):
            raise U('the file object is rebound', st)
        kb = K('block', names)
        c2 = ctx.copy()
        c2.unbind(name)
        c2.locals.pop(name, None)
        if m_.value == 'rb':
            self.nfd += 1
            fd = 'fd%d' % self.nfd
            c2.rfds[name] = fd
            b = self.block(body, c2, kb)
            head = 'Eff.withOpenR y %s (fun %s =>\n%s)' % (atom(p), fd, ind(b))
        elif m_.value == 'w':
            if ctx.wfd is not None:
                raise U('a second file opened for writing', st)
            c2.wfd = name
            b = self.block(body, c2, kb)
            head = 'Eff.withOpenW %s (\n%s)' % (atom(p), ind(b))
        else:
            raise U('open mode %r' % m_.value, st)
        return 'Eff.thenF (%s)\n%s' % (head, self.after_block(names, ctx, kb, rest, k))

    def try_stmt(self, st, rest, ctx, k):
        if st.orelse or st.finalbody or len(st.handlers) != 1:
            raise U('try with else / finally / several handlers', st)
        hd = st.handlers[0]
        if not (isinstance(hd.type, ast.Name) and hd.type.id == 'Exception' and 'Exception' not in ctx.locals):
            raise U('an exception handler other than `except Exception`', st)
        if hd.name is not None and (hd.name in RESERVED or hd.name == self.cfg_name):
            raise U('the name %s is rebound' % hd.name, st)
        body, hbody = strip_docstring(st.body), strip_docstring(hd.body)
        if loop_jumps(body) or loop_jumps(hbody):
            raise U('continue / break inside a `try`', st)
        if self.exports(body, ctx) or self.exports(hbody, ctx, extra_bound=(hd.name,) if hd.name else ()):
            raise U('a local that exists before the `try` is rebound inside it (its value after an exception is not tracked)', st)
        kb = K('block', [])
        b = self.block(body, ctx.copy(), kb)
        self.ne += 1
        e = 'e%d' % self.ne
        c2 = ctx.copy()
        if hd.name is not None:
            c2.unbind(hd.name)
            c2.locals.pop(hd.name, None)
            c2.excs[hd.name] = e
        hb = self.block(hbody, c2, kb)
        head = 'Eff.tryExcept (\n%s)\n  Eff.Exc.isException\n  (fun %s =>\n%s)' % (ind(b), e, ind(hb, 4))
        return 'Eff.thenF (%s)\n%s' % (head, self.after_block([], ctx, kb, rest, k))


# ------------------------------------------------------------------------------------------------------------------

def check_module(tree):
    require_bindings(tree, 'peltool.py', MODULE_NAMES)
    b = module_bindings(tree)
    for n in BUILTINS:
        if n in b:
            raise Untranslatable('peltool.py binds the builtin name %s (%s)' % (n, ', '.join(b[n])))


def gen_function(tree, name, params, ret_type):
    """params: list of types (TEXT / BOOL / CFG) in positional order"""
    check_module(tree)
    fn = find_def(tree, name)
    pnames = only_positional(fn, len(params))
    if len(set(pnames)) != len(pnames):
        raise U('duplicate parameter names', fn)
    cfg = None
    for n, ty in zip(pnames, params):
        if ty == CFG:
            cfg = n
    tr = EffFn(ret_type, cfg)
    ctx = ECtx(tr)
    lean_params = []
    i = 0
    for n, ty in zip(pnames, params):
        if n in RESERVED:
            raise U('a parameter is called %s' % n, fn)
        if ty == CFG:
            lean_params.append('c')
            continue
        i += 1
        ctx.locals[n] = ('a%d' % i, ty)
        lean_params.append('a%d' % i)
    body = strip_docstring(fn.body)
    for n in assigned_names(body):
        if n in RESERVED or n == cfg:
            raise U('the name %s is rebound inside %s' % (n, name), fn)
    k = K('block', [])
    term = tr.block(body, ctx, k)
    dflt = '()' if ret_type is None else 'false'
    return 'fun y %s =>\nEff.runFn (\n%s) %s' % (' '.join(lean_params), term, dflt)


def generate(repo, verif):
    gf = GenFile(verif, 'GenEffects', ['PelModel.TransEffects'], 'modules/pel/peltool/peltool.py: the functions that change files')
    cache = {}

    def tree():
        if 't' not in cache:
            try:
                cache['t'] = load_module_ast(repo, 'pel/peltool/peltool.py')
            except (OSError, SyntaxError) as e:
                cache['t'] = Untranslatable('peltool.py cannot be parsed: %s' % e)
        if isinstance(cache['t'], Untranslatable):
            raise cache['t']
        return cache['t']

    gf.emit('deletePELFromPELId', 'Eff.Sys → Text → Text → Eff.M Unit',
            lambda: gen_function(tree(), 'deletePELFromPELId', [TEXT, TEXT], None))
    gf.emit('deleteAllPELs', 'Eff.Sys → Text → Eff.M Unit',
            lambda: gen_function(tree(), 'deleteAllPELs', [TEXT], None))
    gf.emit('parseAndPrintPELFile', 'Eff.Sys → Text → CliOpts → Bool → Eff.M Bool',
            lambda: gen_function(tree(), 'parseAndPrintPELFile', [TEXT, CFG, BOOL], BOOL))
    gf.emit('parseAndWriteOutput', 'Eff.Sys → Text → Text → CliOpts → Bool → Eff.M Unit',
            lambda: gen_function(tree(), 'parseAndWriteOutput', [TEXT, TEXT, CFG, BOOL], None))
    return gf


if __name__ == '__main__':
    import os
    import sys
    g = generate(os.environ.get('VERIF_REPO', '/repo'), os.path.dirname(os.path.dirname(os.path.abspath(__file__))))
    sys.stdout.write(g.render())
