"""
Hardware-diagnostics decoders in THIS interpreter (started by C20 as `python -O …`: assertions disabled):
    python -O -B opthw.py <chip data directory>      requests on stdin, one JSON list per line:
    ["sig", wordA, wordB, wordC] -> ParserData().get_signature(...)      ["ud", subtype, data hex] -> udparsers.oe500 parseUDToJson(subtype, 1, data)
    ["src", refcode, a, b, c] -> srcparsers.oe500 parseSRCToJson
one JSON line per request: the result, or ["<raises>", exception class].
"""
import json
import os
import sys

sys.dont_write_bytecode = True
sys.path.insert(0, os.path.join(os.environ.get('VERIF_REPO', '/repo'), 'modules'))


def main():
    import pel.hwdiags.data as hwdata
    hwdata.__file__ = os.path.join(sys.argv[1], '__init__.py')
    from pel.hwdiags.parserdata import ParserData
    ud = __import__('udparsers.oe500.oe500', fromlist=['x'])
    sp = __import__('srcparsers.oe500.oe500', fromlist=['x'])
    for line in sys.stdin:
        line = line.strip()
        if not line:
            continue
        req = json.loads(line)
        try:
            if req[0] == 'sig':
                out = ParserData().get_signature(req[1], req[2], req[3])
            elif req[0] == 'ud':
                out = json.loads(ud.parseUDToJson(req[1], 1, memoryview(bytes.fromhex(req[2]))))
            else:
                out = json.loads(sp.parseSRCToJson(req[1], '0', '0', '0', '0', req[2], req[3], req[4], '0'))
        except BaseException as e:  # noqa
            out = ['<raises>', type(e).__name__]
        sys.stdout.write(json.dumps(out) + '\n')
        sys.stdout.flush()


main()
