"""
A separate interpreter WITH this run's fixture parser modules: started by the checks as
    python [-O] -B freshrun.py <json: PluginEnv keyword arguments> <peltool argument>...
installs the environment (apel.PluginEnv), runs the real `peltool.main()` with the given command line and leaves with its exit status.
stdout / stderr are the process's own (so their encoding is whatever PYTHONIOENCODING / the locale says).
"""
import json
import os
import sys

sys.dont_write_bytecode = True
sys.path.insert(0, os.path.dirname(os.path.abspath(__file__)))
import apel  # noqa: E402  (puts the repository's modules on the path)


def main():
    kw = json.loads(sys.argv[1])
    for k in ('ud', 'src', 'callout'):
        if kw.get(k):
            kw[k] = {n: tuple(v) for n, v in kw[k].items()}
    env = apel.PluginEnv(**kw).install()
    code = 0
    try:
        from pel.peltool import peltool
        sys.argv = ['peltool.py'] + sys.argv[2:]
        try:
            peltool.main()
        except SystemExit as e:
            code = e.code if isinstance(e.code, int) else (0 if e.code is None else (sys.stderr.write(str(e.code) + '\n') or 1))
    finally:
        try:
            sys.stdout.flush()
        except Exception:  # noqa
            pass
        env.uninstall()
    sys.exit(code)


main()
