"""Running the real peltool CLI on generated directories, and the matching model requests."""
import hashlib
import io
import os
import shutil
import subprocess
import sys
import tempfile
from contextlib import redirect_stderr, redirect_stdout

import apel
import common
from common import tb, tt, tlist

PELTOOL = os.path.join(common.MODULES, 'pel', 'peltool', 'peltool.py')


def make_dir(files, subdirs=None, base=None):
    """files: [(name, bytes)], subdirs: {name: [(name, bytes)] | nested dict}"""
    path = tempfile.mkdtemp(prefix='pelcli_', dir=base)
    for name, data in files:
        with open(os.path.join(path, name), 'wb') as f:
            f.write(data)

    def mk(parent, tree):
        for name, content in tree.items():
            p = os.path.join(parent, name)
            os.makedirs(p)
            if isinstance(content, dict):
                mk(p, content)
            else:
                for n, d in content:
                    with open(os.path.join(p, n), 'wb') as f:
                        f.write(d)
    mk(path, subdirs or {})
    return path


def walk_files(path):
    for _, _, files in os.walk(path):
        return list(files)
    return []


def snapshot(path):
    out = {}
    for root, dirs, files in os.walk(path):
        for d in dirs:
            out[os.path.relpath(os.path.join(root, d), path)] = ('dir',)
        for f in files:
            p = os.path.join(root, f)
            if os.path.islink(p) and not os.path.exists(p):
                out[os.path.relpath(p, path)] = ('dangling link', os.readlink(p))      # (a symbolic link whose target is there counts as the file it shows)
                continue
            out[os.path.relpath(p, path)] = ('file', hashlib.sha1(open(p, 'rb').read()).hexdigest())
    return out


def run_main(argv):
    """in-process `peltool.py <argv>`: (stdout, stderr, exit status)"""
    from pel.peltool import peltool
    out, err = io.StringIO(), io.StringIO()
    old = sys.argv
    sys.argv = ['peltool.py'] + list(argv)
    code = 0
    try:
        with redirect_stdout(out), redirect_stderr(err):
            try:
                with common.deadline(6 * common.call_limit()):
                    peltool.main()
            except SystemExit as e:
                if e.code is None:
                    code = 0
                elif isinstance(e.code, int):
                    code = e.code
                else:
                    err.write(str(e.code) + '\n')
                    code = 1
            except common.Hang as e:
                err.write('HANG: %s\n' % e)
                code = -999
            except BaseException:  # noqa  -- what the interpreter does with an uncaught exception: traceback on stderr, status 1
                import traceback
                err.write(traceback.format_exc())
                code = 1
    finally:
        sys.argv = old
    return out.getvalue(), err.getvalue(), code


def run_sub(argv, optimise=False, stdin=None, stdout=None, env_extra=None):
    cmd = [common.PY] + (['-O'] if optimise else []) + ['-W', 'ignore', PELTOOL] + list(argv)
    try:
        p = subprocess.run(cmd, stdout=stdout or subprocess.PIPE, stderr=subprocess.PIPE, env=dict(common.child_env(), **(env_extra or {})), timeout=120)
    except subprocess.TimeoutExpired as e:
        return (e.stdout or b'').decode(errors='replace'), 'HANG: no exit within 120 s\n' + (e.stderr or b'').decode(errors='replace'), -999
    return (p.stdout.decode(errors='replace') if p.stdout is not None else ''), p.stderr.decode(errors='replace'), p.returncode


def cfg_argv(cfg):
    a = []
    for k, flag in (('every', '-E'), ('term', '-t'), ('s', '-s'), ('N', '-N'), ('H', '-H'), ('only', '-O')):
        if cfg.get(k):
            a.append(flag)
    names = {0: 'Informational', 1: 'Recovered', 2: 'Predictive', 4: 'Unrecoverable', 5: 'Critical', 6: 'Diagnostic', 7: 'Symptom'}
    if cfg.get('sevs'):
        a += ['-S'] + [names[g] for g in cfg['sevs']]
    return a


def model_req(mode, files, cfg=None, hex_=False, rev=False, ext=None, arg='', flag=False):
    cfg = dict(cfg or {})
    cfg.setdefault('every', 0)
    return 'cli %s %s %d %d %s %s %d %s' % (mode, apel.tok_cfg(cfg), int(hex_), int(rev), ('1 ' + tt(ext)) if ext is not None else '0',
                                           tt(arg), int(flag), tlist(files, lambda f: tt(f[0]) + ' ' + tb(f[1])))


def diag_lines(stderr):
    return sum(1 for l in stderr.split('\n') if l.startswith('Exception:') or l.startswith('No PEL parsed'))


def gen_name(rng, used, eid=None):
    exts = ['', '.pel', '.txt', '.PEL', '.pel.bak', '.', '.p']
    while True:
        stem = rng.choice(['', 'pel', 'PEL', 'log', 'a', 'Z', '2024', '.hidden', 'x.y']) + ''.join(rng.choice('abcXYZ0123_-') for _ in range(rng.randrange(0, 6)))
        if eid is not None and rng.random() < 0.8:
            stem += '_%08X' % eid
        name = stem + rng.choice(exts)
        if name and name not in used and name not in ('.', '..'):
            used.add(name)
            return name


def gen_wf_dir(rng, n, every_sev=False):
    """[(name, abstract pel)] with distinct entry ids; a primary SRC as third section most of the time"""
    used, out, eids = set(), [], set()
    for _ in range(n):
        p = apel.gen_pel(rng, max_sections=rng.choice([0, 1, 3]))
        while True:
            eid = rng.choice([rng.randrange(2 ** 32), rng.randrange(0x50000000, 0x50000100), rng.randrange(0, 0x2000), rng.randrange(0, 0x11), 0, 0xFFFFFFFF])
            if eid not in eids:
                eids.add(eid)
                break
        p['ph']['eid'] = eid
        p['ph']['creator'] = rng.choice([ord('O'), ord('O'), ord('B'), ord('H'), ord('M')])
        if not every_sev:
            p['uh']['sev'] = rng.choice([0x00, 0x10, 0x20, 0x40, 0x51, 0x04, 0x61, 0x71, 0x4F])
            p['uh']['af'] = rng.choice([0xA000, 0x8000, 0x2000, 0x4000, 0x6000, 0xE000, 0x0000, 0xC000]) | rng.randrange(0x2000)
        secs = [s for s in p['sections'] if not (s['kind'] == 'src' and s['primary'])]
        if rng.random() < 0.8:
            src = {'kind': 'src', 'hdr': apel.gen_hdr(rng), 'primary': True, 'src': apel.gen_src(rng)}
            src['src']['callouts'] = None if rng.random() < 0.7 else src['src']['callouts']
            secs.insert(rng.choice([0, 0, 0, min(1, len(secs))]), src)
        p['sections'] = secs
        apel.fix_real_plugins(p)
        out.append((gen_name(rng, used, eid), p))
    return out


def keep_decodable(env, named_pels):
    """drop PELs outside the properties' domain (the spec renders no document: e.g. user data that is not UTF-8 / contains floats)"""
    from common import lean_batch
    if not named_pels:
        return []
    rep = lean_batch([env.tokens()] + ['pelspec %s %s x' % (apel.tok_cfg(), apel.tok_pel(p)) for _, p in named_pels])[1:]
    out = []
    for (n, p), r in zip(named_pels, rep):
        r.bytes()
        apel.dec_outcome(r)
        if apel.dec_spec(r)[0] == 'doc':
            out.append((n, p))
    return out
