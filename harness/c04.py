"""C04 — user data is rendered from its content or preserved byte-for-byte as a hex dump."""
import json

import apel
import common
from c01 import compare, first_diff
from common import Check, lean_batch, tb

TRUSTED = ['Lean 4.33.0 kernel (+ leanchecker in the thorough tier)',
           'axioms: propext, Classical.choice, Quot.sound only (audited per theorem)',
           'harness/c04.py + apel.py (generators, fixture parser modules, comparison), Drv.lean protocol parsing',
           'compiled driver peldrv agrees with the kernel reading of the same definitions']
ASSUME = ['json.loads on user JSON is modelled for RFC 8259 without floats; payloads with floats are counted and skipped',
          'importlib is modelled as an environment: module name -> behaviour; fixture modules realise the behaviours on the real side']
RULE = ('cases = PELs whose optional sections are user-data / extended-user-data / unrecognised sections, over creator ids x component ids '
        '(built-in 0x2000, fixture modules behaving echo/raise/None/invalid-text/failing-while-being-imported, absent) x subtypes x plugins on/off x payloads '
        '(JSON documents, text lines, random bytes, boundary lengths); non-trivial = at least one UD/ED section; distinct by bytes')
FIX = {'x1111': ('echo',), 'x2222': ('raises', 'boom: "q" {x}'), 'x3333': ('none',), 'x4444': ('text', 'not json at all'),
       'x5555': ('text', '[1, 2, {"a": null}]'), 'x6666': ('text', '{"Section Version": "overwritten", "New": [1]}'), 'o1111': ('echo',), 'b2222': ('raises', 'err'),
       'x8888': ('import_raises', 'cannot load: "f" {z}'), 'x5a5a': ('raises', ''), 'x7e7e': ('text', '{"n\u00e9": ["caf\u00e9 \U0001F600", "\u20ac"]}'), 'x6b6b': ('release_raises', 'done with the view'), 'x6c6c': ('release_none',), 'o8888': ('import_raises', 'no data file')}


def sec_entries(doc):
    return doc[1] if isinstance(doc, tuple) else []


def run(tier, seed):
    ck = Check('C04', tier, seed)
    ck.proof = common.build_and_audit('C04', thorough=(tier == 'thorough'))
    if not ck.proof['driver_ok']:
        return ck.finish(RULE, TRUSTED, ASSUME)
    from pel import hexdump as hd
    rng = ck.rng
    thorough = tier == 'thorough'
    for allow in (True, False):
        env = apel.PluginEnv(allow=allow, ud=FIX).install()
        try:
            pels = []
            for _ in range((800 if thorough else 160)):
                p = apel.gen_pel(rng, max_sections=0)
                p['ph']['creator'] = rng.choice([ord('O'), ord('O'), ord('x'), ord('x'), ord('B'), ord('H'), ord('Z'), ord('o'), ord('b')])
                secs = []
                for _ in range(rng.choice([1, 2, 3, 6])):
                    kind = rng.choice(['ud', 'ud', 'ed', 'other'])
                    sec = {'kind': kind, 'hdr': apel.gen_hdr(rng), 'payload': apel.gen_payload(rng)}
                    sec['hdr']['comp'] = rng.choice([0x2000, 0x2000, 0x1111, 0x2222, 0x3333, 0x4444, 0x5555, 0x6666, 0x7777, 0x8888, 0x8888, 0x5A5A, 0x6B6B, 0x6C6C, rng.randrange(65536)])
                    sec['hdr']['sub'] = rng.choice([1, 1, 3, 3, 2, 4, 0, 0x48, rng.randrange(256)])
                    if kind != 'other' and rng.random() < 0.45:
                        sec['hdr']['comp'] = 0x2000
                        sec['hdr']['sub'] = rng.choice([1, 1, 3, 3, 2])
                        if kind == 'ud':
                            p['ph']['creator'] = rng.choice([ord('O'), ord('O'), ord('O'), ord('o')])
                    if kind == 'ed':
                        sec.update(creator=rng.choice([ord('O')] * 5 + [ord('x'), ord('b'), ord('o'), ord('o'), ord('B'), 0x80, 0]), resv1=rng.randrange(256), resv2=rng.randrange(65536))
                    if sec['hdr']['comp'] == 0x2000 and sec['hdr']['sub'] in (1, 3) and rng.random() < 0.85:
                        sec['payload'] = apel.gen_payload(rng, 'json' if sec['hdr']['sub'] == 1 else 'text')
                    if kind == 'other':
                        sec['id'] = rng.choice([0x4448, 0x5357, 0x5A5A, 0x0000, 0xFFFF, 0x4549])
                    secs.append(sec)
                p['sections'] = secs
                apel.fix_real_plugins(p)
                pels.append(p)
            # designed: payloads of equal length and equal CRC-32 (different bytes) in sections without decoder and in sections of the echoing module
            for n_ in (64, 700):
                a_, b_ = apel.crc_twins(rng, n_)
                p = apel.gen_pel(rng, max_sections=0)
                p['ph']['creator'] = ord('x')
                p['sections'] = [{'kind': 'ud', 'hdr': dict(apel.gen_hdr(rng), comp=c_, sub=7, ver=1), 'payload': x_} for c_ in (0x7777, 0x1111) for x_ in (a_, b_)]
                pels.append(p)
            # designed: built-in JSON / text user data with non-ASCII characters (two-byte, three-byte, astral), always taken through the command-line routes
            designed = set()
            for js, txt in ((b'{"k\xc3\xa9": "v \xe2\x82\xac \xf0\x9f\x98\x80", "l": ["\xc3\xbc"]}', b'na\xc3\xafve caf\xc3\xa9\nsecond \xe2\x82\xac line'), (b'["\xc2\xb0C", {"m\xce\xa9": 1}]', b'\xc2\xb0C')):
                p = apel.gen_pel(rng, max_sections=0)
                p['ph']['creator'] = ord('O')
                p['sections'] = [{'kind': 'ud', 'hdr': dict(apel.gen_hdr(rng), comp=0x2000, sub=1), 'payload': js},
                                 {'kind': 'ed', 'hdr': dict(apel.gen_hdr(rng), comp=0x2000, sub=3), 'payload': txt, 'creator': ord('O'), 'resv1': 0, 'resv2': 0}]
                pels.append(p)
                designed.add(id(p))
            if allow:
                # designed: one log whose sections go to parser modules that raise, return nothing, cannot be loaded, and one that answers in non-ASCII text
                p = apel.gen_pel(rng, max_sections=0)
                p['ph']['creator'] = ord('x')
                p['sections'] = [{'kind': 'ud', 'hdr': dict(apel.gen_hdr(rng), comp=c_, sub=7), 'payload': b'payload %04x' % c_} for c_ in (0x3333, 0x2222, 0x8888, 0x7E7E, 0x1111)] + \
                                [{'kind': 'ed', 'hdr': dict(apel.gen_hdr(rng), comp=0x3333, sub=9), 'payload': b'ed payload', 'creator': ord('x'), 'resv1': 0, 'resv2': 0}]
                pels.append(p)
                designed.add(id(p))
            replies = lean_batch([env.tokens()] + ['pelspec %s %s x' % (apel.tok_cfg(), apel.tok_pel(p)) for p in pels])[1:]
            for p, r in zip(pels, replies):
                data = r.bytes()
                model = apel.dec_outcome(r)
                spec = apel.dec_spec(r)
                real = apel.real_decode(data, allow_plugins=allow)
                ck.case(key=data, sample={'plugins': allow, 'creator': chr(p['ph']['creator']),
                                          'sections': [(s['kind'], hex(s['hdr']['comp']), s['hdr']['sub'], len(s['payload'])) for s in p['sections']]})
                ck.count('plugins=%s outcome=%s' % (allow, real[0]))
                def _mod(sec):
                    cr = chr(sec.get('creator', p['ph']['creator'])).lower() if sec['kind'] == 'ed' else chr(p['ph']['creator']).lower()
                    return cr + '%04x' % sec['hdr']['comp']
                compare(ck, p, data, real, model, spec, label='ud', allow_plugins=allow, extra={'force_routes': id(p) in designed}, env_kwargs=dict(allow=allow, ud=FIX),
                        fixture_free=(not allow) or all(_mod(s) not in FIX for s in p['sections'] if s['kind'] in ('ud', 'ed')))
                if real[0] != 'doc':
                    continue
                # direct oracle: fallbacks carry a lossless dump; built-in formats show their content
                entries = sec_entries(real[2])[2:]
                for sec, (name, val) in zip(p['sections'], entries):
                    members = dict(val[1])
                    creator = chr(sec['creator']) if sec['kind'] == 'ed' else chr(p['ph']['creator'])
                    mod = (creator.lower() + '%04x' % sec['hdr']['comp'])
                    builtin = sec['kind'] != 'other' and creator == 'O' and sec['hdr']['comp'] == 0x2000
                    rp = {'op': 'user-data', 'plugins': allow, 'section': {k: (v.hex() if isinstance(v, bytes) else v) for k, v in sec.items()}, 'creator': creator,
                          'displayed': json.dumps(val)[:600], 'data_hex': data.hex()}
                    if builtin and sec['hdr']['sub'] == 1:
                        try:
                            doc = json.loads(sec['payload'].decode().strip().rstrip('\0'))
                        except Exception:
                            continue
                        if apelfloat(doc):
                            continue
                        if isinstance(doc, dict):
                            if any(members.get(k) != canon(v) for k, v in doc.items()):
                                ck.fail('built-in JSON user data is not shown as that JSON value', rp, 'builtin_json')
                        elif members.get('Data') != canon(doc):
                            ck.fail('built-in JSON user data is not shown as that JSON value', rp, 'builtin_json')
                        ck.count('oracle builtin json')
                    elif builtin and sec['hdr']['sub'] == 3:
                        try:
                            text = sec['payload'].decode().strip().rstrip('\0')
                        except UnicodeDecodeError:
                            continue        # not text: outside the clause (the unchanged code rejects such a PEL)
                        exp = [''.join(c if ' ' <= c <= '~' else '.' for c in ln) for ln in text.split('\n')]
                        if exp and exp[-1] == '':
                            exp.pop()
                        if members.get('Data') != exp:
                            ck.fail('built-in text user data is not shown as its lines', rp | {'expected': exp[:5]}, 'builtin_text')
                        ck.count('oracle builtin text')
                    else:
                        beh = FIX.get(mod) if (allow and sec['kind'] != 'other' and not builtin) else None
                        if beh and beh[0] in ('echo', 'text'):
                            ck.count('oracle decoded by module')
                            continue
                        dump = members.get('Data')
                        ok = isinstance(dump, list) and all(isinstance(x, str) for x in dump) and bytes(hd.parse(dump)) == sec['payload']
                        if not ok:
                            ck.fail('a section without a decoder does not carry a lossless hex dump of its payload', rp, 'fallback_dump')
                        if beh and beh[0] in ('raises', 'none', 'import_raises', 'release_raises', 'release_none') and 'Error' not in members:
                            ck.fail('parser failure is not noted in the section', rp, 'error_note')
                        ck.count('oracle fallback dump')
        finally:
            env.uninstall()
    return ck.finish(RULE, TRUSTED, ASSUME)


def canon(v):
    import jsonio
    return jsonio.canon(v)


def apelfloat(v):
    if isinstance(v, float):
        return True
    if isinstance(v, dict):
        return any(apelfloat(x) for x in v.values())
    if isinstance(v, list):
        return any(apelfloat(x) for x in v)
    return False


def replay(path):
    rp = json.load(open(path))
    print(json.dumps(rp, indent=1)[:3000])
    return 0
