"""C01 — every PEL section is decoded once, in order, from exactly its own bytes."""
import json

import apel
import common
from common import Check, lean_batch, tb

TRUSTED = ['Lean 4.33.0 kernel (+ leanchecker in the thorough tier)',
           'axioms: propext, Classical.choice, Quot.sound only (audited per theorem)',
           'harness/extract.py (pins and the live name tables compiled into the driver), harness/c01.py + apel.py (generator, '
           'independent byte encoder, comparison), Drv.lean protocol parsing',
           'compiled driver peldrv agrees with the kernel reading of the same definitions']
ASSUME = ['CPython primitives (int.from_bytes, bytes.decode, str.format, OrderedDict, json) are modelled, not verified',
          'the message registry is empty in these cases (no pel_registry package in the sandbox); "Error Details" is modelled and exercised with generated registries by C03',
          'shipped parser plugins m2c00 / oe500 are steered clear of here (C18 / C20 cover them)']
RULE = ('cases = abstract PELs (PH, UH, 0..40 optional sections of all nine constructors, the nine hexdump-only named ids and random '
        'unknown ids; boundary-biased field values and payload lengths) encoded by the Lean `enc` (cross-checked against an independent '
        'Python encoder), decoded by the real parsePEL, by the model and rendered by the spec; non-trivial = at least one optional '
        'section; distinct by bytes')


def compare(ck, p, data, real, model, spec, cfg_every=True, label='pel', extra=None):
    rp = {'op': 'parsePEL', 'pel': apel.describe(p) if p else None, 'data_hex': data.hex(), 'extra': extra}
    if apel.TOUCHED_SHIPPED[0]:
        # the input reached udparsers.oe500 / udparsers.m2c00 / srcparsers.oe500, which this check's environment (and hence the
        # model's answer) does not contain: those modules have their own models and checks (C18, C20)
        ck.skip('input reaches a shipped parser module (covered by C18 / C20)')
        return
    if real[0] == 'invalid-json':
        ck.fail('the text produced for the PEL is not valid JSON: ' + real[2], rp | {'text_head': real[4][:300]}, label + '_invalid_json')
        return
    # ---- property on the real code (only meaningful when the spec renders a document)
    if spec is not None and spec[0] == 'doc':
        if real[0] != 'doc':
            ck.fail('a well-formed PEL is not decoded', rp | {'actual': real[:3]}, label + '_rejected')
        elif real[2] != spec[1]:
            ck.fail('decoded document differs from what the property prescribes', rp | {'difference': first_diff(real[2], spec[1])}, label + '_doc')
    # ---- correspondence
    if real[:2] == ('error', 'Hang'):
        # the model is total (it always answers); a call of the real decoder that does not return is never in agreement
        ck.disagree('the real decoder did not terminate (%s); the model answers %s' % (real[2], model[0]), rp | {'impl': real[:3], 'model': model[:2]})
        return
    if model[0] == 'unsupported':
        ck.skip('model: unsupported (float in user JSON, or a registry construct outside the modelled subset)')
        return
    if model[0] != real[0]:
        ck.disagree('outcome class differs from model', rp | {'impl': real[:3], 'model': model[:2]})
    elif model[0] == 'doc' and (model[1] != real[1] or model[2] != real[2]):
        ck.disagree('document differs from model', rp | {'difference': first_diff(real[2], model[2]), 'eid': (real[1], model[1])})


def first_diff(a, b, path=''):
    if type(a) != type(b):
        return '%s: %r vs %r' % (path, a, b)
    if isinstance(a, tuple) and a and a[0] == 'obj':
        ka, kb = [k for k, _ in a[1]], [k for k, _ in b[1]]
        if ka != kb:
            return '%s: keys %r vs %r' % (path, ka[:12], kb[:12])
        for (k, x), (_, y) in zip(a[1], b[1]):
            d = first_diff(x, y, path + '/' + k)
            if d:
                return d
        return None
    if isinstance(a, list):
        if len(a) != len(b):
            return '%s: list length %d vs %d' % (path, len(a), len(b))
        for i, (x, y) in enumerate(zip(a, b)):
            d = first_diff(x, y, '%s[%d]' % (path, i))
            if d:
                return d
        return None
    return None if a == b else '%s: %r vs %r' % (path, a, b)


def run(tier, seed):
    ck = Check('C01', tier, seed)
    ck.proof = common.build_and_audit('C01', thorough=(tier == 'thorough'))
    if not ck.proof['driver_ok']:
        return ck.finish(RULE, TRUSTED, ASSUME)
    rng = ck.rng
    thorough = tier == 'thorough'
    env = apel.PluginEnv(allow=True).install()
    try:
        pels = []
        for _ in range(1500 if thorough else 300):
            pels.append(apel.gen_pel(rng, max_sections=rng.choice([6, 12, 40])))
        if thorough:
            pels.append(apel.gen_pel(rng, max_sections=253))
        reqs = [env.tokens()] + ['pelspec %s %s x' % (apel.tok_cfg(), apel.tok_pel(p)) for p in pels]
        replies = lean_batch(reqs)[1:]
        pairs = set()
        for p, r in zip(pels, replies):
            data = r.bytes()
            model = apel.dec_outcome(r)
            spec = apel.dec_spec(r)
            if apel.enc_pel(p) != data:
                ck.disagree('Lean enc and the independent Python encoder disagree', {'pel': apel.describe(p), 'lean': data.hex()[:200], 'python': apel.enc_pel(p).hex()[:200]})
            real = apel.real_decode(data)
            kinds = [s['kind'] for s in p['sections']]
            pairs.update(zip(kinds, kinds[1:]))
            ck.case(key=data if p['sections'] else None, sample=apel.describe(p))
            ck.count('sections=%s' % ('0' if not kinds else '1-5' if len(kinds) <= 5 else '6+'))
            for k in set(kinds):
                ck.count('kind ' + k)
            compare(ck, p, data, real, model, spec)
        ck.dist['adjacent kind pairs covered'] = len(pairs)
    finally:
        env.uninstall()
    return ck.finish(RULE, TRUSTED, ASSUME)


def replay(path):
    rp = json.load(open(path))
    print(json.dumps(rp, indent=1)[:3000])
    if rp.get('data_hex'):
        env = apel.PluginEnv(allow=True).install()
        try:
            real = apel.real_decode(bytes.fromhex(rp['data_hex']))
            print('real decoder now:', real[0], str(real[1:3])[:400])
        finally:
            env.uninstall()
    return 0
