"""C01 — every PEL section is decoded once, in order, from exactly its own bytes."""
import json

import apel
import common
from common import Check, lean_batch, tb

TRUSTED = ['Lean 4.33.0 kernel (+ leanchecker in the thorough tier)',
           'axioms: propext, Classical.choice, Quot.sound only (audited per theorem)',
           'harness/extract.py (pins and the live name tables compiled into the driver), harness/c01.py + apel.py (generator, '
           'independent byte encoder, comparison), Drv.lean protocol parsing',
           'compiled driver peldrv agrees with the kernel reading of the same definitions']
ASSUME = ['CPython primitives (int.from_bytes, bytes.decode, str.format, OrderedDict, json) are modelled, not verified',
          'the message registry is empty in these cases (no pel_registry package in the sandbox); "Error Details" is modelled and exercised with generated registries by C03',
          'shipped parser plugins m2c00 / oe500 are steered clear of here (C18 / C20 cover them)']
RULE = ('cases = abstract PELs (PH, UH, 0..40 optional sections of all nine constructors, the nine hexdump-only named ids and random '
        'unknown ids; boundary-biased field values and payload lengths) encoded by the Lean `enc` (cross-checked against an independent '
        'Python encoder), decoded by the real parsePEL, by the model and rendered by the spec; non-trivial = at least one optional '
        'section; distinct by bytes')


FAIL_UD = {'x5a5a': ('raises', ''), 'x6b6b': ('release_raises', 'done with the view'), 'x6c6c': ('release_none',), 'x1111': ('echo',), 'x2222': ('raises', 'boom'), 'x3333': ('none',), 'x8888': ('import_raises', 'load failure'),
           'y2222': ('raises_import', 'No module named frobnicate'), 'y3333': ('none',)}


FAIL_ENV = dict(allow=True, ud=FAIL_UD, src={'xsrc': ('raises',), 'ysrc': ('echo',)}, callout={'x': ('raises',)})


def compare(ck, p, data, real, model, spec, cfg_every=True, label='pel', extra=None, allow_plugins=True, fixture_free=False, env_kwargs=None):
    """env_kwargs: the PluginEnv keyword arguments of the environment the case lives in (then separate interpreters get the same fixture modules)"""
    rp = {'op': 'parsePEL', 'pel': apel.describe(p) if p else None, 'data_hex': data.hex(), 'extra': extra}
    if apel.TOUCHED_SHIPPED[0]:
        # the input reached udparsers.oe500 / udparsers.m2c00 / srcparsers.oe500, which this check's environment (and hence the
        # model's answer) does not contain: those modules have their own models and checks (C18, C20)
        ck.skip('input reaches a shipped parser module (covered by C18 / C20)')
        return
    if real[0] == 'invalid-json':
        ck.fail('the text produced for the PEL is not valid JSON: ' + real[2], rp | {'text_head': real[4][:300]}, label + '_invalid_json')
        return
    # ---- property on the real code (only meaningful when the spec renders a document)
    if spec is not None and spec[0] == 'doc':
        if real[0] != 'doc':
            ck.fail('a well-formed PEL is not decoded', rp | {'actual': real[:3]}, label + '_rejected')
        elif real[2] != spec[1]:
            ck.fail('decoded document differs from what the property prescribes', rp | {'difference': first_diff(real[2], spec[1])}, label + '_doc')
        elif route_sample(ck, data, force=bool((extra or {}).get('force_routes'))):
            # the same document through the COMMAND LINE, by every route that shows one PEL: -f, -a, -j into an empty directory, and -j again
            # after the file was replaced in place by this PEL (same name, same entry id, older time stamp)
            nk = 'cases of %s taken through separate interpreters' % label
            sub_ok = (fixture_free or env_kwargs is not None) and (ck.dist.get(nk, 0) < 8 or bool((extra or {}).get('force_routes')))
            if sub_ok:
                ck.dist[nk] = ck.dist.get(nk, 0) + 1
            for route, got in cli_routes(data, allow_plugins=allow_plugins, subprocess_too=sub_ok, env_kwargs=env_kwargs):
                ck.count('command-line route %s' % route)
                if got != spec[1]:
                    why = got if isinstance(got, str) else first_diff(got, spec[1])
                    ck.fail('the document shown through the command line (%s) differs from what the property prescribes' % route,
                            rp | {'route': route, 'difference': str(why)[:300]}, label + '_route_' + route.split()[0])
                    break
    # ---- correspondence
    if real[:2] == ('error', 'Hang'):
        # the model is total (it always answers); a call of the real decoder that does not return is never in agreement
        ck.disagree('the real decoder did not terminate (%s); the model answers %s' % (real[2], model[0]), rp | {'impl': real[:3], 'model': model[:2]})
        return
    if model[0] == 'unsupported':
        ck.skip('model: unsupported (float in user JSON, or a registry construct outside the modelled subset)')
        return
    if model[0] != real[0]:
        ck.disagree('outcome class differs from model', rp | {'impl': real[:3], 'model': model[:2]})
    elif model[0] == 'doc' and (model[1] != real[1] or model[2] != real[2]):
        ck.disagree('document differs from model', rp | {'difference': first_diff(real[2], model[2]), 'eid': (real[1], model[1])})


def route_sample(ck, data, force=False):
    """a deterministic sample of the cases of a run (about one in fifteen, at most 40)"""
    import hashlib
    n = ck.dist.get('cases taken through the command line', 0)
    if not force and (n >= 40 or hashlib.sha1(data).digest()[0] % 15 != 0):
        return False
    ck.dist['cases taken through the command line'] = n + 1
    return True


def cli_routes(data, allow_plugins=True, subprocess_too=False, env_kwargs=None):
    """[(route, canonical document | text describing what went wrong)] for one PEL file"""
    import glob
    import os
    import shutil
    import tempfile
    import clirun
    import jsonio
    import pelbuild
    P = [] if allow_plugins else ['-P']
    tmp = tempfile.mkdtemp(prefix='routes_')
    out = []

    def doc_of(text, pick=None):
        try:
            v = json.loads(text, object_pairs_hook=jsonio.pairs_hook)
            if pick is not None:
                if not isinstance(v, list) or len(v) != 1:
                    return 'not a list of one document: %r' % (text[:120],)
                v = v[0]
            return jsonio.canon(v)
        except ValueError as e:
            return 'not JSON (%s): %r' % (e, text[:120])
    try:
        d = os.path.join(tmp, 'pels')
        os.makedirs(d)
        f = os.path.join(d, 'one_pel')
        open(f, 'wb').write(data)
        so, se, sx = clirun.run_main(['-f', f, '-E'] + P)
        out.append(('-f', doc_of(so) if sx == 0 else 'exit %d: %s' % (sx, se[-200:])))
        if subprocess_too:
            # a separate interpreter (none of this run's fixture modules there) whose stdout takes ASCII only
            if env_kwargs is not None:
                import apel
                so, se, sx = apel.fresh_cli(env_kwargs, ['-f', f, '-E'] + P, env_extra={'PYTHONIOENCODING': 'ascii'})
            else:
                so, se, sx = clirun.run_sub(['-f', f, '-E'] + P, env_extra={'PYTHONIOENCODING': 'ascii'})
            out.append(('-f with a stdout that takes ASCII only', doc_of(so) if sx == 0 else 'exit %d: %s' % (sx, se[-200:])))
            # ... and with stdout on a TERMINAL of 80 columns (what an operator at a console sees is the same document)
            for envx, what in (({}, 'a terminal'), ({'CLICOLOR_FORCE': '1', 'TERM': 'xterm-256color'}, 'a terminal that asks for colour')):
                if env_kwargs is None:
                    so, sx = common.run_on_pty([common.PY, '-W', 'ignore', clirun.PELTOOL, '-f', f, '-E'] + P, env=dict(common.child_env(), **envx))
                else:
                    so, _, sx = apel.fresh_cli(env_kwargs, ['-f', f, '-E'] + P, env_extra=envx, on_pty=True)
                out.append(('-f with stdout on %s' % what, doc_of(so) if sx == 0 else 'exit %s' % sx))
            if env_kwargs is not None:
                so, se, sx = apel.fresh_cli(env_kwargs, ['-f', f, '-E'] + P, optimise=True)
            else:
                so, se, sx = clirun.run_sub(['-f', f, '-E'] + P, optimise=True)
            out.append(('-f under python -O', doc_of(so) if sx == 0 else 'exit %d: %s' % (sx, se[-200:])))
        so, se, sx = clirun.run_main(['-p', d, '-a', '-E'] + P)
        out.append(('-a', doc_of(so, pick=0) if sx == 0 else 'exit %d: %s' % (sx, se[-200:])))
        od = os.path.join(tmp, 'out')
        os.makedirs(od)
        so, se, sx = clirun.run_main(['-p', d, '-j', '-o', od, '-E'] + P)
        js = glob.glob(os.path.join(od, '*.json'))
        out.append(('-j', doc_of(open(js[0]).read()) if sx == 0 and len(js) == 1 else 'exit %d, %d files written: %s' % (sx, len(js), se[-200:])))
        # replaced in place: another PEL with the same entry id is converted first, then this one takes its place with an OLDER time stamp
        eid = int.from_bytes(data[44:48], 'big') if len(data) >= 48 else 0
        other = pelbuild.pel([pelbuild.UH(subsys=0x10, sev=0x20)], eid=eid, creator=data[24:25] or b'O')
        od2 = os.path.join(tmp, 'out2')
        os.makedirs(od2)
        open(f, 'wb').write(other)
        clirun.run_main(['-p', d, '-j', '-o', od2, '-E'] + P)
        open(f, 'wb').write(data)
        old = os.stat(f).st_mtime - 3600
        os.utime(f, (old, old))
        so, se, sx = clirun.run_main(['-p', d, '-j', '-o', od2, '-E'] + P)
        js = glob.glob(os.path.join(od2, '*.json'))
        out.append(('-j after the file was replaced in place', doc_of(open(js[0]).read()) if sx == 0 and len(js) == 1 else 'exit %d, %d files written: %s' % (sx, len(js), se[-200:])))
        # after PELs that cannot be decoded (user data in the JSON format that is not UTF-8; a reference code that is not text): what
        # failed before must not change what is shown for this one
        d3 = os.path.join(tmp, 'pels3')
        os.makedirs(d3)
        open(os.path.join(d3, '0_bad_ud'), 'wb').write(pelbuild.pel([pelbuild.UH(), pelbuild.UD(b'\xff\xfe{"a": 1}', sub=1)], eid=0x0BAD0001))
        open(os.path.join(d3, '00_bad_src'), 'wb').write(pelbuild.pel([pelbuild.UH(), pelbuild.SRC(asc=b'\xff\xfeBD8D1234')], eid=0x0BAD0002))
        open(os.path.join(d3, 'one_pel'), 'wb').write(data)
        so, se, sx = clirun.run_main(['-p', d3, '-a', '-E'] + P)
        out.append(('-a after PELs that cannot be decoded', doc_of(so, pick=0) if sx == 0 else 'exit %d: %s' % (sx, se[-200:])))
    finally:
        shutil.rmtree(tmp, ignore_errors=True)
    return out


def first_diff(a, b, path=''):
    if type(a) != type(b):
        return '%s: %r vs %r' % (path, a, b)
    if isinstance(a, tuple) and a and a[0] == 'obj':
        ka, kb = [k for k, _ in a[1]], [k for k, _ in b[1]]
        if ka != kb:
            return '%s: keys %r vs %r' % (path, ka[:12], kb[:12])
        for (k, x), (_, y) in zip(a[1], b[1]):
            d = first_diff(x, y, path + '/' + k)
            if d:
                return d
        return None
    if isinstance(a, list):
        if len(a) != len(b):
            return '%s: list length %d vs %d' % (path, len(a), len(b))
        for i, (x, y) in enumerate(zip(a, b)):
            d = first_diff(x, y, '%s[%d]' % (path, i))
            if d:
                return d
        return None
    return None if a == b else '%s: %r vs %r' % (path, a, b)


def run(tier, seed):
    ck = Check('C01', tier, seed)
    ck.proof = common.build_and_audit('C01', thorough=(tier == 'thorough'))
    if not ck.proof['driver_ok']:
        return ck.finish(RULE, TRUSTED, ASSUME)
    rng = ck.rng
    thorough = tier == 'thorough'
    env = apel.PluginEnv(allow=True).install()
    try:
        pels = []
        for _ in range(1500 if thorough else 300):
            pels.append(apel.gen_pel(rng, max_sections=rng.choice([6, 12, 40])))
        if thorough:
            pels.append(apel.gen_pel(rng, max_sections=253))
        # designed: two sections without decoder whose payloads have the same length and the same CRC-32 (and adler-free: different bytes), in one
        # log and in two logs decoded one after the other: each entry shows exactly its own bytes
        twins = set()
        for n_ in (600, 2048):
            a_, b_ = apel.crc_twins(rng, n_)
            p = apel.gen_pel(rng, max_sections=1)
            p['sections'] += [{'kind': 'other', 'hdr': apel.gen_hdr(rng), 'id': 0x5A5A, 'payload': a_}, {'kind': 'ud', 'hdr': dict(apel.gen_hdr(rng), comp=0x7777, sub=9), 'payload': b_},
                              {'kind': 'other', 'hdr': apel.gen_hdr(rng), 'id': 0x5A5A, 'payload': b_}]
            apel.fix_real_plugins(p)
            pels.append(p)
            for x_ in (a_, b_):
                q = apel.gen_pel(rng, max_sections=0)
                q['sections'] = [{'kind': 'ud', 'hdr': dict(apel.gen_hdr(rng), comp=0x7777, sub=9), 'payload': x_}]
                pels.append(q)
        # designed: a log file larger than 16 / 64 KiB (one large section in the middle), always taken through the command-line routes
        bigs = set()
        for size in (20000, 60000):
            p = apel.gen_pel(rng, max_sections=3)
            p['sections'].insert(len(p['sections']) // 2, {'kind': 'other', 'hdr': apel.gen_hdr(rng), 'id': 0x5A5A, 'payload': bytes(rng.randrange(256) for _ in range(size))})
            p['sections'].append(apel.gen_section(rng))
            apel.fix_real_plugins(p)
            pels.append(p)
            bigs.add(id(p))
        reqs = [env.tokens()] + ['pelspec %s %s x' % (apel.tok_cfg(), apel.tok_pel(p)) for p in pels]
        replies = lean_batch(reqs)[1:]
        pairs = set()
        for p, r in zip(pels, replies):
            data = r.bytes()
            model = apel.dec_outcome(r)
            spec = apel.dec_spec(r)
            if apel.enc_pel(p) != data:
                ck.disagree('Lean enc and the independent Python encoder disagree', {'pel': apel.describe(p), 'lean': data.hex()[:200], 'python': apel.enc_pel(p).hex()[:200]})
            real = apel.real_decode(data)
            kinds = [s['kind'] for s in p['sections']]
            pairs.update(zip(kinds, kinds[1:]))
            ck.case(key=data if p['sections'] else None, sample=apel.describe(p))
            ck.count('sections=%s' % ('0' if not kinds else '1-5' if len(kinds) <= 5 else '6+'))
            for k in set(kinds):
                ck.count('kind ' + k)
            compare(ck, p, data, real, model, spec, fixture_free=True, extra={'force_routes': id(p) in bigs})
        ck.dist['adjacent kind pairs covered'] = len(pairs)
    finally:
        env.uninstall()
    # ---- the same with parser modules that FAIL in every way (the call raises, returns nothing, the module cannot be loaded; an SRC parser
    # and a callout parser that raise): the failing section keeps its own bytes and whatever follows it is still decoded intact
    env = apel.PluginEnv(**FAIL_ENV).install()
    try:
        pels = []
        for _ in range(500 if thorough else 120):
            p = apel.gen_pel(rng, max_sections=rng.choice([3, 6, 12]))
            p['ph']['creator'] = ord(rng.choice('xxxy'))
            for sec in p['sections']:
                if sec['kind'] in ('ud', 'ed') and rng.random() < 0.8:
                    sec['hdr']['comp'] = rng.choice([0x1111, 0x2222, 0x2222, 0x3333, 0x3333, 0x8888, 0x9999, 0x5A5A, 0x6B6B, 0x6C6C])
                    if sec['kind'] == 'ed':
                        sec['creator'] = ord('x')
            # a failing section is never the last one
            p['sections'].append({'kind': rng.choice(['ud', 'ed']), 'hdr': dict(apel.gen_hdr(rng), comp=rng.choice([0x2222, 0x3333])), 'payload': apel.gen_payload(rng)[:60] or b'p',
                                  'creator': ord('x'), 'resv1': 0, 'resv2': 0})
            p['sections'].append(apel.gen_section(rng))
            apel.fix_real_plugins(p)
            pels.append(p)
        replies = lean_batch([env.tokens()] + ['pelspec %s %s x' % (apel.tok_cfg(), apel.tok_pel(p)) for p in pels])[1:]
        for p, r in zip(pels, replies):
            data = r.bytes()
            real = apel.real_decode(data)
            ck.case(key=('failing-parsers', data), sample=None)
            ck.count('failing parser modules: %s' % real[0])
            compare(ck, p, data, real, apel.dec_outcome(r), apel.dec_spec(r), label='pel_failing_parser', env_kwargs=FAIL_ENV)
    finally:
        env.uninstall()
    return ck.finish(RULE, TRUSTED, ASSUME)


def replay(path):
    rp = json.load(open(path))
    print(json.dumps(rp, indent=1)[:3000])
    if rp.get('data_hex'):
        env = apel.PluginEnv(allow=True).install()
        try:
            real = apel.real_decode(bytes.fromhex(rp['data_hex']))
            print('real decoder now:', real[0], str(real[1:3])[:400])
        finally:
            env.uninstall()
    return 0
